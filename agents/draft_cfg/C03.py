from cfg.common import FLOAT_ASSUMPTION, NOTE_COMMON

PROP = {
    'blocks': ['train'],
    'proof_modules': ['C03'],
    'namespaces': ['Altrios.Proofs.C03'],
    'required_theorems': [],
    'nontrivial_stats': ['train.sl.step_ok'],
    'rule': 'each evaluation is one real speed-limited step (whole solve_step, solve_required_pwr, calc_speeds, friction brake) '
            'on generated routes (grades to 1.2 %, restriction patterns incl. short faster windows), path supplied whole, link by '
            'link, or extended DURING the walk; non-trivial = every accepted step',
    'level': 'proof',
    'assumptions': [FLOAT_ASSUMPTION,
                    'PARTIAL: the closed-loop claim (no overspeed / no panic / termination for all tracks) is searched by the '
                    'oracle, not proved; proved are the ingredients listed in the level text',
                    'sqrt is a parameter of the model (Float.sqrt in the driver; correctly rounded on both sides)'],
}

TEXT = {
    'design_ref': '§7.12',
    'note': NOTE_COMMON + ' The composition of the proved ingredients into the closed-loop statement is validated per run only.',
    'technique': 'Lean 4 proof of the controller ingredients (partial) + bit-exact correspondence + oracle search on whole runs',
    'text': 'TEXT_TBD',
}
