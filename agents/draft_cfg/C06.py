from cfg.common import FLOAT_ASSUMPTION, NOTE_COMMON

PROP = {
    'blocks': ['train'],
    'proof_modules': ['C06'],
    'namespaces': ['Altrios.Proofs.C06'],
    'required_theorems': [],
    'nontrivial_stats': ['train.path.n_links.', 'train.path.bad_route'],
    'rule': 'each evaluation is one real PathTpc::extend call (a random chunk of a random partition of a route through a '
            'generated valid network with 2-6 elevation points, optional headings incl. wrap-around, catenary sections, '
            'speed sets) replayed through the Lean model; plus non-contiguous / fake-index routes; non-trivial = every path case',
    'assumptions': [FLOAT_ASSUMPTION,
                    'x % REV is modelled by fmodSmall, exact for the heading range Link::validate admits',
                    'links satisfy what Link::validate enforces (LinkOK): forced, see extend_one_elev_counterexample'],
}

TEXT = {
    'design_ref': '§7.4',
    'note': NOTE_COMMON,
    'technique': 'Lean 4 proof (fold invariants over the route, append law) + bit-exact differential correspondence',
    'text': 'TEXT_TBD',
}
