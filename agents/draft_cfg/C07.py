from cfg.common import FLOAT_ASSUMPTION, NOTE_COMMON

PROP = {
    'blocks': ['train'],
    'proof_modules': ['C07'],
    'namespaces': ['Altrios.Proofs.C07'],
    'required_theorems': [],
    'nontrivial_stats': ['train.ss.step_ok', 'train.sl.step_ok', 'op.calc_idx'],
    'rule': 'each evaluation is one real update_res call on a state reached by a set-speed or speed-limited run (front and rear '
            'in the same or different segments, trains shorter and longer than links), or one direct calc_idx call with hints '
            'below/at/above the true segment in all three directions; non-trivial = every accepted step / direct call',
    'assumptions': [FLOAT_ASSUMPTION,
                    'backward evaluation during braking-curve construction is covered by direct calc_idx ops (Bwd/Unk) and by the '
                    'theorems; BrakingPoints::recalc itself is exercised through whole runs'],
}

TEXT = {
    'design_ref': '§7.5',
    'note': NOTE_COMMON,
    'technique': 'Lean 4 proof (refinement of the cached-index search to the declarative segment lookup) + bit-exact correspondence',
    'text': 'TEXT_TBD',
}
