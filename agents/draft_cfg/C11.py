from cfg.common import FLOAT_ASSUMPTION, NOTE_COMMON

PROP = {
    'blocks': ['train'],
    'proof_modules': ['C11'],
    'namespaces': ['Altrios.Proofs.C11'],
    'required_theorems': [],
    'nontrivial_stats': ['train.ss.step_ok', 'train.sl.step_ok'],
    'rule': 'each evaluation is one whole real train-simulation step (ss_step / sl_step: train state + consist + every '
            'locomotive) or one of its parts, replayed through the composed Lean model; non-trivial = every accepted step',
    'assumptions': [FLOAT_ASSUMPTION,
                    'per-unit share bounds inherit the forced hypothesis of C10 (non-negative published limits)'],
}

TEXT = {
    'design_ref': '§7.9',
    'note': NOTE_COMMON,
    'technique': 'Lean 4 proof (composition of the C10/C01 theorems with the train step, induction over steps) + bit-exact correspondence',
    'text': 'TEXT_TBD',
}
