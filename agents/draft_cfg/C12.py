from cfg.common import FLOAT_ASSUMPTION, NOTE_COMMON

PROP = {
    'blocks': ['train'],
    'proof_modules': ['C12'],
    'namespaces': ['Altrios.Proofs.C12'],
    'required_theorems': [],
    'nontrivial_stats': ['train.ss.step_ok', 'train.sl.step_ok'],
    'rule': 'each evaluation is one real solve_step / solve_required_pwr / set_link_and_offset call of a set-speed or '
            'speed-limited run over routes with segments from a few metres to kilometres; non-trivial = every accepted step',
    'assumptions': [FLOAT_ASSUMPTION],
}

TEXT = {
    'design_ref': '§7.10',
    'note': NOTE_COMMON,
    'technique': 'Lean 4 proof (step equations, locate_spec, induction over the step list) + bit-exact correspondence',
    'text': 'TEXT_TBD',
}
