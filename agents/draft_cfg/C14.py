from cfg.common import FLOAT_ASSUMPTION, NOTE_COMMON

PROP = {
    'blocks': ['train'],
    'proof_modules': ['C14'],
    'namespaces': ['Altrios.Proofs.C14'],
    'required_theorems': [],
    'nontrivial_stats': ['train.ss.clipped', 'train.ss.unclipped'],
    'rule': 'each evaluation is one real SetSpeedTrainSim step (whole solve_step and its parts) on traces with irregular time '
            'stamps, stop-and-go and both clips saturated; non-trivial = accepted steps (clipped and unclipped counted separately)',
    'assumptions': [FLOAT_ASSUMPTION],
}

TEXT = {
    'design_ref': '§7.11',
    'note': NOTE_COMMON,
    'technique': 'Lean 4 proof (kinetic-energy identity, clamp algebra) + bit-exact correspondence',
    'text': 'TEXT_TBD',
}
