use altrios_core::meet_pass::dispatch::run_dispatch;
use altrios_core::meet_pass::est_times::{make_est_times, EstTimeNet};
use altrios_core::track::{Link, Network};
use altrios_core::train::{speed_limit_train_sim_fwd, speed_limit_train_sim_rev, SpeedLimitTrainSim};
use altrios_core::traits::*;
use altrios_core::uc;
fn taconite() -> Network {
    let path = std::path::Path::new(env!("CARGO_MANIFEST_DIR")).join("../../python/altrios/resources/networks/Taconite.yaml");
    Network::from_file(path).unwrap()
}
fn at(mut s: SpeedLimitTrainSim, t: f64, id: &str) -> SpeedLimitTrainSim { s.state.time = t * uc::S; s.train_id = id.into(); s }
#[test]
fn repro() {
    let network = taconite();
    let links: &[Link] = network.as_ref();
    let sims = vec![at(speed_limit_train_sim_fwd(), 3600.0, "T1fwd"), at(speed_limit_train_sim_rev(), 5400.0, "T2rev"), at(speed_limit_train_sim_rev(), 5400.0, "T3rev")];
    let ets: Vec<EstTimeNet> = sims.iter().map(|s| make_est_times(s.clone(), links).unwrap().0).collect();
    let plan = run_dispatch(links, &sims, ets, false, false).unwrap();
    assert_eq!(plan.len(), 3);
}
