//! Sweep of random 2..5-train schedules on the shipped Taconite network (public API only).
//!
//! Every schedule is dispatched inside `catch_unwind`; the outcome (Ok + plan fingerprint /
//! Err text / panic message) is written, one line per schedule, to the file named by the
//! environment variable `SWEEP_OUT` (default: `sweep_outcomes.txt` in the target tmp dir).
//! `SWEEP_N` sets the number of schedules (default 400), `SWEEP_SEED` the LCG seed.
//! The test itself fails only if some schedule panics with the
//! "was placed past the back of train" / "was placed prior to the front" occupancy assertions.
use altrios_core::meet_pass::dispatch::run_dispatch;
use altrios_core::meet_pass::est_times::{make_est_times, EstTimeNet};
use altrios_core::track::{Link, Network};
use altrios_core::train::{
    speed_limit_train_sim_fwd, speed_limit_train_sim_rev, SpeedLimitTrainSim,
};
use altrios_core::traits::*;
use altrios_core::uc;
use std::collections::HashMap;
use std::io::Write;
use std::sync::Mutex;

fn taconite() -> Network {
    let path = std::path::Path::new(env!("CARGO_MANIFEST_DIR"))
        .join("../../python/altrios/resources/networks/Taconite.yaml");
    Network::from_file(path).unwrap()
}

fn at(mut s: SpeedLimitTrainSim, t: f64, id: &str) -> SpeedLimitTrainSim {
    s.state.time = t * uc::S;
    s.train_id = id.into();
    s
}

struct Lcg(u64);
impl Lcg {
    fn next(&mut self) -> u64 {
        self.0 = self
            .0
            .wrapping_mul(6364136223846793005)
            .wrapping_add(1442695040888963407);
        self.0 >> 33
    }
    fn below(&mut self, n: u64) -> u64 {
        self.next() % n
    }
}

static LAST_PANIC: Mutex<String> = Mutex::new(String::new());

fn fnv(h: &mut u64, x: u64) {
    for b in x.to_le_bytes() {
        *h ^= b as u64;
        *h = h.wrapping_mul(0x100000001b3);
    }
}

#[test]
fn sweep() {
    let n_sched: usize = std::env::var("SWEEP_N")
        .ok()
        .and_then(|s| s.parse().ok())
        .unwrap_or(400);
    let seed: u64 = std::env::var("SWEEP_SEED")
        .ok()
        .and_then(|s| s.parse().ok())
        .unwrap_or(20260926);
    let out_path = std::env::var("SWEEP_OUT").unwrap_or_else(|_| {
        std::path::Path::new(env!("CARGO_TARGET_TMPDIR"))
            .join("sweep_outcomes.txt")
            .to_string_lossy()
            .into_owned()
    });

    let network = taconite();
    let links: &[Link] = network.as_ref();

    // est-time nets per (direction, departure slot); built exactly like the reproduction does
    let mut nets: HashMap<(u64, u64), (SpeedLimitTrainSim, EstTimeNet)> = HashMap::new();
    for dir in 0..2u64 {
        for k in 0..6u64 {
            let base = if dir == 0 {
                speed_limit_train_sim_fwd()
            } else {
                speed_limit_train_sim_rev()
            };
            let sim = at(base, 1800.0 * k as f64, "x");
            let net = make_est_times(sim.clone(), links).unwrap().0;
            nets.insert((dir, k), (sim, net));
        }
    }

    std::panic::set_hook(Box::new(|info| {
        let msg = if let Some(s) = info.payload().downcast_ref::<&str>() {
            s.to_string()
        } else if let Some(s) = info.payload().downcast_ref::<String>() {
            s.clone()
        } else {
            "<non-string panic>".to_string()
        };
        let loc = info
            .location()
            .map(|l| format!("{}:{}", l.file(), l.line()))
            .unwrap_or_default();
        *LAST_PANIC.lock().unwrap() = format!("{} @ {}", msg, loc);
    }));

    let mut out = std::fs::File::create(&out_path).unwrap();
    let mut rng = Lcg(seed);
    let (mut n_ok, mut n_err, mut n_panic, mut n_occ) = (0, 0, 0, 0);
    for i in 0..n_sched {
        let n_trains = 2 + rng.below(4);
        let mut desc = String::new();
        let mut sims = vec![];
        let mut ets = vec![];
        for t in 0..n_trains {
            let dir = rng.below(2);
            let k = rng.below(6);
            let (sim, net) = &nets[&(dir, k)];
            let mut sim = sim.clone();
            sim.train_id = format!("T{}{}", t + 1, if dir == 0 { "fwd" } else { "rev" });
            desc += &format!("{}{}@{} ", t + 1, if dir == 0 { "F" } else { "R" }, 1800 * k);
            sims.push(sim);
            ets.push(net.clone());
        }
        let res = std::panic::catch_unwind(std::panic::AssertUnwindSafe(|| {
            run_dispatch(links, &sims, ets, false, false)
        }));
        let outcome = match res {
            Ok(Ok(plan)) => {
                n_ok += 1;
                let mut h = 0xcbf29ce484222325u64;
                let mut n_nodes = 0usize;
                let mut t_last = vec![];
                for p in &plan {
                    fnv(&mut h, p.len() as u64);
                    n_nodes += p.len();
                    for lt in p {
                        fnv(&mut h, lt.link_idx.idx() as u64);
                        fnv(&mut h, lt.time.value.to_bits());
                    }
                    t_last.push(format!("{:.3}", p.last().map(|x| x.time.value).unwrap_or(0.0)));
                }
                format!("OK nodes={} last=[{}] fnv={:016x}", n_nodes, t_last.join(","), h)
            }
            Ok(Err(e)) => {
                n_err += 1;
                format!("ERR {}", format!("{:#}", e).replace('\n', " "))
            }
            Err(_) => {
                n_panic += 1;
                let msg = LAST_PANIC.lock().unwrap().replace('\n', " ");
                if msg.contains("was placed past the back of train")
                    || msg.contains("was placed prior to the front of the next train")
                {
                    n_occ += 1;
                }
                format!("PANIC {}", msg)
            }
        };
        writeln!(out, "{:04} | {}| {}", i, desc, outcome).unwrap();
    }
    let _ = std::panic::take_hook();
    writeln!(
        out,
        "# total={} ok={} err={} panic={} occupancy_assert={}",
        n_sched, n_ok, n_err, n_panic, n_occ
    )
    .unwrap();
    eprintln!(
        "sweep: total={} ok={} err={} panic={} occupancy_assert={} -> {}",
        n_sched, n_ok, n_err, n_panic, n_occ, out_path
    );
    assert_eq!(n_occ, 0, "occupancy assertion hit in {} schedules", n_occ);
}
