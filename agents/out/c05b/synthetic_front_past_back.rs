//! Smallest synthetic reproduction of the "front of train N was placed past the back of train M"
//! assertion: a one-directional line of four links plus one joining branch, two identical trains
//! that leave the same origin at the same time (public API only).
//!
//! ```text
//!   L1 ----> L2 ------------> L3 ------> L4 ---->
//!   (orig)                             /
//!                                L5 --'   (L4.idx_prev_alt = L5: a joining switch)
//! ```
//!
//! The leader runs to the arrive node of L3 (the link before the joining switch is a pause point
//! of `TrainDisp::advance`) and is fixed there with its tail a few hundred metres inside L2.
//! The follower is then advanced from the origin, enters L2 behind the leader and is placed at
//! `offset_free = offset(L2) + offset_back(leader)`; `update_occupancy` converts that back with
//! `offset_free - offset(L2)`, which is larger than `offset_back` by the rounding error of the sum for these lengths.
//! (L1 is needed so that offset(L2) != 0; L4/L5 only make the arrive node of L3 a pause point.)
use altrios_core::meet_pass::dispatch::run_dispatch;
use altrios_core::meet_pass::est_times::{make_est_times, EstTimeNet};
use altrios_core::track::{Elev, Link, LinkIdx, Location, SpeedLimit, SpeedSet};
use altrios_core::train::{speed_limit_train_sim_fwd, SpeedLimitTrainSim};
use altrios_core::uc;

fn flat_link(idx: u32, len: f64, prev: u32, next: u32) -> Link {
    Link {
        idx_curr: LinkIdx::new(idx),
        idx_prev: LinkIdx::new(prev),
        idx_next: LinkIdx::new(next),
        length: uc::M * len,
        elevs: vec![
            Elev {
                offset: uc::M * 0.0,
                elev: uc::M * 100.0,
            },
            Elev {
                offset: uc::M * len,
                elev: uc::M * 100.0,
            },
        ],
        speed_set: Some(SpeedSet {
            speed_limits: vec![SpeedLimit {
                offset_start: uc::M * 0.0,
                offset_end: uc::M * len,
                speed: uc::MPS * 20.0,
            }],
            speed_params: vec![],
            is_head_end: false,
        }),
        ..Default::default()
    }
}

/// L1 -> L2 -> L3 -> L4, branch L5 joins in front of L4
fn network(len1: f64, len2: f64) -> Vec<Link> {
    let mut l4 = flat_link(4, 9000.0, 3, 0);
    l4.idx_prev_alt = LinkIdx::new(5);
    vec![
        Link::default(),
        flat_link(1, len1, 0, 2),
        flat_link(2, len2, 1, 3),
        flat_link(3, 2500.0, 2, 4),
        l4,
        flat_link(5, 1000.0, 0, 4),
    ]
}

fn location(id: &str, link: u32) -> Location {
    Location {
        location_id: id.into(),
        offset: uc::M * 0.0,
        link_idx: LinkIdx::new(link),
        is_front_end: false,
        grid_emissions_region: "R".into(),
        electricity_price_region: "R".into(),
        liquid_fuel_price_region: "R".into(),
    }
}

/// the crate's own example train (2000 m long) on the synthetic line, leaving at t = 0
fn train(id: &str) -> SpeedLimitTrainSim {
    let mut sim = speed_limit_train_sim_fwd();
    sim.train_id = id.into();
    sim.origs = vec![location("West", 1)];
    sim.dests = vec![location("East", 4)];
    sim
}

fn dispatch(len1: f64, len2: f64) -> anyhow::Result<Vec<Vec<altrios_core::train::LinkIdxTime>>> {
    let links = network(len1, len2);
    let sims = vec![train("leader"), train("follower")];
    let ets: Vec<EstTimeNet> = sims
        .iter()
        .map(|s| make_est_times(s.clone(), &links).unwrap().0)
        .collect();
    run_dispatch(&links, &sims, ets, false, false)
}

#[test]
fn synthetic_repro() {
    // offset(L2) = 3381.77; the leader stops with its front at the arrive node of L3
    // (3381.77 + 2852.56) and its tail 2000 m behind, i.e. 852.5599999999995 m inside L2.
    // The follower is placed at fl(3381.77 + 852.5599999999995) = 4234.33, and
    // 4234.33 - 3381.77 = 852.56 > 852.5599999999995 (by 2^-41 m, half an ulp of 4234.33).
    let plan = dispatch(3381.77, 2852.56).unwrap();
    assert_eq!(plan.len(), 2);
}

/// Search over 150 pseudo-random (len1, len2) pairs (run with `--ignored --nocapture`): prints
/// the outcome per pair; on the unpatched crate 16 of the 150 pairs trip the assertion.
#[test]
#[ignore]
fn synthetic_search() {
    std::panic::set_hook(Box::new(|_| {}));
    let mut x: u64 = 12345;
    let mut rnd = move || {
        x = x.wrapping_mul(6364136223846793005).wrapping_add(1442695040888963407);
        ((x >> 33) % 100000) as f64 / 100.0
    };
    for _ in 0..150 {
        let len1 = 2500.0 + rnd();
        let len2 = 2500.0 + rnd();
        let res = std::panic::catch_unwind(|| dispatch(len1, len2));
        let outcome = match res {
            Ok(Ok(_)) => "ok".to_string(),
            Ok(Err(e)) => format!("err {:#}", e),
            Err(p) => format!(
                "PANIC {}",
                p.downcast_ref::<String>()
                    .cloned()
                    .or_else(|| p.downcast_ref::<&str>().map(|s| s.to_string()))
                    .unwrap_or_default()
            ),
        };
        eprintln!("len1={:?} len2={:?}: {}", len1, len2, outcome);
    }
    let _ = std::panic::take_hook();
}
