//! Smallest reproduction found for the stale `disp_node_idx_back` in
//! `TrainDisp::update_free_path_helpers` (meet_pass/train_disp/free_path.rs).
//!
//! Two trains (the library's own 2000 m test train), 20 directed links:
//!
//! line A (train 2):  1 --> 3 --> 5 --> 7 (main, 15 m/s, crossed by link 13) --> 11
//!                                 \--> 9 (siding, 10 m/s) ---------------------/
//! line B (train 1):  13 (crosses 7: mutual lockout) --> 15 --> 17 <-- 19 (unused stub, makes 15 end at a turnout)
//!
//! Links 3 (1000 m) and 5 (1050 m) are shorter than the train, so the tail clears the entry of
//! link 3 only 50 m before the front reaches the turnout 7|9, i.e. after the point where the
//! siding route starts to brake: the estimated-time network of train 2 splits right after
//! "Arrive 5" and the dispatch path is  ... Arrive 5, Fake, Clear 3, Arrive 9 ...  via the siding and
//! ... Arrive 5, Clear 3, Arrive 7 ...  via the main.
//!
//! 1. train 1 stands on link 13 (waiting at the turnout in front of link 15): link 7 is locked out,
//!    train 2 is routed through the siding 9;
//! 2. train 2 runs up to the turnout (it has passed "Clear 3" at index 7; disp_node_idx_back = 7);
//! 3. train 1 leaves: link 7 is free again, train 2's path is straightened back to the main: the
//!    Fake node disappears and "Clear 3" moves to index 6 - but disp_node_idx_back stays 7, which is
//!    now "Arrive 7";
//! 4. at "Clear 5" the tail is taken out of link 7 (not yet entered) instead of link 3: clear_exit of
//!    link 7 is written before its clear_entry and 1 + 2 lockouts entries are drained from
//!    link_idxs_blocking instead of 1; two Clear events later the drain panics.
use altrios_core::meet_pass::dispatch::run_dispatch;
use altrios_core::meet_pass::est_times::{make_est_times, EstTimeNet};
use altrios_core::track::{Elev, Link, LinkIdx, Location, SpeedLimit, SpeedSet};
use altrios_core::train::{speed_limit_train_sim_fwd, SpeedLimitTrainSim};
use altrios_core::uc;

#[allow(clippy::too_many_arguments)]
fn link(
    idx: u32,
    flip: u32,
    next: u32,
    next_alt: u32,
    prev: u32,
    prev_alt: u32,
    length: f64,
    speed: f64,
    lockout: &[u32],
) -> Link {
    Link {
        idx_curr: LinkIdx::new(idx),
        idx_flip: LinkIdx::new(flip),
        idx_next: LinkIdx::new(next),
        idx_next_alt: LinkIdx::new(next_alt),
        idx_prev: LinkIdx::new(prev),
        idx_prev_alt: LinkIdx::new(prev_alt),
        length: length * uc::M,
        elevs: vec![
            Elev::new(0.0 * uc::M, 100.0 * uc::M),
            Elev::new(length * uc::M, 100.0 * uc::M),
        ],
        speed_set: Some(SpeedSet {
            speed_limits: vec![SpeedLimit {
                offset_start: 0.0 * uc::M,
                offset_end: length * uc::M,
                speed: speed * uc::MPS,
            }],
            speed_params: vec![],
            is_head_end: false,
        }),
        link_idxs_lockout: lockout.iter().map(|i| LinkIdx::new(*i)).collect(),
        ..Default::default()
    }
}

pub fn network() -> Vec<Link> {
    vec![
        Link::default(),
        // line A, forward = odd, reverse = even
        link(1, 2, 3, 0, 0, 0, 5000.0, 15.0, &[]),
        link(2, 1, 0, 0, 4, 0, 5000.0, 15.0, &[]),
        link(3, 4, 5, 0, 1, 0, 1000.0, 15.0, &[]),
        link(4, 3, 2, 0, 6, 0, 1000.0, 15.0, &[]),
        link(5, 6, 7, 9, 3, 0, 1050.0, 15.0, &[]),
        link(6, 5, 4, 0, 8, 10, 1050.0, 15.0, &[]),
        link(7, 8, 11, 0, 5, 0, 3000.0, 15.0, &[13, 14]),
        link(8, 7, 6, 0, 12, 0, 3000.0, 15.0, &[13, 14]),
        link(9, 10, 11, 0, 5, 0, 3000.0, 10.0, &[]),
        link(10, 9, 6, 0, 12, 0, 3000.0, 10.0, &[]),
        link(11, 12, 0, 0, 7, 9, 6000.0, 15.0, &[]),
        link(12, 11, 8, 10, 0, 0, 6000.0, 15.0, &[]),
        // line B, crossing link 7/8 with link 13/14
        link(13, 14, 15, 0, 0, 0, 3000.0, 15.0, &[7, 8]),
        link(14, 13, 0, 0, 16, 0, 3000.0, 15.0, &[7, 8]),
        link(15, 16, 17, 0, 13, 0, 3000.0, 15.0, &[]),
        link(16, 15, 14, 0, 18, 0, 3000.0, 15.0, &[]),
        link(17, 18, 0, 0, 15, 19, 6000.0, 15.0, &[]),
        link(18, 17, 16, 20, 0, 0, 6000.0, 15.0, &[]),
        link(19, 20, 17, 0, 0, 0, 3000.0, 15.0, &[]),
        link(20, 19, 0, 0, 18, 0, 3000.0, 15.0, &[]),
    ]
}

fn location(id: &str, link_idx: u32) -> Location {
    Location {
        location_id: id.into(),
        offset: 0.0 * uc::M,
        link_idx: LinkIdx::new(link_idx),
        is_front_end: false,
        grid_emissions_region: "R".into(),
        electricity_price_region: "R".into(),
        liquid_fuel_price_region: "R".into(),
    }
}

pub fn train(id: &str, orig: u32, dest: u32) -> SpeedLimitTrainSim {
    let mut t = speed_limit_train_sim_fwd(); // 2000 m, departs at t = 0
    t.train_id = id.into();
    t.origs = vec![location("O", orig)];
    t.dests = vec![location("D", dest)];
    t
}

#[test]
fn min_d1() {
    let net = network();
    let trains = vec![train("B", 13, 17), train("A", 1, 11)];
    let ets: Vec<EstTimeNet> = trains
        .iter()
        .map(|t| make_est_times(t.clone(), &net).unwrap().0)
        .collect();
    let plan = run_dispatch(&net, &trains, ets, false, false).unwrap();
    let routes: Vec<Vec<usize>> = plan
        .iter()
        .map(|r| r.iter().map(|x| x.link_idx.idx()).collect())
        .collect();
    assert_eq!(routes[0], vec![13, 15, 17]);
    assert_eq!(routes[1], vec![1, 3, 5, 7, 11]);
    for r in &plan {
        assert!(r.windows(2).all(|w| w[0].time <= w[1].time));
    }
}
