//! Smallest reproduction found for defect 2: a destination link that is shorter than the distance
//! by which the simulated train stops short of the end of its path.
//!
//! One train (the library's own 2000 m test train), three links: 1 (origin, 3000 m) --> 3 (3000 m) -->
//! 5 (destination, 100 m), all 15 m/s.  `SavedSim::update_movement` runs the train until its speed is
//! zero; the train comes to rest before the entry of link 5, so `update_est_times_add` never emits
//! "Arrive 5": `make_est_times` returns Ok with a network whose last events are "Arrive 3" / "Clear 3",
//! and `run_dispatch` returns the route [1, 3].
use altrios_core::meet_pass::dispatch::run_dispatch;
use altrios_core::meet_pass::disp_structs::EstType;
use altrios_core::meet_pass::est_times::make_est_times;
use altrios_core::track::{Elev, Link, LinkIdx, Location, SpeedLimit, SpeedSet};
use altrios_core::train::{speed_limit_train_sim_fwd, SpeedLimitTrainSim};
use altrios_core::uc;

fn link(idx: u32, flip: u32, next: u32, prev: u32, length: f64, speed: f64) -> Link {
    Link {
        idx_curr: LinkIdx::new(idx),
        idx_flip: LinkIdx::new(flip),
        idx_next: LinkIdx::new(next),
        idx_prev: LinkIdx::new(prev),
        length: length * uc::M,
        elevs: vec![
            Elev::new(0.0 * uc::M, 100.0 * uc::M),
            Elev::new(length * uc::M, 100.0 * uc::M),
        ],
        speed_set: Some(SpeedSet {
            speed_limits: vec![SpeedLimit {
                offset_start: 0.0 * uc::M,
                offset_end: length * uc::M,
                speed: speed * uc::MPS,
            }],
            speed_params: vec![],
            is_head_end: false,
        }),
        ..Default::default()
    }
}

pub fn network(dest_length: f64) -> Vec<Link> {
    vec![
        Link::default(),
        link(1, 2, 3, 0, 3000.0, 15.0),
        link(2, 1, 0, 4, 3000.0, 15.0),
        link(3, 4, 5, 1, 3000.0, 15.0),
        link(4, 3, 2, 6, 3000.0, 15.0),
        link(5, 6, 0, 3, dest_length, 15.0),
        link(6, 5, 4, 0, dest_length, 15.0),
    ]
}

fn location(id: &str, link_idx: u32) -> Location {
    Location {
        location_id: id.into(),
        offset: 0.0 * uc::M,
        link_idx: LinkIdx::new(link_idx),
        is_front_end: false,
        grid_emissions_region: "R".into(),
        electricity_price_region: "R".into(),
        liquid_fuel_price_region: "R".into(),
    }
}

pub fn train() -> SpeedLimitTrainSim {
    let mut t = speed_limit_train_sim_fwd(); // 2000 m, departs at t = 0
    t.train_id = "A".into();
    t.origs = vec![location("O", 1)];
    t.dests = vec![location("D", 5)];
    t
}

/// What the tree does today (documented as the defect): Ok, but no arrival at the destination.
#[test]
fn min_d2_observed() {
    let net = network(100.0);
    let t = train();
    match make_est_times(t.clone(), &net) {
        Ok((et, _)) => {
            let arrives: Vec<usize> = et
                .val
                .iter()
                .filter(|e| e.link_event.est_type == EstType::Arrive)
                .map(|e| e.link_event.link_idx.idx())
                .collect();
            eprintln!("MIN_D2 make_est_times Ok, arrive events on links {arrives:?}");
            let plan = run_dispatch(&net, &[t.clone()], vec![et], false, false).unwrap();
            eprintln!(
                "MIN_D2 route {:?}",
                plan[0]
                    .iter()
                    .map(|x| (x.link_idx.idx(), x.time.value))
                    .collect::<Vec<_>>()
            );
        }
        Err(e) => eprintln!("MIN_D2 make_est_times Err {e:#}"),
    }
    // the same train on the same path through the simulation entry point
    let mut w = t.clone();
    w.extend_path(&net, &[LinkIdx::new(1), LinkIdx::new(3), LinkIdx::new(5)])
        .unwrap();
    w.finish();
    let r = w.walk();
    eprintln!(
        "MIN_D2 walk {:?}; stopped at {:?} of {:?}",
        r.map_err(|e| format!("{e:#}")),
        w.state.offset,
        w.offset_end()
    );
}

/// The property: when make_est_times returns Ok, the network contains an arrive event on a
/// destination link and the dispatched route ends there.
#[test]
fn min_d2_property() {
    for dest_length in [100.0, 250.0, 500.0, 1000.0, 3000.0] {
        let net = network(dest_length);
        let t = train();
        match make_est_times(t.clone(), &net) {
            Ok((et, _)) => {
                assert!(
                    et.val.iter().any(|e| e.link_event.est_type == EstType::Arrive
                        && e.link_event.link_idx.idx() == 5),
                    "dest {dest_length} m: Ok without an arrive event on the destination link"
                );
                let plan = run_dispatch(&net, &[t.clone()], vec![et], false, false).unwrap();
                assert_eq!(plan[0].last().unwrap().link_idx.idx(), 5);
                eprintln!("MIN_D2 dest {dest_length} m: Ok, route ends on link 5");
            }
            Err(e) => {
                let text = format!("{e:#}");
                eprintln!("MIN_D2 dest {dest_length} m: Err {text}");
                assert!(text.contains("destination"), "unexpected error: {text}");
            }
        }
    }
}
