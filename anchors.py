"""Anchor drift (DESIGN §2.5): hash the source text of the functions a property's model mirrors.
A changed hash is NOT an alarm; it raises the harness case counts of that run to the thorough tier
and is recorded in the evidence, so an edited function is compared on many more inputs."""
import hashlib, json, os, re

REPO = os.environ.get("VERIF_REPO", "/repo")
SRC = "rust/altrios-core/src/"

def fn_texts(path, name):
    """all `fn <name>` items in the file, with bodies (brace matching; strings/comments are rare enough in these bodies)"""
    try:
        txt = open(os.path.join(REPO, SRC, path)).read()
    except OSError:
        return ["<missing file>"]
    out = []
    for m in re.finditer(r"\bfn\s+" + re.escape(name) + r"\b", txt):
        i = txt.find("{", m.end())
        semi = txt.find(";", m.end())
        if i < 0 or (0 <= semi < i):
            continue
        depth, j = 0, i
        while j < len(txt):
            c = txt[j]
            if c == "{": depth += 1
            elif c == "}":
                depth -= 1
                if depth == 0: break
            j += 1
        out.append(re.sub(r"\s+", " ", txt[m.start():j + 1]))
    return out or ["<missing fn>"]

def digest(anchors):
    d = {}
    for path, name in anchors:
        h = hashlib.sha1("\n".join(fn_texts(path, name)).encode()).hexdigest()[:16]
        d[f"{path}::{name}"] = h
    return d

def drift(pid, anchors, root):
    cur = digest(anchors)
    p = os.path.join(root, "anchors.json")
    base = json.load(open(p)).get(pid, {}) if os.path.exists(p) else {}
    changed = sorted(k for k in cur if base.get(k) != cur[k])
    return cur, changed

if __name__ == "__main__":
    # (re)write anchors.json for the current tree:  python3 anchors.py
    import sys
    root = os.path.dirname(os.path.abspath(__file__))
    sys.path.insert(0, root)
    from checkcfg import PROPS
    allh = {pid: digest(cfg.get("anchors", [])) for pid, cfg in PROPS.items()}
    json.dump(allh, open(os.path.join(root, "anchors.json"), "w"), indent=1, sort_keys=True)
    print("anchors.json written:", {k: len(v) for k, v in allh.items()})
