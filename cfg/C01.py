from cfg.common import FLOAT_ASSUMPTION, NOTE_COMMON
from cfg.kernels_pre import regen as regen_kernels, KERNEL_THEOREMS, KERNEL_TRUSTED, KERNEL_ASSUMPTION

PROP = {
    'anchors': [('consist/locomotive/powertrain/fuel_converter.rs', 'solve_energy_consumption'), ('consist/locomotive/powertrain/generator.rs', 'set_pwr_in_req'), ('consist/locomotive/powertrain/electric_drivetrain.rs', 'set_pwr_in_req'), ('consist/locomotive/powertrain/reversible_energy_storage.rs', 'solve_energy_consumption'), ('consist/locomotive/conventional_loco.rs', 'solve_energy_consumption'), ('consist/locomotive/battery_electric_loco.rs', 'solve_energy_consumption'), ('consist/locomotive/locomotive_model.rs', 'solve_energy_consumption'), ('consist/locomotive/locomotive_model.rs', 'set_pwr_aux'), ('consist/consist_model.rs', 'solve_energy_consumption'), ('consist/consist_model.rs', 'get_energy_fuel'), ('consist/consist_model.rs', 'get_net_energy_res')],
    'blocks': ['pt'],
    'pre': [regen_kernels],
    'trusted_extra': [KERNEL_TRUSTED],
    'proof_modules': ['C01', 'Kernels'],
    'namespaces': ['Altrios.Proofs.C01', 'Altrios.Proofs.Kernels'],
    'required_theorems': [
        'Altrios.Proofs.C01.C01_fc_balance', 'Altrios.Proofs.C01.C01_gen_balance',
        'Altrios.Proofs.C01.C01_edrv_balance', 'Altrios.Proofs.C01.C01_res_balance', 'Altrios.Proofs.C01.C01_res_soc',
        'Altrios.Proofs.C01.C01_conv_handoff', 'Altrios.Proofs.C01.C01_bel_handoff',
        'Altrios.Proofs.C01.C01_loco_pwrOut', 'Altrios.Proofs.C01.C01_loco_ledger',
        'Altrios.Proofs.C01.C01_step', 'Altrios.Proofs.C01.C01_walk', 'Altrios.Proofs.C01.C01_walk_prefix',
        'Altrios.Proofs.C01.C01_closed', 'Altrios.Proofs.C01.C01_consist_rollup',
        'Altrios.Proofs.C01.C01_consist_walk', 'Altrios.Proofs.C01.C01_consist_closed',
        'Altrios.Proofs.C01.C01_consist_ledger',
    ] + KERNEL_THEOREMS,
    'nontrivial_stats': ['pt.loco.traction', 'pt.loco.braking', 'pt.loco.engine_off_step',
                         'pt.consist.traction_', 'pt.consist.braking_'],
    'rule': 'each evaluation is one call of the real code (a whole locomotive / consist simulation step, or one component '
            'method) replayed through the Lean model at IEEE Float and compared bit for bit; non-trivial = an accepted '
            'step with non-zero traction or braking (zero-demand steps and rejected steps are counted separately)',
    'assumptions': [FLOAT_ASSUMPTION,
                    'energy_capacity.get::<watt_hour>() (uom unit conversion) is passed to the model as a value',
                    'HybridLoco / DummyLoco units are not modelled (the generators never build them)',
                    'ledger theorems for the |.|-defined losses (drivetrain, battery) assume every efficiency in (0,1] '
                    '(proved from map values in (0,1] in C08)'] + [KERNEL_ASSUMPTION],
}

TEXT = {
    'design_ref': '§7.1',
    'note': NOTE_COMMON,
    'technique': 'Lean 4 proof (invariants by induction over the step list) + bit-exact differential correspondence + translator tie (the straight-line powertrain kernels are re-translated from the Rust text on every run and proved equal to the model)',
    'text': 'Kernel-checked theorems over an arbitrary ordered field: per-step power balances of all four components, the three '
            'hand-offs, the whole-unit ledgers, SOC update, and cumulative closure for every prefix of every accepted trace '
            '(C01_walk_prefix, C01_closed) for locomotives and consists under both policies (C01_consist_ledger), by induction '
            'over the step list from all-zero counters. The model (Interp/Powertrain/Consist.lean) reproduces the real '
            'locomotive and consist steps bit for bit on every generated step, and every balance is re-checked on the '
            "implementation's own states by the oracle.",
}
