from cfg.common import FLOAT_ASSUMPTION, NOTE_COMMON

# configuration of ./check for this property
PROP = {
    'anchors': [('track/path_track/speed_point.rs', 'insert_speed'), ('track/link/speed/speed_limit.rs', 'min_speed'), ('track/path_track/path_tpc.rs', 'add_speeds'), ('track/path_track/train_params.rs', 'speed_set_applies'), ('track/path_track/path_tpc.rs', 'extract_speed_set')],'assumptions': ['theorems are about exact arithmetic in an arbitrary linearly ordered field; binary64 rounding is not '
                 "modelled: the same model definitions instantiated at IEEE Float must reproduce the implementation's "
                 'doubles bit for bit on every generated op (checked this run)',
                 'speeds are not -0.0 / NaN (is_sign_positive is modelled as 0 <= v)'],
 'blocks': ['sp'],
 'namespaces': ['Altrios.Proofs.C02', 'Altrios.Proofs.C13', 'Altrios.Proofs.C13Lit', 'Altrios.Proofs.SPLit'],
 'nontrivial_stats': ['sp.branch.', 'sp.route.set_applies', 'sp.route.set_gated_off'],
 'proof_modules': ['C02', 'C13Lit'],
 'required_theorems': ['Altrios.Proofs.C13.C13_insert_exact',
                       'Altrios.Proofs.C02.C02_insert_sound',
                       'Altrios.Proofs.C02.C02_insert_mono',
                       'Altrios.Proofs.C02.C02_profile_sound',
                       'Altrios.Proofs.C02.C02_route_sound'] + ['Altrios.Proofs.C13Lit.C13_literal_eq_iff', 'Altrios.Proofs.C13Lit.C02_insert_sound_literal', 'Altrios.Proofs.C13Lit.C02_insert_mono_literal', 'Altrios.Proofs.C13Lit.C13_profile_literal', 'Altrios.Proofs.C13Lit.C13_profile_literal_false', 'Altrios.Proofs.C13Lit.C02_profile_sound_literal', 'Altrios.Proofs.C13Lit.C02_route_literal'],
 'rule': 'each evaluation is one call of the real insert_speed / PathTpc::extend (one link) replayed through the '
         'literal and the structural Lean model; non-trivial = the call went through one of the counted branches '
         '(after-end, abutting, general, strictly-inside, zero-length) or a gated/applied speed set'}

# MANIFEST.json texts
TEXT = {'design_ref': '§7.2',
 'note': 'Trusted: Lean 4.33 kernel and the Mathlib modules imported; axioms propext, Classical.choice, Quot.sound '
         "only (audited every run); the model is hand-written and tied to the code only by this run's differential "
         'correspondence (as strong as its generators; distribution in the evidence); theorems are about exact '
         'ordered-field arithmetic, binary64 rounding is covered by bit-exact comparison of the Float instantiation, '
         'not by proof.',
 'technique': 'Lean 4 proof (list induction) + differential correspondence with the Rust code',
 'text': "Kernel-checked theorems: for every point list meeting insert_speed's contract and every restriction, the new "
         'profile is bounded by the restriction where it covers and never rises (C02_insert_sound/mono); lifted by '
         "induction to any sequence of restrictions from the train's maximum speed (C02_profile_sound) and to any "
         'route built by add_speeds with tail-end extension and parameter gating, for any split into extend calls '
         '(C02_route_sound, C02_split). The structural model the theorems are about, its literal index transcription '
         'and the real insert_speed / PathTpc::extend are compared on every run (three-way, bit-exact).'
         ' The index-level transcription of the Rust loop (insertSpeedIdx: find start, insert, while-update with removals, restore point, final merge — the definition compared bit for bit with the code) is proved never to panic or err under the contract (C13_insert_total_literal), to be exact / sound under the contract alone (C13_insert_exact_literal, C02_insert_sound_literal) and EQUAL to the structural function exactly when no redundant point sits in the gap (C13_literal_eq_iff; always true of vectors built from [(0, vmax)], C13_profile_literal, C02_route_literal); the two statements that are false at full strength are kept with their witnesses (C13_literal_eq_false: a redundant stored point outside [start,end] is dropped; C13_profile_literal_false: stacked zero-length restrictions at the tail reach three points at one offset, the debug_assert of insert_speed).'}
