from cfg.common import FLOAT_ASSUMPTION, NOTE_COMMON
from cfg.kernels_pre import regen as regen_kernels, KERNEL_THEOREMS, KERNEL_TRUSTED, KERNEL_ASSUMPTION
from cfg.train_kernels_pre import (regen as regen_train_kernels, TRAIN_KERNEL_THEOREMS_FOR, TRAIN_KERNEL_TRUSTED,
                                   TRAIN_KERNEL_ASSUMPTION)

PROP = {
    'anchors': [('track/path_track/speed_point.rs', 'insert_speed'), ('track/path_track/path_tpc.rs', 'add_speeds'), ('track/path_track/path_tpc.rs', 'extend'), ('train/braking_point.rs', 'calc_speeds'), ('train/braking_point.rs', 'recalc'), ('train/speed_limit_train_sim.rs', 'solve_required_pwr'), ('train/speed_limit_train_sim.rs', 'solve_step'), ('train/speed_limit_train_sim.rs', 'walk_internal'), ('train/speed_limit_train_sim.rs', 'extend_path'), ('train/friction_brakes.rs', 'set_cur_force_max_out')],
    'blocks': ['train'],
    'pre': [regen_train_kernels, regen_kernels],
    'trusted_extra': [TRAIN_KERNEL_TRUSTED, KERNEL_TRUSTED],
    'proof_modules': ['C03', 'TrainKernels', 'Kernels'],
    'namespaces': ['Altrios.Proofs.C03', 'Altrios.Proofs.TrainKernels', 'Altrios.Proofs.Kernels'],
    'required_theorems': [
        'Altrios.Proofs.C03.C03_calcSpeeds_spec',
        'Altrios.Proofs.C03.C03_calcSpeeds_safe',
        'Altrios.Proofs.C03.C03_target_le_limit',
        'Altrios.Proofs.C03.C03_calcSpeeds_only_overspeed_panic',
        'Altrios.Proofs.C03.C03_calcSpeeds_pre_preserved',
        'Altrios.Proofs.C03.C03_step_tracks_target',
        'Altrios.Proofs.C03.C03_step_le_limit',
        'Altrios.Proofs.C03.C03_overshoot_when_brakes_saturate',
        'Altrios.Proofs.C03.C03_nonneg_partial',
        'Altrios.Proofs.C03.C03_fricSetCurMax_bounds',
        'Altrios.Proofs.C03.C03_fric_inv',
        'Altrios.Proofs.C03.C03_walk_exit',
        'Altrios.Proofs.C03.C03_walk_old_diverges',
        'Altrios.Proofs.C03.C03_walk_new_reports_stuck',
        'Altrios.Proofs.C03.C03_walk_new_refines_old',
        'Altrios.Proofs.C03.C03_walk_sound_check_keeps_exits',
        'Altrios.Proofs.C03.C03_walk_exit_new',
        'Altrios.Proofs.C03.C03_slWalk_exit',
        'Altrios.Proofs.C03.C03_stuck_implies_cond',
        'Altrios.Proofs.C03.C03_power_bounds',
        'Altrios.Proofs.C03.C03_recalc_inv',
        'Altrios.Proofs.C03.C03_recalc_establishes_pre',
        'Altrios.Proofs.C03.C03_never_overspeeds_counterexample',
        'Altrios.Proofs.C03.C03_never_reverses_counterexample',
    ] + TRAIN_KERNEL_THEOREMS_FOR['C03'] + KERNEL_THEOREMS,
    'nontrivial_stats': ['train.sl.step_ok'],
    'rule': 'each evaluation is one real speed-limited step (whole solve_step, solve_required_pwr, calc_speeds, friction brake) '
            'on generated routes (grades to 1.2 %, restriction patterns incl. short faster windows), path supplied whole, link by '
            'link, or extended DURING the walk (first authority covering the standing train, or deliberately too short), plus whole '
            'walk_timed_path runs on generated timed paths (black box, judged from the saved history); non-trivial = every accepted step',
    'level': 'proof',
    'assumptions': [FLOAT_ASSUMPTION,
                    'PARTIAL: the closed-loop claim (no overspeed / no panic / termination for all tracks) is searched by the '
                    'oracle, not proved; proved are the ingredients listed in the level text',
                    'sqrt is a parameter of the model (Float.sqrt in the driver; correctly rounded on both sides)'] + [TRAIN_KERNEL_ASSUMPTION, KERNEL_ASSUMPTION],
}

TEXT = {
    'design_ref': '§7.12',
    'note': NOTE_COMMON + ' The composition of the proved ingredients into the closed-loop statement is validated per run only.',
    'technique': 'Lean 4 proof of the controller ingredients (partial) + bit-exact correspondence + oracle search on whole runs + translator tie (the straight-line train kernels are re-translated from the Rust text on every run and proved equal to the model)',
    'text': ('PARTIAL. Kernel-checked ingredients: BrakingPoints::recalc (modelled, Braking.lean) always yields points with 0 <= target <= limit, first (end,0,0), last the first '
             'speed point (C03_recalc_inv; true of the repaired code, fix: d396bcb); calc_speeds lands on the bracket, returns target = min of the targets in the look-ahead window, '
             'hence target <= limit, its only reachable panic is the overspeed assertion, and its precondition is re-established along a run (C03_calcSpeeds_*); an accepted step '
             'reaches the target exactly when unclipped, stays below when power-limited, and brakes maximally otherwise (C03_step_tracks_target); friction-brake and wheel-power '
             'bounds; the walk loop exits only at rest inside the window or at/after the end (C03_walk_exit). The closed-loop claim itself is FALSE of model and code: '
             'C03_never_overspeeds_counterexample (brakes saturate on a downgrade) and C03_never_reverses_counterexample are kernel-checked; on the real code the overspeed '
             'assertion and a curve point in a slower zone are reproduced by the oracle and reported as KNOWN-FINDINGs; every other violation on whole runs (negative speed, '
             'target above limit, stop outside the path, any other panic) is still a VIOLATION. The real walk_timed_path (timed path from dispatch: authority arriving '
             'early, on time or late) is run as a black box and judged row by row from its saved history against the network\'s posted restrictions; a budgeted copy of its loop decides '
             'first whether the walk ends at all — this exposed a run that never returned (train at rest with target 0 short of the stopping window), repaired by fix: c76dec1: the walk '
             'now ends with a descriptive error, and the harness checks on every such state that it is a fixed point of step() and that the real walk() reports it. '
             'The loop itself is modelled before and after that repair (walkLoopOld / walkLoop, generic in step(); the check is walkStuck, re-translated from the ensure! in the loop body '
             'and proved equal, walkStuck_eq, compared bit for bit after every accepted step, op walk_stuck): from a state that a step leaves the same for the purposes of step and the loop condition the '
             'old loop is still running after ANY number of steps (C03_walk_old_diverges) while the new one ends with the error after one (C03_walk_new_reports_stuck); the new loop exits exactly '
             'where the old one does unless the check fired first, and a check that fires only on such fixed points changes no run that used to end (C03_walk_new_refines_old, '
             'C03_walk_sound_check_keeps_exits); every exit is at rest inside the window or at/after the end (C03_walk_exit_new, C03_slWalk_exit) and the check never fires on an exit state '
             '(C03_stuck_implies_cond); every run the harness completes step by step without a stuck pair is replayed by the real walk(), which must return Ok in the same final state. '),
}
