from cfg.common import NOTE_COMMON

# configuration of ./check for this property
PROP = {'assumptions': ['the routing search (update_free_path / check_deadlock: which train moves next, over which nodes, when it is '
                 'rewound) is NOT modelled; the theorems hold for ANY interleaving of table operations whose side conditions '
                 'hold, and the side conditions (entry time >= the literal gate of TrainDisp::advance, finite; a train\'s own '
                 'event times do not run backwards; a rewound clear_exit has no later conflicting authority) are evaluated by '
                 'the model on every operation the real run_dispatch performs in this run (op c04_step) - observed, not proved',
                 'time values are the code\'s own f64 with +-infinity; the theorems need only a linear order with a greatest '
                 'element and "adding the headway / the lockout margin is monotone and does not decrease a time" (true of IEEE '
                 'doubles without NaN); the model runs at Float on the implementation\'s own bit patterns',
                 'lockout declarations are symmetric and irreflexive (checked on every generated network; [Link]::validate does '
                 'not check them)',
                 'the train\'s own running time and start-up time inside the gate are not observable from the table: the gate is '
                 'evaluated at their lower bounds (-inf, 0), which is sound for the inequality entry >= gate'],
 'blocks': ['c04'],
 'level': 'proof',
 'namespaces': ['Altrios.Proofs.C04'],
 'nontrivial_stats': ['c04.ops.', 'c04.gate.', 'c04.scen.siding_used', 'c04.scen.with_rewind', 'c04.headway.'],
 'proof_modules': ['C04'],
 'required_theorems': ['Altrios.Proofs.C04.C04_planOk_iff_spec',
                       'Altrios.Proofs.C04.C04_spec_meaning',
                       'Altrios.Proofs.C04.C04_step',
                       'Altrios.Proofs.C04.C04_gate',
                       'Altrios.Proofs.C04.C04_partial',
                       'Altrios.Proofs.C04.C04_partial_final',
                       'Altrios.Proofs.C04.C04_counterexample',
                       'Altrios.Proofs.C04.C04_strict_headway_counterexample'],
 'rule': 'every snapshot of the authority table (after every advance / rewind / outer iteration / at the end) and the returned '
         'plan: opposing and mutually exclusive occupancy windows [front enters, tail leaves) share no time of positive length; '
         'consecutive authorities on a directed link keep the 8 min headway at entry (behind the leader\'s tail, unless an '
         'opposing move lies in between) and at exit, and never change order; links_blocked covers every held conflicting '
         'link; each table change is a push/close/early-exit/pop/reset that the model reproduces bit for bit with all side '
         'conditions true'}

# MANIFEST.json texts
TEXT = {'design_ref': '§7.13',
 'note': NOTE_COMMON + ' For C04 additionally: the verif-hooks dispatch observer (add-only) that exposes the function-local '
         'authority table; the harness\' table-diff that turns two snapshots into operations.',
 'technique': 'Lean 4 proof (invariant by induction over table operations, verified plan checker) + differential correspondence '
              'on hook snapshots of the real run_dispatch + independent Rust oracle on snapshots and returned plans',
 'text': 'PARTIAL. Kernel-checked: planOk decides exactly the conflict-free-table specification (C04_planOk_iff_spec, '
         'C04_spec_meaning); every table operation of advance/rewind/update_occupancy keeps it under explicit side conditions '
         '(C04_step), the literal gate expression of TrainDisp::advance delivers the side conditions of an entry (C04_gate), '
         'hence any interleaving of moves of any number of trains keeps every intermediate table and the final plan '
         'conflict-free (C04_partial, C04_partial_final) - independent of the routing search, which is not modelled. '
         'The side conditions are checked on every operation of every real run; the premise "the links are not currently '
         'held" reduces to "the gated entry time is finite". The pinned code violates the property in one situation, proved '
         'on the model (C04_counterexample) and reproduced on the real code: a train whose path ends on a link while a train '
         'ahead of it is still in that link closes the LAST authority of the link, the link is unblocked and an opposing '
         'train is let in (known finding). A typo in the same early-exit branch (arrive_entry assigned instead of '
         'clear_entry) is repaired by C04-fix-1.'}
