from cfg.common import NOTE_COMMON

# configuration of ./check for this property
PROP = {
    'blocks': ['c05'],
    'proof_modules': ['C05'],
    'namespaces': ['Altrios.Proofs.C05'],
    'level': 'proof',   # category of the evidence; the claim itself is PARTIAL (see TEXT)
    'required_theorems': [
        'Altrios.Proofs.C05.C05_calc_idx_sentinels_bounds',
        'Altrios.Proofs.C05.C05_calc_idx_sentinels_spec',
        'Altrios.Proofs.C05.C05_find_train_intersect_bounds',
        'Altrios.Proofs.C05.C05_find_train_intersect_unguarded_counterexample',
        'Altrios.Proofs.C05.C05_link_opt_new_bounded',
        'Altrios.Proofs.C05.C05_find_after_new',
        'Altrios.Proofs.C05.C05_blocking_views_bounds',
        'Altrios.Proofs.C05.C05_blocking_views_preserve',
        'Altrios.Proofs.C05.C05_add_blocking_trains_spec',
        'Altrios.Proofs.C05.C05_routeOk_iff_spec',
        'Altrios.Proofs.C05.C05_planOk_iff_spec',
        'Altrios.Proofs.C05.C05_dispatch_accounting',
        'Altrios.Proofs.C05.C05_requeue_assert',
        'Altrios.Proofs.C05.C05_pop_is_least',
    ],
    'nontrivial_stats': ['c05.find_int.searched', 'c05.calc_sent.searched_past_start', 'c05.views.grew',
                         'c05.plan.uses_siding', 'c05.plan.held_at_origin', 'c05.queue.parks',
                         'c05.plan_ok.mutant.', 'c05.ub_probe.'],
    'rule': 'an evaluation is one call of a real sentinel-search function (generated and adversarial arguments; result, '
            'buffer contents and panic kind compared with the model), one plan sent through the Lean decision procedure '
            '(the plan returned by run_dispatch and mutated copies; verdict compared with an independent Rust re-check), or '
            'one replay of the queue bookkeeping of a whole dispatch run (pop order, parked list, result); scenarios: single '
            'track with 0-5 sidings, optional lockouts, 1-8 trains, both directions, equal and distinct departures, interior '
            'and multiple origins/destinations; non-trivial = a search that actually scanned, a view that grew, a plan that '
            'used a siding or held a train, a parked train, an invalid (mutated) plan, an undefined-behaviour probe',
    'assumptions': [
        'usize is 64 bit; vector lengths and indices stay below 2^32 (the `try_into().unwrap()` conversions of lengths to '
        'u32/u16 are not modelled)',
        'the harness build has overflow-checks and debug-assertions on: `TrainIdxsView::len()` with idx_begin > idx_end is the '
        'overflow outcome (a release build would wrap); `get_unchecked` out of range aborts the process',
        'find_train_intersect is memory-safe only if the Range arm gets link_idx_min < 2^32: FORCED '
        '(C05_find_train_intersect_unguarded_counterexample, replayed on the real function in a child process); the only '
        'producer LinkOptType::new establishes it (C05_link_opt_new_bounded) and update_free_path has a single call site',
        'NOT proved, searched per run: termination of the outer and inner loops of run_dispatch, absence of assert!/index '
        'panics inside update_free_path/advance/rewind, and that the plan found by the real search satisfies PlanSpec '
        '(watchdog thread with a wall-clock budget, catch_unwind, planOk + independent Rust re-check on every returned plan)',
        'the queue bookkeeping is observed on a line-by-line copy of the outer loop of run_dispatch driven through the public '
        'TrainDisp API; the copy is tied to the real function by equality of the final result (plan, error text or panic) '
        'on every scenario',
        'the free-running time of a hop is the minimum, over the paths of the train\'s own estimated-time network between '
        'the two arrive events, of the left-to-right sum of time_to_next (0 along idx_next_alt); times are compared exactly '
        '(no tolerance: + and max are monotone in binary64, so the real accumulation can never fall below it)',
    ],
}

# MANIFEST.json texts
TEXT = {
    'design_ref': '§7.14',
    'note': NOTE_COMMON + ' For C05 additionally: the harness copy of the outer loop of run_dispatch (tied by result '
            'equality), the child-process probe for the undefined-behaviour case, and the scenario generator '
            '(single-track families); the search itself (update_free_path, advance, rewind) is exercised, not modelled.',
    'technique': 'Lean 4 proof (bounds of the unsafe sentinel searches, verified plan checker, queue accounting invariant) '
                 '+ differential correspondence with the real functions + searched termination/no-panic of the dispatch search',
    'text': 'PARTIAL. Kernel-checked for all inputs: (1) calc_idx_sentinels, find_train_intersect, add_blocking_trains, '
            'add_all_blocking_trains, concat_train_idx_views never make a raw (get_unchecked) access out of range and their '
            'loops terminate whatever the arguments, the overwritten sentinel slot is restored, with functional '
            'specifications when the leading assert!s pass (C05_*_bounds, C05_*_spec); the Range arm needs '
            'link_idx_min < 2^32, which is forced (counterexample theorem, replayed: the real function aborts on the UB '
            'check) and is established by LinkOptType::new (C05_link_opt_new_bounded, C05_find_after_new); (2) the decision '
            'procedure planOk accepts exactly the plans the property describes: one route per train, first link an origin '
            'at/after departure, last link a destination, consecutive links connected, times non-decreasing and no hop '
            'faster than the train\'s own free running along its estimated-time network (C05_routeOk_iff_spec, '
            'C05_planOk_iff_spec); (3) in the outer loop with arbitrary routing outcomes every train is always in exactly '
            'one of queue/parked/finished and at exit is finished or named in the error (C05_dispatch_accounting, '
            'C05_requeue_assert, C05_pop_is_least). Each run ties the model to the code op by op (real private functions '
            'through verif-hooks wrappers, real run_dispatch plans, queue replay) and re-checks every returned plan in Rust. '
            'Searched, not proved: termination and absence of assertion panics of the dispatch search itself.',
}
