from cfg.common import FLOAT_ASSUMPTION, NOTE_COMMON

PROP = {
    'anchors': [('track/path_track/path_tpc.rs', 'extend'), ('track/path_track/path_tpc.rs', 'new'), ('track/path_track/path_tpc.rs', 'finish'), ('track/path_track/path_tpc.rs', 'extract_speed_set')],
    'blocks': ['train'],
    'proof_modules': ['C06'],
    'namespaces': ['Altrios.Proofs.C06'],
    'required_theorems': [
        'Altrios.Proofs.C06.C06_linkpoints',
        'Altrios.Proofs.C06.C06_counts',
        'Altrios.Proofs.C06.C06_counts_preserved',
        'Altrios.Proofs.C06.C06_cats',
        'Altrios.Proofs.C06.C06_accept_iff',
        'Altrios.Proofs.C06.C06_noncontig_not_ok',
        'Altrios.Proofs.C06.C06_reject',
        'Altrios.Proofs.C06.C06_reject_first',
        'Altrios.Proofs.C06.C06_grades',
        'Altrios.Proofs.C06.C06_grade_point',
        'Altrios.Proofs.C06.C06_elev',
        'Altrios.Proofs.C06.C06_elev_exists',
        'Altrios.Proofs.C06.C06_curves',
        'Altrios.Proofs.C06.C06_curve_point',
        'Altrios.Proofs.C06.C06_extend_append',
        'Altrios.Proofs.C06.C06_partition_indep',
        'Altrios.Proofs.C06.C06_inv',
        'Altrios.Proofs.C06.C06_wrap',
        'Altrios.Proofs.C06.C06_wrapOld_counterexample',
    ],
    'nontrivial_stats': ['train.path.n_links.', 'train.path.bad_route'],
    'rule': 'each evaluation is one real PathTpc::extend call (a random chunk of a random partition of a route through a '
            'generated valid network with 2-6 elevation points, optional headings incl. wrap-around, catenary sections, '
            'speed sets) replayed through the Lean model; plus non-contiguous / fake-index routes; non-trivial = every path case',
    'assumptions': [FLOAT_ASSUMPTION,
                    'x % REV is modelled by fmodSmall, exact for the heading range Link::validate admits',
                    'links satisfy what Link::validate enforces (LinkOK): forced, see extend_one_elev_counterexample'],
}

TEXT = {
    'design_ref': '§7.4',
    'note': NOTE_COMMON,
    'technique': 'Lean 4 proof (fold invariants over the route, append law) + bit-exact differential correspondence',
    'text': ("Kernel-checked for every network and route (links as Link::validate admits them): link points sit at the prefix sums of the link lengths with the route's link "
             'indices and one trailing dummy (C06_linkpoints); index counts are consistent and stay so under every later extend (C06_counts, C06_counts_preserved); grades are the '
             'slopes of consecutive elevation points at the shifted offsets and the profile value equals the elevation obtained by walking the links, everywhere on [0,total] '
             '(C06_grades, C06_elev, C06_elev_exists); curve coefficients are the three-coefficient formula of the wrapped heading change, which is the true angular distance '
             '(C06_curves, C06_wrap; true of the repaired code — the pinned formula was wrong for headings increasing through north, C06_wrapOld_counterexample); catenary '
             'sections are shifted by the link bases (C06_cats); extend over a ++ b equals extend over a then b as a full result equality, so every partition gives the identical '
             'profile (C06_extend_append, C06_partition_indep); a route is accepted iff no index is fake, consecutive links are linked and the speed fold succeeds, else an error '
             '(C06_accept_iff, C06_reject). '),
}
