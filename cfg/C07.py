from cfg.common import FLOAT_ASSUMPTION, NOTE_COMMON
from cfg.train_kernels_pre import (regen as regen_train_kernels, TRAIN_KERNEL_THEOREMS_FOR, TRAIN_KERNEL_TRUSTED,
                                   TRAIN_KERNEL_ASSUMPTION)

PROP = {
    'anchors': [('track/path_track/path_tpc.rs', 'extend'), ('lin_search_hint.rs', 'calc_idx'), ('train/resistance/kind/path_res.rs', 'calc_res'), ('train/resistance/kind/path_res.rs', 'calc_res_strap'), ('train/resistance/method/strap.rs', 'update_res'), ('train/resistance/kind/rolling.rs', 'calc_res'), ('train/resistance/kind/davis_b.rs', 'calc_res'), ('train/resistance/kind/aerodynamic.rs', 'calc_res'), ('train/resistance/kind/bearing.rs', 'calc_res'), ('track/path_track/path_res_coeff.rs', 'calc_res_val')],
    'blocks': ['train'],
    'pre': [regen_train_kernels],
    'trusted_extra': [TRAIN_KERNEL_TRUSTED],
    'proof_modules': ['C07', 'TrainKernels'],
    'namespaces': ['Altrios.Proofs.C07', 'Altrios.Proofs.TrainKernels'],
    'required_theorems': [
        'Altrios.Proofs.C07.C07_calcIdx_fwd',
        'Altrios.Proofs.C07.C07_calcIdx_bwd',
        'Altrios.Proofs.C07.C07_calcIdx_value_fwd',
        'Altrios.Proofs.C07.C07_calcIdx_value_bwd',
        'Altrios.Proofs.C07.C07_strapCoeff_fwd',
        'Altrios.Proofs.C07.C07_strapCoeff_bwd',
        'Altrios.Proofs.C07.C07_strapCoeff_weak',
        'Altrios.Proofs.C07.C07_updateRes_scalars',
        'Altrios.Proofs.C07.C07_updateRes_fwd',
        'Altrios.Proofs.C07.C07_updateRes_bwd',
        'Altrios.Proofs.C07.C07_no_panic',
        'Altrios.Proofs.C07.C07_strapRun',
        'Altrios.Proofs.C07.C07_strapInv_init',
        'Altrios.Proofs.C07.C07_updateRes_step',
        'Altrios.Proofs.C07.C07_extend_model',
    ] + TRAIN_KERNEL_THEOREMS_FOR['C07'],
    'nontrivial_stats': ['train.ss.step_ok', 'train.sl.step_ok', 'op.calc_idx'],
    'rule': 'each evaluation is one real update_res call on a state reached by a set-speed or speed-limited run (front and rear '
            'in the same or different segments, trains shorter and longer than links), or one direct calc_idx call with hints '
            'below/at/above the true segment in all three directions; non-trivial = every accepted step / direct call',
    'assumptions': [FLOAT_ASSUMPTION,
                    'backward evaluation during braking-curve construction is covered by direct calc_idx ops (Bwd/Unk) and by the '
                    'theorems; BrakingPoints::recalc itself is exercised through whole runs'] + [TRAIN_KERNEL_ASSUMPTION],
}

TEXT = {
    'design_ref': '§7.5',
    'note': NOTE_COMMON,
    'technique': 'Lean 4 proof (refinement of the cached-index search to the declarative segment lookup) + bit-exact correspondence + translator tie (the straight-line train kernels are re-translated from the Rust text on every run and proved equal to the model)',
    'text': ('Kernel-checked refinement: for a continuous piecewise-linear profile with strictly increasing offsets the cached-index search returns the segment '
             'containing the position whenever the cached index is on the correct side (C07_calcIdx_fwd/bwd), the value read there equals the declarative cumulative '
             'value under either boundary convention (C07_calcIdx_value_*), path_res::Strap::calc_res returns (E(front)-E(rear))/length in both the coincident and the '
             'two-index branch and re-establishes the cache invariant (C07_strapCoeff_*), update_res sets every scalar force to its definition and the grade / curve '
             'forces, front elevation and front / rear grades to those of the track (C07_updateRes_*), the invariant holds along any mixture of forward / unknown / '
             'backward steps and across extend (C07_strapRun, C07_extend_model), and no index is out of range (C07_no_panic). grade_back holds of the repaired code (fix: d1872ce). '),
}
