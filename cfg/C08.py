from cfg.common import FLOAT_ASSUMPTION, NOTE_COMMON
from cfg.kernels_pre import regen as regen_kernels, KERNEL_THEOREMS, KERNEL_TRUSTED, KERNEL_ASSUMPTION

PROP = {
    'anchors': [('utils/mod.rs', 'interp1d'), ('utils/mod.rs', 'interp3d'), ('utils/mod.rs', 'find_interp_indices'), ('utils/mod.rs', 'compute_interp_diff'), ('consist/locomotive/powertrain/fuel_converter.rs', 'solve_energy_consumption'), ('consist/locomotive/powertrain/generator.rs', 'set_pwr_in_req'), ('consist/locomotive/powertrain/electric_drivetrain.rs', 'set_pwr_in_req'), ('consist/locomotive/powertrain/reversible_energy_storage.rs', 'solve_energy_consumption'), ('consist/locomotive/locomotive_model.rs', 'set_pwr_aux'), ('consist/locomotive/conventional_loco.rs', 'solve_energy_consumption'), ('consist/locomotive/hybrid_loco.rs', 'solve_energy_consumption'), ('consist/locomotive/hybrid_loco.rs', 'set_cur_pwr_max_out')],
    'blocks': ['pt'],
    'pre': [regen_kernels],
    'trusted_extra': [KERNEL_TRUSTED],
    'proof_modules': ['C08', 'C08Hyb', 'Kernels'],
    'namespaces': ['Altrios.Proofs.C08', 'Altrios.Proofs.C08Hyb', 'Altrios.Proofs.InterpL', 'Altrios.Proofs.Kernels'],
    'required_theorems': [
        'Altrios.Proofs.InterpL.interp1d_range', 'Altrios.Proofs.InterpL.interp3d_range',
        'Altrios.Proofs.C08.C08_fc_step', 'Altrios.Proofs.C08.C08_gen_step', 'Altrios.Proofs.C08.C08_edrv_step',
        'Altrios.Proofs.C08.C08_res_step', 'Altrios.Proofs.C08.C08_engine_off_fc', 'Altrios.Proofs.C08.C08_engine_off_loco',
        'Altrios.Proofs.C08.C08_loco_step', 'Altrios.Proofs.C08.C08_loco_dyn_zero', 'Altrios.Proofs.C08.C08_walk_monotone',
        'Altrios.Proofs.C08.C08_walk_step',
        'Altrios.Proofs.C08Hyb.C08_hybrid_step', 'Altrios.Proofs.C08Hyb.C08_hybrid_handoff', 'Altrios.Proofs.C08Hyb.C08_hybrid_res_share_le_max',
        'Altrios.Proofs.C08Hyb.C08_hybrid_gss_bounds', 'Altrios.Proofs.C08Hyb.C08_hybrid_ledger', 'Altrios.Proofs.C08Hyb.C08_hybrid_walk', 'Altrios.Proofs.C08Hyb.C08_hybrid_loco_step', 'Altrios.Proofs.C08Hyb.C08_hybrid_engine_off_counterexample',
    ] + KERNEL_THEOREMS,
    'nontrivial_stats': ['pt.loco.traction', 'pt.loco.braking', 'pt.loco.engine_off_step',
                         'pt.consist.traction_', 'pt.consist.braking_', 'pt.hyb.traction', 'pt.hyb.braking', 'pt.hyb.split_changed_by_search'],
    'rule': 'as C01; additionally interp1d / interp3d are called directly on shipped and generated maps with queries at, '
            'between and outside the knots and +-1 ulp, and the fuel converter alone with engine on/off',
    'assumptions': [FLOAT_ASSUMPTION,
                    'all efficiency-map values lie in (0,1] and time steps are non-negative (the property\'s own domain); '
                    'no two adjacent x-knots of a 1-D map are equal (guards the IEEE division)'] + [KERNEL_ASSUMPTION],
}

TEXT = {
    'design_ref': '§7.6',
    'note': NOTE_COMMON,
    'technique': 'Lean 4 proof (convexity of clamped interpolation, per-step inequalities, induction over traces) + '
                 'bit-exact differential correspondence + translator tie (the straight-line powertrain kernels are re-translated from the Rust text on every run and proved equal to the model)',
    'text': 'Kernel-checked: clamped 1-D interpolation stays within the map range without assuming a sorted grid '
            '(interp1d_range), trilinear interpolation likewise (interp3d_range); hence every efficiency is in (0,1]; for each '
            'component and both flow directions loss >= 0 and out <= in; dynamic braking is >= 0 and zero unless braking is '
            'demanded; cumulative fuel / loss / dyn-brake energies never decrease along any accepted trace (C08_walk_monotone, '
            'induction); an engine commanded off burns no fuel and draws no aux (C08_engine_off_loco; true of the repaired code, '
            'fix: e453317). Hybrids (Altrios/Hybrid.lean, Proofs/C08Hyb.lean): the same clauses for all four components of a hybrid in every accepted step FOR EVERY SPLIT the controller or the golden-section search may choose (C08_hybrid_step), the internal hand-offs (C08_hybrid_handoff), battery share <= its published limit (C08_hybrid_res_share_le_max), search interval within [0,1] (C08_hybrid_gss_bounds); whole hybrid traces with ANY sequence of splits: cumulative energies monotone over every prefix, every component within the second law after every step (C08_hybrid_walk, induction); the engine-off clause is false of hybrids (C08_hybrid_engine_off_counterexample, known finding C08-hybrid-ignores-engine-off). The search itself (argmin) is an external call, not modelled.',
}
