from cfg.common import FLOAT_ASSUMPTION, NOTE_COMMON
from cfg.kernels_pre import regen as regen_kernels, KERNEL_THEOREMS, KERNEL_TRUSTED, KERNEL_ASSUMPTION

PROP = {
    'anchors': [('consist/locomotive/powertrain/fuel_converter.rs', 'set_cur_pwr_out_max'), ('consist/locomotive/powertrain/fuel_converter.rs', 'solve_energy_consumption'), ('consist/locomotive/powertrain/generator.rs', 'set_pwr_in_req'), ('consist/locomotive/powertrain/generator.rs', 'set_cur_pwr_max_out'), ('consist/locomotive/powertrain/electric_drivetrain.rs', 'set_pwr_in_req'), ('consist/locomotive/powertrain/electric_drivetrain.rs', 'set_cur_pwr_max_out'), ('consist/locomotive/powertrain/electric_drivetrain.rs', 'set_cur_pwr_regen_max'), ('consist/locomotive/powertrain/reversible_energy_storage.rs', 'set_cur_pwr_out_max'), ('consist/locomotive/powertrain/reversible_energy_storage.rs', 'solve_energy_consumption'), ('consist/locomotive/conventional_loco.rs', 'set_cur_pwr_max_out'), ('consist/locomotive/battery_electric_loco.rs', 'set_cur_pwr_max_out'), ('consist/locomotive/battery_electric_loco.rs', 'solve_energy_consumption'), ('consist/locomotive/locomotive_model.rs', 'set_cur_pwr_max_out'), ('consist/consist_model.rs', 'set_cur_pwr_max_out'), ('consist/consist_model.rs', 'solve_energy_consumption'), ('utils/mod.rs', 'almost_le'), ('utils/mod.rs', 'almost_ge'), ('utils/mod.rs', 'interp1d')],
    'blocks': ['pt'],
    'pre': [regen_kernels],
    'trusted_extra': [KERNEL_TRUSTED],
    'proof_modules': ['C09', 'Kernels'],
    'namespaces': ['Altrios.Proofs.C09', 'Altrios.Proofs.Kernels'],
    'required_theorems': [
        'Altrios.Proofs.C09.C09_fc_cur_eq', 'Altrios.Proofs.C09.C09_fc_ramp', 'Altrios.Proofs.C09.C09_fc_le_rating',
        'Altrios.Proofs.C09.C09_fc_accept', 'Altrios.Proofs.C09.C09_fc_step', 'Altrios.Proofs.C09.C09_gen_accept',
        'Altrios.Proofs.C09.C09_edrv_accept', 'Altrios.Proofs.C09.C09_res_accept', 'Altrios.Proofs.C09.C09_res_limits',
        'Altrios.Proofs.C09.C09_res_derating', 'Altrios.Proofs.C09.C09_loco_limits', 'Altrios.Proofs.C09.C09_loco_step',
        'Altrios.Proofs.C09.C09_consist_accept', 'Altrios.Proofs.C09.C09_consist_limits',
        'Altrios.Proofs.C09.C09_soc_step', 'Altrios.Proofs.C09.soc_window_partial', 'Altrios.Proofs.C09.C09_bel_soc_run',
    ] + KERNEL_THEOREMS,
    'nontrivial_stats': ['pt.loco.traction', 'pt.loco.braking', 'pt.consist.traction_', 'pt.consist.braking_',
                         'pt.soc_window.in_domain'],
    'rule': 'as C01, with the demand of every step chosen relative to the limits the implementation just published '
            '(at, +1 ulp, x(1 +- tol/2), x(1 + 2 tol), below, negative up to and beyond the drivetrain rating), SOC '
            'started inside both derating ramps, assert_limits on and (15 %) off',
    'assumptions': [FLOAT_ASSUMPTION,
                    '"within" a limit is read with the code\'s own published tolerance: a < b(1+1e-3) or a < b+1e-3 W',
                    'SOC-window clause holds inside the step-size domain H_dt (rating*(1+tol)*dt <= eta_min*cap*ramp width): '
                    'FORCED (C09_soc_window_counterexample); outside it the oracle only counts',
                    'standalone units never compare the request with the published pwr_out_max (C09_loco_unit_limit_counterexample): '
                    'the clause "tractive power within the published locomotive limit" is enforced and proved at consist level'] + [KERNEL_ASSUMPTION],
}

TEXT = {
    'design_ref': '§7.7',
    'note': NOTE_COMMON,
    'technique': 'Lean 4 proof (accepted-step inversion, clamped-interpolation closed forms, inductive SOC invariant) + '
                 'bit-exact differential correspondence + translator tie (the straight-line powertrain kernels are re-translated from the Rust text on every run and proved equal to the model)',
    'text': 'Kernel-checked: the published engine transient limit equals max(min(prev + rating/lag*dt, rating), init\') and never '
            'exceeds the ramp bound or (for init <= rating) the rating; every accepted engine / generator / drivetrain / battery / '
            'consist step satisfies exactly the limit predicates the code publishes; battery limits are the closed-form SOC '
            'deratings in [0, rating] and never negative beyond aux; SOC stays in the window (with the tolerance slack) for every '
            'accepted run inside the step-size domain (C09_bel_soc_run, induction). Clauses that are false of the code without a '
            'hypothesis are proved as counterexamples (init > rating, ramp floor, one-sided drivetrain check, H_dt).',
}
