from cfg.common import FLOAT_ASSUMPTION, NOTE_COMMON
from cfg.kernels_pre import regen as regen_kernels, KERNEL_THEOREMS, KERNEL_TRUSTED, KERNEL_ASSUMPTION

PROP = {
    'anchors': [('consist/consist_utils.rs', 'solve_positive_traction'), ('consist/consist_utils.rs', 'solve_negative_traction'), ('consist/consist_utils.rs', 'get_pwr_regen_vec'), ('consist/consist_model.rs', 'solve_energy_consumption'), ('consist/consist_model.rs', 'set_cur_pwr_max_out'), ('consist/consist_model.rs', 'set_pwr_dyn_brake_max'), ('consist/locomotive/powertrain/electric_drivetrain.rs', 'set_cur_pwr_regen_max'), ('consist/locomotive/powertrain/electric_drivetrain.rs', 'set_pwr_in_req')],
    'blocks': ['pt'],
    'pre': [regen_kernels],
    'trusted_extra': [KERNEL_TRUSTED],
    'proof_modules': ['C10', 'Kernels'],
    'namespaces': ['Altrios.Proofs.C10', 'Altrios.Proofs.Kernels'],
    'required_theorems': [
        'Altrios.Proofs.C10.C10_sum', 'Altrios.Proofs.C10.C10_bounds_partial', 'Altrios.Proofs.C10.C10_regen',
        'Altrios.Proofs.C10.C10_regen_edrv', 'Altrios.Proofs.C10.C10_battery_first', 'Altrios.Proofs.C10.C10_no_panic',
        'Altrios.Proofs.C10.C10_end_to_end', 'Altrios.Proofs.C10.C10_simstep',
        'Altrios.Proofs.C10.C10_simstep_counterexample',
    ] + KERNEL_THEOREMS,
    'nontrivial_stats': ['pt.consist.traction_', 'pt.consist.braking_'],
    'rule': 'each evaluation is one whole consist step (set_pwr_aux, set_cur_pwr_max_out, solve_energy_consumption) or one '
            'of its parts, on consists of 1-8 units in any mix/order under both policies, demand chosen relative to the '
            'limits just published; non-trivial = accepted step with non-zero traction or braking',
    'assumptions': [FLOAT_ASSUMPTION,
                    'per-unit traction bounds are proved under 0 <= published pwr_out_max of every unit: FORCED, the code does '
                    'not guarantee it (C10_simstep_counterexample; known finding C10-bel-negative-traction-limit)'] + [KERNEL_ASSUMPTION],
}

TEXT = {
    'design_ref': '§7.8',
    'note': NOTE_COMMON,
    'technique': 'Lean 4 proof (list-sum algebra over the five split branches) + bit-exact differential correspondence + translator tie (the straight-line powertrain kernels are re-translated from the Rust text on every run and proved equal to the model)',
    'text': 'Kernel-checked for all unit lists and both policies: the shares sum to the request in all five branches with all '
            'denominators derived non-zero from the consist-level limit checks (C10_sum), regeneration only on battery units and '
            'within their published limit (C10_regen, C10_regen_edrv), battery-first (C10_battery_first), the RESGreedy assertion '
            'is unreachable (C10_no_panic), whole accepted step incl. re-established invariants (C10_end_to_end, C10_simstep). '
            'The per-unit traction bounds need 0 <= published limit, which the unchanged code violates for a battery unit '
            'whose derated discharge limit is below its aux load: proved as C10_simstep_counterexample, reproduced on the real '
            'code by the oracle and reported as a KNOWN-FINDING; any other violation of the clause is still a VIOLATION.',
}
