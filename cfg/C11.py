from cfg.common import FLOAT_ASSUMPTION, NOTE_COMMON
from cfg.kernels_pre import regen as regen_kernels, KERNEL_THEOREMS, KERNEL_TRUSTED, KERNEL_ASSUMPTION
from cfg.train_kernels_pre import (regen as regen_train_kernels, TRAIN_KERNEL_THEOREMS_FOR, TRAIN_KERNEL_TRUSTED,
                                   TRAIN_KERNEL_ASSUMPTION)

PROP = {
    'anchors': [('train/set_speed_train_sim.rs', 'solve_step'), ('train/set_speed_train_sim.rs', 'solve_required_pwr'), ('train/speed_limit_train_sim.rs', 'solve_step'), ('train/speed_limit_train_sim.rs', 'solve_required_pwr'), ('train/speed_limit_train_sim.rs', 'get_scaling_factor'), ('train/speed_limit_train_sim.rs', 'get_energy_fuel'), ('train/speed_limit_train_sim.rs', 'get_net_energy_res'), ('train/speed_limit_train_sim.rs', 'get_kilometers'), ('train/speed_limit_train_sim.rs', 'get_megagram_kilometers'), ('consist/consist_model.rs', 'solve_energy_consumption')],
    'blocks': ['train'],
    'pre': [regen_train_kernels, regen_kernels],
    'trusted_extra': [TRAIN_KERNEL_TRUSTED, KERNEL_TRUSTED],
    'proof_modules': ['C11', 'C11Hyb', 'TrainKernels', 'Kernels'],
    'namespaces': ['Altrios.Proofs.C11', 'Altrios.Proofs.C11Hyb', 'Altrios.Proofs.TrainKernels', 'Altrios.Proofs.Kernels'],
    'required_theorems': [
        'Altrios.Proofs.C11Hyb.C11_rollup_is_sum', 'Altrios.Proofs.C11Hyb.C11_rollup_append', 'Altrios.Proofs.C11Hyb.C11_rollup_hybrid_counted',
        'Altrios.Proofs.C11Hyb.C11_rollup_order_independent',
        'Altrios.Proofs.C11.C11_inner_call',
        'Altrios.Proofs.C11.C11_ss_power',
        'Altrios.Proofs.C11.C11_sl_power',
        'Altrios.Proofs.C11.C11_ss_energy',
        'Altrios.Proofs.C11.C11_sl_energy',
        'Altrios.Proofs.C11.C11_scaling_factor',
        'Altrios.Proofs.C11.C11_trip_outputs',
        'Altrios.Proofs.C11.C11_ss_walk',
        'Altrios.Proofs.C11.C11_sl_walk',
        'Altrios.Proofs.C11.C11_ss_closed',
        'Altrios.Proofs.C11.C11_sl_closed',
        'Altrios.Proofs.C11.C11_trip_outputs_run',
    ] + TRAIN_KERNEL_THEOREMS_FOR['C11'] + KERNEL_THEOREMS,
    'nontrivial_stats': ['train.ss.step_ok', 'train.sl.step_ok'],
    'rule': 'each evaluation is one whole real train-simulation step (ss_step / sl_step: train state + consist + every '
            'locomotive) or one of its parts, replayed through the composed Lean model; non-trivial = every accepted step',
    'assumptions': [FLOAT_ASSUMPTION,
                    'per-unit share bounds inherit the forced hypothesis of C10 (non-negative published limits)'] + [TRAIN_KERNEL_ASSUMPTION, KERNEL_ASSUMPTION],
}

TEXT = {
    'design_ref': '§7.9',
    'note': NOTE_COMMON,
    'technique': 'Lean 4 proof (composition of the C10/C01 theorems with the train step, induction over steps) + bit-exact correspondence + translator tie (the straight-line train kernels are re-translated from the Rust text on every run and proved equal to the model)',
    'text': ('Kernel-checked composition of the C10 sum theorem and the C01 roll-ups with the train step: in every accepted set-speed and speed-limited step the consist is '
             "asked for exactly the train's wheel power with the same dt and reports delivering it = sum over locomotives (C11_ss_power, C11_sl_power); wheel energy and its "
             'positive / negative parts advance identically at train and consist level and as the sum over units (C11_*_energy); by induction from zero counters the totals are '
             'equal at every saved step and consist fuel / battery energy equal the sums over units (C11_ss_closed, C11_sl_closed); trip outputs are the totals times the '
             'annualization factor, which is 1 when not annualizing (C11_trip_outputs, C11_scaling_factor). The whole train step (train state + consist + every locomotive) is '
             'reproduced bit for bit by the composed model. '
             'Consist-level fuel / battery getters over all THREE locomotive types (hybrids included; Altrios.Hyb.consistFuel / consistChem, Proofs/C11Hyb.lean): they are the sums over every unit with an '
             'engine / a battery, additive under coupling, a hybrid anywhere contributes both, any reordering of the units leaves them unchanged (C11_rollup_*); op consist3_totals bit-exact on '
             'consists coupled from individually stepped conventional, battery and hybrid units. '),
}
