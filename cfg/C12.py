from cfg.common import FLOAT_ASSUMPTION, NOTE_COMMON
from cfg.train_kernels_pre import (regen as regen_train_kernels, TRAIN_KERNEL_THEOREMS_FOR, TRAIN_KERNEL_TRUSTED,
                                   TRAIN_KERNEL_ASSUMPTION)

PROP = {
    'anchors': [('train/train_state.rs', 'set_link_and_offset'), ('train/set_speed_train_sim.rs', 'solve_step'), ('train/speed_limit_train_sim.rs', 'solve_required_pwr'), ('train/speed_limit_train_sim.rs', 'solve_step'), ('train/resistance/method/strap.rs', 'update_res')],
    'blocks': ['train'],
    'pre': [regen_train_kernels],
    'trusted_extra': [TRAIN_KERNEL_TRUSTED],
    'proof_modules': ['C12', 'TrainKernels'],
    'namespaces': ['Altrios.Proofs.C12', 'Altrios.Proofs.TrainKernels'],
    'required_theorems': [
        'Altrios.Proofs.C12.C12_ss_integrate',
        'Altrios.Proofs.C12.C12_ss_step',
        'Altrios.Proofs.C12.C12_ssStep',
        'Altrios.Proofs.C12.C12_sl_step',
        'Altrios.Proofs.C12.C12_snap_bound',
        'Altrios.Proofs.C12.C12_sl_mean_partial',
        'Altrios.Proofs.C12.C12_locate',
        'Altrios.Proofs.C12.C12_locate_unique',
        'Altrios.Proofs.C12.C12_locate_ok',
        'Altrios.Proofs.C12.C12_step_located',
        'Altrios.Proofs.C12.C12_ss_walk',
        'Altrios.Proofs.C12.C12_sl_run',
        'Altrios.Proofs.C12.C12_forward_step_ok',
        'Altrios.Proofs.C12.C12_snap_counterexample',
    ] + TRAIN_KERNEL_THEOREMS_FOR['C12'],
    'nontrivial_stats': ['train.ss.step_ok', 'train.sl.step_ok'],
    'rule': 'each evaluation is one real solve_step / solve_required_pwr / set_link_and_offset call of a set-speed or '
            'speed-limited run over routes with segments from a few metres to kilometres; non-trivial = every accepted step',
    'assumptions': [FLOAT_ASSUMPTION] + [TRAIN_KERNEL_ASSUMPTION],
}

TEXT = {
    'design_ref': '§7.10',
    'note': NOTE_COMMON,
    'technique': 'Lean 4 proof (step equations, locate_spec, induction over the step list) + bit-exact correspondence + translator tie (the straight-line train kernels are re-translated from the Rust text on every run and proved equal to the model)',
    'text': ('Kernel-checked: every accepted set-speed and speed-limited step advances time by the step size, the front by dt times the trapezoid mean, keeps rear = front - length '
             '(true of the repaired code, fix: ca9fd5c) and adds |move| to total distance (C12_ss_step, C12_ssStep, C12_sl_step); set_link_and_offset returns the unique '
             'segment with off_i < x <= off_{i+1}, base + in-segment offset = position, 0 < in-segment offset <= segment length (C12_locate*, per position, so multi-boundary '
             'steps need nothing extra); lifted over runs by induction (C12_ss_walk, C12_sl_run). Forced case split proved: when the almost_eq snap to the target fires the '
             "advance differs from dt*(v+v')/2 by dt/2*|target-(v+dv)| < tolerance (C12_snap_counterexample, C12_snap_bound). "),
}
