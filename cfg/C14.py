from cfg.common import FLOAT_ASSUMPTION, NOTE_COMMON
from cfg.kernels_pre import regen as regen_kernels, KERNEL_THEOREMS, KERNEL_TRUSTED, KERNEL_ASSUMPTION
from cfg.train_kernels_pre import (regen as regen_train_kernels, TRAIN_KERNEL_THEOREMS_FOR, TRAIN_KERNEL_TRUSTED,
                                   TRAIN_KERNEL_ASSUMPTION)

PROP = {
    'anchors': [('train/set_speed_train_sim.rs', 'solve_step'), ('train/set_speed_train_sim.rs', 'solve_required_pwr'), ('train/set_speed_train_sim.rs', 'mean'), ('train/set_speed_train_sim.rs', 'dt')],
    'blocks': ['train'],
    'pre': [regen_train_kernels, regen_kernels],
    'trusted_extra': [TRAIN_KERNEL_TRUSTED, KERNEL_TRUSTED],
    'proof_modules': ['C14', 'TrainKernels', 'Kernels'],
    'namespaces': ['Altrios.Proofs.C14', 'Altrios.Proofs.TrainKernels', 'Altrios.Proofs.Kernels'],
    'required_theorems': [
        'Altrios.Proofs.C14.C14_power',
        'Altrios.Proofs.C14.C14_clip',
        'Altrios.Proofs.C14.C14_negative_rejected',
        'Altrios.Proofs.C14.C14_first_sample_rejected',
        'Altrios.Proofs.C14.C14_accepted_nonneg',
        'Altrios.Proofs.C14.C14_walk_samples_nonneg',
        'Altrios.Proofs.C14.C14_follows_trace',
    ] + TRAIN_KERNEL_THEOREMS_FOR['C14'] + KERNEL_THEOREMS,
    'nontrivial_stats': ['train.ss.clipped', 'train.ss.unclipped'],
    'rule': 'each evaluation is one real SetSpeedTrainSim step (whole solve_step and its parts) on traces with irregular time '
            'stamps, stop-and-go and both clips saturated; non-trivial = accepted steps (clipped and unclipped counted separately)',
    'assumptions': [FLOAT_ASSUMPTION] + [TRAIN_KERNEL_ASSUMPTION, KERNEL_ASSUMPTION],
}

TEXT = {
    'design_ref': '§7.11',
    'note': NOTE_COMMON,
    'technique': 'Lean 4 proof (kinetic-energy identity, clamp algebra) + bit-exact correspondence + translator tie (the straight-line train kernels are re-translated from the Rust text on every run and proved equal to the model)',
    'text': ('Kernel-checked: an accepted step has time and speed equal to the trace sample; wheel power = d/dt(1/2 m_compound v^2) + res_net * mean speed clamped to '
             '[-max(dyn_brake_max,0), min(out_max, max(0, prev + rate*dt_prev))], unclipped iff the raw demand is inside (C14_power, C14_clip); energies advance by that power '
             'times the trace step; the same power and step size are handed to the consist (C14_follows_trace); every sample of an accepted walk, including the first, is '
             'non-negative (C14_walk_samples_nonneg; true of the repaired code, fix: f3961ec — the pinned code never tested speed[0]). '),
}
