from cfg.common import FLOAT_ASSUMPTION, NOTE_COMMON

# configuration of ./check for this property
PROP = {
    'blocks': ['est'],
    'proof_modules': ['C15'],
    'namespaces': ['Altrios.Proofs.C15'],
    'required_theorems': [
        'Altrios.Proofs.C15.C15_links',
        'Altrios.Proofs.C15.every_walk_reaches_end',
        'Altrios.Proofs.C15.C15_walks',
        'Altrios.Proofs.C15.C15_route',
        'Altrios.Proofs.C15.C15_times',
        'Altrios.Proofs.C15.C15_time_eq',
        'Altrios.Proofs.C15.C15_time_le',
        'Altrios.Proofs.C15.C15_running_time_tol',
        'Altrios.Proofs.C15.C15_running_time',
        'Altrios.Proofs.C15.fwdCheck_sound',
        'Altrios.Proofs.C15.C15_forward_spec_partial',
        'Altrios.Proofs.C15.C15_passes_frame',
        'Altrios.Proofs.C15.Ex.gEx_ok',
        'Altrios.Proofs.C15.Ex.passes_example',
        'Altrios.Proofs.C15.Defect.unrepaired_output_rejected',
        'Altrios.Proofs.C15.Defect.running_time_counterexample',
    ],
    'level': 'proof',
    # scenarios whose estimated-time graph has at least one alternative route; passes that relinked something
    'nontrivial_stats': ['est.graph.with_alternatives', 'est.pass.forward_relinked', 'est.pass.backward_relinked',
                         'est.mutant.rejected'],
    'rule': 'one evaluation = one op line: the real update_times_forward / update_times_backward on a node vector (the one '
            'make_est_times had just before its passes, observed through the verif-hooks observer, and the same topology '
            'with re-drawn durations: ties, zeros, dyadic and arbitrary doubles) reproduced bit for bit by the literal Lean '
            'model; or the verified checker estNetCheck / fwdCheck evaluated at Float on a finished network (every network '
            'make_est_times returned for generated single-track networks with 0-4 sidings of one or two links, also parallel to '
            'the first / last segment = several origin / destination links, trains in both directions, several departure '
            'times; and 6-8 mutated copies of each) against the verdict, clause by clause, of an independent Rust oracle '
            'that enumerates every start-to-end walk.  Non-trivial = network with at least one alternative route, pass run '
            'that relinked at least one node, mutant rejected by both sides.',
    'assumptions': [
        FLOAT_ASSUMPTION,
        'PARTIAL: construction by simulation (make_est_times up to its linking assertions: branching train simulations, '
        'insert_est_time, join detection) is NOT modelled; what is proved is the soundness of a decision procedure '
        '(estNetCheck) for the property on a finished node vector, for all vectors; that procedure is then evaluated on '
        'every network the real construction returns in this run and agrees with an independent exhaustive oracle',
        'finiteness of times is a clause of the checker evaluated at Float (Float.isFinite); over the ordered field of '
        'the theorems it is the supplied predicate (vacuous)',
        'time equalities are checked with an absolute tolerance of 1e-6 s (the backward pass subtracts a slack from '
        'already rounded sums); the theorems carry the tolerance explicitly (tol = 0 for the exact statements)',
        'the forward pass is proved to yield shortest-path times only under the explicit decidable hypothesis that its '
        'output passes fwdCheck (evaluated exactly, tolerance 0, on every case of this run); the unconditional statement '
        'C15_forward_spec_statement is stated and not proved; the backward pass is tied by correspondence and by the '
        'checker on its outputs only',
        'get_running_time_hours is compiled only with pyo3 (not reachable from the harness): its body is pinned textually '
        'every run and its arithmetic re-executed through uom',
        'the reading of the time clauses: "primary predecessor" = idx_prev when it reaches the node by its idx_next link; '
        '"predecessor allows" = predecessor time + time_to_next for an idx_next link, predecessor time for an idx_next_alt '
        'link (the alternate is a zero-length fake); "cleared after entered" = at every prefix of a walk the links cleared '
        'are a prefix of the links entered (links still under the train when it stops are never cleared)',
    ],
}

# MANIFEST.json texts
TEXT = {
    'design_ref': '§7.15',
    'note': NOTE_COMMON + ' Additionally trusted here: the verif-hooks observer/wrappers in est_times/mod.rs (add-only), '
            'the textual pin of get_running_time_hours, and the generators of the est block (single track with sidings; '
            'no crossovers, no adjacent sidings).',
    'technique': 'Lean 4 proof of a verified checker (rank + automaton lifted from links to all walks by induction) '
                 '+ literal model of the two relinking passes in bit-exact correspondence + exhaustive-walk oracle',
    'text': 'PARTIAL. Kernel-checked for all node vectors: if estNetOk accepts then forward/backward links are mutually '
            'consistent (C15_links); a validated rank strictly increases along every idx_next/idx_next_alt link, so every '
            'walk from the start is shorter than the node count, can only stop at the end node and can be continued to it '
            '(every_walk_reaches_end); on every start-to-end walk the arrive events form a contiguous track route from an '
            'origin to a destination and at every prefix the links cleared are a prefix of the links entered (C15_route, '
            'an automaton validated on every link and lifted to walks by induction); times set, finite, non-negative '
            '(C15_times); node time = primary predecessor time + duration (C15_time_eq); no node later than any predecessor '
            'allows (C15_time_le); last - first = duration of the fastest start-to-end walk, and get_running_time_hours is '
            'that in hours (C15_running_time). The checker runs at Float on every network the real make_est_times returns '
            'and must agree, clause by clause, with an exhaustive-walk Rust oracle (also on mutated networks). The two '
            'passes are modelled literally and reproduce the implementation bit for bit (integers and doubles), on real '
            'pre-pass vectors and on re-drawn durations; the forward output is certified per case by fwdCheck, proved to '
            'characterise shortest-path times (C15_forward_spec_partial). Construction by simulation is not modelled. '
            'Three defects of the passes were found and repaired (C15-fix-1..3: wrong first time with several origins, '
            'alternate keyed by the wrong time, alternates discovered too late); two remain as KNOWN-FINDINGs: scheduled '
            'times of alternate branches can be negative (the backward pass shifts a slower branch earlier by its slack), '
            'and a route shorter than 5 miles plus the train never lets the simulated train depart.',
}
