from cfg.common import NOTE_COMMON

# configuration of ./check for this property
PROP = {'assumptions': ['the code is comparison-only: numbers are modelled as Num = nan | -inf | fin a | +inf with the IEEE '
                 'comparison tables (NaN compares false, == included); the finite payload is an arbitrary linear order in '
                 'the theorems and the exact rational value of the double in the driver (+0 and -0 both map to 0); '
                 'x.trunc() == x is the abstract predicate isInt (denominator 1 in the driver)',
                 "Link.speed_sets is a HashMap: modelled as an association list; the validator's verdict is proved "
                 'independent of the order of its entries (C16_order_independent), so nothing is assumed about hash-map '
                 'iteration order',
                 'the legacy layout cannot express the type-neutral Link.speed_set; "same network" is claimed for '
                 'networks with speed_set = None (LegacyExpressible); duplicated train types in a legacy file are resolved '
                 'as the code does (last entry wins, C16_legacy_last_wins)',
                 '"documented rules" = the rule list of the property statement read against the code\'s own error '
                 'messages: speed restrictions must be well-formed, sorted and have unique (start, end) bounds (they MAY '
                 'overlap: the crate\'s own fixture Vec::<SpeedLimit>::valid() = [0,10000]@20, [5000,10000]@10 is a nested '
                 'pair that its unit tests require to validate, and the profile code of C02/C13 takes the minimum over '
                 'overlapping restrictions); catenary sections must not overlap; the docs page rail-network.md itself '
                 'only contains the link table, which the generator replays (family "docs")',
                 'text parsers are outside the model: serde_json writes NaN/inf as null and its default float parser is '
                 'not correctly rounded (1 ulp), so the JSON path is compared only when the text parses back to the same '
                 'network (counted as net.json.roundtrip_same / float_parse_drift / non_finite_not_representable); YAML '
                 'round trips are exact and always compared'],
 'blocks': ['net'],
 'namespaces': ['Altrios.Proofs.C16'],
 'nontrivial_stats': ['net.mut.', 'net.pairs', 'net.elem.', 'net.legacy.', 'net.file.'],
 'proof_modules': ['C16'],
 'required_theorems': ['Altrios.Proofs.C16.C16_validate_iff',
                       'Altrios.Proofs.C16.C16_validate_total',
                       'Altrios.Proofs.C16.C16_verdict',
                       'Altrios.Proofs.C16.C16_out_of_range_is_error',
                       'Altrios.Proofs.C16.C16_order_independent',
                       'Altrios.Proofs.C16.C16_legacy_roundtrip',
                       'Altrios.Proofs.C16.C16_legacy_verdict',
                       'Altrios.Proofs.C16.C16_legacy_same_verdict',
                       'Altrios.Proofs.C16.C16_legacy_last_wins'],
 'rule': 'per generated network and per single-fault / benign mutation of it (each rule, at each link; pairs; '
         'out-of-range indices, NaN, +-inf, -0.0 in every numeric field): (1) the verdict ok|err|panic of '
         '<[Link]>::validate, Link::validate, the element validators and Network::from(NetworkOld).validate() must equal '
         "the Lean model's; Link::from(LinkOld) must equal the model's fromOldLink field by field; (2) oracle, "
         'independent of the model: never a panic on any path (direct, Network wrapper, from_json, from_yaml, '
         'from_file incl. the NetworkOld fallback); accept <=> an independent Rust transcription of the rules; every '
         'mutation labelled fault is rejected and every mutation labelled benign accepted; all load paths give the same '
         'verdict and the same network; the legacy layout of the same data (shuffled, with shadowed duplicate train '
         'types) loads to the same network with the same verdict; shipped network files load',
 'trusted_extra': ['serde / serde_json / serde_yaml and file I/O are exercised (round trips compared on every case) '
                   'but not modelled']}

# MANIFEST.json texts
TEXT = {'design_ref': '§7.16',
 'note': NOTE_COMMON + ' For this property the model has no arithmetic at all (comparisons only), so there is no '
         'rounding gap: the driver evaluates the model on the exact rational value of every double and on explicit '
         'NaN/+-inf constructors.',
 'technique': 'Lean 4 proof (decision procedure = specification, case analysis over IEEE comparison tables, list '
              'induction) + differential correspondence with the Rust code',
 'text': 'Kernel-checked theorems about a transcription of <[Link] as ObjState>::validate in which every slice index '
         'and unwrap is a checked access: for EVERY list of links, with arbitrary indices and NaN/inf field values, the '
         'validator answers ok exactly when the network satisfies the documented rules stated independently as '
         'Consistent (C16_validate_iff), never panics (C16_validate_total), and therefore reports every violation as an '
         'error value (C16_verdict, C16_out_of_range_is_error); the verdict does not depend on hash-map iteration order '
         '(C16_order_independent); From<LinkOld> keeps the last legacy entry per train type (C16_legacy_last_wins), '
         'round-trips every legacy-expressible network (C16_legacy_roundtrip) and preserves the verdict '
         '(C16_legacy_verdict). Holds of the code after the two repairs 7995fdc (catenary overlap test was inverted) '
         'and 69513aa (out-of-range references panicked).'}
