import os
import sys

from cfg.common import NOTE_COMMON


def regen(root):
    """`pre` hook of ./check: re-extract the serde attribute table of every serializable type from the
    working tree into lean/Generated/SerdeSchema.lean on EVERY check.  When the scanner meets a shape it
    does not understand it writes a stub table with `scanOk := false` instead: Proofs/C17.lean
    (theorem C17_scan_ok) then does not build, the check goes on to run the oracle on the implementation
    and reports a VIOLATION either way."""
    sys.path.insert(0, os.path.join(root, "scan"))
    import scan_serde
    scan_serde.regen(root)


# configuration of ./check for this property
PROP = {
    'pre': [regen],
    'level': 'proof',
    'assumptions': [
        'PARTIAL: what is proved is the STRUCTURAL codec (which fields are written, under which key, in which order; '
        'what a missing key becomes on load; what a load resets) as determined by the #[serde(...)] attributes of the '
        'source; printing/parsing a double as YAML/JSON text and the byte layout of bincode primitives are serde_yaml / '
        'serde_json / ryu / bincode internals: exercised on every run (bit-exact comparison), not proved',
        'the model is purely discrete (trees, lists, strings): a leaf (number, string, bool, uom quantity, LinkIdx with its '
        'hand-written codec) is an opaque atom; a HashMap is the list of its entries in the order the library iterates them',
        'the attribute table (105 types, 601 fields) is re-extracted from the Rust sources by scan/scan_serde.py on every '
        'check; the scanner is a strict reader (any serde attribute, container attribute, variant shape or field type it '
        'does not know is an error, never a guess) but is trusted to report what it recognises correctly; that trust is '
        'checked on every run against the real encoders: the keys, their order, the omitted fields (against typed field '
        'access), the bincode byte count and the bincode round-trip verdict of sampled real objects must equal what the '
        'model computes from the scanned table',
        'the `Default` impls of the crate are a parameter of every definition and theorem (any function Ty -> Val)',
        'the three #[serde(skip)] caches are in a hand-kept list of lazily rebuilt caches (Serde.lean rebuiltCaches); the '
        'rebuild-before-first-use is proved on the powertrain model for Generator / ElectricDrivetrain (C17_cache_rebuild_*) '
        'and exercised for Consist.n_res_equipped (totals of resumed runs)',
        'behaviour after a reload ("behaves identically in every subsequent step", "resumed run = uninterrupted run") is '
        'exercised, not proved: every step index of the generated short simulations is a checkpoint in every format',
        'the harness steps simulations through the public `step()` (as Python does); `walk()` additionally records the '
        'initial row, which is not part of the comparison',
    ],
    'blocks': ['serde'],
    'namespaces': ['Altrios.Proofs.C17'],
    'nontrivial_stats': ['serde.ops.with_omitted_field', 'serde.resume.', 'serde.rt_ok.'],
    'proof_modules': ['C17'],
    'required_theorems': [
        'Altrios.Proofs.C17.C17_scan_ok',
        'Altrios.Proofs.C17.C17_selfdesc_roundtrip',
        'Altrios.Proofs.C17.C17_norm_idem',
        'Altrios.Proofs.C17.C17_second_roundtrip_identity',
        'Altrios.Proofs.C17.C17_positional_roundtrip_iff',
        'Altrios.Proofs.C17.C17_positional_hit_fails',
        'Altrios.Proofs.C17.C17_table_wf',
        'Altrios.Proofs.C17.C17_table_skips_rebuilt',
        'Altrios.Proofs.C17.C17_every_table_type_roundtrips',
        'Altrios.Proofs.C17.C17_bincode_default_counterexample',
        'Altrios.Proofs.C17.C17_cache_rebuild_gen',
        'Altrios.Proofs.C17.C17_cache_rebuild_edrv',
    ],
    'rule': 'for every sampled object x of every exported type (default state, generated, and every step index of short '
            'simulations) and each of YAML / JSON / bincode through SerdeAPI: x1 = load(save x) must succeed and have a '
            'serialized value tree identical to x bit for bit (JSON: <= 1 ulp per number), x1 == x by PartialEq after '
            'repopulating the skip caches; x2 = load(save x1) identical to x1; four JSON trips stay within 1 ulp of x; a '
            'run resumed from x1 must have the same per-step ok/err outcomes, the same final object (= remaining '
            'trajectory, bit for bit; within 1e-9 relative if a JSON reload was off by rounding) and the same reported '
            'totals as the uninterrupted run.  Failures are attributed to a known-finding clause ONLY for (format=bin and '
            'some skip_serializing_if field, recursively, at its default) resp. (format=json and the object holds a '
            'NaN/inf); anything else is a VIOLATION.  The Lean model must reproduce keys/order/omitted fields/bincode size/'
            'bincode verdict of every sampled object from the regenerated table.',
}

# MANIFEST.json texts
TEXT = {
    'category': 'proof',
    'design_ref': '§7.17',
    'note': NOTE_COMMON + ' C17 is PARTIAL: the proof covers the structural codec over the regenerated attribute table; the '
            'float text codecs (serde_yaml, serde_json+ryu), bincode\'s primitive layout, and the behaviour of a reloaded '
            'object in later simulation steps are exercised on every run (bit-exact), not proved.  The scanner '
            '(scan/scan_serde.py, a strict tokenizer/bracket matcher, not a Rust parser) is trusted to read attributes; its '
            'table is cross-checked against the real encoders every run.',
    'technique': 'Lean 4 proof (mutual structural induction over schemas) over a table regenerated from the source on every '
                 'run + differential correspondence with the real serde encoders + save/load/resume oracle on the real code',
    'text': 'PARTIAL. Kernel-checked for ALL schemas, values and Default impls: a well-formed schema round-trips through the '
            'self-describing codec to norm(x) = x with the #[serde(skip)] caches reset (C17_selfdesc_roundtrip); norm is '
            'idempotent and the second round trip is the identity on what the first load returned '
            '(C17_norm_idem, C17_second_roundtrip_identity: "saving and reloading it again returns an equal object"); the '
            'positional (bincode) round trip succeeds IF AND ONLY IF no skip_serializing_if predicate holds anywhere inside '
            'the value (C17_positional_roundtrip_iff; hence C17_positional_hit_fails and, on the real table, '
            'C17_bincode_default_counterexample: FuelConverter::default() does not survive bincode). The well-formedness '
            'obligations (every conditionally skipped field comes back as exactly the value its predicate compared with; no '
            'Option of a nullable type; distinct keys / variant names; every #[serde(skip)] field is a known lazily rebuilt '
            'cache; a skipped field is never zero-width in bincode) are decided by the kernel over the table of all 105 '
            'serializable types re-extracted from the source on every run (C17_table_wf, C17_every_table_type_roundtrips), '
            'so a new #[serde(skip)] on a field that is not rebuilt or a skip_serializing_if without default breaks the '
            'build. A reset cache is rebuilt with the same content before first use (C17_cache_rebuild_gen/edrv on the '
            'powertrain model). NOT proved, exercised on every run on the real code: the YAML/JSON float text codecs and '
            'bincode byte layout (bit-exact comparison of every reloaded object), PartialEq equality, and identical '
            'continuation of LocomotiveSimulation / ConsistSimulation / SetSpeedTrainSim / SpeedLimitTrainSim from a copy '
            'loaded at every step index in every format. Holds of the tree with three repairs (fresh Consist = reloaded '
            'Consist in the first step; Location readable from bincode; serde_json float_roundtrip: JSON is bit-exact and does '
            'not drift). Known findings, still present: bincode fails whenever a skip_serializing_if field is at its default '
            '(every freshly constructed component); JSON cannot reload an object holding NaN/inf (finished PathTpc, '
            'InitTrainState::default()).',
}
