import importlib.util
import os


def regen(root):
    """re-run the order-site scanner on /repo's working tree (rewrites lean/Generated/OrderSites.lean
    only when its content changes; a scanner problem becomes an `unreviewed` pseudo-site, i.e. a
    broken `C18_sites_reviewed`, never a silent pass)"""
    p = os.path.join(root, "scan", "scan_order_sites.py")
    spec = importlib.util.spec_from_file_location("scan_order_sites", p)
    mod = importlib.util.module_from_spec(spec)
    spec.loader.exec_module(mod)
    mod.regen(root, repo=os.environ.get("VERIF_REPO", "/repo"))


# configuration of ./check for this property
PROP = {
    'pre': [regen],
    'blocks': ['det'],
    'proof_modules': ['C18'],
    'namespaces': ['Altrios.Proofs.C18'],
    'level': 'proof',
    'required_theorems': [
        'Altrios.Proofs.C18.C18_par_elementwise',
        'Altrios.Proofs.C18.C18_order_independent',
        'Altrios.Proofs.C18.C18_isolation',
        'Altrios.Proofs.C18.C18_error_reported',
        'Altrios.Proofs.C18.C18_serial_is_schedule',
        'Altrios.Proofs.C18.C18_par_eq_serial',
        'Altrios.Proofs.C18.C18_explainable_iff',
        'Altrios.Proofs.C18.C18_cars_total_perm',
        'Altrios.Proofs.C18.C18_find_distinct_keys_perm',
        'Altrios.Proofs.C18.C18_verdict_perm',
        'Altrios.Proofs.C18.C18_set_collect_perm',
        'Altrios.Proofs.C18.C18_difference_perm',
        'Altrios.Proofs.C18.C18_sites_reviewed',
        'Altrios.Proofs.C18.C18_sites_anchored',
        'Altrios.Proofs.C18.C18_sites_justified',
    ],
    'nontrivial_stats': ['det.par_obs.failing_batch', 'det.par_obs.all_ok', 'det.raw_text_differs_across_processes',
                         'det.cars_total.', 'det.find_key.', 'det.child.pool_'],
    'rule': 'PARTIAL. An evaluation is one op: `ser_run` = the real serial batch walk reproduced exactly by the model; '
            '`par_check` = one observation of the real parallel batch walk (this process\'s default pool, and fresh '
            'processes with rayon pools of 1,2,3,4,8,16 threads) that the model must be able to explain by some admissible '
            'schedule; `cars_total` / `find_key` = the two folds over std hash maps on the implementation\'s own iteration '
            'order. Independently the oracle compares canonical serializations byte for byte: twice in-process, in >= 12 '
            'fresh processes (new hash seeds), parallel vs serial. Non-trivial = parallel observations (with and without '
            'failing elements), fresh processes per pool size, outputs whose RAW text order differed across processes '
            '(hash-map serialization order actually varied) and the map folds.',
    'assumptions': [
        'PARTIAL: the theorems are about the schedule model Altrios/Par.lean (any order, any early stop rayon\'s '
        'try_for_each contract allows) and about list permutations standing for hash iteration orders; that rayon '
        'implements its contract, that std RandomState / hashbrown only permute iteration order, and that the '
        'sequential simulation code is a pure function of its inputs are NOT proved - they are exercised by the '
        'run-time differential of block `det` (fresh processes, pool sizes 1..16), which is sampling',
        'the closure passed to par_iter_mut touches only its own element: established by review; the scanner pins the '
        'reviewed statement text (any edit makes the site `unreviewed` and breaks C18_sites_reviewed)',
        'nohash-hasher IntMap/IntSet iteration order is a function of the inserted keys and the operation history only '
        '(identity hasher without per-process state): ASSUMED (Just.seedlessHasher), exercised across fresh processes; '
        'the iteration in add_new_join_paths IS order-sensitive',
        'error MESSAGE text is outside the property: several messages print hash-map keys or positions in hash order '
        '(observed this run for network validation: "Speed set at index = k" varies between processes while the verdict '
        'does not); map-typed fields (Link.speed_sets, TrainConfig.n_cars_by_type) serialize in hash order - outputs are '
        'compared after sorting map keys and raw-order differences are only counted',
        'the scanner is a regex/bracket reader with a small type resolver, not a Rust front end: containers reaching an '
        'iteration only through closure parameters, match arms, generics, macros, or foreign functions taking the whole '
        'container can be missed; polars groupby/unique calls (train_config.rs run_speed_limit_train_sims) are listed in '
        'Generated.OrderSites.foreignUnordered but NOT judged and not reached by the harness; hash containers that exist only as a temporary '
        '(`collect::<HashMap<..>>().into_values()`) and per-thread / process-wide mutable state (`thread_local!`, `lazy_static!`, `static mut`, statics with '
        'interior mutability; the verif-hooks observer modules are exempt) are reported since seeded changes C18e / C18f showed both were missed',
        'floating-point non-associativity is invisible to the field/Nat lemmas: by rule any fold over a non-integer type '
        'in hash or scheduling order is `unreviewed` (Site.ok)',
    ],
    'trusted_extra': [
        '/verif/scan/scan_order_sites.py (site discovery and its table of reviewed statements)',
        'serde_json canonicalisation and the two 64-bit FNV digests used to compare outputs across processes',
    ],
}

# MANIFEST.json texts
TEXT = {
    'design_ref': '§7.18',
    'category': 'proof',
    'technique': 'Lean 4 proof (schedule model, list permutations) + regenerated inventory of hash-order / rayon sites '
                 'checked by `decide` + run-time differential across fresh processes and rayon pool sizes',
    'text': 'PARTIAL. Kernel-checked about the model: for EVERY schedule rayon\'s try_for_each contract allows (any order '
            'of elements, any early stop after an error) each element of a parallel batch walk ends as the walk of its own '
            'input or untouched (C18_par_elementwise), independent of order (C18_order_independent) and of the other '
            'elements (C18_isolation); if the serial loop succeeds every schedule yields exactly the serial result, if it '
            'fails every schedule reports an error (C18_par_eq_serial); every reported error is the named element\'s own '
            '(C18_error_reported); the serial loop is one of the schedules (C18_serial_is_schedule). Each iteration over a '
            'std HashMap/HashSet found in the current source is mapped to a proved order-independence lemma '
            '(C18_cars_total_perm incl. u32 overflow, C18_find_distinct_keys_perm, C18_verdict_perm, C18_set_collect_perm, '
            'C18_difference_perm) or is error-text only; the inventory is regenerated from /repo on every check and '
            'C18_sites_reviewed (by decide) fails on any new or edited site and on any float fold in hash/scheduling order. '
            'NOT proved, only exercised at run time (sampling): rayon itself, hash seeds, the identity-hasher assumption, '
            'bit-identity of repeated sequential runs (simulation, est-time construction, dispatch) - compared byte for '
            'byte in-process, across >= 12 fresh processes and pools of 1..16 threads.',
    'note': 'Trusted: Lean 4.33 kernel; axioms propext, Classical.choice, Quot.sound only (audited every run); the schedule '
            'model is hand-written and tied to the real code by exact prediction of the serial walk and by explainability of '
            'every observed parallel outcome (the schedule itself is not observable); the site scanner is a regex reader '
            '(blind spots listed in the evidence assumptions); determinism of the sequential code is evidence by sampling, '
            'not proof.',
}
