import os
import subprocess
import sys

from cfg.common import NOTE_COMMON


def regen(root):
    """`pre` hook of ./check: regenerate lean/Generated/HistoryTree.lean from /repo on EVERY check.
    A scanner failure ("shape not understood") is not an exception here: the scanner then writes a stub
    table with `scanOk := false`, against which Proofs/C19.lean does not build (theorem `scan_ok`), so the
    check goes on to run the oracle on the implementation and reports a VIOLATION either way."""
    repo = os.environ.get("VERIF_REPO", "/repo")
    out = os.path.join(root, "lean", "Generated", "HistoryTree.lean")
    p = subprocess.run([sys.executable, os.path.join(root, "scan", "scan_history.py"), repo, out],
                       stdout=subprocess.PIPE, stderr=subprocess.STDOUT, text=True)
    print("[C19] " + p.stdout.strip().replace("\n", "\n[C19] "))
    if p.returncode not in (0, 1) or not os.path.exists(out):
        raise RuntimeError("scan_history.py crashed:\n" + p.stdout)


# configuration of ./check for this property
PROP = {
    'pre': [regen],
    'assumptions': [
        'the model is purely discrete (Nat / Bool / List): no floating point is involved in this property',
        'the tree shape, the call tables (callees of step / save_state / set_save_interval, inside or outside the '
        'interval gate, direct assignments of nested save_interval fields), the phase order of the simulations\' '
        'step(), the save_state() in front of the walk loops, the constructor behaviour and the initial counter '
        'values are re-extracted from the Rust sources by scan/scan_history.py on every check; the scanner is a '
        'strict reader (anything it does not recognise is an error, never a guess) but it is trusted to report the '
        'calls it recognises correctly; that trust is checked on every run by the differential correspondence '
        '(the real object tree after every driver op must equal the model run on the regenerated shape)',
        'objects enter through the constructors (`…::new`, which cascade the interval) and are changed only '
        'through step / walk / walk_timed_path / set_save_interval: an object assembled from `Default` parts by a '
        'struct literal or deserialised with mixed intervals has no single save interval and is outside the '
        'statement (C19_unaligned_intervals_counterexample shows the alignment hypothesis is forced); intervals of '
        'NESTED objects written directly (pub save_interval field of a component, own setter of a locomotive or of '
        'the consist) are inside the statement provided a top-level set_save_interval follows before the next '
        'step / walk (C19_poke_without_set_counterexample shows that demand is forced)',
        'save_interval = Some(0) panics with a remainder by zero (theorem zero_interval_panics, reproduced on the '
        'real code every run); the property quantifies over None, 1, n',
        'the number of executed steps of a walk and whether it ended with Err are taken from the real run '
        '(the model does not contain the physics); everything else in the dump is predicted',
    ],
    'blocks': ['hist'],
    'namespaces': ['Altrios.Proofs.C19'],
    'nontrivial_stats': ['hist.fresh.steps.4-15', 'hist.fresh.steps.16-99', 'hist.fresh.steps.100+',
                         'hist.script.failing_step', 'hist.script.set_interval', 'hist.walk.ended_with_error',
                         'hist.fresh.resumed_after_error', 'hist.script.poke', 'hist.script.set_same_as_current'],
    'proof_modules': ['C19'],
    'required_theorems': [
        'Altrios.Proofs.C19.scan_ok',
        'Altrios.Proofs.C19.shape_wf',
        'Altrios.Proofs.C19.drivers_canonical',
        'Altrios.Proofs.C19.new_is_cascade',
        'Altrios.Proofs.C19.sim_vec_forwards',
        'Altrios.Proofs.C19.C19_step_preserves_aligned',
        'Altrios.Proofs.C19.C19_save_preserves_aligned',
        'Altrios.Proofs.C19.C19_set_interval_reaches_all',
        'Altrios.Proofs.C19.C19_failing_step_changes_nothing',
        'Altrios.Proofs.C19.C19_walk',
        'Altrios.Proofs.C19.C19_walk_timed_path',
        'Altrios.Proofs.C19.C19_row_count',
        'Altrios.Proofs.C19.C19_error_keeps_rows',
        'Altrios.Proofs.C19.C19_any_script_aligned',
        'Altrios.Proofs.C19.shape_setClean',
        'Altrios.Proofs.C19.C19_set_absorbs_poke_tree',
        'Altrios.Proofs.C19.C19_set_absorbs_setAt_tree',
        'Altrios.Proofs.C19.C19_setAt_needs_clean_counterexample',
        'Altrios.Proofs.C19.C19_set_absorbs_poke',
        'Altrios.Proofs.C19.C19_any_script_aligned_poked',
        'Altrios.Proofs.C19.C19_poke_without_set_counterexample',
        'Altrios.Proofs.C19.C19_unaligned_intervals_counterexample',
        'Altrios.Proofs.C19.zero_interval_panics',
    ],
    'rule': 'after every checkpoint of every generated run (fresh walks, timed-path walks, manual steps, injected '
            'failing steps, interval changes at the top level, intervals of nested objects written through pub fields '
            '/ own setters and then ALWAYS a top-level set, half of the time with the value the consist already holds) '
            'the dump of the REAL object tree (path, state.i, save_interval, '
            'history.len(), i column of every node) must equal the model\'s dump for the same driver ops on the '
            'regenerated shape, and the oracle requires directly on the real dump: all counters equal, all '
            'intervals equal the top-level one, all histories of equal length with identical i columns, rows in '
            'step order, for fresh walks the exact i column (initial row iff interval 1, then the multiples) and '
            'row count, None => empty, a failing step changes nothing, rows written before an error survive a resumed walk, time '
            'column = step index; a second, shape-agnostic oracle walks the serialized simulation and compares EVERY '
            'object that has a history (so a component unknown to the typed dump is still compared)',
    'trusted_extra': ['/verif/scan/scan_history.py (strict source reader producing lean/Generated/HistoryTree.lean)'],
}

# MANIFEST.json texts
TEXT = {
    'design_ref': '§7.19',
    'note': NOTE_COMMON.replace('theorems are about exact ordered-field arithmetic, binary64 rounding is covered by '
                                'bit-exact comparison of the Float instantiation, not by proof.',
                                'the model is discrete (no floats). Additionally trusted: the source scanner '
                                'scan/scan_history.py, cross-checked every run by the correspondence.'),
    'technique': 'Lean 4 proof (mutual structural induction over a rose tree, decide over regenerated shape tables) '
                 '+ source scanner + differential correspondence with the Rust code',
    'text': 'Kernel-checked, for ARBITRARY object trees whose call tables are well-formed (a decidable check): '
            'step() advances every counter exactly once, save_state() appends the same row to every history or to '
            'none (for either placement of nested saves relative to the interval gate), set_save_interval reaches '
            'every nested save_interval. The call tables are regenerated from the Rust sources on every check and '
            'their well-formedness is discharged by decide for every powertrain variant and, by induction, for '
            'consists of any composition (shape_wf), together with: every simulation steps solve->save->advance, '
            'every walk saves once before its loop, every constructor cascades the interval. Hence for all four '
            'simulation kinds (incl. walk_timed_path), every composition, every interval None | Some n>=1, every '
            'number k of executed steps, with or without a final failing step: all counters are k+1, all intervals '
            'equal, and every history has exactly the i column (if n=1 then [1] else []) ++ [j in 1..k | j % n = 0] '
            'of length (n=1) + k/n (C19_walk, C19_row_count); any script of steps, failing steps, interval changes '
            'and walks keeps the tree aligned (C19_any_script_aligned). For every state of every shape (any, also '
            'non-uniform, nested intervals) a top-level set_save_interval after any run of raw writes to nested '
            'save_interval fields and of nested objects\' own setters yields EXACTLY the tree the top-level set alone '
            'yields (C19_set_absorbs_poke; new decidable table obligation shape_setClean: setters write only objects '
            'that have a save_interval), and scripts in which every such run is followed by a top-level set before '
            'the next step / walk stay aligned (C19_any_script_aligned_poked). Some(0) panics (zero_interval_panics). '
            'Tied to the code by the regenerated tables and by comparing the dump of the real object tree after '
            'every driver op with the model.',
}
