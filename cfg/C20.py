from cfg.common import FLOAT_ASSUMPTION, NOTE_COMMON

# configuration of ./check for this property
PROP = {
    'blocks': ['mass'],
    'proof_modules': ['C20'],
    'namespaces': ['Altrios.Proofs.C20', 'Altrios.Proofs.MassL'],
    'required_theorems': [
        'Altrios.Proofs.C20.C20_comp_set_total', 'Altrios.Proofs.C20.C20_comp_set_inv',
        'Altrios.Proofs.C20.C20_comp_side_effects', 'Altrios.Proofs.C20.C20_comp_getter',
        'Altrios.Proofs.C20.C20_comp_sequence',
        'Altrios.Proofs.C20.C20_loco_set_mass', 'Altrios.Proofs.C20.C20_loco_set_force_max',
        'Altrios.Proofs.C20.C20_loco_set_mu', 'Altrios.Proofs.C20.step_keeps',
        'Altrios.Proofs.C20.C20_loco_sequence', 'Altrios.Proofs.C20.C20_loco_set_mass_needs_mu',
        'Altrios.Proofs.C20.C20_loco_getters', 'Altrios.Proofs.C20.C20_load',
        'Altrios.Proofs.C20.C20_consist_mass_sound', 'Altrios.Proofs.C20.C20_consist_mass_complete',
        'Altrios.Proofs.C20.C20_consist_force_max', 'Altrios.Proofs.C20.C20_train_static_mass',
        # what the proofs force (each excluded point is also driven on the real code by block `mass`)
        'Altrios.Proofs.C20.C20_dummy_reject_then_accept_counterexample',
        'Altrios.Proofs.C20.C20_loco_sequence_dummy_counterexample',
        'Altrios.Proofs.C20.C20_rejected_set_mass_mutates_counterexample',
        'Altrios.Proofs.C20.C20_rejected_set_force_max_mutates_counterexample',
        'Altrios.Proofs.C20.C20_update_mu_needs_inv_mass_counterexample',
        'Altrios.Proofs.C20.C20_update_mu_zero_mass_counterexample',
        'Altrios.Proofs.C20.C20_comp_guard_specific_zero_counterexample',
        'Altrios.Proofs.C20.C20_comp_guard_rating_zero_counterexample',
    ],
    'nontrivial_stats': ['mass.comp.resolve.extensive', 'mass.comp.resolve.intensive', 'mass.comp.resolve.se_none',
                         'mass.loco.accept.', 'mass.loco.reject.', 'mass.loco.accept_after_reject',
                         'mass.consist.mass.', 'mass.consist.force.', 'mass.train.static.', 'mass.train.towed.',
                         'mass.loco.load.', 'mass.comp.load.', 'mass.consist.load.'],
    'rule': 'random and scripted (reject, then accept) sequences of <= 12 calls of every mass / adhesion / max-force setter '
            'with every side-effect option, and of every getter, on FuelConverter, Generator, ReversibleEnergyStorage, on '
            'locomotives of all four powertrain kinds over all known/unknown combinations of mass, mu, baseline, ballast and '
            'component masses (consistent, almost consistent at +-1e-9..1e-6, inconsistent and malformed starts: zeros, '
            'negatives, inf), nested component updates through *_mut(), consists of 0-8 units (all-known, all-unknown, mixed, '
            'unit in error) with setter calls in between, trains of 0-4 vehicle types with missing / extra / duplicate keys, '
            'zero counts and the mass override, built through make_train_params and make_set_speed_train_sim_and_parts, and '
            'from_yaml of components, locomotives and consists holding redundant consistent and contradictory data. Each call '
            'is one op line with the pre-state; the answer carries Ok/Err AND the post-state (also of a rejected call); the '
            'Lean model must reproduce it bit for bit. Oracle, on the implementation alone: the invariant on the raw fields '
            'after every accepted call, the exact post-condition of every option, getters answer Ok only on consistent fields, '
            'roll-up sums recomputed from the units\' own getters, loads accept exactly consistent data.',
    'assumptions': [FLOAT_ASSUMPTION,
                    'division guards of the theorems (each forced, counterexample proved, excluded points driven on the real '
                    'code and counted as out_of_domain): specific power/energy != 0 for Extensive, rating != 0 and new mass != 0 '
                    'for Intensive, mass != 0 for UpdateMu, g != 0, 0 < epsilon',
                    'locomotive sequences: DummyLoco excluded from the mass half of the sequence theorem (forced: known '
                    'finding C20-dummy-reject-then-accept); components updated through fuel_converter_mut() etc. are outside the '
                    'locomotive-level theorem (the parent cannot be kept consistent by the child; its mass() then answers Err)',
                    'no NaN / -0.0 in a pre-state handed to the model (such ops are driven and oracle-checked on the real code '
                    'but not compared); u32 car counts do not overflow'],
}

# MANIFEST.json texts
TEXT = {
    'design_ref': '§7.20',
    'note': NOTE_COMMON + ' Private fields are observed through serde (exact f64). Holds of the code with C20-fix-1 '
            '(Locomotive::init checks force_max) and C20-fix-2 (FuelConverter::init checks mass).',
    'technique': 'Lean 4 proof (case analysis per setter and option, invariant by induction over call sequences including '
                 'rejected calls that leave partial writes) + bit-exact differential correspondence of pre/post states',
    'text': 'Kernel-checked over any ordered field. Components: set_mass never fails; after it, from ANY state, stored and '
            'derived mass agree (C20_comp_set_inv) and the inconsistency was resolved exactly as the option says - Extensive '
            'rating\' = specific*m, Intensive specific\' = rating/m, None specific\' = none (C20_comp_side_effects); any sequence '
            '(C20_comp_sequence). Locomotive: an accepted set_mass / set_force_max / set_mu with any option establishes '
            'force_max ~ mu*m*g from ANY prior state and the exact post-state of each option (C20_loco_set_mass, '
            '_set_force_max, _set_mu); every call, accepted or REJECTED-after-writing, keeps mass ~ derived mass on a real '
            'locomotive (step_keeps); hence after every accepted call of any history the full invariant holds '
            '(C20_loco_sequence). Also proved: set_mass is accepted only if the OLD force_max already fits the new mass and '
            'never when mu is unknown (so it cannot change a consistent unit, and build_dummy_loco\'s unwrap fails); getters '
            'answer Ok only on consistent objects; an accepted load is consistent (C20_load). Consist mass = sum / None / Err '
            'for mixed (C20_consist_mass_sound/complete), consist force_max = sum (C20_consist_force_max), train static mass = '
            '(override or sum n*(base+freight)) + consist (C20_train_static_mass). Counterexamples proved and replayed on the '
            'code: rejected setters leave mutated, inconsistent objects; on a DummyLoco reject-then-accept breaks the invariant.',
}
