FLOAT_ASSUMPTION = (
    "theorems are about exact arithmetic in an arbitrary linearly ordered field; binary64 rounding is not modelled: the same model definitions instantiated at IEEE Float must reproduce the implementation's doubles bit for bit on every generated op (checked this run)"
)
NOTE_COMMON = (
    "Trusted: Lean 4.33 kernel and the Mathlib modules imported; axioms propext, Classical.choice, Quot.sound only (audited every run); the model is hand-written and tied to the code only by this run's differential correspondence (as strong as its generators; distribution in the evidence); theorems are about exact ordered-field arithmetic, binary64 rounding is covered by bit-exact comparison of the Float instantiation, not by proof."
)
