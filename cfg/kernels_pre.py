"""`pre` hook + shared cfg fragments for the kernel TRANSLATOR tie (DESIGN.md §10, last bullet).

Use from a property cfg (C01, C08, C09, C10):

    from cfg.kernels_pre import regen as regen_kernels, KERNEL_THEOREMS, KERNEL_TRUSTED, KERNEL_ASSUMPTION
    PROP = {
        'pre': [regen_kernels],
        'proof_modules': ['C01', 'Kernels'],
        'namespaces': ['Altrios.Proofs.C01', 'Altrios.Proofs.Kernels'],
        'required_theorems': [...] + KERNEL_THEOREMS,
        'trusted_extra': [KERNEL_TRUSTED],
        'assumptions': [...] + [KERNEL_ASSUMPTION],
    }
"""
import os
import subprocess
import sys


def regen(root):
    """`pre` hook of ./check: re-translate the straight-line powertrain kernels from the CURRENT Rust text of
    /repo (env VERIF_REPO overrides the location) into lean/Generated/Kernels.lean on EVERY check; the file is
    rewritten only when its content changes (so an unchanged tree costs no Lean rebuild).

    A function outside the translator's subset is NOT an exception here (exit status 1): the translator then
    emits an always-panicking stub for it and `translatorOk := false`, so the driver still links while
    Proofs/Kernels.lean does not build; ./check records the broken obligation and goes on to search for a
    failing input on the implementation (VIOLATION … no-failing-input-found if there is none).
    Only a crash of the translator itself raises."""
    repo = os.environ.get("VERIF_REPO", "/repo")
    out = os.path.join(root, "lean", "Generated", "Kernels.lean")
    p = subprocess.run([sys.executable, os.path.join(root, "scan", "translate_kernels.py"), repo, out,
                        "--lean-root", os.path.join(root, "lean")],
                       stdout=subprocess.PIPE, stderr=subprocess.STDOUT, text=True)
    print("[kernels] " + p.stdout.strip().replace("\n", "\n[kernels] "))
    if p.returncode not in (0, 1) or not os.path.exists(out):
        raise RuntimeError("translate_kernels.py crashed:\n" + p.stdout)


# the equalities `regenerated definition = hand-written model definition` (Proofs/Kernels.lean)
KERNEL_THEOREMS = ['Altrios.Proofs.Kernels.' + t for t in [
    'translator_ok',
    'almostEq_eq', 'almostGt_eq', 'almostLt_eq', 'almostGe_eq', 'almostLe_eq', 'minSpeed_eq',
    'fcSetCurMax_eq', 'fcSolve_eq',
    'genSetInFrac_eq', 'genReq_eq', 'genSetCurMax_eq',
    'edrvSetInFrac_eq', 'edrvSetCurMax_eq', 'edrvSetCurMax_some', 'edrvSetRegenMax_eq', 'edrvReq_eq',
    'resSetCurMax_eq', 'resSetCurMax_some', 'resSetCurMax_none', 'resSolve_eq',
]]

KERNEL_TRUSTED = ('/verif/scan/translate_kernels.py (strict reader of a small Rust subset producing '
                  'lean/Generated/Kernels.lean; its reading rules are listed in the header of that file)')

KERNEL_ASSUMPTION = (
    'translator tie: the Lean definitions regenerated from the Rust text of the straight-line powertrain kernels '
    '(fuel converter, generator, drivetrain, battery set-limit / solve functions, utils::almost_*, min_speed) are '
    'proved EQUAL to the hand-written model (Proofs/Kernels.lean) on every check. The translator assumes: uom '
    'quantities are their SI base-unit f64 value (arithmetic on quantities = arithmetic on values; '
    '.get::<si::ratio|watt|joule>() and multiplication by a unit constant whose value in uc.rs is 1.0 are identities; '
    'si::X::ZERO = 0; energy_capacity.get::<si::watt_hour>() is the explicit model parameter capWh); x_uom(&a,&b,e) = '
    'x(a,b,e) (macro text checked); is_sign_positive() is 0 <= x; numeric literals are 0, 1 or one of the named '
    'PT.Consts (1e-3, 1e-8, 0.05, 10), anything else is rejected; snake_case fields map to the camelCase fields of '
    'the model structures (checked against Altrios/Powertrain.lean), with a small exception table; ensure! messages '
    'are not read and the err tag of the n-th ensure! comes from a table in the translator. Its output at IEEE '
    'Float is cross-checked bit for bit against the real code by the gen_* driver ops.')
