"""`pre` hook + shared cfg fragments for the TRANSLATOR tie of the TRAIN layer (DESIGN.md §12.7).

Use from a property cfg (C03, C07, C11, C12, C14):

    from cfg.train_kernels_pre import (regen as regen_train_kernels, TRAIN_KERNEL_THEOREMS, TRAIN_KERNEL_TRUSTED,
                                       TRAIN_KERNEL_ASSUMPTION)
    PROP = {
        'pre': [regen_train_kernels],
        'proof_modules': ['C11', 'TrainKernels'],
        'namespaces': ['Altrios.Proofs.C11', 'Altrios.Proofs.TrainKernels'],
        'required_theorems': [...] + TRAIN_KERNEL_THEOREMS,
        'trusted_extra': [TRAIN_KERNEL_TRUSTED],
        'assumptions': [...] + [TRAIN_KERNEL_ASSUMPTION],
    }
"""
import os
import subprocess
import sys


def regen(root):
    """`pre` hook of ./check: re-translate the straight-line functions of the train layer from the CURRENT Rust text
    of /repo (env VERIF_REPO overrides the location) into lean/Generated/TrainKernels.lean on EVERY check; the file
    is rewritten only when its content changes (so an unchanged tree costs no Lean rebuild).

    A function outside the translator's subset is NOT an exception here (exit status 1): the translator then emits an
    always-panicking stub for it and `translatorOk := false`, so the driver still links while Proofs/TrainKernels.lean
    does not build; ./check records the broken obligation and goes on to search for a failing input on the
    implementation (VIOLATION … no-failing-input-found if there is none).  Only a crash of the translator raises."""
    repo = os.environ.get("VERIF_REPO", "/repo")
    out = os.path.join(root, "lean", "Generated", "TrainKernels.lean")
    p = subprocess.run([sys.executable, os.path.join(root, "scan", "translate_train_kernels.py"), repo, out,
                        "--lean-root", os.path.join(root, "lean")],
                       stdout=subprocess.PIPE, stderr=subprocess.STDOUT, text=True)
    print("[train-kernels] " + p.stdout.strip().replace("\n", "\n[train-kernels] "))
    if p.returncode not in (0, 1) or not os.path.exists(out):
        raise RuntimeError("translate_train_kernels.py crashed:\n" + p.stdout)


_T = 'Altrios.Proofs.TrainKernels.'
# the equalities `regenerated definition = hand-written model definition` (Proofs/TrainKernels.lean), by group
TK_COMMON = [_T + t for t in ['translator_ok', 'derivedMass_eq', 'trainMass_eq', 'trainResNet_eq', 'massCompound_eq']]
TK_ALMOST = [_T + t for t in ['almostEq_eq', 'almostLe_eq']]
TK_RESIST = [_T + t for t in ['bearingCalcRes_eq', 'rollingCalcRes_eq', 'davisBCalcRes_eq', 'aeroCalcRes_eq',
                              'calcResVal_eq', 'updateRes_eq']]
TK_TRACE = [_T + t for t in ['traceDt_eq', 'traceMean_eq']]
TK_SS = [_T + t for t in ['ssRequiredPwr_eq', 'ssIntegrate_eq', 'ssStep_eq']]
TK_SL = [_T + t for t in ['fricSetCurMax_eq', 'slRequiredPwr_eq', 'slStep_eq', 'walkCond_eq']]
TK_TRIP = [_T + t for t in ['scalingFactor_eq']]
# the check after `self.step()?` in the loop of walk_internal (fix c76dec1)
TK_WALK = [_T + t for t in ['walkStuck_eq']]

TRAIN_KERNEL_THEOREMS = TK_COMMON + TK_ALMOST + TK_RESIST + TK_TRACE + TK_SS + TK_SL + TK_TRIP + TK_WALK
# per property: the equalities for the model functions its theorems are about
TRAIN_KERNEL_THEOREMS_FOR = {
    'C03': TK_COMMON + TK_ALMOST + TK_SL + TK_WALK,
    'C07': TK_COMMON + TK_RESIST,
    'C11': TK_COMMON + TK_ALMOST + TK_TRACE + TK_SS + TK_SL + TK_TRIP,
    'C12': TK_COMMON + TK_ALMOST + TK_TRACE + TK_SS + TK_SL,
    'C14': TK_COMMON + TK_TRACE + TK_SS,
}

TRAIN_KERNEL_TRUSTED = ('/verif/scan/translate_train_kernels.py (strict reader of a small Rust subset producing '
                        'lean/Generated/TrainKernels.lean; its reading rules and the list of shared hand-modelled '
                        'callees are in the header of that file)')

TRAIN_KERNEL_ASSUMPTION = (
    'translator tie (train layer): the Lean definitions regenerated from the Rust text of the straight-line functions of '
    'the train layer (the four resistance kinds, calc_res_val, method::Strap::update_res, TrainState::{res_net, mass, '
    'derived_mass, mass_compound}, FricBrake::set_cur_force_max_out, SpeedTrace::{dt, mean}, '
    'SetSpeedTrainSim::{solve_required_pwr, solve_step}, SpeedLimitTrainSim::{solve_required_pwr, solve_step, '
    'get_scaling_factor, the loop condition of walk_internal and the ensure! after the step in its loop body}, utils::almost_{eq,le}) are proved EQUAL to the hand-written '
    'model (Proofs/TrainKernels.lean) on every check. The translator assumes, beyond the rules of the powertrain '
    'translator: a function returns the objects it may write and an assignment is a nested record update; '
    'speed_trace.time/speed[i], [i-1] are the parameters tCur vCur tPrev vPrev (that the samples exist is not modelled); '
    'uc::ACC_GRAV, uc::rho_air(), uc::MPH * 0.1, 1000.0 * uc::FT, 365.25 are named parameters whose Float values are '
    'checked against uc.rs and the driver; .powi(P2) is x*x; `x as f64` is the identity; .with_context(..) arguments, '
    'bail!/ensure! messages and #[cfg(feature = "logging")] log statements are not read; loco_con.force_max()? is a value '
    'parameter; loco_con.set_cat_power_limit(..) is skipped; of the loop of walk_internal only the condition and the '
    'shape `let`s / `self.step()?;` / one ensure! of the body are read (the `let`s read the state before the step, the '
    'ensure! the state after it; step() itself is not translated). The hand-modelled callees SHARED by both sides of every '
    'equality (not re-read from the Rust text) are: path_res::Strap::{calc_res, res_coeff_front, res_coeff_back, '
    'res_net_front}, PathTpc getters, BrakingPoints::calc_speeds, Consist::{set_pwr_aux, set_cur_pwr_max_out, '
    'solve_energy_consumption}, set_link_and_offset; TrainRes::update_res is read as the Strap variant. The output at '
    'IEEE Float is cross-checked bit for bit against the real code by the gen_* driver ops.')
