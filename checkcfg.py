"""Loads the per-property configuration files cfg/Cxx.py (PROP = check config, TEXT = MANIFEST texts)."""
import importlib, os, re, sys
ROOT = os.path.dirname(os.path.abspath(__file__))
sys.path.insert(0, ROOT)
PROPS, TEXT = {}, {}
for f in sorted(os.listdir(os.path.join(ROOT, "cfg"))):
    m = re.fullmatch(r"(C\d+)\.py", f)
    if m:
        mod = importlib.import_module("cfg." + m.group(1))
        PROPS[m.group(1)] = mod.PROP
        TEXT[m.group(1)] = mod.TEXT
