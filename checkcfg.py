"""Per-property configuration of ./check: harness blocks, Lean proof modules, theorem namespaces."""

FLOAT_ASSUMPTION = (
    "theorems are about exact arithmetic in an arbitrary linearly ordered field; binary64 rounding is "
    "not modelled: the same model definitions instantiated at IEEE Float must reproduce the "
    "implementation's doubles bit for bit on every generated op (checked this run)"
)

PROPS = {
    "C02": {
        "blocks": ["sp"],
        "proof_modules": ["C02"],
        "namespaces": ["Altrios.Proofs.C02", "Altrios.Proofs.C13"],
        "required_theorems": [
            "Altrios.Proofs.C13.C13_insert_exact",
            "Altrios.Proofs.C02.C02_insert_sound",
            "Altrios.Proofs.C02.C02_insert_mono",
            "Altrios.Proofs.C02.C02_profile_sound",
            "Altrios.Proofs.C02.C02_route_sound",
        ],
        "nontrivial_stats": ["sp.branch.", "sp.route.set_applies", "sp.route.set_gated_off"],
        "rule": "each evaluation is one call of the real insert_speed / PathTpc::extend (one link) replayed through "
                "the literal and the structural Lean model; non-trivial = the call went through one of the counted "
                "branches (after-end, abutting, general, strictly-inside, zero-length) or a gated/applied speed set",
        "assumptions": [FLOAT_ASSUMPTION,
                        "speeds are not -0.0 / NaN (is_sign_positive is modelled as 0 <= v)"],
    },
    "C13": {
        "blocks": ["sp"],
        "proof_modules": ["C13"],
        "namespaces": ["Altrios.Proofs.C13"],
        "required_theorems": [
            "Altrios.Proofs.C13.C13_insert_exact",
            "Altrios.Proofs.C13.C13_insert_canonical",
            "Altrios.Proofs.C13.C13_insert_pre",
            "Altrios.Proofs.C13.C13_profile_exact",
            "Altrios.Proofs.C13.C13_profile_canonical",
        ],
        "nontrivial_stats": ["sp.branch.", "sp.route.set_applies", "sp.route.set_gated_off"],
        "rule": "as C02; the oracle additionally requires equality with the brute-force minimum at every breakpoint, "
                "midpoint and +-1 ulp neighbour, and canonicity of the stored vector",
        "assumptions": [FLOAT_ASSUMPTION,
                        "speeds are not -0.0 / NaN (is_sign_positive is modelled as 0 <= v)"],
    },
}
