#!/usr/bin/env python3
"""Writes MANIFEST.json from checkcfg.PROPS + manifest_text.py (kept in code so it stays valid)."""
import json, os, subprocess
ROOT = os.path.dirname(os.path.abspath(__file__))
import sys
sys.path.insert(0, ROOT)
from checkcfg import PROPS
from checkcfg import TEXT
NOT_YET = {}

hooks = subprocess.run(["git", "-C", "/repo", "log", "--format=%H %s"], capture_output=True, text=True).stdout.splitlines()
hook_commits = [l.split()[0] for l in hooks if l.split(" ", 1)[1].startswith("verif-hooks")]

checks = []
for pid in sorted(PROPS):
    t = TEXT[pid]
    checks.append({
        "property_id": pid,
        "quick_cmd": f"./check {pid} --tier quick",
        "thorough_cmd": f"./check {pid} --tier thorough",
        "evidence_file": f"/verif/evidence/{pid}.json",
        "replay_cmd_template": f"./check {pid} --replay {{path}}",
        "engine": "lean4-proof+correspondence",
        "level_claimed": {"category": t.get("category", "proof"), "text": t["text"], "design_ref": t["design_ref"]},
        "level_note": t["note"],
        "technique": t["technique"],
    })
all_ids = [json.loads(l)["id"] for l in open(os.path.join(ROOT, "properties.jsonl"))]
na = [{"property_id": p, "reason": NOT_YET.get(p, "check not built yet (work in progress; the design in DESIGN.md §7 applies)")}
      for p in all_ids if p not in PROPS]
m = {
    "version": 1,
    "setup_cmd": "./setup.sh",
    "hooks": {
        "guard": "cargo feature `verif-hooks` of altrios-core",
        "enable": "the harness crate /verif/harness depends on altrios-core by path with features = [\"verif-hooks\"]",
        "baseline_off_cmd": "cd /repo/rust && cargo test --workspace --no-fail-fast --offline",
        "source_commits": hook_commits,
        "add_only": True,
    },
    "engines": [{
        "name": "lean4-proof+correspondence",
        "path": "/verif/check",
        "serves_properties": sorted(PROPS),
        "kind_free_text": "Lean 4 theorems about a hand-written executable model (lean/Altrios, lean/Proofs) + differential "
                          "correspondence of the same model (at IEEE Float) against the real Rust code driven in-process by "
                          "/verif/harness, + property oracle on the implementation for counterexample search",
    }],
    "checks": checks,
    "not_applicable": na,
    "notes": "See DESIGN.md. known_findings.json lists genuine defects (fixed: entries name the fix: commit in /repo).",
}
json.dump(m, open(os.path.join(ROOT, "MANIFEST.json"), "w"), indent=1)
print("claimed:", sorted(PROPS), "unclaimed:", [x["property_id"] for x in na])
