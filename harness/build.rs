// Generates the block registry: every src/b_<name>.rs is a harness block `<name>` exposing
// `pub fn run(ctx: &mut Ctx, r: &mut Rng, tier: &str)`.
use std::io::Write;
fn main() {
    let src = std::path::Path::new(env!("CARGO_MANIFEST_DIR")).join("src");
    let mut names: Vec<String> = std::fs::read_dir(&src)
        .unwrap()
        .filter_map(|e| e.ok())
        .filter_map(|e| e.file_name().into_string().ok())
        .filter(|n| n.starts_with("b_") && n.ends_with(".rs"))
        .map(|n| n[2..n.len() - 3].to_string())
        // a block file is registered once it defines its entry point (work in progress files are skipped)
        .filter(|n| std::fs::read_to_string(src.join(format!("b_{}.rs", n))).map(|t| t.contains("pub fn run(")).unwrap_or(false))
        .collect();
    names.sort();
    let out = std::path::Path::new(&std::env::var("OUT_DIR").unwrap()).join("blocks.rs");
    let mut f = std::fs::File::create(out).unwrap();
    for n in &names {
        writeln!(f, "#[path = \"{}/b_{}.rs\"] pub mod b_{};", src.display(), n, n).unwrap();
    }
    writeln!(f, "pub fn run_block(name: &str, ctx: &mut crate::proto::Ctx, r: &mut crate::prng::Rng, tier: &str) -> bool {{").unwrap();
    writeln!(f, "    match name {{").unwrap();
    for n in &names {
        writeln!(f, "        \"{}\" => {{ b_{}::run(ctx, r, tier); true }}", n, n).unwrap();
    }
    writeln!(f, "        _ => false,\n    }}\n}}").unwrap();
    println!("cargo:rerun-if-changed=src");
}
