//! probe (work in progress)
use crate::dispgen::*;
use crate::prng::Rng;
use crate::proto::*;
use altrios_core::meet_pass::dispatch::run_dispatch;
use altrios_core::meet_pass::dispatch::verif_hooks::{set_dispatch_observer, DispAuth, TrainIdx};
use altrios_core::prelude::*;
use altrios_core::validate::*;
use std::cell::RefCell;
use std::rc::Rc;

#[derive(Clone, Debug)]
pub struct Snap {
    pub phase: String,
    pub tbl: Vec<Vec<DispAuth>>,
    pub blocked: Vec<TrainIdx>,
}

pub fn run(ctx: &mut Ctx, r: &mut Rng, tier: &str) {
    let n = if tier == "thorough" { 20 } else { 3 };
    for _ in 0..n {
        let mut rr = r.fork();
        let sc = gen_scenario(&mut rr, 4);
        if sc.dn.net.validate().is_err() { continue; }
        let mut ets = vec![];
        for t in &sc.trains {
            match guard(|| make_est_times(t.clone(), &sc.dn.net)) {
                Some(Ok((et, _))) => ets.push(et),
                _ => {}
            }
        }
        if ets.len() != sc.trains.len() { continue; }
        let snaps: Rc<RefCell<Vec<Snap>>> = Rc::new(RefCell::new(vec![]));
        let s2 = snaps.clone();
        set_dispatch_observer(Some(Box::new(move |ph, tbl, bl| {
            s2.borrow_mut().push(Snap { phase: ph.to_string(), tbl: tbl.to_vec(), blocked: bl.to_vec() });
        })));
        let res = guard(|| run_dispatch(&sc.dn.net, &sc.trains, ets.clone(), false, false));
        set_dispatch_observer(None);
        eprintln!("=== scenario trains={} dirs={:?} n_main={} sidings={:?} lock={} res_ok={:?}", sc.trains.len(), sc.dirs, sc.dn.main_fwd.len(), sc.dn.sidings,
            sc.dn.net.iter().any(|l| !l.link_idxs_lockout.is_empty()), res.as_ref().map(|x| x.is_ok()));
        for (i, l) in sc.dn.net.iter().enumerate() { eprintln!("  link {} len {} flip {} next {} alt {} lock {:?}", i, l.length.value, l.idx_flip.idx(), l.idx_next.idx(), l.idx_next_alt.idx(), l.link_idxs_lockout.iter().map(|x| x.idx()).collect::<Vec<_>>()); }
        for t in &sc.trains { eprintln!("  train len {} depart {}", t.state.length.value, t.state.time.value); }
        let snaps = snaps.borrow();
        let mut prev: Option<&Snap> = None;
        for s in snaps.iter() {
            eprintln!("-- {}", s.phase);
            for (li, v) in s.tbl.iter().enumerate() {
                let pv = prev.map(|p| &p.tbl[li]);
                if pv.map(|p| p == v).unwrap_or(false) { continue; }
                for (ai, a) in v.iter().enumerate().skip(1) {
                    eprintln!("   L{} [{}] tr {:?} ae {:.1} ax {:.1} ce {:.1} cx {:.1} of {:.1} ob {:.1}", li, ai, a.train_idx.map(|x| x.get()), a.arrive_entry.value, a.arrive_exit.value, a.clear_entry.value, a.clear_exit.value, a.offset_front.value, a.offset_back.value);
                }
            }
            eprintln!("   blocked {:?}", s.blocked.iter().map(|x| x.map(|y| y.get()).unwrap_or(0)).collect::<Vec<_>>());
            prev = Some(s);
        }
        if let Some(Ok(plan)) = &res {
            for p in plan { eprintln!("  plan {:?}", p.iter().map(|x| (x.link_idx.idx(), x.time.value)).collect::<Vec<_>>()); }
        }
        ctx.count("c04.probe");
    }
}
