//! Block `c04`: meet-pass dispatch never authorises conflicting occupancy (C04).
//! Real `make_est_times` + real `run_dispatch` on generated scenarios (single track, sidings, yards, junctions,
//! diamonds/lockouts, 1-8 trains); the authority table is observed after every train move through the
//! `verif_hooks` dispatch observer.  Every pair of consecutive snapshots becomes one `c04_step` op
//! (table diff as push/close/finish/pop/reset operations) that the Lean model replays; independently the
//! oracle below re-checks every clause of the property on every snapshot and on the returned plan.
use crate::dispgen::{gen_train, location};
use crate::netgen::*;
use crate::prng::Rng;
use crate::proto::*;
use altrios_core::meet_pass::dispatch::run_dispatch;
use altrios_core::meet_pass::dispatch::verif_hooks::{set_dispatch_observer, DispAuth};
use altrios_core::prelude::*;
use altrios_core::track::*;
use altrios_core::train::SpeedLimitTrainSim;
use altrios_core::validate::*;
use std::cell::RefCell;
use std::rc::Rc;


// ---------------------------------------------------------------- scenario generator

fn flat_link(idx: u32, len: f64, speed: f64, e0: f64, e1: f64) -> Link {
    Link {
        idx_curr: LinkIdx::new(idx),
        length: m(len),
        elevs: vec![Elev { offset: m(0.0), elev: m(e0) }, Elev { offset: m(len), elev: m(e1) }],
        headings: vec![],
        speed_set: Some(SpeedSet {
            speed_limits: vec![SpeedLimit { offset_start: m(0.0), offset_end: m(len), speed: mps(speed) }],
            speed_params: vec![],
            is_head_end: false,
        }),
        ..Default::default()
    }
}

/// one single-track line with passing sidings; links are appended to `net`
/// returns (fwd main links, rev main links, sidings (k, fwd, rev))
#[derive(Clone, Debug, Default)]
pub struct Line {
    pub main_fwd: Vec<u32>,
    pub main_rev: Vec<u32>,
    pub sidings: Vec<(usize, u32, u32)>,
    /// separate terminal stubs (fwd, rev): west origin, west destination, east destination, east origin
    pub yard: Option<[(u32, u32); 4]>,
}

fn add_pair(net: &mut Vec<Link>, len: f64, speed: f64, grade: f64) -> (u32, u32) {
    let a = net.len() as u32;
    let b = a + 1;
    let mut l = flat_link(a, len, speed, 100.0, 100.0 + grade * len);
    l.idx_flip = LinkIdx::new(b);
    let mut f = flat_link(b, len, speed, 100.0 + grade * len, 100.0);
    f.idx_flip = LinkIdx::new(a);
    net.push(l);
    net.push(f);
    (a, b)
}
/// connect a → b in the forward direction (and flip(b) → flip(a)); `alt` uses the alternate slots
fn connect(net: &mut [Link], a: (u32, u32), b: (u32, u32), alt_next: bool, alt_prev: bool) {
    if alt_next { net[a.0 as usize].idx_next_alt = LinkIdx::new(b.0); } else { net[a.0 as usize].idx_next = LinkIdx::new(b.0); }
    if alt_prev { net[b.0 as usize].idx_prev_alt = LinkIdx::new(a.0); } else { net[b.0 as usize].idx_prev = LinkIdx::new(a.0); }
    // reverse direction: flip(b) → flip(a)
    if alt_prev { net[b.1 as usize].idx_next_alt = LinkIdx::new(a.1); } else { net[b.1 as usize].idx_next = LinkIdx::new(a.1); }
    if alt_next { net[a.1 as usize].idx_prev_alt = LinkIdx::new(b.1); } else { net[a.1 as usize].idx_prev = LinkIdx::new(b.1); }
}
fn lock(net: &mut [Link], a: u32, b: u32) {
    if !net[a as usize].link_idxs_lockout.contains(&LinkIdx::new(b)) { net[a as usize].link_idxs_lockout.push(LinkIdx::new(b)); }
    if !net[b as usize].link_idxs_lockout.contains(&LinkIdx::new(a)) { net[b as usize].link_idxs_lockout.push(LinkIdx::new(a)); }
}

pub fn gen_line(r: &mut Rng, net: &mut Vec<Link>, n_main: usize, siding_at: &[usize], lockouts: bool, len_lo: i64, len_hi: i64, yards: bool) -> Line {
    let mut line = Line::default();
    let mut pairs = vec![];
    for k in 0..n_main {
        // terminal links must hold the longest train (the train starts with its tail at offset 0)
        let lo = if k == 0 || k + 1 == n_main { len_lo.max(7) } else { len_lo };
        let len = r.range(lo, len_hi.max(lo)) as f64 * 250.0;
        let sp = *r.pick(&[15.0, 20.0, 25.0]);
        let g = r.range(-4, 4) as f64 / 1024.0;
        pairs.push(add_pair(net, len, sp, g));
    }
    for k in 0..n_main - 1 { connect(net, pairs[k], pairs[k + 1], false, false); }
    for &k in siding_at {
        let len = net[pairs[k].0 as usize].length.value;
        let s = add_pair(net, len, 10.0, 0.0);
        connect(net, pairs[k - 1], s, true, false);
        connect(net, s, pairs[k + 1], false, true);
        if lockouts {
            for &x in &[s.0, s.1] { for &y in &[pairs[k].0, pairs[k].1] { lock(net, x, y); } }
        }
        line.sidings.push((k, s.0, s.1));
    }
    if yards {
        let mut y = vec![];
        for _ in 0..4 { let len = r.range(len_lo.max(7), len_hi.max(7)) as f64 * 250.0; y.push(add_pair(net, len, 15.0, 0.0)); }
        connect(net, y[0], pairs[0], false, false);
        connect(net, y[1], pairs[0], false, true);
        connect(net, pairs[n_main - 1], y[2], false, false);
        connect(net, pairs[n_main - 1], y[3], true, false);
        line.yard = Some([y[0], y[1], y[2], y[3]]);
    }
    line.main_fwd = pairs.iter().map(|p| p.0).collect();
    line.main_rev = pairs.iter().map(|p| p.1).collect();
    line
}

#[derive(Clone, Debug)]
pub struct Scen {
    pub net: Vec<Link>,
    pub lines: Vec<Line>,
    pub trains: Vec<SpeedLimitTrainSim>,
    /// (line, eastbound, origin link, dest link)
    pub routes: Vec<(usize, bool, u32, u32)>,
    pub kind: String,
}

fn pick_sidings(r: &mut Rng, n_main: usize, p: f64, forbid: &[usize]) -> Vec<usize> {
    let mut v = vec![];
    let mut k = 1;
    while k + 1 < n_main {
        if !forbid.contains(&k) && r.chance(p) { v.push(k); k += 2; } else { k += 1; }
    }
    v
}

pub fn gen_scen(r: &mut Rng, max_trains: usize) -> Scen {
    let big = r.chance(0.33);
    let mut net = vec![Link::default()];
    let kind = *r.pick(&["line", "diamond", "diamond", "diamond", "junction"]);
    let short = r.chance(0.25);
    // short: links of 0.5-2 km, or 250-750 m (a train then spans three and more links, also when it ends its trip)
    let (len_lo, len_hi) = if short { if r.chance(0.5) { (2, 8) } else { (1, 3) } } else { (12, 40) };
    let n_main = if big { r.usize(8, 14) } else { r.usize(3, 8) };
    let lockouts = r.chance(0.4);
    let yards = r.chance(0.6);
    let mut lines = vec![];
    let mut branch: Option<(u32, u32)> = None; // far end of a junction branch (fwd origin link, rev dest link)
    match kind {
        "diamond" => {
            let s1 = pick_sidings(r, n_main, 0.5, &[]);
            let l1 = gen_line(r, &mut net, n_main, &s1, lockouts, len_lo, len_hi, yards);
            let n2 = r.usize(3, 5);
            let s2 = pick_sidings(r, n2, 0.4, &[]);
            let l2 = gen_line(r, &mut net, n2, &s2, lockouts, len_lo, len_hi, yards);
            // the two lines cross on the level (1-3 times): one main segment of each, all four directed links mutually exclusive
            for _ in 0..r.usize(1, 3) {
                let i = r.usize(0, n_main - 1);
                let j = r.usize(0, n2 - 1);
                for &x in &[l1.main_fwd[i], l1.main_rev[i]] { for &y in &[l2.main_fwd[j], l2.main_rev[j]] { lock(&mut net, x, y); } }
            }
            lines.push(l1);
            lines.push(l2);
        }
        "junction" => {
            let j = r.usize(1, n_main - 1);
            let forbid = [j.saturating_sub(1), j, j + 1];
            let s1 = pick_sidings(r, n_main, 0.6, &forbid);
            let l1 = gen_line(r, &mut net, n_main, &s1, lockouts, len_lo, len_hi, yards);
            // branch of nb links joining the main line in front of main segment j
            let nb = r.usize(1, 3);
            let mut bp = vec![];
            for k in 0..nb { let lo = if k == 0 { len_lo.max(7) } else { len_lo }; let len = r.range(lo, len_hi.max(lo)) as f64 * 250.0; bp.push(add_pair(&mut net, len, 15.0, 0.0)); }
            for k in 0..nb - 1 { connect(&mut net, bp[k], bp[k + 1], false, false); }
            connect(&mut net, bp[nb - 1], (l1.main_fwd[j], l1.main_rev[j]), false, true);
            branch = Some(bp[0]);
            lines.push(l1);
        }
        _ => {
            let s1 = pick_sidings(r, n_main, 0.6, &[]);
            lines.push(gen_line(r, &mut net, n_main, &s1, lockouts, len_lo, len_hi, yards));
        }
    }
    let nt = if r.chance(0.7) { r.usize(max_trains.min(4), max_trains) } else { r.usize(1, max_trains) };
    let same_dep = r.chance(0.4);
    let mut trains = vec![];
    let mut routes = vec![];
    for t in 0..nt {
        let li = r.usize(0, lines.len() - 1);
        let l = &lines[li];
        let east = r.chance(0.5);
        let n = l.main_fwd.len();
        let (mut o, mut d) = if east { (l.main_fwd[0], l.main_fwd[n - 1]) } else { (l.main_rev[n - 1], l.main_rev[0]) };
        if let Some(y) = l.yard { if east { o = y[0].0; d = y[2].0; } else { o = y[3].1; d = y[1].1; } }
        if let Some(b) = branch { if r.chance(0.5) { if east { o = b.0 } else { d = b.1 } } }
        // some trains terminate (or originate) on an intermediate main segment
        if n >= 4 && r.chance(0.15) {
            let k = r.usize(1, n - 2);
            if r.chance(0.7) { d = if east { l.main_fwd[k] } else { l.main_rev[k] }; } else if branch.is_none() { o = if east { l.main_fwd[k] } else { l.main_rev[k] }; }
        }
        let depart = if same_dep || r.chance(0.3) { 0.0 } else { r.range(0, 40) as f64 * 60.0 };
        trains.push(gen_train(r, &format!("T{}", t + 1), vec![location("O", o)], vec![location("D", d)], depart));
        routes.push((li, east, o, d));
    }
    Scen { net, lines, trains, routes, kind: format!("{}{}{}", kind, if short { "-short" } else { "" }, if lockouts { "-lock" } else { "" }) + if yards { "-yards" } else { "" } }
}


// ---------------------------------------------------------------- observed table

pub const OVERLAP: f64 = 30.0; // `time_overlap_change` in TrainDisp::advance
const INF: f64 = f64::INFINITY;
pub fn spacing() -> f64 { (8.0 * altrios_core::uc::MIN).value } // `time_spacing` passed by run_dispatch

#[derive(Clone, Copy, Debug, PartialEq)]
pub struct A { pub ae: f64, pub ax: f64, pub ce: f64, pub cx: f64, pub tr: u32 }
type Tbl = Vec<Vec<A>>;

fn conv(tbl: &[Vec<DispAuth>]) -> (Tbl, Vec<Vec<f64>>) {
    (tbl.iter().map(|v| v.iter().map(|a| A { ae: a.arrive_entry.value, ax: a.arrive_exit.value, ce: a.clear_entry.value, cx: a.clear_exit.value, tr: a.train_idx.map(|x| x.get() as u32).unwrap_or(0) }).collect()).collect(),
     tbl.iter().map(|v| v.iter().map(|a| a.offset_back.value).collect()).collect())
}

#[derive(Clone, Debug)]
pub struct Snap { pub phase: String, pub tbl: Tbl, pub ob: Vec<Vec<f64>>, pub blocked: Vec<u32> }

#[derive(Clone, Debug, PartialEq)]
pub enum Op {
    Push { l: usize, tr: u32, t: f64, front: Option<(usize, usize)> },
    Ax { l: usize, i: usize, t: f64 }, Ce { l: usize, i: usize, t: f64 }, Cx { l: usize, i: usize, t: f64 }, Fin { l: usize, i: usize, t: f64 },
    Pop { l: usize }, RAx { l: usize, i: usize }, RCe { l: usize, i: usize }, RCx { l: usize, i: usize },
}
impl Op {
    fn time(&self) -> f64 { match self { Op::Push { t, .. } | Op::Ax { t, .. } | Op::Ce { t, .. } | Op::Cx { t, .. } | Op::Fin { t, .. } => *t, _ => f64::NEG_INFINITY } }
    fn rank(&self) -> u32 { match self { Op::Pop { .. } => 0, Op::RCx { .. } => 1, Op::RAx { .. } => 2, Op::RCe { .. } => 3, Op::Ax { .. } => 4, Op::Push { .. } => 5, Op::Ce { .. } => 6, Op::Cx { .. } => 7, Op::Fin { .. } => 8 } }
    fn name(&self) -> &'static str { match self { Op::Push { .. } => "push", Op::Ax { .. } => "ax", Op::Ce { .. } => "ce", Op::Cx { .. } => "cx", Op::Fin { .. } => "fin", Op::Pop { .. } => "pop", Op::RAx { .. } => "rax", Op::RCe { .. } => "rce", Op::RCx { .. } => "rcx" } }
    fn tok(&self) -> String {
        match self {
            Op::Push { l, tr, t, front } => format!("push {} {} {} {}", l, tr, f(*t), opt(front, |x| format!("{} {}", x.0, x.1))),
            Op::Ax { l, i, t } => format!("ax {} {} {}", l, i, f(*t)), Op::Ce { l, i, t } => format!("ce {} {} {}", l, i, f(*t)),
            Op::Cx { l, i, t } => format!("cx {} {} {}", l, i, f(*t)), Op::Fin { l, i, t } => format!("fin {} {} {}", l, i, f(*t)),
            Op::Pop { l } => format!("pop {}", l), Op::RAx { l, i } => format!("rax {} {}", l, i), Op::RCe { l, i } => format!("rce {} {}", l, i), Op::RCx { l, i } => format!("rcx {} {}", l, i),
        }
    }
}

fn tok_tbl(t: &Tbl) -> String {
    let ls: Vec<usize> = (0..t.len()).filter(|&l| t[l].len() > 1).collect();
    format!("{} {}", t.len(), seq(&ls, |&l| format!("{} {}", l, seq(&t[l][1..], |a| format!("{} {} {} {} {}", a.tr, f(a.ae), f(a.ax), f(a.ce), f(a.cx))))))
}
fn tok_net(net: &[Link]) -> String {
    format!("{} {}", seq(net, |l| l.idx_flip.idx().to_string()), seq(net, |l| seq(&l.link_idxs_lockout, |x| x.idx().to_string())))
}

/// the table operations that turn `p` into `n` (one train's advance, or one train's rewind)
fn diff(p: &Tbl, n: &Tbl) -> Result<Vec<Op>, String> {
    let mut ops = vec![];
    // field changes of one authority a -> b (same train, same arrive_entry)
    fn fields(ops: &mut Vec<Op>, l: usize, i: usize, a: &A, b: &A) -> Result<(), String> {
        let ch = [(a.ax, b.ax), (a.ce, b.ce), (a.cx, b.cx)];
        for (k, (x, y)) in ch.iter().enumerate() {
            if x != y && !(*x == INF && *y != INF) && !(*y == INF && *x != INF) { return Err(format!("field {} of {}[{}] changed {} -> {}", ["arrive_exit", "clear_entry", "clear_exit"][k], l, i, x, y)); }
        }
        let set = |k: usize| ch[k].0 == INF && ch[k].1 != INF;
        let t = b.cx;
        // early-exit branch of update_occupancy: clear_exit closes together with arrive_exit and/or clear_entry at the same instant
        if set(2) && ((set(0) && b.ax == t) || (set(1) && b.ce == t)) {
            if set(1) && b.ce != t { ops.push(Op::Ce { l, i, t: b.ce }); }
            if set(0) && b.ax != t { ops.push(Op::Ax { l, i, t: b.ax }); }
            ops.push(Op::Fin { l, i, t });
            return Ok(());
        }
        for k in 0..3 {
            let (x, y) = ch[k];
            if x == y { continue; }
            if x == INF { ops.push(match k { 0 => Op::Ax { l, i, t: y }, 1 => Op::Ce { l, i, t: y }, _ => Op::Cx { l, i, t: y } }); }
            else { ops.push(match k { 0 => Op::RAx { l, i }, 1 => Op::RCe { l, i }, _ => Op::RCx { l, i } }); }
        }
        Ok(())
    }
    for l in 0..p.len() {
        let (pv, nv) = (&p[l], &n[l]);
        let common = pv.len().min(nv.len());
        if pv[0] != nv[0] { return Err(format!("sentinel of link {} changed", l)); }
        for i in 1..common {
            let (a, b) = (pv[i], nv[i]);
            if a == b { continue; }
            if a.tr != b.tr { return Err(format!("authority {}[{}] changed train {} -> {}", l, i, a.tr, b.tr)); }
            if a.ae != b.ae { return Err(format!("arrive_entry of {}[{}] changed {} -> {}", l, i, a.ae, b.ae)); }
            fields(&mut ops, l, i, &a, &b)?;
        }
        for _ in common..pv.len() { ops.push(Op::Pop { l }); }
        for i in common..nv.len() {
            let b = nv[i];
            ops.push(Op::Push { l, tr: b.tr, t: b.ae, front: None });
            fields(&mut ops, l, i, &A { ae: b.ae, ax: INF, ce: INF, cx: INF, tr: b.tr }, &b)?;
        }
    }
    ops.sort_by(|x, y| {
        let rewind = |o: &Op| o.rank() < 4;
        match (rewind(x), rewind(y)) {
            (true, true) => x.rank().cmp(&y.rank()),
            (true, false) => std::cmp::Ordering::Less,
            (false, true) => std::cmp::Ordering::Greater,
            _ => x.time().partial_cmp(&y.time()).unwrap_or(std::cmp::Ordering::Equal).then(x.rank().cmp(&y.rank())),
        }
    });
    // the link the front leaves when it enters a new one: the same train's arrive_exit closes at the same instant
    let train_of = |l: usize, i: usize| -> u32 { if i < n[l].len() { n[l][i].tr } else { 0 } };
    let axs: Vec<(usize, usize, f64)> = ops.iter().filter_map(|o| if let Op::Ax { l, i, t } = o { Some((*l, *i, *t)) } else { None }).collect();
    for o in ops.iter_mut() {
        if let Op::Push { tr, t, front, .. } = o {
            *front = axs.iter().find(|(l, i, ta)| *ta == *t && train_of(*l, *i) == *tr).map(|x| (x.0, x.1));
        }
    }
    Ok(ops)
}

// ---------------------------------------------------------------- oracle (never consults the model)

fn empty(a: &A) -> bool { a.cx <= a.ae }
/// the two occupancy windows [arrive_entry, clear_exit) share no time of positive length (+inf = still held)
fn disjoint(a: &A, b: &A) -> bool { empty(a) || empty(b) || b.cx <= a.ae || a.cx <= b.ae }
fn conf(net: &[Link], l: usize) -> Vec<usize> {
    let mut v = vec![net[l].idx_flip.idx()];
    v.extend(net[l].link_idxs_lockout.iter().map(|x| x.idx()));
    v
}
/// exactly the clauses of the model's `planOk`, on the raw snapshot (sentinels included)
fn raw_plan_ok(net: &[Link], t: &Tbl) -> bool {
    let sp = spacing();
    for l in 0..t.len() {
        for a in &t[l] { if !(a.ae <= a.ce && a.ce <= a.cx && a.ax <= a.cx && a.ae < INF) { return false; } }
        for w in t[l].windows(2) {
            let (a, b) = (&w[0], &w[1]);
            if !(a.ce + sp <= b.ae || a.cx <= b.ae) { return false; }
            if !(a.cx + sp <= b.ax || b.ax == b.cx) { return false; }
            if !(a.cx <= b.cx) { return false; }
        }
        for m in conf(net, l) { if m >= t.len() { continue; } for a in &t[l] { for b in &t[m] { if !disjoint(a, b) { return false; } } } }
    }
    true
}

/// every real link that conflicts with a link on which some authority is still held is marked in links_blocked
fn blocked_covers(net: &[Link], t: &Tbl, blocked: &[u32]) -> bool {
    for y in 0..t.len() { for a in &t[y] { if a.cx == INF { for x in conf(net, y) { if x != 0 && blocked.get(x).copied().unwrap_or(0) == 0 { return false; } } } } }
    true
}

fn auth_json(l: usize, i: usize, a: &A) -> serde_json::Value {
    serde_json::json!({"link": l, "idx": i, "train": a.tr, "arrive_entry": a.ae, "arrive_exit": a.ax, "clear_entry": a.ce, "clear_exit": a.cx})
}

struct Case<'a> { sc: &'a Scen, seed: u64, id: String, tainted: std::cell::Cell<bool> }
impl<'a> Case<'a> {
    /// findings at or after the first early exit behind a leader (known defect) are filed under dedicated clause names
    fn fail(&self, ctx: &mut Ctx, clause: &str, wh: &str, detail: String, input: serde_json::Value) {
        if self.tainted.get() && clause != "early_exit_behind_leader" {
            ctx.fail("C04", &format!("{}_after_early_exit", clause), wh, format!("{} [after an early exit behind a leader in this scenario]", detail), input);
        } else {
            ctx.fail("C04", clause, wh, detail, input);
        }
    }
    fn input(&self, extra: serde_json::Value) -> serde_json::Value {
        serde_json::json!({
            "block": "c04", "scenario_seed": format!("{:#x}", self.seed), "kind": self.sc.kind, "case": self.id,
            "links": if self.sc.kind == "taconite" { vec![serde_json::json!("python/altrios/resources/networks/Taconite.yaml as shipped in the tree under test")] } else { self.sc.net.iter().skip(1).map(|l| serde_json::json!([l.idx_curr.idx(), l.length.value, l.idx_flip.idx(), l.idx_next.idx(), l.idx_next_alt.idx(), l.link_idxs_lockout.iter().map(|x| x.idx()).collect::<Vec<_>>()])).collect::<Vec<_>>() },
            "links_legend": "[idx, length_m, flip, next, next_alt, lockouts]",
            "trains": self.sc.trains.iter().zip(&self.sc.routes).map(|(t, r)| serde_json::json!({"length_m": t.state.length.value, "depart_s": t.state.time.value, "orig": r.2, "dest": r.3})).collect::<Vec<_>>(),
            "detail": extra,
        })
    }
}

/// property clauses on one observed table; `ae_true` replaces a rewritten arrive_entry by the real front-entry time
fn oracle_table(ctx: &mut Ctx, case: &Case, phase: &str, k: usize, t: &Tbl, ob: &[Vec<f64>], blocked: &[u32]) {
    let net = &case.sc.net;
    let sp = spacing();
    let fix = |_l: usize, a: &A| -> A { *a }; // (the pinned code rewrote arrive_entry on early exit; repaired by C04-fix-1)
    let wh = format!("{} snapshot {} ({})", case.id, k, phase);
    for l in 1..t.len() {
        // opposing direction / declared mutual exclusion
        for (ci, m) in conf(net, l).into_iter().enumerate() {
            if m == 0 || m >= t.len() || m < l && conf(net, m).contains(&l) { continue; } // each unordered pair once
            let clause = if ci == 0 { "no_opposing_overlap" } else { "no_lockout_overlap" };
            for (i, a) in t[l].iter().enumerate().skip(1) { for (j, b) in t[m].iter().enumerate().skip(1) {
                if a.tr == b.tr { ctx.count("c04.same_train_on_conflicting_links"); continue; }
                ctx.checked("C04", clause);
                let (a2, b2) = (fix(l, a), fix(m, b));
                if !disjoint(&a2, &b2) {
                    case.fail(ctx, clause, &wh, format!("trains {} and {} hold {} links {} and {} during overlapping windows [{}, {}) and [{}, {})", a.tr, b.tr, if ci == 0 { "opposite-direction" } else { "mutually exclusive" }, l, m, a2.ae, a2.cx, b2.ae, b2.cx),
                        case.input(serde_json::json!({"snapshot": k, "phase": phase, "a": auth_json(l, i, a), "b": auth_json(m, j, b)})));
                }
            } }
        }
        // following moves over one directed link
        let fl = net[l].idx_flip.idx();
        for i in 2..t[l].len() {
            let (a, b) = (fix(l, &t[l][i - 1]), fix(l, &t[l][i]));
            ctx.checked("C04", "headway_entry");
            if !(a.ce + sp <= b.ae) {
                // not a following move if an opposing train used the segment in between
                let between = fl < t.len() && t[fl].iter().skip(1).any(|c| a.cx <= c.ae && c.cx <= b.ae && c.ae < c.cx || a.cx <= c.ae && c.cx <= b.ae);
                if between && a.cx <= b.ae { ctx.count("c04.headway.opposing_move_between"); }
                else if a.cx <= b.ae { ctx.count("c04.headway.vacated_no_opposing"); case.fail(ctx, "headway_after_vacated", &wh, format!("train {} enters link {} at {} only {} s after the tail of train {} entered it ({}), headway {} s; the leader had left the link ({}) and no opposing move lies in between", b.tr, l, b.ae, b.ae - a.ce, a.tr, a.ce, sp, a.cx),
                        case.input(serde_json::json!({"snapshot": k, "phase": phase, "a": auth_json(l, i - 1, &a), "b": auth_json(l, i, &b)}))); }
                else { case.fail(ctx, "headway_entry", &wh, format!("train {} enters link {} at {} only {} s after the tail of train {} entered it ({}), headway {} s, leader still in the link", b.tr, l, b.ae, b.ae - a.ce, a.tr, a.ce, sp),
                        case.input(serde_json::json!({"snapshot": k, "phase": phase, "a": auth_json(l, i - 1, &a), "b": auth_json(l, i, &b)}))); }
            }
            // an authority closed by the early-exit branch (train terminated on this link) has arrive_exit == clear_exit: its front never left
            let terminated = b.ax == b.cx && b.cx.is_finite();
            if terminated { ctx.count("c04.headway_exit.follower_terminated_on_link"); } else {
                ctx.checked("C04", "headway_exit");
                if !(a.cx + sp <= b.ax) {
                    case.fail(ctx, "headway_exit", &wh, format!("front of train {} leaves link {} at {} less than {} s after the tail of train {} left it ({})", b.tr, l, b.ax, sp, a.tr, a.cx),
                        case.input(serde_json::json!({"snapshot": k, "phase": phase, "a": auth_json(l, i - 1, &a), "b": auth_json(l, i, &b)})));
                }
            }
            ctx.checked("C04", "no_order_change");
            if terminated && a.cx > b.cx {
                case.fail(ctx, "early_exit_behind_leader", &wh, format!("train {} terminates on link {} at {} while train {} ahead of it has not cleared the link (clear_exit {}): the follower's authority is closed before the leader's, so the last authority of the link no longer carries the latest clear time and the link is released early [early exit behind a leader]", b.tr, l, b.cx, a.tr, a.cx),
                    case.input(serde_json::json!({"snapshot": k, "phase": phase, "a": auth_json(l, i - 1, &a), "b": auth_json(l, i, &b)})));
            } else if !(a.ae <= b.ae && (a.ax <= b.ax || terminated) && a.ce <= b.ce && a.cx <= b.cx) {
                case.fail(ctx, "no_order_change", &wh, format!("trains {} then {} entered link {} in this order but their events are not in the same order: entry {} / {}, front exit {} / {}, tail entry {} / {}, tail exit {} / {}", a.tr, b.tr, l, a.ae, b.ae, a.ax, b.ax, a.ce, b.ce, a.cx, b.cx),
                    case.input(serde_json::json!({"snapshot": k, "phase": phase, "a": auth_json(l, i - 1, &a), "b": auth_json(l, i, &b)})));
            }
        }
        // each authority by itself
        for (i, a) in t[l].iter().enumerate().skip(1) {
            ctx.checked("C04", "authority_wellformed");
            if !(a.ae <= a.ce && a.ce <= a.cx && a.ax <= a.cx && a.ae < INF) {
                case.fail(ctx, "authority_wellformed", &wh, format!("authority of train {} on link {} has inconsistent times: arrive_entry {} arrive_exit {} clear_entry {} clear_exit {}", a.tr, l, a.ae, a.ax, a.ce, a.cx),
                    case.input(serde_json::json!({"snapshot": k, "phase": phase, "a": auth_json(l, i, a)})));
            }
            ctx.checked("C04", "held_flag_consistent");
            if (a.cx == INF) == (ob[l][i] == INF) {
                case.fail(ctx, "held_flag_consistent", &wh, format!("authority of train {} on link {}: clear_exit {} but offset_back {}", a.tr, l, a.cx, ob[l][i]), case.input(serde_json::json!({"snapshot": k, "a": auth_json(l, i, a)})));
            }
        }
    }
    // links_blocked: a link must be marked blocked while a conflicting link is held
    for x in 1..t.len() {
        let holders: Vec<u32> = (1..t.len()).filter(|&y| conf(net, y).contains(&x)).flat_map(|y| t[y].iter().skip(1).filter(|a| a.cx == INF).map(|a| a.tr).collect::<Vec<_>>()).collect();
        ctx.checked("C04", "blocked_covers_held");
        if !holders.is_empty() && blocked[x] == 0 {
            case.fail(ctx, "blocked_covers_held", &wh, format!("link {} is not marked blocked although train(s) {:?} hold a link that conflicts with it", x, holders), case.input(serde_json::json!({"snapshot": k, "phase": phase, "link": x})));
        }
        if holders.is_empty() && blocked[x] != 0 { ctx.count("c04.blocked.stale_block"); }
        else if blocked[x] != 0 && !holders.contains(&blocked[x]) { ctx.count("c04.blocked.other_train_named"); }
        else if blocked[x] != 0 { ctx.count("c04.blocked.exact"); }
    }
}

/// black-box necessary condition on the returned timed paths
fn oracle_plan(ctx: &mut Ctx, case: &Case, plan: &[Vec<(usize, f64)>]) {
    let net = &case.sc.net;
    let sp = spacing();
    // front-occupancy interval per (train, link): [arrival, arrival at the next link) — a lower bound of the real occupancy
    let mut occ: Vec<(usize, usize, f64, f64, usize)> = vec![]; // train, link, from, to, next link
    for (ti, p) in plan.iter().enumerate() {
        for k in 0..p.len() {
            ctx.checked("C04", "plan_times_monotone");
            if k + 1 < p.len() && !(p[k].1 <= p[k + 1].1) { case.fail(ctx, "plan_times_monotone", &case.id, format!("train {} arrives at link {} at {} after arriving at the next link {} at {}", ti + 1, p[k].0, p[k].1, p[k + 1].0, p[k + 1].1), case.input(serde_json::json!({"plan": plan}))); }
            occ.push((ti + 1, p[k].0, p[k].1, if k + 1 < p.len() { p[k + 1].1 } else { p[k].1 }, if k + 1 < p.len() { p[k + 1].0 } else { 0 }));
        }
    }
    // tail-aware lower bound of the hold window ("from the front entering to the tail clearing"): when the front arrives at
    // link m+1 it is sum(len k+1..m) beyond the end of link k; while that is less than the train length the tail is
    // certainly still on link k (a train that ends its trip spanning several links holds them all to the end)
    let mut hold: Vec<(usize, usize, f64, f64)> = vec![]; // train, link, from, certainly-still-held-at
    for (ti, p) in plan.iter().enumerate() {
        let tl = case.sc.trains[ti].state.length.value;
        for k in 0..p.len() {
            // beyond(m) = how far the front is past the end of link k when it arrives at p[m]: 0 for m = k+1, then + len(p[m-1])
            let mut beyond = 0.0;
            let mut m = k;
            while m + 1 < p.len() {
                let nb = if m == k { 0.0 } else { beyond + net[p[m].0].length.value };
                if nb < tl { m += 1; beyond = nb; } else { break; }
            }
            hold.push((ti + 1, p[k].0, p[k].1, p[m].1));
        }
    }
    for x in &hold { for y in &hold {
        if x.0 >= y.0 { continue; }
        let opposing = net[x.1].idx_flip.idx() == y.1 && y.1 != 0;
        let locked = net[x.1].link_idxs_lockout.iter().any(|z| z.idx() == y.1) || net[y.1].link_idxs_lockout.iter().any(|z| z.idx() == x.1);
        if opposing || locked {
            let clause = if opposing { "plan_no_opposing_overlap_tail_aware" } else { "plan_no_lockout_overlap_tail_aware" };
            ctx.checked("C04", clause);
            if x.2.max(y.2) < x.3.min(y.3) {
                case.fail(ctx, clause, &case.id, format!("returned plan: train {} (front enters link {} at {}, tail certainly still on it at {}) and train {} (front enters the conflicting link {} at {}, tail certainly still on it at {}) hold both at once", x.0, x.1, x.2, x.3, y.0, y.1, y.2, y.3), case.input(serde_json::json!({"plan": plan})));
            }
        }
    } }
    for x in &occ { for y in &occ {
        if x.0 >= y.0 { continue; }
        let opposing = net[x.1].idx_flip.idx() == y.1;
        let locked = net[x.1].link_idxs_lockout.iter().any(|z| z.idx() == y.1) || net[y.1].link_idxs_lockout.iter().any(|z| z.idx() == x.1);
        if opposing || locked {
            let clause = if opposing { "plan_no_opposing_overlap" } else { "plan_no_lockout_overlap" };
            ctx.checked("C04", clause);
            if x.2.max(y.2) < x.3.min(y.3) {
                case.fail(ctx, clause, &case.id, format!("returned plan: front of train {} is on link {} during [{}, {}) while front of train {} is on the conflicting link {} during [{}, {})", x.0, x.1, x.2, x.3, y.0, y.1, y.2, y.3), case.input(serde_json::json!({"plan": plan})));
            }
        }
        if x.1 == y.1 {
            let (a, b) = if x.2 <= y.2 { (x, y) } else { (y, x) };
            // an opposing arrival on the flipped link strictly between the two arrivals: not a following move
            let fl = net[x.1].idx_flip.idx();
            let between = occ.iter().any(|c| c.1 == fl && fl != 0 && a.2 <= c.2 && c.2 <= b.2);
            ctx.checked("C04", "plan_headway");
            if !between && !(a.2 + sp <= b.2) {
                case.fail(ctx, "plan_headway", &case.id, format!("returned plan: trains {} and {} arrive at link {} at {} and {}, less than the headway {} s apart", a.0, b.0, x.1, a.2, b.2, sp), case.input(serde_json::json!({"plan": plan})));
            }
            if a.4 != 0 && a.4 == b.4 {
                ctx.checked("C04", "plan_no_overtaking");
                if !(a.3 <= b.3) { case.fail(ctx, "plan_no_overtaking", &case.id, format!("returned plan: train {} enters link {} before train {} ({} < {}) but reaches the next link {} after it ({} > {})", a.0, x.1, b.0, a.2, b.2, a.4, a.3, b.3), case.input(serde_json::json!({"plan": plan}))); }
            }
        }
    } }
}

// ---------------------------------------------------------------- driving the real code

fn run_scen(ctx: &mut Ctx, sc: &Scen, seed: u64, verbose: bool) {
    let id = format!("scen{:x}", seed);
    let case = Case { sc, seed, id: id.clone(), tainted: std::cell::Cell::new(false) };
    ctx.count(&format!("c04.scen.{}", sc.kind.split('-').next().unwrap()));
    ctx.count(&format!("c04.trains.{}", sc.trains.len()));
    if sc.kind.contains("lock") || sc.kind.contains("diamond") { ctx.count("c04.scen.with_lockouts"); }
    let mut ets = vec![];
    for t in &sc.trains {
        match guard(|| make_est_times(t.clone(), &sc.net)) {
            Some(Ok((et, _))) => ets.push(et),
            Some(Err(_)) => { ctx.count("c04.est_err"); return; }
            None => { ctx.count("c04.est_panic"); return; }
        }
    }
    let snaps: Rc<RefCell<Vec<Snap>>> = Rc::new(RefCell::new(vec![]));
    let s2 = snaps.clone();
    set_dispatch_observer(Some(Box::new(move |ph, tbl, bl| {
        let (t, ob) = conv(tbl);
        s2.borrow_mut().push(Snap { phase: ph.to_string(), tbl: t, ob, blocked: bl.iter().map(|x| x.map(|y| y.get() as u32).unwrap_or(0)).collect() });
    })));
    let res = guard(|| run_dispatch(&sc.net, &sc.trains, ets.clone(), false, false));
    set_dispatch_observer(None);
    let snaps = snaps.borrow();
    let plan: Option<Vec<Vec<(usize, f64)>>> = match &res {
        Some(Ok(p)) => { ctx.count("c04.dispatch.ok"); Some(p.iter().map(|v| v.iter().map(|x| (x.link_idx.idx(), x.time.value)).collect()).collect()) }
        Some(Err(e)) => { ctx.count("c04.dispatch.err"); ctx.sample("c04.dispatch_err", serde_json::json!(format!("{:?}", e).chars().take(240).collect::<String>())); None }
        None => {
            // aborts of run_dispatch belong to C05; counted here by kind
            let m = last_panic();
            let kind = if m.contains("was placed prior to") || m.contains("was placed past") { "train_placed_into_another" } else if m.contains("time_update <= self.time_update_next") { "time_runs_backwards" } else if m.contains("out of range") { "index_out_of_range" } else { "other" };
            ctx.count("c04.dispatch.panic"); ctx.count(&format!("c04.dispatch.panic.{}", kind));
            ctx.sample(&format!("c04.dispatch_panic.{}", kind), serde_json::json!({"seed": format!("{:#x}", seed), "msg": m})); None }
    };
    if verbose { dump(sc, &snaps, &plan); eprintln!("result: {}", match &res { Some(Ok(_)) => "ok".to_string(), Some(Err(e)) => format!("err {:?}", e).chars().take(600).collect(), None => format!("panic {}", last_panic()) }); }
    if snaps.is_empty() { return; }
    let n_links = sc.net.len();
    let net_tok = tok_net(&sc.net);
    let mut prev: Tbl = vec![vec![A { ae: -INF, ax: -INF, ce: -INF, cx: -INF, tr: 0 }]; n_links];
    // first snapshot showing the known early-exit defect (a follower terminated behind a train still in the link)
    let early = |t: &Tbl| t.iter().any(|v| (1..v.len()).any(|j| v[j].ax == v[j].cx && v[j].cx.is_finite() && (1..j).any(|i| v[i].cx > v[j].cx)));
    let k0 = snaps.iter().position(|s| early(&s.tbl)).unwrap_or(usize::MAX);
    if k0 != usize::MAX { ctx.count("c04.scen.with_early_exit_behind_leader"); if res.is_none() { ctx.count("c04.dispatch.panic_after_early_exit"); } }
    for (k, s) in snaps.iter().enumerate() {
        case.tainted.set(k >= k0);
        ctx.count(&format!("c04.snap.{}", s.phase));
        if s.tbl == prev && k > 0 { ctx.count("c04.snap.unchanged"); }
        else if k > k0 { ctx.count("c04.snap.step_not_replayed_after_early_exit"); }
        else {
            ctx.checked("C04", "table_effects");
            match diff(&prev, &s.tbl) {
                Ok(ops) => {
                    for o in &ops { ctx.count(&format!("c04.ops.{}", o.name())); }
                    stats_gate(ctx, &sc.net, &prev, &ops);
                    // a train that ends its trip still spans every link it holds until that instant (its tail never
                    // clears them earlier): all its remaining authorities must be released at ONE time, the end of the trip
                    {
                        let mut by_train: std::collections::BTreeMap<u32, Vec<(usize, f64)>> = Default::default();
                        for o in &ops { if let Op::Fin { l, i, t } = o { by_train.entry(s.tbl[*l][*i].tr).or_default().push((*l, *t)); } }
                        for (tr, v) in by_train {
                            ctx.checked("C04", "trip_end_releases_all_links_at_once");
                            let tmax = v.iter().map(|x| x.1).fold(f64::NEG_INFINITY, f64::max);
                            if v.len() > 1 { ctx.count("c04.fin.train_spanning_several_links"); }
                            if v.len() > 2 { ctx.count("c04.fin.train_spanning_three_or_more_links"); }
                            if let Some(bad) = v.iter().find(|x| x.1 != tmax) {
                                case.fail(ctx, "trip_end_releases_all_links_at_once", &id, format!("snapshot {} ({}): train {} ends its trip at {} but its authority on link {} is closed (clear_exit) at {}, while its tail is still there", k, s.phase, tr, tmax, bad.0, bad.1), case.input(serde_json::json!({"snapshot": k, "released": v})));
                            }
                        }
                    }
                    let ok = raw_plan_ok(&sc.net, &s.tbl);
                    if !ok { ctx.count("c04.snap.raw_plan_not_ok"); }
                    // the only precondition the unchanged code is known to break: a train terminating behind a leader that is still in the link
                    let pre = !ops.iter().any(|o| matches!(o, Op::Fin { l, i, t } if s.tbl[*l][*i - 1].cx > *t));
                    let cov = blocked_covers(&sc.net, &s.tbl, &s.blocked);
                    ctx.op("C04", "c04_step", &format!("{} {} {} {} {} {}", f(spacing()), f(OVERLAP), net_tok, tok_tbl(&prev), seq(&ops, |o| o.tok()), seq(&s.blocked, |x| x.to_string())),
                        &format!("ok {} {} {} {}", b(pre), b(ok), b(cov), tok_tbl(&s.tbl)));
                }
                Err(why) => {
                    case.fail(ctx, "table_effects", &id, format!("snapshot {} ({}): the authority table changed in a way that is not a push/close/finish/pop/reset: {}", k, s.phase, why), case.input(serde_json::json!({"snapshot": k})));
                }
            }
        }
        oracle_table(ctx, &case, &s.phase, k, &s.tbl, &s.ob, &s.blocked);
        prev = s.tbl.clone();
    }
    let last = snaps.last().unwrap();
    if last.phase == "final" {
        ctx.op("C04", "c04_final", &format!("{} {} {}", f(spacing()), net_tok, tok_tbl(&last.tbl)), &format!("ok {}", b(raw_plan_ok(&sc.net, &last.tbl))));
        // the returned arrival times are the arrive_entry times of the final authorities
        if let Some(p) = &plan { for (ti, v) in p.iter().enumerate() { for (l, t) in v {
            ctx.checked("C04", "plan_matches_table");
            if !last.tbl[*l].iter().any(|a| a.tr as usize == ti + 1 && a.ae == *t) { case.fail(ctx, "plan_matches_table", &id, format!("returned plan: train {} arrives at link {} at {} but the final authority table has no such authority", ti + 1, l, t), case.input(serde_json::json!({"plan": p}))); }
        } } }
    }
    if let Some(p) = &plan {
        oracle_plan(ctx, &case, p);
        let sid = p.iter().flatten().filter(|x| sc.lines.iter().any(|l| l.sidings.iter().any(|s| s.1 as usize == x.0 || s.2 as usize == x.0))).count();
        if sid > 0 { ctx.count("c04.scen.siding_used"); }
        if ctx.samples.get("c04.plan").map(|v| v.len()).unwrap_or(0) < 3 && sid > 0 { ctx.sample("c04.plan", serde_json::json!({"seed": format!("{:#x}", seed), "kind": sc.kind, "trains": sc.trains.len(), "snapshots": snaps.len(), "plan": p})); }
    }
    if snaps.iter().any(|s| s.phase == "rewind") { ctx.count("c04.scen.with_rewind"); }
}

/// which branch of the gate each observed entry took (distribution only)
fn stats_gate(ctx: &mut Ctx, net: &[Link], t: &Tbl, ops: &[Op]) {
    let sp = spacing();
    for o in ops {
        if let Op::Push { l, t: te, .. } = o {
            let prev = t[*l].last().unwrap();
            let fl = t[net[*l].idx_flip.idx()].last().unwrap();
            let same = prev.cx >= fl.cx;
            let g = if same { prev.ce + sp } else { fl.cx };
            ctx.count(if same { "c04.gate.same_direction_branch" } else { "c04.gate.opposite_direction_branch" });
            if prev.tr != 0 && prev.cx == INF { ctx.count("c04.gate.entered_behind_held_leader"); }
            if g.is_finite() && *te == g { ctx.count("c04.gate.binding_neighbour"); }
            for m in &net[*l].link_idxs_lockout { let a = t[m.idx()].last().unwrap(); if a.tr != 0 { ctx.count("c04.gate.lockout_seen"); if *te <= a.cx + OVERLAP + 1e-9 + 60.0 && *te >= a.cx + OVERLAP { ctx.count("c04.gate.lockout_near_binding"); } } }
        }
    }
}

pub fn dump(sc: &Scen, snaps: &[Snap], plan: &Option<Vec<Vec<(usize, f64)>>>) {
    eprintln!("=== {} trains={}", sc.kind, sc.trains.len());
    for (i, l) in sc.net.iter().enumerate().skip(1) { eprintln!("  link {} len {} flip {} next {} alt {} prev {} palt {} lock {:?}", i, l.length.value, l.idx_flip.idx(), l.idx_next.idx(), l.idx_next_alt.idx(), l.idx_prev.idx(), l.idx_prev_alt.idx(), l.link_idxs_lockout.iter().map(|x| x.idx()).collect::<Vec<_>>()); }
    for (t, r) in sc.trains.iter().zip(&sc.routes) { eprintln!("  train len {} depart {} orig {} dest {}", t.state.length.value, t.state.time.value, r.2, r.3); }
    let mut prev: Option<&Snap> = None;
    for (k, s) in snaps.iter().enumerate() {
        eprintln!("-- {} {}", k, s.phase);
        for (li, v) in s.tbl.iter().enumerate() {
            if prev.map(|p| p.tbl[li] == *v && p.ob[li] == s.ob[li]).unwrap_or(false) { continue; }
            for (ai, a) in v.iter().enumerate().skip(1) { eprintln!("   L{} [{}] tr {} ae {:.1} ax {:.1} ce {:.1} cx {:.1} ob {:.1}", li, ai, a.tr, a.ae, a.ax, a.ce, a.cx, s.ob[li][ai]); }
        }
        eprintln!("   blocked {:?}", s.blocked.iter().enumerate().filter(|x| *x.1 != 0).collect::<Vec<_>>());
        prev = Some(s);
    }
    if let Some(p) = plan { for v in p { eprintln!("  plan {:?}", v); } }
}

/// the shipped Taconite network with the crate's own example trains: 2..5 trains, random directions, departures up to
/// 2.5 h apart (same generator as block c05, so a scenario seed means the same scenario in both)
pub fn gen_taconite_scen(r: &mut Rng) -> Option<Scen> {
    use altrios_core::train::{speed_limit_train_sim_fwd, speed_limit_train_sim_rev};
    use altrios_core::traits::SerdeAPI;
    static NET: std::sync::OnceLock<Option<Vec<Link>>> = std::sync::OnceLock::new();
    let net = NET.get_or_init(|| {
        let repo = std::env::var("VERIF_REPO").unwrap_or_else(|_| "/repo".to_string());
        let p = std::path::Path::new(&repo).join("python/altrios/resources/networks/Taconite.yaml");
        guard(|| Network::from_file(p).ok().map(|n| n.0)).flatten()
    });
    let net = net.as_ref()?;
    let nt = r.usize(2, 5);
    let mut trains = vec![];
    let mut routes = vec![];
    for t in 0..nt {
        let east = if t < 2 { t == 0 } else { r.chance(0.5) };
        let mut s = if east { speed_limit_train_sim_fwd() } else { speed_limit_train_sim_rev() };
        s.state.time = altrios_core::uc::S * (r.range(0, 6) as f64 * 1800.0);
        s.train_id = format!("T{}{}", t + 1, if east { "fwd" } else { "rev" });
        routes.push((0usize, east, s.origs[0].link_idx.idx() as u32, s.dests[0].link_idx.idx() as u32));
        trains.push(s);
    }
    Some(Scen { net: net.clone(), lines: vec![], trains, routes, kind: "taconite".to_string() })
}

pub fn run(ctx: &mut Ctx, r: &mut Rng, tier: &str) {
    if let Ok(sd) = std::env::var("C04_TACONITE_SEED") {
        let seed: u64 = sd.parse().unwrap();
        let mut rr = Rng(seed);
        if let Some(sc) = gen_taconite_scen(&mut rr) { run_scen(ctx, &sc, seed, std::env::var("C04_VERBOSE").is_ok()); }
        for fd in &ctx.findings { eprintln!("FINDING {} {}", fd.clause, fd.detail.chars().take(300).collect::<String>()); }
        eprintln!("stats {:?}", ctx.stats);
        return;
    }
    // replay of one scenario: C04_SEED=<hex scenario_seed of a finding>
    if let Ok(sd) = std::env::var("C04_SEED") {
        let seed = u64::from_str_radix(sd.trim_start_matches("0x"), 16).unwrap();
        let mut rr = Rng(seed);
        let sc = gen_scen(&mut rr, 8);
        if let Ok(dir) = std::env::var("C04_DUMP_DIR") {
            let _ = std::fs::create_dir_all(&dir);
            let _ = std::fs::write(format!("{}/network.json", dir), serde_json::to_string(&sc.net).unwrap());
            let _ = std::fs::write(format!("{}/trains.json", dir), serde_json::to_string(&sc.trains).unwrap());
        }
        run_scen(ctx, &sc, seed, true);
        return;
    }
    let n: usize = std::env::var("C04_N").ok().and_then(|x| x.parse().ok()).unwrap_or(if tier == "thorough" { 6000 } else { 800 });
    for _ in 0..n {
        let mut rr = r.fork();
        let seed = rr.0;
        let sc = gen_scen(&mut rr, 8);
        if sc.net.validate().is_err() { ctx.count("c04.net_invalid"); continue; }
        run_scen(ctx, &sc, seed, false);
    }
    let nt: usize = std::env::var("C04_NT").ok().and_then(|x| x.parse().ok()).unwrap_or(if tier == "thorough" { 100 } else { 12 });
    for _ in 0..nt {
        let mut rr = r.fork();
        let seed = rr.0;
        match gen_taconite_scen(&mut rr) {
            Some(sc) => run_scen(ctx, &sc, seed, false),
            None => ctx.count("c04.taconite_unavailable"),
        }
    }
}
