//! Block `c05` (exploration stage)
use crate::dispgen::*;
use crate::prng::Rng;
use crate::proto::*;
use altrios_core::meet_pass::dispatch::run_dispatch;
use altrios_core::prelude::*;
use altrios_core::validate::*;
use serde_json::json;

fn gen_sc(r: &mut Rng) -> Scenario {
    let class = r.below(4);
    if class == 0 { return gen_scenario(r, 8); }
    let n_main = r.usize(5, 14);
    let mut siding_at: Vec<usize> = vec![];
    let p = if class == 2 { 0.0 } else { 0.7 };
    let mut k = 1;
    while k + 1 < n_main { if r.chance(p) { siding_at.push(k); k += 2; } else { k += 1; } }
    let lock = r.chance(0.3);
    let dn = gen_disp_net(r, n_main, &siding_at, lock);
    let nt = r.usize(2, 8);
    let mut trains = vec![]; let mut dirs = vec![];
    let window = *r.pick(&[0i64, 2, 10, 30]);
    let interior = r.chance(0.5);
    for t in 0..nt {
        let east = if class == 3 { t % 2 == 0 } else { r.chance(0.5) };
        let (mut i, mut j) = (0usize, n_main - 1);
        if interior { i = r.usize(0, n_main - 2); j = r.usize(i + 1, n_main - 1); }
        let pickl = |r: &mut Rng, k: usize, fwd: bool| -> Vec<u32> {
            // main link k, or the siding parallel to it, or both
            let sid = dn.sidings.iter().find(|s| s.0 == k).map(|s| if fwd { s.1 } else { s.2 });
            let main = if fwd { dn.main_fwd[k] } else { dn.main_rev[k] };
            match (sid, r.below(4)) { (Some(x), 0) => vec![x], (Some(x), 1) => vec![main, x], _ => vec![main] }
        };
        let (o, d) = if east { (pickl(r, i, true), pickl(r, j, true)) } else { (pickl(r, j, false), pickl(r, i, false)) };
        let depart = r.range(0, window) as f64 * 60.0;
        trains.push(gen_train(r, &format!("T{}", t + 1), o.iter().map(|&l| location("O", l)).collect(), d.iter().map(|&l| location("D", l)).collect(), depart));
        dirs.push(east);
    }
    Scenario { dn, trains, dirs }
}

pub fn run(ctx: &mut Ctx, r: &mut Rng, tier: &str) {
    let n = if tier == "thorough" { 400 } else { 40 };
    for _ in 0..n {
        let mut rr = r.fork();
        let sc = gen_sc(&mut rr);
        if sc.dn.net.validate().is_err() { ctx.count("c05.net_invalid"); continue; }
        let mut ets = vec![];
        let mut ok = true;
        for t in &sc.trains {
            match guard(|| make_est_times(t.clone(), &sc.dn.net)) {
                Some(Ok((et, _))) => { ets.push(et); }
                _ => { ok = false; break; }
            }
        }
        if !ok { ctx.count("c05.est_fail"); ctx.sample("c05.est_fail", json!(last_panic())); continue; }
        let (tx, rx) = std::sync::mpsc::channel();
        let net = sc.dn.net.clone();
        let trains = sc.trains.clone();
        let e2 = ets.clone();
        std::thread::spawn(move || {
            let res = guard(|| run_dispatch(&net, &trains, e2, false, false));
            let _ = tx.send(res.map(|x| x.map_err(|e| format!("{:?}", e))));
        });
        match rx.recv_timeout(std::time::Duration::from_secs(10)) {
            Ok(Some(Ok(_plan))) => ctx.count("c05.ok"),
            Ok(Some(Err(e))) => { ctx.count("c05.err"); ctx.sample("c05.err", json!(e.chars().take(300).collect::<String>())); }
            Ok(None) => { ctx.count("c05.panic"); let m = last_panic(); ctx.count(&format!("c05.panic.{}", m.chars().take(120).collect::<String>())); ctx.sample("c05.panic", json!({"msg": m, "trains": sc.trains.len(), "sidings": sc.dn.sidings.len(), "n_main": sc.dn.main_fwd.len(), "dirs": sc.dirs})); }
            Err(_) => { ctx.count("c05.hang"); ctx.sample("c05.hang", json!({"trains": sc.trains.len(), "sidings": sc.dn.sidings.len(), "dirs": sc.dirs})); }
        }
    }
}
