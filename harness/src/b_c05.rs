//! Block `c05` — property C05: "dispatch returns a complete, valid, memory-safe plan or an explicit error".
//!
//!  1. the private sentinel searches of `meet_pass/train_disp/free_path.rs` are called through the
//!     `verif-hooks` wrappers on generated and adversarial arguments; answer (result / panic kind) is what
//!     the Lean model (`Altrios/FreePath.lean`) must reproduce; arguments for which the model predicts an
//!     out-of-range RAW access are executed in a child process (the debug build's UB check aborts);
//!  2. the real `run_dispatch` runs on generated scenarios (watchdog thread: a hang is a finding); the
//!     returned plan is re-checked clause by clause in Rust (`check_route`, never consulting the model) and
//!     is also sent — together with mutated, mostly invalid copies — through the Lean decision procedure
//!     `planOk`, whose verdict must equal the Rust re-check;
//!  3. the outer loop of `run_dispatch` is re-driven through the public `TrainDisp` API (`manual_dispatch`,
//!     a line-by-line copy whose result must equal the real function's result) to observe the queue
//!     bookkeeping (pop order, parked list, finished set), which the Lean queue model must reproduce.
use crate::dispgen::*;
use crate::prng::Rng;
use crate::proto::*;
use altrios_core::meet_pass::disp_structs::*;
use altrios_core::meet_pass::dispatch::run_dispatch;
use altrios_core::meet_pass::est_times::EstTime;
use altrios_core::meet_pass::train_disp::free_path_verif_hooks as fp;
use altrios_core::meet_pass::train_disp::{FreePathStatus, TrainDisp};
use altrios_core::prelude::*;
use altrios_core::track::*;
use altrios_core::train::LinkIdxTime;
use altrios_core::uc;
use altrios_core::validate::*;
use serde_json::json;
use std::num::NonZeroU16;

const P: &str = "C05";

// ------------------------------------------------------------------------------------------------
// helpers
// ------------------------------------------------------------------------------------------------

fn tidx(v: u64) -> TrainIdx {
    NonZeroU16::new(v as u16)
}
fn tval(t: &TrainIdx) -> usize {
    t.map(|x| x.get() as usize).unwrap_or(0)
}
fn nats(xs: &[usize]) -> String {
    seq(xs, |x| x.to_string())
}

fn panic_kind(msg: &str) -> &'static str {
    if msg.contains("assertion") {
        "assert"
    } else if msg.contains("index out of bounds")
        || msg.contains("out of range for slice")
        || msg.contains("slice index starts at")
        || msg.contains("range end index")
        || msg.contains("range start index")
    {
        "index"
    } else if msg.contains("with overflow") {
        "overflow"
    } else if msg.contains("unreachable") {
        "unreachable"
    } else {
        "other"
    }
}

/// answer tokens of a guarded call
fn answer<T>(res: &Option<T>, g: impl Fn(&T) -> String) -> String {
    match res {
        Some(v) => format!("ok {}", g(v)),
        None => format!("panic {}", panic_kind(&last_panic())),
    }
}
fn outcome_tag<T>(res: &Option<T>) -> String {
    if res.is_some() { "ok".to_string() } else { format!("panic_{}", panic_kind(&last_panic())) }
}

/// In the worker process: announce the real call about to be made (flushed before the call), so that the
/// supervisor can name the input if the call aborts the process (`get_unchecked` precondition check of the
/// debug build, any other non-unwinding panic).
static IN_WORKER: std::sync::atomic::AtomicBool = std::sync::atomic::AtomicBool::new(false);
fn pre(v: serde_json::Value) {
    if IN_WORKER.load(std::sync::atomic::Ordering::Relaxed) {
        use std::io::Write;
        let mut o = std::io::stdout().lock();
        let _ = writeln!(o, "PRE {}", v);
        let _ = o.flush();
    }
}

// ------------------------------------------------------------------------------------------------
// 1. sentinel searches
// ------------------------------------------------------------------------------------------------

fn op_link_opt(ctx: &mut Ctx, r: &mut Rng) {
    let big = r.chance(0.15);
    let k = if big { 60 } else { r.usize(3, 24) };
    let nb = r.usize(0, 5);
    let blocking: Vec<usize> = (0..nb).map(|_| r.usize(1, k)).collect();
    let np = r.usize(0, 8);
    let on_path: Vec<usize> = (0..np).map(|_| r.usize(1, k)).collect();
    let bl: Vec<LinkIdx> = blocking.iter().map(|&x| LinkIdx::new(x as u32)).collect();
    let op: Vec<LinkIdx> = on_path.iter().map(|&x| LinkIdx::new(x as u32)).collect();
    pre(json!({"op": "c05_link_opt", "args": format!("{} {}", nats(&blocking), nats(&on_path))}));
    let res = guard(|| fp::verif_link_opt_type_new(&bl, &op));
    let ans = answer(&res, |t| format!("{} {} {}", t.0, t.1, t.2));
    ctx.op(P, "c05_link_opt", &format!("{} {}", nats(&blocking), nats(&on_path)), &ans);
    match res {
        Some(t) => {
            ctx.count(&format!("c05.link_opt.kind{}", t.0));
            // the unstated precondition of find_train_intersect's Range arm: min fits in u32
            ctx.checked(P, "link_opt_min_fits_u32");
            if t.1 > u32::MAX as usize {
                ctx.fail(P, "link_opt_min_fits_u32", "link_opt", format!("LinkOptType::new produced min {}", t.1), json!({"blocking": blocking, "on_path": on_path}));
            }
        }
        None => ctx.count("c05.link_opt.panic"),
    }
}

fn op_calc_sent(ctx: &mut Ctx, r: &mut Rng) {
    let n = r.usize(0, 8);
    let s = r.below(4) as usize;
    let class = r.below(10);
    let mut dn: Vec<(usize, usize)> = vec![];
    let mut d = 0usize;
    for _ in 0..n {
        if r.chance(0.6) {
            d += r.usize(0, 3);
        }
        dn.push((r.usize(0, 3), d));
    }
    if class < 7 && n > 0 {
        // the caller's discipline: the ending sentinel carries the searched train index
        dn[n - 1].0 = s;
        if class < 5 {
            dn[n - 1].1 = d + 1 + r.usize(0, 2);
        }
    }
    let div_idx = if class == 9 { r.usize(0, n + 2) } else if n > 0 { r.usize(0, n - 1) } else { 0 };
    let nodes: Vec<DivergeNode> = dn.iter().map(|&(t, d)| DivergeNode::new(tidx(t as u64), tidx(d as u64))).collect();
    pre(json!({"op": "c05_calc_sent", "args": format!("{} {} {}", div_idx, s, seq(&dn, |x| format!("{} {}", x.0, x.1)))}));
    let res = guard(|| fp::verif_calc_idx_sentinels(div_idx, tidx(s as u64), &nodes));
    let ans = answer(&res, |v| format!("{} {}", v.0, v.1));
    ctx.op(P, "c05_calc_sent", &format!("{} {} {}", div_idx, s, seq(&dn, |x| format!("{} {}", x.0, x.1))), &ans);
    ctx.count(&format!("c05.calc_sent.{}", outcome_tag(&res)));
    if let Some((d_s, j)) = res {
        // the sentinel found is the first node at/after div_idx with the train index; j is just past its group
        ctx.checked(P, "calc_sent_first_match");
        let good = match (div_idx..n).find(|&i| dn[i].0 == s) {
            Some(i) => dn[i].1 == d_s && j > i && j <= n && (i + 1..j).all(|k| dn[k].1 == d_s) && (j == n || j == i + 1 && dn[j].1 != d_s || j > i + 1 && dn[j].1 != d_s),
            None => false,
        };
        if !good {
            ctx.fail(P, "calc_sent_first_match", "calc_sent", format!("calc_idx_sentinels({}, {}, {:?}) = ({}, {})", div_idx, s, dn, d_s, j), json!({"div_idx": div_idx, "s": s, "div_nodes": dn}));
        }
        if j > (div_idx + 1) { ctx.count("c05.calc_sent.searched_past_start"); }
    }
}

/// `find_train_intersect` on arguments for which no raw access can leave the buffer
fn op_find_int(ctx: &mut Ctx, r: &mut Rng) {
    let k = r.usize(3, 20);
    let n = r.usize(1, 12);
    let mut path: Vec<usize> = (0..n).map(|_| if r.chance(0.4) { 0 } else { r.usize(1, k) }).collect();
    if r.chance(0.8) {
        path[n - 1] = 0; // ending sentinel LINK_IDX_NA
    }
    let class = r.below(12);
    let blen = if class == 0 { r.usize(0, k) } else { k + 1 };
    let blocked: Vec<usize> = (0..blen).map(|_| if r.chance(0.25) { r.usize(1, 3) } else { 0 }).collect();
    // link_opt_type: mostly what LinkOptType::new gives for links around the path
    let lot: (u8, usize, usize) = if class <= 7 {
        let nb = r.usize(1, 4);
        let blocking: Vec<LinkIdx> = (0..nb).map(|_| LinkIdx::new(if r.chance(0.7) { path[r.usize(0, n - 1)].max(1) as u32 } else { r.usize(1, k) as u32 })).collect();
        let on_path: Vec<LinkIdx> = path.iter().filter(|&&x| x != 0).map(|&x| LinkIdx::new(x as u32)).collect();
        guard(|| fp::verif_link_opt_type_new(&blocking, &on_path)).unwrap_or((3, 0, 0))
    } else if class == 8 {
        (2, r.usize(0, k + 3), r.usize(0, 18))
    } else if class == 9 {
        (1, r.usize(0, k + 1), 0)
    } else if class == 10 {
        (3, 0, 0)
    } else {
        (r.below(4) as u8, r.usize(0, k), r.usize(0, 16))
    };
    let idx_sentinel = if r.chance(0.1) { r.usize(0, n + 2) } else { r.usize(0, n - 1) };
    let idx_split = if r.chance(0.15) { r.usize(0, n + 1) } else { r.usize(0, idx_sentinel) };
    let lot = if lot.0 == 1 { (1, lot.1, 0) } else if lot.0 == 0 || lot.0 == 3 { (lot.0, 0, 0) } else { lot };
    let mut p: Vec<LinkIdx> = path.iter().map(|&x| LinkIdx::new(x as u32)).collect();
    let bl: Vec<TrainIdx> = blocked.iter().map(|&x| tidx(x as u64)).collect();
    let args = format!("{} {} {} {} {} {} {}", idx_split, idx_sentinel, lot.0, lot.1, lot.2, nats(&path), nats(&blocked));
    pre(json!({"op": "c05_find_int", "args": args}));
    let res = guard(|| fp::verif_find_train_intersect(idx_split, idx_sentinel, lot, &mut p, &bl));
    let after: Vec<usize> = p.iter().map(|x| x.idx()).collect();
    let ans = answer(&res, |v| format!("{} {}", v, nats(&after)));
    ctx.op(P, "c05_find_int", &args, &ans);
    ctx.count(&format!("c05.find_int.kind{}.{}", lot.0, outcome_tag(&res)));
    if let Some(v) = res {
        if idx_split < idx_sentinel {
            ctx.count("c05.find_int.searched");
            if v > idx_split { ctx.count("c05.find_int.advanced"); }
            if v == idx_sentinel { ctx.count("c05.find_int.hit_sentinel"); }
        }
        let input = json!({"idx_split": idx_split, "idx_sentinel": idx_sentinel, "link_opt": lot, "path": path, "blocked": blocked});
        ctx.checked(P, "find_int_sentinel_restored");
        if after != path {
            ctx.fail(P, "find_int_sentinel_restored", "find_int", format!("link_idx_path changed: {:?} -> {:?}", path, after), input.clone());
        }
        ctx.checked(P, "find_int_result_in_range");
        let (lo, hi) = (idx_split, idx_split.max(idx_sentinel));
        if v < lo || v > hi {
            ctx.fail(P, "find_int_result_in_range", "find_int", format!("result {} outside [{}, {}]", v, lo, hi), input);
        }
    }
}

fn view_tok(v: (usize, usize)) -> String {
    format!("{} {}", v.0, v.1)
}
fn mk_view(v: (usize, usize)) -> TrainIdxsView {
    TrainIdxsView::new(v.0 as u32, v.1 as u32)
}

fn gen_view(r: &mut Rng, len: usize, adversarial: bool) -> (usize, usize) {
    if adversarial && r.chance(0.5) {
        (r.usize(0, len + 2), r.usize(0, len + 3))
    } else {
        let b = r.usize(0, len);
        (b, r.usize(b, len))
    }
}

/// which: 0 add_blocking_trains, 1 add_all_blocking_trains, 2 concat_train_idx_views
fn op_views(ctx: &mut Ctx, r: &mut Rng, which: u8) {
    let len = r.usize(1, 10);
    let tb: Vec<usize> = (0..len).map(|i| if i == 0 { 0 } else { r.usize(1, 5) }).collect();
    let adversarial = r.chance(0.3);
    let (v1, v2) = match which {
        0 => {
            // base view positioned at the end of the buffer (the function's contract), unless adversarial
            let base = if adversarial && r.chance(0.6) { gen_view(r, len, true) } else { (r.usize(0, len), len) };
            (base, gen_view(r, len, adversarial))
        }
        _ => {
            let a = gen_view(r, len, adversarial);
            let b = if r.chance(0.3) { (r.usize(0, len), len) } else { gen_view(r, len, adversarial) };
            if r.chance(0.5) { (a, b) } else { (b, a) }
        }
    };
    let mut buf: Vec<TrainIdx> = tb.iter().map(|&x| tidx(x as u64)).collect();
    let (a, b) = (mk_view(v1), mk_view(v2));
    let name = ["c05_add_block", "c05_add_all", "c05_concat"][which as usize];
    pre(json!({"op": name, "args": format!("{} {} {}", nats(&tb), view_tok(v1), view_tok(v2))}));
    let res = guard(|| match which {
        0 => fp::verif_add_blocking_trains(&mut buf, &a, &b),
        1 => fp::verif_add_all_blocking_trains(&mut buf, &a, &b),
        _ => fp::verif_concat_train_idx_views(&mut buf, &a, &b),
    });
    let after: Vec<usize> = buf.iter().map(tval).collect();
    let ans = answer(&res, |v| format!("{} {} {}", nats(&after), v.idx_begin, v.idx_end));
    ctx.op(P, name, &format!("{} {} {}", nats(&tb), view_tok(v1), view_tok(v2)), &ans);
    ctx.count(&format!("c05.views.{}.{}", name, outcome_tag(&res)));
    if let Some(v) = res {
        let input = json!({"fn": name, "trains_blocking": tb, "view1": v1, "view2": v2});
        ctx.checked(P, "views_prefix_preserved");
        if after.len() < len || after[..len] != tb[..] {
            ctx.fail(P, "views_prefix_preserved", name, format!("buffer prefix changed: {:?} -> {:?}", tb, after), input.clone());
        }
        ctx.checked(P, "views_result_in_buffer");
        let (vb, ve) = (v.idx_begin as usize, v.idx_end as usize);
        let wellformed = v1.0 <= v1.1 && v1.1 <= len && v2.0 <= v2.1 && v2.1 <= len;
        if !wellformed {
            // adversarial views (outside the buffer): only the decision and the result are compared with the model
            ctx.count("c05.views.adversarial_ok");
        } else if vb > ve || ve > after.len() {
            ctx.fail(P, "views_result_in_buffer", name, format!("view ({}, {}) outside buffer of {}", vb, ve, after.len()), input.clone());
        } else {
            // set semantics: the resulting view holds exactly the trains of both views; no stray sentinel
            ctx.checked(P, "views_union");
            let mut want: Vec<usize> = tb[v1.0..v1.1].iter().chain(tb[v2.0..v2.1].iter()).copied().collect();
            want.sort();
            want.dedup();
            let mut got: Vec<usize> = after[vb..ve].to_vec();
            got.sort();
            got.dedup();
            if want != got {
                ctx.fail(P, "views_union", name, format!("view content {:?} != union {:?}", got, want), input);
            }
            if after.len() > len { ctx.count("c05.views.grew"); }
        }
    }
}

/// Arguments on which the model predicts `oob` (raw access out of range = UB): `Range(min, diff)` with
/// `min >= 2^32`, which `LinkOptType::new` never produces.  The debug build's `get_unchecked` precondition
/// check aborts the worker process; the supervisor records the answer `abort` (no finding: `ub_expected`).
fn op_ub_probe(ctx: &mut Ctx, r: &mut Rng) {
    let n = r.usize(2, 6);
    let path: Vec<usize> = (0..n).map(|_| r.usize(1, 9)).collect();
    let sentinel = n - 1;
    let split = r.usize(0, sentinel - 1);
    let min = (1usize << 32) * r.usize(1, 3) + r.usize(1, 9);
    let diff = r.usize(0, 16);
    let blocked = vec![0usize; 64];
    let args = format!("{} {} 2 {} {} {} {}", split, sentinel, min, diff, nats(&path), nats(&blocked));
    if !IN_WORKER.load(std::sync::atomic::Ordering::Relaxed) {
        // never executed in the supervising process itself
        ctx.count("c05.ub_probe.skipped_no_worker");
        return;
    }
    pre(json!({"op": "c05_find_int", "args": args, "ub_expected": true}));
    let mut p: Vec<LinkIdx> = path.iter().map(|&x| LinkIdx::new(x as u32)).collect();
    let bl: Vec<TrainIdx> = vec![None; 64];
    let res = guard(|| fp::verif_find_train_intersect(split, sentinel, (2, min, diff), &mut p, &bl));
    // reached only if the process survived
    let ans = if res.is_some() { "ok-returned".to_string() } else { format!("panic {}", panic_kind(&last_panic())) };
    ctx.op(P, "c05_find_int", &args, &ans);
    ctx.count("c05.ub_probe.survived");
}

// ------------------------------------------------------------------------------------------------
// 2. scenarios, plan re-check
// ------------------------------------------------------------------------------------------------

fn flat_link(idx: u32, len: f64, speed: f64, grade: f64) -> Link {
    Link {
        idx_curr: LinkIdx::new(idx),
        length: uc::M * len,
        elevs: vec![Elev { offset: uc::M * 0.0, elev: uc::M * 100.0 }, Elev { offset: uc::M * len, elev: uc::M * (100.0 + grade * len) }],
        headings: vec![],
        speed_set: Some(SpeedSet {
            speed_limits: vec![SpeedLimit { offset_start: uc::M * 0.0, offset_end: uc::M * len, speed: uc::MPS * speed }],
            speed_params: vec![],
            is_head_end: false,
        }),
        ..Default::default()
    }
}

/// graft a branch line onto the main line: it leaves the forward main segment `j` (alternative next link) and
/// runs to its own terminus; the reverse branch joins the reverse main segment `j`.
/// Returns (forward branch links, reverse branch links), None if segment `j` already carries a switch.
fn graft_branch(r: &mut Rng, dn: &mut DispNet, j: usize, m: usize) -> Option<(Vec<u32>, Vec<u32>)> {
    let (fmj, rmj) = (dn.main_fwd[j] as usize, dn.main_rev[j] as usize);
    if dn.net[fmj].idx_next_alt.is_real() || dn.net[rmj].idx_prev_alt.is_real() || !dn.net[fmj].link_idxs_lockout.is_empty() {
        return None;
    }
    // no coincident switch points: the next main segment must not be the end of a siding
    if j + 1 < dn.main_fwd.len() && dn.net[dn.main_fwd[j + 1] as usize].idx_prev_alt.is_real() {
        return None;
    }
    let base = dn.net.len() as u32;
    let fb: Vec<u32> = (0..m as u32).map(|i| base + i).collect();
    let rb: Vec<u32> = (0..m as u32).map(|i| base + m as u32 + i).collect();
    let lens: Vec<f64> = (0..m).map(|_| r.range(12, 40) as f64 * 250.0).collect();
    for i in 0..m {
        let mut l = flat_link(fb[i], lens[i], 15.0, 0.0);
        l.idx_prev = LinkIdx::new(if i == 0 { fmj as u32 } else { fb[i - 1] });
        l.idx_next = LinkIdx::new(if i + 1 < m { fb[i + 1] } else { 0 });
        l.idx_flip = LinkIdx::new(rb[i]);
        dn.net.push(l);
    }
    for i in 0..m {
        let mut l = flat_link(rb[i], lens[i], 15.0, 0.0);
        l.idx_next = LinkIdx::new(if i == 0 { rmj as u32 } else { rb[i - 1] });
        l.idx_prev = LinkIdx::new(if i + 1 < m { rb[i + 1] } else { 0 });
        l.idx_flip = LinkIdx::new(fb[i]);
        dn.net.push(l);
    }
    dn.net[fmj].idx_next_alt = LinkIdx::new(fb[0]);
    dn.net[rmj].idx_prev_alt = LinkIdx::new(rb[0]);
    Some((fb, rb))
}

/// main line with sidings plus a branch line (junction): four origin/destination relations
fn gen_branch_sc(r: &mut Rng, max_trains: usize) -> Option<Scenario> {
    let n_main = r.usize(4, 9);
    let mut siding_at: Vec<usize> = vec![];
    let mut k = 1;
    while k + 1 < n_main {
        if r.chance(0.5) { siding_at.push(k); k += 2; } else { k += 1; }
    }
    let mut dn = gen_disp_net(r, n_main, &siding_at, false);
    let j = r.usize(0, n_main - 2);
    let m = r.usize(1, 3);
    let (fb, rb) = graft_branch(r, &mut dn, j, m)?;
    let nt = r.usize(2, max_trains);
    let window = *r.pick(&[0i64, 5, 20]);
    let mut trains = vec![];
    let mut dirs = vec![];
    for t in 0..nt {
        let (o, d, east) = match r.below(4) {
            0 => (dn.main_fwd[0], dn.main_fwd[n_main - 1], true),
            1 => (dn.main_fwd[0], fb[m - 1], true),
            2 => (dn.main_rev[n_main - 1], dn.main_rev[0], false),
            _ => (rb[m - 1], dn.main_rev[0], false),
        };
        let depart = r.range(0, window) as f64 * 60.0;
        trains.push(gen_train(r, &format!("T{}", t + 1), vec![location("O", o)], vec![location("D", d)], depart));
        dirs.push(east);
    }
    Some(Scenario { dn, trains, dirs })
}

/// shorten a generated (flat_link) link consistently: length, the two elevation points (grade kept), the speed limit extent
fn shorten(net: &mut [Link], idx: usize, new_len: f64) {
    let m = |x: f64| uc::M * x;
    let l = &mut net[idx];
    let old = l.length.value;
    if l.elevs.len() == 2 && old > 0.0 {
        let (e0, e1) = (l.elevs[0].elev.value, l.elevs[1].elev.value);
        l.elevs[1].offset = m(new_len);
        l.elevs[1].elev = m(e0 + (e1 - e0) * new_len / old);
    }
    if let Some(ss) = l.speed_set.as_mut() { for sl in ss.speed_limits.iter_mut() { if sl.offset_end.value > new_len { sl.offset_end = m(new_len); } if sl.offset_start.value > new_len { sl.offset_start = m(new_len); } } }
    l.length = m(new_len);
}

fn gen_sc(r: &mut Rng, max_trains: usize) -> (Scenario, &'static str) {
    let class = r.below(9);
    if class == 8 {
        // terminal segments shorter than the trains: a train ends its trip still straddling earlier links; followers to
        // the same destination and opposing trains that depart later from the approach need exactly those links
        let n_main = r.usize(4, 8);
        let mut siding_at: Vec<usize> = vec![];
        let mut k = 2;
        while k + 2 < n_main { if r.chance(0.6) { siding_at.push(k); k += 2; } else { k += 1; } }
        let lock = r.chance(0.3);
        let mut dn = gen_disp_net(r, n_main, &siding_at, lock);
        for &k in &[0usize, 1, n_main - 2, n_main - 1] {
            if siding_at.contains(&k) { continue; }
            let len = r.range(1, 8) as f64 * 250.0;
            let (a, b) = (dn.main_fwd[k] as usize, dn.main_rev[k] as usize);
            // the flipped twin runs the other way: same length, mirrored elevations are rebuilt by the same rule
            shorten(&mut dn.net, a, len);
            shorten(&mut dn.net, b, len);
        }
        let nt = r.usize(3, max_trains);
        let mut trains = vec![];
        let mut dirs = vec![];
        for t in 0..nt {
            let east = if t < 2 { true } else { r.chance(0.5) };
            let (o, d) = if east { (dn.main_fwd[0], dn.main_fwd[n_main - 1]) } else { (dn.main_rev[n_main - 1], dn.main_rev[0]) };
            let depart = if t == 0 { 0.0 } else { r.range(0, 12) as f64 * 600.0 };
            trains.push(gen_train(r, &format!("T{}", t + 1), vec![location("O", o)], vec![location("D", d)], depart));
            dirs.push(east);
        }
        return (Scenario { dn, trains, dirs }, "short_terminal_links");
    }
    if class >= 6 {
        // the network families of block c04 (crossing lines, junctions, yards, short links), with departures up to
        // three hours apart: followers close up behind their leader inside one link before the opposing train moves
        let mut sc4 = crate::b_c04::gen_scen(r, max_trains);
        if class == 7 {
            let spread = *r.pick(&[1800.0, 3600.0, 5400.0]);
            for t in sc4.trains.iter_mut() {
                t.state.time = uc::S * (r.range(0, 3) as f64 * spread);
            }
        }
        let sidings: Vec<(usize, u32, u32)> = sc4.lines.iter().flat_map(|l| l.sidings.iter().map(|s| (s.0, s.1, s.2))).collect();
        let dirs = sc4.routes.iter().map(|x| x.1).collect();
        let dn = DispNet { net: sc4.net, main_fwd: vec![], main_rev: vec![], sidings };
        return (Scenario { dn, trains: sc4.trains, dirs }, if class == 6 { "c04_families" } else { "c04_families_spread_departures" });
    }
    if class == 0 {
        return (gen_scenario(r, max_trains), "base");
    }
    if class == 5 {
        return match gen_branch_sc(r, max_trains) {
            Some(sc) => (sc, "branch_junction"),
            None => (gen_scenario(r, max_trains), "base"),
        };
    }
    let n_main = r.usize(3, 12);
    let mut siding_at: Vec<usize> = vec![];
    let p = if class == 2 { 0.0 } else { 0.7 };
    let mut k = 1;
    while k + 1 < n_main {
        if r.chance(p) {
            siding_at.push(k);
            k += 2;
        } else {
            k += 1;
        }
    }
    let lock = r.chance(0.3);
    let dn = gen_disp_net(r, n_main, &siding_at, lock);
    let nt = r.usize(if class == 2 { 2 } else { 1 }, max_trains);
    let mut trains = vec![];
    let mut dirs = vec![];
    // class 2: no sidings, opposing trains, same departure time (deadlock candidate)
    let window = if class == 2 { 0 } else { *r.pick(&[0i64, 2, 10, 30, 120, 240]) };
    let interior = class == 4;
    for t in 0..nt {
        let east = if class == 3 || class == 2 { t % 2 == 0 } else { r.chance(0.5) };
        let (mut i, mut j) = (0usize, n_main - 1);
        if interior {
            i = r.usize(0, n_main - 2);
            j = r.usize(i + 1, n_main - 1);
        }
        let pickl = |r: &mut Rng, k: usize, fwd: bool| -> Vec<u32> {
            let sid = dn.sidings.iter().find(|s| s.0 == k).map(|s| if fwd { s.1 } else { s.2 });
            let main = if fwd { dn.main_fwd[k] } else { dn.main_rev[k] };
            match (sid, r.below(4)) {
                (Some(x), 0) => vec![x],
                (Some(x), 1) => vec![main, x],
                _ => vec![main],
            }
        };
        let (o, d) = if east { (pickl(r, i, true), pickl(r, j, true)) } else { (pickl(r, j, false), pickl(r, i, false)) };
        let depart = r.range(0, window) as f64 * 60.0;
        trains.push(gen_train(r, &format!("T{}", t + 1), o.iter().map(|&l| location("O", l)).collect(), d.iter().map(|&l| location("D", l)).collect(), depart));
        dirs.push(east);
    }
    (Scenario { dn, trains, dirs }, ["base", "long", "no_siding_opposing_same_time", "alternating", "interior_multi_od"][class as usize])
}

/// minimum arrival time at an Arrive node of link `b`, free running from est node `j` reached at `t`
/// (`+ time_to_next` along idx_next, `+ 0` along idx_next_alt), through non-Arrive nodes only
fn hop_min(est: &[EstTime], b: usize, j: usize, t: f64, fuel: usize, best: &mut Option<f64>) {
    if fuel == 0 || j >= est.len() {
        return;
    }
    let m = &est[j];
    if m.link_event.est_type == EstType::Arrive {
        if m.link_event.link_idx.idx() == b && !t.is_nan() && best.map_or(true, |x| t < x) {
            *best = Some(t);
        }
        return;
    }
    if m.idx_next != EST_IDX_NA {
        hop_min(est, b, m.idx_next as usize, t + m.time_to_next.value, fuel - 1, best);
    }
    if m.idx_next_alt != EST_IDX_NA {
        hop_min(est, b, m.idx_next_alt as usize, t, fuel - 1, best);
    }
}

/// earliest free-running arrival at link `b` after arriving on link `a` at `ta`; None = no est path a → b
fn hop_free(est: &[EstTime], a: usize, ta: f64, b: usize) -> Option<f64> {
    let mut best = None;
    for n in est.iter() {
        if n.link_event.est_type == EstType::Arrive && n.link_event.link_idx.idx() == a {
            if n.idx_next != EST_IDX_NA {
                hop_min(est, b, n.idx_next as usize, ta + n.time_to_next.value, est.len(), &mut best);
            }
            if n.idx_next_alt != EST_IDX_NA {
                hop_min(est, b, n.idx_next_alt as usize, ta, est.len(), &mut best);
            }
        }
    }
    best
}

type Route = Vec<(usize, f64)>;

/// the clauses of C05 on one route; returns the violated clauses
fn check_route(net: &[Link], tr: &SpeedLimitTrainSim, est: &[EstTime], rt: &Route) -> Vec<(&'static str, String)> {
    let mut bad = vec![];
    if rt.is_empty() {
        bad.push(("route_missing", "empty route".to_string()));
        return bad;
    }
    let (l0, t0) = rt[0];
    if !tr.origs.iter().any(|o| o.link_idx.idx() == l0) {
        bad.push(("starts_on_origin", format!("first link {} not an origin", l0)));
    }
    if !(tr.state.time.value <= t0) {
        bad.push(("departs_not_early", format!("first time {} before departure {}", t0, tr.state.time.value)));
    }
    let ln = rt[rt.len() - 1].0;
    if !tr.dests.iter().any(|d| d.link_idx.idx() == ln) {
        bad.push(("ends_on_destination", format!("last link {} not a destination", ln)));
    }
    for w in rt.windows(2) {
        let ((a, ta), (b, tb)) = (w[0], w[1]);
        let conn = b != 0 && a < net.len() && (net[a].idx_next.idx() == b || net[a].idx_next_alt.idx() == b);
        if !conn {
            bad.push(("contiguous", format!("link {} does not lead to link {}", a, b)));
        }
        if !(ta <= tb) {
            bad.push(("times_monotone", format!("arrival {} at link {} after arrival {} at next link {}", ta, a, tb, b)));
        }
        match hop_free(est, a, ta, b) {
            Some(tmin) if tmin <= tb => {}
            Some(tmin) => bad.push(("hop_not_faster_than_free_run", format!("hop {}@{} -> {}@{} faster than free running (earliest {})", a, ta, b, tb, tmin))),
            None => bad.push(("hop_not_faster_than_free_run", format!("no estimated-time path from link {} to link {}", a, b))),
        }
    }
    bad
}

fn plan_valid(net: &[Link], trains: &[SpeedLimitTrainSim], ets: &[EstTimeNet], plan: &[Route]) -> bool {
    plan.len() == trains.len() && (0..plan.len()).all(|i| check_route(net, &trains[i], &ets[i].val, &plan[i]).is_empty())
}

fn est_type_no(t: EstType) -> u8 {
    match t {
        EstType::Arrive => 0,
        EstType::Clear => 1,
        EstType::Fake => 2,
    }
}

fn scenario_tok(net: &[Link], trains: &[SpeedLimitTrainSim], ets: &[EstTimeNet]) -> String {
    let adj = seq(net, |l| format!("{} {}", l.idx_next.idx(), l.idx_next_alt.idx()));
    let tr = seq(&(0..trains.len()).collect::<Vec<_>>(), |&i| {
        let t = &trains[i];
        format!(
            "{} {} {} {}",
            seq(&t.origs, |o| o.link_idx.idx().to_string()),
            seq(&t.dests, |o| o.link_idx.idx().to_string()),
            f(t.state.time.value),
            seq(&ets[i].val, |e| format!("{} {} {} {} {}", e.idx_next, e.idx_next_alt, f(e.time_to_next.value), e.link_event.link_idx.idx(), est_type_no(e.link_event.est_type)))
        )
    });
    format!("{} {}", adj, tr)
}
fn plan_tok(plan: &[Route]) -> String {
    seq(plan, |rt| seq(rt, |x| format!("{} {}", x.0, f(x.1))))
}

fn prev_f(x: f64) -> f64 {
    if x > 0.0 { f64::from_bits(x.to_bits() - 1) } else { x - 1e-9 }
}

/// mutated copies of a valid plan: most are invalid, some sit exactly on a boundary
fn mutate_plan(r: &mut Rng, plan: &[Route], trains: &[SpeedLimitTrainSim], ets: &[EstTimeNet], n_links: usize) -> (Vec<Route>, &'static str) {
    let mut p: Vec<Route> = plan.to_vec();
    let ti = r.usize(0, p.len() - 1);
    let kind = r.below(11);
    let len = p[ti].len();
    match kind {
        0 => { p.pop(); (p, "drop_last_route") }
        1 => { p[ti].clear(); (p, "empty_route") }
        2 if len >= 2 => {
            let k = r.usize(0, len - 2);
            let a = p[ti][k].1;
            p[ti][k].1 = p[ti][k + 1].1;
            p[ti][k + 1].1 = a;
            (p, "swap_times")
        }
        3 if len >= 2 => {
            // halve one hop and shift the rest
            let k = r.usize(0, len - 2);
            let cut = (p[ti][k + 1].1 - p[ti][k].1) * 0.5;
            for x in p[ti][k + 1..].iter_mut() { x.1 -= cut; }
            (p, "halve_hop")
        }
        4 if len >= 3 => { let k = r.usize(1, len - 2); p[ti][k].0 = r.usize(1, n_links - 1); (p, "teleport") }
        5 if len >= 1 => { p[ti][0].1 = trains[ti].state.time.value - 1.0; (p, "early_departure") }
        6 if len >= 1 => { p[ti][0].0 = r.usize(1, n_links - 1); (p, "other_origin") }
        7 => { let x = p[ti].clone(); p.push(x); (p, "extra_route") }
        8 if len >= 2 => {
            // exactly the free-running time for one hop (boundary: still valid for that hop)
            let k = r.usize(0, len - 2);
            if let Some(tmin) = hop_free(&ets[ti].val, p[ti][k].0, p[ti][k].1, p[ti][k + 1].0) {
                let d = p[ti][k + 1].1 - tmin;
                p[ti][k + 1].1 = tmin;
                for x in p[ti][k + 2..].iter_mut() { x.1 -= d; }
            }
            (p, "hop_exactly_free_run")
        }
        9 if len >= 2 => {
            let k = r.usize(0, len - 2);
            if let Some(tmin) = hop_free(&ets[ti].val, p[ti][k].0, p[ti][k].1, p[ti][k + 1].0) {
                p[ti][k + 1].1 = prev_f(tmin);
            }
            (p, "hop_one_ulp_too_fast")
        }
        10 if len >= 2 => { p[ti].pop(); (p, "stops_short") }
        _ => { p.swap(0, ti); (p, "swap_routes") }
    }
}

// ------------------------------------------------------------------------------------------------
// 3. the outer loop of run_dispatch, re-driven through the public TrainDisp API
// ------------------------------------------------------------------------------------------------

#[derive(Clone, Debug)]
struct PopRec {
    train: usize,
    blocked: bool,
    finished: bool,
    time: f64,
    parked: bool,
}

#[derive(Debug)]
enum ManualEnd {
    Ok(Vec<Vec<LinkIdxTime>>),
    Stuck(Vec<usize>),
    Err(String),
    Budget,
}

struct Manual {
    end: ManualEnd,
    pops: Vec<PopRec>,
    /// violations of the bookkeeping clauses seen while driving
    bad: Vec<(&'static str, String)>,
    /// est_idx / time_pass of every dispatch node of every train at the end
    disp_paths: Vec<Vec<(usize, f64)>>,
}

/// copy of the private `check_deadlock`
fn check_deadlock_m(tds: &mut [TrainDisp], links_blocked: &[TrainIdx], mut begin: usize, moved: TrainIdx, is_local: bool) -> Result<(bool, usize), String> {
    let mut has_deadlock = false;
    let mut errors: Vec<String> = vec![];
    let mut link_idxs_blocked = vec![];
    tds[tval(&moved)].swap_link_idxs_blocking(&mut link_idxs_blocked);
    for (idx, td) in tds.iter_mut().enumerate().skip(begin) {
        if !td.is_finished() {
            if idx != tval(&moved) {
                match td.update_free_path(moved, &link_idxs_blocked, is_local, links_blocked) {
                    Ok(FreePathStatus::Blocked) => has_deadlock = true,
                    Ok(_) => {}
                    Err(e) => errors.push(format!("{:?}", e)),
                }
            }
        } else if idx == begin {
            begin += 1;
        }
    }
    tds[tval(&moved)].swap_link_idxs_blocking(&mut link_idxs_blocked);
    if !errors.is_empty() {
        Err(errors.join(" | "))
    } else {
        Ok((has_deadlock, begin))
    }
}

/// line-by-line copy of `run_dispatch` (dispatch.rs) with the queue kept as a plain vector
fn manual_dispatch(net: &[Link], trains: &[SpeedLimitTrainSim], ets: Vec<EstTimeNet>) -> Manual {
    let n = trains.len();
    let mut m = Manual { end: ManualEnd::Budget, pops: vec![], bad: vec![], disp_paths: vec![] };
    let mut tds = Vec::with_capacity(n + 1);
    tds.push(TrainDisp::default());
    for (idx, (slts, et)) in trains.iter().zip(ets.into_iter()).enumerate() {
        match TrainDisp::new(slts.train_id.clone(), tidx(idx as u64 + 1), slts.state.time, 8.0 * uc::MIN, 30.0 * uc::MI, 10.0 * uc::MI, 0.5 * uc::MPH / uc::S, et) {
            Ok(td) => tds.push(td),
            Err(e) => {
                m.end = ManualEnd::Err(format!("{:?}", e));
                return m;
            }
        }
    }
    let mut auths = vec![
        vec![DispAuth {
            arrive_entry: f64::NEG_INFINITY * uc::S,
            arrive_exit: f64::NEG_INFINITY * uc::S,
            clear_entry: f64::NEG_INFINITY * uc::S,
            clear_exit: f64::NEG_INFINITY * uc::S,
            offset_front: f64::INFINITY * uc::M,
            offset_back: f64::INFINITY * uc::M,
            train_idx: None,
        }];
        net.len()
    ];
    let mut links_blocked: Vec<TrainIdx> = vec![None; net.len()];
    let mut begin = 1usize;
    // queue: (time, train); parked: (time when parked, train)
    let mut queue: Vec<(f64, usize)> = (1..=n).map(|i| (tds[i].time_update().value, i)).collect();
    let mut parked: Vec<(f64, usize)> = vec![];
    let mut finished: Vec<usize> = vec![];
    let mut has_deadlock = false;
    let mut outer = 0usize;
    while !queue.is_empty() {
        outer += 1;
        if outer > 200_000 {
            return m;
        }
        // pop: smallest time, then smallest train index
        let mut k = 0;
        for i in 1..queue.len() {
            let (a, b) = (queue[i], queue[k]);
            if a.0 < b.0 || (a.0 == b.0 && a.1 < b.1) {
                k = i;
            }
        }
        let (_, cur) = queue.swap_remove(k);
        let curi = tidx(cur as u64);
        let mut inner = 0usize;
        loop {
            inner += 1;
            if inner > 100_000 {
                return m;
            }
            if tds[cur].advance(&mut auths, &mut links_blocked, net) {
                match check_deadlock_m(&mut tds, &links_blocked, begin, curi, true) {
                    Ok((h, b)) => { has_deadlock = h; begin = b; }
                    Err(e) => { m.end = ManualEnd::Err(e); return m; }
                }
                if tds[cur].is_finished() {
                    assert!(!has_deadlock, "Train {} exited but there was deadlock!", cur);
                    tds[cur].fix_advance();
                    break;
                }
                if has_deadlock && tds[cur].is_blocked() {
                    tds[cur].rewind(&mut auths, &mut links_blocked, net);
                    match check_deadlock_m(&mut tds, &links_blocked, begin, curi, false) {
                        Ok((h, b)) => { has_deadlock = h; begin = b; }
                        Err(e) => { m.end = ManualEnd::Err(e); return m; }
                    }
                    assert!(!has_deadlock, "Train {} was rewound to the last known good position but there was still deadlock!", cur);
                    break;
                }
            }
            if !has_deadlock {
                tds[cur].fix_advance();
                break;
            }
        }
        let (bl, fi, tu) = (tds[cur].is_blocked(), tds[cur].is_finished(), tds[cur].time_update().value);
        // bookkeeping clause: the popped train is in no other container
        if parked.iter().any(|x| x.1 == cur) || finished.contains(&cur) || queue.iter().any(|x| x.1 == cur) {
            m.bad.push(("accounting_exactly_one", format!("train {} popped while also parked/finished/queued", cur)));
        }
        let park = bl && !fi;
        m.pops.push(PopRec { train: cur, blocked: bl, finished: fi, time: tu, parked: park });
        if park {
            parked.push((tu, cur));
        } else {
            if !fi {
                queue.push((tu, cur));
            } else {
                finished.push(cur);
            }
            for (t0, j) in parked.drain(..) {
                let tj = tds[j].time_update().value;
                if tj != t0 {
                    m.bad.push(("parked_time_unchanged", format!("train {} was parked with time_update {} and is requeued with {}", j, t0, tj)));
                }
                queue.push((tj, j));
            }
        }
        let mut all: Vec<usize> = queue.iter().map(|x| x.1).chain(parked.iter().map(|x| x.1)).chain(finished.iter().copied()).collect();
        all.sort();
        if all != (1..=n).collect::<Vec<_>>() {
            m.bad.push(("accounting_exactly_one", format!("queue/parked/finished = {:?}", all)));
        }
    }
    // observation of the final dispatch paths (private fields, through Serialize)
    for td in &tds[1..] {
        let v = serde_json::to_value(td).unwrap_or(serde_json::Value::Null);
        let dp: Vec<(usize, f64)> = v["disp_path"]
            .as_array()
            .map(|a| a.iter().map(|x| (x["est_idx"].as_u64().unwrap_or(0) as usize, x["time_pass"].as_f64().unwrap_or(f64::INFINITY))).collect())
            .unwrap_or_default();
        m.disp_paths.push(dp);
    }
    if !parked.is_empty() {
        m.end = ManualEnd::Stuck(parked.iter().map(|x| x.1).collect());
    } else {
        m.end = ManualEnd::Ok(tds[1..].iter().map(|x| x.calc_timed_path()).collect());
    }
    m
}

fn to_routes(plan: &[Vec<LinkIdxTime>]) -> Vec<Route> {
    plan.iter().map(|p| p.iter().map(|x| (x.link_idx.idx(), x.time.value)).collect()).collect()
}

/// clause name for a panic of run_dispatch on valid inputs (one per distinct assertion)
fn panic_clause(msg: &str) -> &'static str {
    if msg.contains("exited but there was deadlock") {
        "panic_exited_but_deadlock"
    } else if msg.contains("rewound to the last known good position") {
        "panic_rewound_still_deadlock"
    } else if msg.contains("has a timed free node") {
        "panic_timed_free_node"
    } else if msg.contains("cannot rewind after exiting") {
        "panic_rewind_after_exit"
    } else if msg.contains("invalid new offset") {
        "panic_rewind_invalid_offset"
    } else if msg.contains("disp_node_idx_fixed.idx() == self.disp_path.len()") {
        // calc_timed_path on a train that never finished: a train was dropped from the queue
        "panic_timed_path_of_unfinished_train"
    } else if msg.contains("was placed prior to the front of the next train") {
        "panic_back_before_next_front"
    } else if msg.contains("was placed past the back of train") {
        "panic_front_past_back"
    } else if msg.contains("free_path.rs") {
        "panic_in_update_free_path"
    } else if msg.contains("advance_rewind.rs") {
        "panic_in_advance_rewind"
    } else if msg.contains("unsafe precondition") {
        "panic_unsafe_precondition"
    } else {
        "panic_other"
    }
}

fn scenario_json(sc: &Scenario, class: &str, seed: u64) -> serde_json::Value {
    json!({
        "generator": "b_c05::gen_sc", "class": class, "case_seed": seed,
        "network": if class == "taconite" { json!("python/altrios/resources/networks/Taconite.yaml (as shipped in the tree under test)") } else { json!(null) },
        "network_links": if class == "taconite" { vec![] } else { sc.dn.net.iter().map(|l| json!({"idx": l.idx_curr.idx(), "next": l.idx_next.idx(), "next_alt": l.idx_next_alt.idx(), "prev": l.idx_prev.idx(), "prev_alt": l.idx_prev_alt.idx(), "flip": l.idx_flip.idx(), "len_m": l.length.value, "lockout": l.link_idxs_lockout.iter().map(|x| x.idx()).collect::<Vec<_>>(),
            "speed": l.speed_set.as_ref().and_then(|s| s.speed_limits.first().map(|x| x.speed.value)), "elevs": l.elevs.iter().map(|e| (e.offset.value, e.elev.value)).collect::<Vec<_>>()})).collect::<Vec<_>>() },
        "trains": sc.trains.iter().map(|t| json!({"id": t.train_id, "origs": t.origs.iter().map(|o| o.link_idx.idx()).collect::<Vec<_>>(), "dests": t.dests.iter().map(|o| o.link_idx.idx()).collect::<Vec<_>>(), "depart_s": t.state.time.value, "length_m": t.state.length.value, "mass_kg": t.state.mass_static.value, "n_locos": t.loco_con.loco_vec.len()})).collect::<Vec<_>>(),
    })
}

/// the shipped Taconite network (about a thousand links, mostly single track) with the crate's own example trains:
/// 2..5 trains, random directions, departures up to three hours apart
fn gen_taconite(r: &mut Rng) -> Option<Scenario> {
    if true {
        let sc4 = crate::b_c04::gen_taconite_scen(r)?;
        let dirs = sc4.routes.iter().map(|x| x.1).collect();
        return Some(Scenario { dn: DispNet { net: sc4.net, main_fwd: vec![], main_rev: vec![], sidings: vec![] }, trains: sc4.trains, dirs });
    }
    use altrios_core::train::{speed_limit_train_sim_fwd, speed_limit_train_sim_rev};
    use altrios_core::traits::SerdeAPI;
    static NET: std::sync::OnceLock<Option<Vec<Link>>> = std::sync::OnceLock::new();
    let net = NET.get_or_init(|| {
        let repo = std::env::var("VERIF_REPO").unwrap_or_else(|_| "/repo".to_string());
        let p = std::path::Path::new(&repo).join("python/altrios/resources/networks/Taconite.yaml");
        guard(|| Network::from_file(p).ok().map(|n| n.0)).flatten()
    });
    let net = net.as_ref()?;
    let nt = r.usize(2, 5);
    let mut trains = vec![];
    let mut dirs = vec![];
    for t in 0..nt {
        let east = if t < 2 { t == 0 } else { r.chance(0.5) };
        let mut s = if east { speed_limit_train_sim_fwd() } else { speed_limit_train_sim_rev() };
        s.state.time = uc::S * (r.range(0, 6) as f64 * 1800.0);
        s.train_id = format!("T{}{}", t + 1, if east { "fwd" } else { "rev" });
        trains.push(s);
        dirs.push(east);
    }
    Some(Scenario { dn: DispNet { net: net.clone(), main_fwd: vec![], main_rev: vec![], sidings: vec![] }, trains, dirs })
}

fn run_taconite(ctx: &mut Ctx, rr: &mut Rng, budget_s: u64) {
    let case_seed = rr.0;
    match gen_taconite(rr) {
        Some(sc) => run_sc(ctx, rr, sc, "taconite", case_seed, budget_s),
        None => ctx.count("c05.scenario.taconite_unavailable"),
    }
}

fn run_scenario(ctx: &mut Ctx, rr: &mut Rng, max_trains: usize, budget_s: u64) {
    let case_seed = rr.0;
    let (sc, class) = gen_sc(rr, max_trains);
    run_sc(ctx, rr, sc, class, case_seed, budget_s)
}

fn run_sc(ctx: &mut Ctx, rr: &mut Rng, mut sc: Scenario, class: &'static str, case_seed: u64, budget_s: u64) {
    // replay aid: VERIF_C05_KEEP=1,3 keeps only these trains (1-based) of the generated scenario
    if let Ok(keep) = std::env::var("VERIF_C05_KEEP") {
        let keep: Vec<usize> = keep.split(',').filter_map(|x| x.parse().ok()).collect();
        let mut k = 0;
        sc.trains.retain(|_| { k += 1; keep.contains(&k) });
        let mut k = 0;
        sc.dirs.retain(|_| { k += 1; keep.contains(&k) });
    }
    if let Ok(dir) = std::env::var("VERIF_C05_DUMP_DIR") {
        let _ = std::fs::create_dir_all(&dir);
        let _ = std::fs::write(format!("{}/network.json", dir), serde_json::to_string(&sc.dn.net).unwrap());
        let _ = std::fs::write(format!("{}/trains.json", dir), serde_json::to_string(&sc.trains).unwrap());
    }
    ctx.count(&format!("c05.scenario.class.{}", class));
    if let Err(e) = sc.dn.net.validate() {
        ctx.count("c05.scenario.net_invalid");
        ctx.sample("c05.net_invalid", json!({"class": class, "error": format!("{:?}", e).chars().take(400).collect::<String>()}));
        return;
    }
    let mut ets: Vec<EstTimeNet> = vec![];
    for t in &sc.trains {
        match guard(|| make_est_times(t.clone(), &sc.dn.net)) {
            Some(Ok((et, _))) => ets.push(et),
            Some(Err(_)) => { ctx.count("c05.scenario.est_err"); return; }
            None => { ctx.count("c05.scenario.est_panic"); ctx.sample("c05.est_panic", json!({"class": class, "case_seed": case_seed, "panic": last_panic()})); return; }
        }
    }
    let n = sc.trains.len();
    ctx.count(&format!("c05.scenario.trains.{}", n));
    ctx.count(&format!("c05.scenario.sidings.{}", sc.dn.sidings.len().min(4)));
    let n_east = sc.dirs.iter().filter(|&&d| d).count();
    ctx.count(if n_east == 0 || n_east == n { "c05.scenario.one_direction" } else { "c05.scenario.both_directions" });
    let mut deps: Vec<u64> = sc.trains.iter().map(|t| t.state.time.value.to_bits()).collect();
    deps.sort();
    deps.dedup();
    ctx.count(if deps.len() < n { "c05.scenario.some_equal_departures" } else { "c05.scenario.distinct_departures" });
    let input = scenario_json(&sc, class, case_seed);

    // ---- the real run_dispatch under a watchdog
    pre(json!({"scenario": input, "phase": "run_dispatch"}));
    let (tx, rx) = std::sync::mpsc::channel();
    {
        let net = sc.dn.net.clone();
        let trains = sc.trains.clone();
        let e2 = ets.clone();
        std::thread::spawn(move || {
            let res = guard(|| run_dispatch(&net, &trains, e2, false, false));
            let msg = if res.is_none() { last_panic() } else { String::new() };
            let _ = tx.send((res.map(|x| x.map_err(|e| format!("{:?}", e))), msg));
        });
    }
    ctx.checked(P, "terminates_within_budget");
    ctx.checked(P, "no_panic_on_valid_input");
    let (real, pmsg) = match rx.recv_timeout(std::time::Duration::from_secs(budget_s)) {
        Ok(x) => x,
        Err(_) => {
            ctx.count("c05.dispatch.hang");
            ctx.fail(P, "hang", "scenario", format!("run_dispatch did not return within {} s ({} trains, {} sidings)", budget_s, n, sc.dn.sidings.len()), input);
            return;
        }
    };
    let net = &sc.dn.net;
    match &real {
        None => {
            ctx.count("c05.dispatch.panic");
            let cl = panic_clause(&pmsg);
            ctx.count(&format!("c05.dispatch.{}", cl));
            ctx.fail(P, cl, "scenario", format!("run_dispatch panicked on inputs accepted by validation and make_est_times: {}", pmsg), input.clone());
        }
        Some(Err(e)) => {
            ctx.count("c05.dispatch.err");
            ctx.checked(P, "error_names_stuck_trains");
            // "The following trains got stuck! [Some(2), Some(5)]"
            let named: Vec<usize> = if e.contains("The following trains got stuck!") {
                e.split("Some(").skip(1).filter_map(|s| s.split(')').next().and_then(|x| x.parse().ok())).collect()
            } else {
                vec![]
            };
            // validate_free_path: "Occupancy conflict at link 9 between train 4 and train 2 at dispatch node ..." — an
            // explicit error that names the train that could not be routed and the one in its way
            let conflict: Vec<usize> = e.match_indices("Occupancy conflict at link ").flat_map(|(i, _)| {
                let rest = &e[i..];
                let num_after = |key: &str| rest.find(key).and_then(|j| rest[j + key.len()..].split(|c: char| !c.is_ascii_digit()).next().and_then(|x| x.parse::<usize>().ok()));
                vec![num_after("between train ").unwrap_or(0), num_after(" and train ").unwrap_or(0)]
            }).collect();
            if !conflict.is_empty() && conflict.iter().all(|&t| t >= 1 && t <= n) {
                ctx.count("c05.dispatch.err_occupancy_conflict");
                ctx.sample("c05.occupancy_conflict", json!({"error": e.chars().take(200).collect::<String>(), "trains": n, "class": class}));
            } else if named.is_empty() || named.iter().any(|&t| t == 0 || t > n) {
                ctx.count("c05.dispatch.err_other");
                ctx.fail(P, "error_names_stuck_trains", "scenario", format!("run_dispatch failed without naming the trains that could not be routed: {}", e.chars().take(300).collect::<String>()), input.clone());
            } else {
                ctx.count("c05.dispatch.err_stuck");
                ctx.sample("c05.stuck", json!({"error": e.chars().take(200).collect::<String>(), "trains": n, "class": class}));
            }
        }
        Some(Ok(plan)) => {
            ctx.count("c05.dispatch.ok");
            let routes = to_routes(plan);
            ctx.checked(P, "one_route_per_train");
            if routes.len() != n {
                ctx.fail(P, "one_route_per_train", "scenario", format!("{} routes for {} trains", routes.len(), n), input.clone());
            }
            let mut uses_siding = false;
            let mut waited = false;
            for (i, rt) in routes.iter().enumerate().take(n) {
                for cl in ["route_missing", "starts_on_origin", "departs_not_early", "ends_on_destination", "contiguous", "times_monotone", "hop_not_faster_than_free_run"] {
                    ctx.checked(P, cl);
                }
                // does the train's estimated-time network reach a destination at all?
                let est_reaches_dest = ets[i].val.iter().any(|e| e.link_event.est_type == EstType::Arrive && sc.trains[i].dests.iter().any(|d| d.link_idx == e.link_event.link_idx));
                if !est_reaches_dest { ctx.count("c05.scenario.est_net_lacks_destination"); }
                for (cl, detail) in check_route(net, &sc.trains[i], &ets[i].val, rt) {
                    // a route that stops short because make_est_times built a network without any arrive event on a
                    // destination link (trip shorter than its 5 mile look-ahead) is reported under its own clause
                    let (cl, detail) = if cl == "ends_on_destination" && !est_reaches_dest {
                        ("ends_on_destination_est_net_lacks_destination", format!("{} (the estimated-time network accepted by make_est_times has no arrive event on any destination link; returned route covers {:.0} m)", detail,
                            rt.iter().map(|x| net[x.0].length.value).sum::<f64>()))
                    } else { (cl, detail) };
                    ctx.fail(P, cl, "scenario", format!("train {}: {}", i + 1, detail), json!({"scenario": input, "plan": routes}));
                }
                ctx.checked(P, "times_finite");
                if rt.iter().any(|x| !x.1.is_finite()) {
                    ctx.fail(P, "times_finite", "scenario", format!("train {}: non-finite arrival time in {:?}", i + 1, rt), json!({"scenario": input, "plan": routes}));
                }
                if rt.iter().any(|x| sc.dn.sidings.iter().any(|s| s.1 as usize == x.0 || s.2 as usize == x.0)) {
                    uses_siding = true;
                }
                if let Some(first) = rt.first() {
                    if first.1 > sc.trains[i].state.time.value {
                        waited = true;
                    }
                }
                ctx.count_n("c05.plan.segments", rt.len() as u64);
            }
            if uses_siding { ctx.count("c05.plan.uses_siding"); }
            if waited { ctx.count("c05.plan.held_at_origin"); }
            ctx.sample("c05.plan", json!({"class": class, "trains": n, "sidings": sc.dn.sidings.len(), "dirs": sc.dirs, "plan": routes}));
            // ---- the Lean decision procedure on the real plan and on mutated copies
            if routes.len() == n {
                let sctok = scenario_tok(net, &sc.trains, &ets);
                let verdict = plan_valid(net, &sc.trains, &ets, &routes);
                ctx.op(P, "c05_plan_ok", &format!("{} {}", sctok, plan_tok(&routes)), &format!("ok {}", b(verdict)));
                ctx.count(&format!("c05.plan_ok.real.{}", verdict));
                let nm = if class == "taconite" { 1 } else if n <= 4 { 4 } else { 2 };
                for _ in 0..nm {
                    let (mp, kind) = mutate_plan(rr, &routes, &sc.trains, &ets, net.len());
                    let v = plan_valid(net, &sc.trains, &ets, &mp);
                    ctx.op(P, "c05_plan_ok", &format!("{} {}", sctok, plan_tok(&mp)), &format!("ok {}", b(v)));
                    ctx.count(&format!("c05.plan_ok.mutant.{}.{}", kind, v));
                }
            }
        }
    }

    // ---- the same scenario through the manual copy of the outer loop
    pre(json!({"scenario": input, "phase": "harness copy of the outer loop"}));
    let man = guard(|| manual_dispatch(net, &sc.trains, ets.clone()));
    ctx.checked(P, "manual_loop_equals_run_dispatch");
    let agree = match (&man, &real) {
        (None, None) => panic_clause(&last_panic()) == panic_clause(&pmsg),
        (Some(m), Some(Ok(plan))) => matches!(&m.end, ManualEnd::Ok(p) if p == plan),
        (Some(m), Some(Err(e))) => match &m.end {
            ManualEnd::Stuck(s) => e.contains(&format!("The following trains got stuck! {:?}", s.iter().map(|&x| tidx(x as u64)).collect::<Vec<_>>())),
            ManualEnd::Err(_) => !e.contains("got stuck"),
            _ => false,
        },
        _ => false,
    };
    if !agree {
        ctx.fail(P, "manual_loop_equals_run_dispatch", "scenario",
            format!("run_dispatch and the harness copy of its outer loop disagree: real = {}, copy = {}",
                match &real { None => format!("panic {}", pmsg), Some(Ok(p)) => format!("Ok({} routes)", p.len()), Some(Err(e)) => format!("Err({})", e.chars().take(120).collect::<String>()) },
                match &man { None => format!("panic {}", last_panic()), Some(m) => format!("{:?}", m.end).chars().take(160).collect::<String>() }),
            input.clone());
        return;
    }
    let m = match man {
        Some(m) => m,
        None => return,
    };
    for cl in ["accounting_exactly_one", "parked_time_unchanged"] {
        ctx.checked(P, cl);
    }
    for (cl, detail) in &m.bad {
        ctx.fail(P, cl, "scenario", detail.clone(), input.clone());
    }
    ctx.count_n("c05.queue.pops", m.pops.len() as u64);
    ctx.count_n("c05.queue.parks", m.pops.iter().filter(|p| p.parked).count() as u64);
    ctx.count_n("c05.queue.finishes", m.pops.iter().filter(|p| p.finished).count() as u64);
    // never drops a train: on exit every train finished or named
    ctx.checked(P, "no_train_dropped");
    let fin: Vec<usize> = m.pops.iter().filter(|p| p.finished).map(|p| p.train).collect();
    let stuck: Vec<usize> = match &m.end {
        ManualEnd::Stuck(s) => s.clone(),
        _ => vec![],
    };
    if matches!(m.end, ManualEnd::Ok(_) | ManualEnd::Stuck(_)) {
        let mut all: Vec<usize> = fin.iter().chain(stuck.iter()).copied().collect();
        all.sort();
        if all != (1..=n).collect::<Vec<_>>() {
            ctx.fail(P, "no_train_dropped", "scenario", format!("finished {:?} + stuck {:?} is not every train 1..{}", fin, stuck, n), input.clone());
        }
        // queue model: pop order, parked list, result
        let deps: Vec<f64> = sc.trains.iter().map(|t| t.state.time.value).collect();
        let answers = seq(&m.pops, |p| format!("{} {} {}", b(p.blocked), b(p.finished), f(p.time)));
        let pops: Vec<usize> = m.pops.iter().map(|p| p.train).collect();
        ctx.op(P, "c05_queue", &format!("{} {}", fs(&deps), answers), &format!("ok {} done {} {}", nats(&pops), nats(&stuck), fin.len()));
        // a proper prefix of the same execution
        if m.pops.len() >= 2 {
            let k = rr.usize(1, m.pops.len() - 1);
            let answers = seq(&m.pops[..k], |p| format!("{} {} {}", b(p.blocked), b(p.finished), f(p.time)));
            let nf = m.pops[..k].iter().filter(|p| p.finished).count();
            ctx.op(P, "c05_queue", &format!("{} {}", fs(&deps), answers), &format!("ok {} running {}", nats(&pops[..k]), nf));
        }
    }
    // hop times along the est path actually taken (exact: max and + are monotone in binary64)
    if let ManualEnd::Ok(_) = m.end {
        ctx.checked(P, "hop_free_time_actual_path");
        for (i, dp) in m.disp_paths.iter().enumerate() {
            let est = &ets[i].val;
            for w in dp.windows(2) {
                let ((e0, t0), (e1, t1)) = (w[0], w[1]);
                if e0 >= est.len() {
                    continue;
                }
                let free = if est[e0].idx_next as usize == e1 { t0 + est[e0].time_to_next.value } else { t0 };
                let linked = est[e0].idx_next as usize == e1 || est[e0].idx_next_alt as usize == e1;
                if !linked || !(free <= t1) {
                    ctx.fail(P, "hop_free_time_actual_path", "scenario", format!("train {}: est node {}@{} -> {}@{} (linked={}, free-running arrival {})", i + 1, e0, t0, e1, t1, linked, free), input.clone());
                    break;
                }
            }
        }
    }
}

#[derive(Clone, Copy, PartialEq)]
enum Item {
    Fns,
    UbProbe,
    Scenario,
    Taconite,
}

fn items(tier: &str) -> Vec<Item> {
    let thorough = tier == "thorough";
    let mut v = vec![Item::Fns; if thorough { 8000 } else { 800 }];
    v.extend(vec![Item::UbProbe; if thorough { 12 } else { 3 }]);
    v.extend(vec![Item::Scenario; if thorough { 3000 } else { 300 }]);
    v.extend(vec![Item::Taconite; if thorough { 600 } else { 60 }]);
    v
}

fn run_item(ctx: &mut Ctx, it: Item, rr: &mut Rng) {
    match it {
        Item::Fns => {
            op_link_opt(ctx, rr);
            op_calc_sent(ctx, rr);
            op_find_int(ctx, rr);
            op_find_int(ctx, rr);
            for w in 0..3 {
                op_views(ctx, rr, w);
            }
        }
        Item::UbProbe => op_ub_probe(ctx, rr),
        Item::Scenario => run_scenario(ctx, rr, 8, 20),
        Item::Taconite => run_taconite(ctx, rr, 240),
    }
}

/// everything one item added to a (fresh) context, as one JSON line
fn ctx_to_json(c: &Ctx) -> serde_json::Value {
    json!({
        "ops": c.ops.iter().zip(c.expect.iter()).zip(c.op_props.iter()).map(|((o, e), p)| {
            // "c<k> <op> <args>" / "c<k> <answer>"
            let mut it = o.splitn(3, ' ');
            let _ = it.next();
            let op = it.next().unwrap_or("");
            let args = it.next().unwrap_or("");
            let ans = e.splitn(2, ' ').nth(1).unwrap_or("");
            json!([p, op, args, ans])
        }).collect::<Vec<_>>(),
        "findings": c.findings.iter().map(|f| json!([f.property, f.clause, f.case, f.detail, f.input])).collect::<Vec<_>>(),
        "stats": c.stats, "checks": c.oracle_checks, "samples": c.samples,
    })
}

fn merge_json(ctx: &mut Ctx, v: &serde_json::Value) {
    for o in v["ops"].as_array().into_iter().flatten() {
        let g = |i: usize| o[i].as_str().unwrap_or("").to_string();
        let (props, op, args, ans) = (g(0), g(1), g(2), g(3));
        // ctx.op counts "op.<name>" itself
        ctx.op(&props, &op, &args, &ans);
    }
    for f in v["findings"].as_array().into_iter().flatten() {
        let g = |i: usize| f[i].as_str().unwrap_or("").to_string();
        ctx.fail(&g(0), &g(1), &g(2), g(3), f[4].clone());
    }
    for (k, n) in v["stats"].as_object().into_iter().flatten() {
        if !k.starts_with("op.") {
            ctx.count_n(k, n.as_u64().unwrap_or(0));
        }
    }
    for (k, n) in v["checks"].as_object().into_iter().flatten() {
        *ctx.oracle_checks.entry(k.clone()).or_insert(0) += n.as_u64().unwrap_or(0);
    }
    for (k, xs) in v["samples"].as_object().into_iter().flatten() {
        for x in xs.as_array().into_iter().flatten() {
            ctx.sample(k, x.clone());
        }
    }
}

/// worker process: runs the items from `start` on, one `REC` line per finished item
fn worker_main(spec: &str, tier: &str) -> ! {
    use std::io::Write;
    IN_WORKER.store(true, std::sync::atomic::Ordering::Relaxed);
    let mut it = spec.split(',');
    let base: u64 = it.next().and_then(|x| x.parse().ok()).unwrap_or(0);
    let start: usize = it.next().and_then(|x| x.parse().ok()).unwrap_or(0);
    let its = items(tier);
    let mut r = Rng(base);
    let mut hangs = 0;
    for (i, item) in its.iter().enumerate() {
        let mut rr = r.fork();
        if i < start {
            continue;
        }
        {
            let mut o = std::io::stdout().lock();
            let _ = writeln!(o, "ITEM {}", i);
            let _ = o.flush();
        }
        let mut c = Ctx::default();
        run_item(&mut c, *item, &mut rr);
        hangs += c.stats.get("c05.dispatch.hang").copied().unwrap_or(0);
        let mut o = std::io::stdout().lock();
        let _ = writeln!(o, "REC {}", ctx_to_json(&c));
        let _ = o.flush();
        // every hang leaves a spinning thread behind: stop after a few (each is already a finding)
        if hangs >= 3 {
            let _ = writeln!(o, "STOP hangs");
            let _ = o.flush();
            break;
        }
    }
    std::process::exit(0);
}

/// supervisor: the real code runs in worker processes; an abort of a worker is attributed to the input
/// announced last, recorded (`abort` answer, finding unless it was the designated UB probe) and the work
/// continues with the next item
fn supervise(ctx: &mut Ctx, base: u64, tier: &str) -> bool {
    use std::io::BufRead;
    let n = items(tier).len();
    let exe = match std::env::current_exe() {
        Ok(e) => e,
        Err(_) => return false,
    };
    let mut start = 0usize;
    let mut restarts = 0;
    while start < n {
        let child = std::process::Command::new(&exe)
            .args(["run", "c05", "--tier", tier, "--out", "/tmp"])
            .env("VERIF_C05_WORKER", format!("{},{}", base, start))
            .stdout(std::process::Stdio::piped())
            .stderr(std::process::Stdio::null())
            .spawn();
        let mut child = match child {
            Ok(c) => c,
            Err(_) => return start > 0,
        };
        let out = child.stdout.take().unwrap();
        let mut cur_item: Option<usize> = None;
        let mut last_pre: Option<serde_json::Value> = None;
        let mut stopped = false;
        for line in std::io::BufReader::new(out).lines() {
            let line = match line { Ok(l) => l, Err(_) => break };
            if let Some(x) = line.strip_prefix("ITEM ") {
                cur_item = x.trim().parse().ok();
                last_pre = None;
            } else if let Some(x) = line.strip_prefix("PRE ") {
                last_pre = serde_json::from_str(x).ok();
            } else if let Some(x) = line.strip_prefix("REC ") {
                if let Ok(v) = serde_json::from_str::<serde_json::Value>(x) {
                    merge_json(ctx, &v);
                }
                if let Some(i) = cur_item { start = i + 1; }
                cur_item = None;
                last_pre = None;
            } else if line.starts_with("STOP") {
                stopped = true;
            }
        }
        let status = child.wait();
        if stopped {
            ctx.count("c05.dispatch.stopped_after_hangs");
            return true;
        }
        let clean = matches!(&status, Ok(s) if s.code() == Some(0));
        if clean && cur_item.is_none() {
            break;
        }
        // the worker died inside item `cur_item`
        restarts += 1;
        let died_how = match &status { Ok(s) => format!("{}", s), Err(e) => format!("{}", e) };
        let pre = last_pre.unwrap_or(json!({}));
        let ub_expected = pre["ub_expected"].as_bool().unwrap_or(false);
        if let (Some(op), Some(args)) = (pre["op"].as_str(), pre["args"].as_str()) {
            ctx.op(P, op, args, "abort");
            if ub_expected {
                ctx.count("c05.ub_probe.abort");
            } else {
                ctx.count("c05.abort.sentinel_function");
                ctx.fail(P, "memory_safety_abort", op, format!("the real function aborted the process ({}) — raw access out of range caught by the debug build's get_unchecked precondition check, or another non-unwinding panic — on: {} {}", died_how, op, args), pre.clone());
            }
        } else if pre.get("scenario").is_some() {
            ctx.count("c05.abort.dispatch");
            ctx.fail(P, "abort_in_dispatch", "scenario", format!("the process aborted ({}) during {}: non-unwinding panic (unsafe precondition violated?) on inputs accepted by validation and make_est_times", died_how, pre["phase"].as_str().unwrap_or("?")), pre["scenario"].clone());
        } else {
            ctx.count("c05.abort.unattributed");
            ctx.fail(P, "abort_unattributed", "worker", format!("worker process died ({}) in item {:?} before announcing a call", died_how, cur_item), json!({"item": cur_item}));
        }
        start = cur_item.map(|i| i + 1).unwrap_or(start + 1);
        if restarts > 200 {
            ctx.count("c05.abort.too_many");
            break;
        }
    }
    true
}

pub fn run(ctx: &mut Ctx, r: &mut Rng, tier: &str) {
    if let Ok(spec) = std::env::var("VERIF_C05_WORKER") {
        worker_main(&spec, tier);
    }
    // replay of one scenario: VERIF_C05_CASE=<case_seed of a finding's input>
    if let Ok(seed) = std::env::var("VERIF_C05_CASE") {
        if let Ok(seed) = seed.parse::<u64>() {
            let mut rr = Rng(seed);
            if std::env::var("VERIF_C05_TACONITE").is_ok() {
                run_taconite(ctx, &mut rr, 600);
            } else {
                run_scenario(ctx, &mut rr, 8, 20);
            }
            for fd in &ctx.findings {
                eprintln!("FINDING {} {}", fd.clause, fd.detail);
            }
            eprintln!("stats {:?}", ctx.stats);
            return;
        }
    }
    let base = r.0;
    let its = items(tier);
    for _ in 0..its.len() {
        let _ = r.fork();
    }
    if !supervise(ctx, base, tier) {
        // no worker process available: run in-process (an abort then takes the whole harness down)
        ctx.count("c05.in_process_fallback");
        let mut r2 = Rng(base);
        for item in its {
            let mut rr = r2.fork();
            run_item(ctx, item, &mut rr);
        }
    }
}
