//! Block `det` (C18): determinism and independence of thread scheduling — run-time differential.
//!
//! Every scenario (a deterministic function of the run's seed) is executed
//!   (a) twice in this process,
//!   (b) in FRESH PROCESSES (this binary re-invokes itself with `VERIF_DET_CHILD=1`; a new process has
//!       new `RandomState` hash seeds) — one child per rayon pool size,
//!   (c) for locomotive batches: serially (`walk(false)`) and in parallel (`walk(true)`) under rayon
//!       pools of 1, 2, 3, 4, 8, 16 threads (`RAYON_NUM_THREADS` of the child = size of rayon's global
//!       pool, which is the pool `par_iter_mut` uses) and under this process's default pool.
//! Outputs are serialized with serde_json, canonicalised by sorting map keys, and compared byte for
//! byte (across processes: by two independent 64-bit hashes of those bytes + length).  The raw
//! (un-canonicalised) text is compared as well and only COUNTED when it differs (hash-map
//! SERIALIZATION order), separately from computational differences.
//!
//! Ops (model `Altrios/Par.lean`): `ser_run` (exact prediction of the serial loop), `par_check` (every
//! observation of a real parallel walk must be explainable by an admissible schedule), `cars_total`,
//! `find_key` (the two folds over std hash maps, on the implementation's own iteration order).
use crate::dispgen::{gen_scenario, gen_train, location};
use crate::netgen::*;
use crate::prng::Rng;
use crate::proto::*;
use altrios_core::consist::{PowerDistributionControlType, Proportional, RESGreedy};
use altrios_core::meet_pass::dispatch::run_dispatch;
use altrios_core::prelude::*;
use altrios_core::track::*;
use altrios_core::train::{speed_limit_train_sim_fwd, speed_limit_train_sim_rev};
use altrios_core::traits::SerdeAPI;
use altrios_core::consist::locomotive::loco_sim::LocomotiveSimulationVec;
use altrios_core::uc;
use altrios_core::validate::*;
use serde_json::{json, Value};
use std::collections::HashMap;

const POOLS: [usize; 6] = [1, 2, 3, 4, 8, 16];

// ------------------------------------------------------------------------------------ canonical form

fn write_canon(v: &Value, out: &mut String) {
    match v {
        Value::Object(m) => {
            let mut keys: Vec<&String> = m.keys().collect();
            keys.sort();
            out.push('{');
            for (i, k) in keys.iter().enumerate() {
                if i > 0 { out.push(','); }
                out.push_str(&Value::String((*k).clone()).to_string());
                out.push(':');
                write_canon(&m[*k], out);
            }
            out.push('}');
        }
        Value::Array(a) => {
            out.push('[');
            for (i, x) in a.iter().enumerate() {
                if i > 0 { out.push(','); }
                write_canon(x, out);
            }
            out.push(']');
        }
        _ => out.push_str(&v.to_string()),
    }
}
fn canon<T: serde::Serialize>(x: &T) -> String {
    let v = serde_json::to_value(x).unwrap_or(Value::String("<unserializable>".into()));
    let mut s = String::new();
    write_canon(&v, &mut s);
    s
}
fn raw<T: serde::Serialize>(x: &T) -> String {
    serde_json::to_string(x).unwrap_or_else(|_| "<unserializable>".into())
}
fn fnv(s: &str, basis: u64) -> u64 {
    let mut h = basis;
    for b in s.as_bytes() {
        h ^= *b as u64;
        h = h.wrapping_mul(0x0000_0100_0000_01B3);
    }
    h
}
/// two independent 64-bit hashes and the length
fn digest(s: &str) -> String {
    format!("{:016x}{:016x}:{}", fnv(s, 0xcbf2_9ce4_8422_2325), fnv(s, 0x8422_2325_cbf2_9ce4 ^ 0x5555), s.len())
}

// ------------------------------------------------------------------------------------ scenarios

#[derive(Clone)]
enum Scen {
    /// `LocomotiveSimulationVec::walk(parallelize)`
    Batch(Vec<LocomotiveSimulation>),
    Consist(ConsistSimulation),
    SetSpeedDefault,
    SpeedLimitValid,
    /// `TrainSimBuilder` (n_cars_by_type with several keys) → set-speed sim on a generated network
    /// whose links may carry `speed_sets` maps → walk
    Built { builder: TrainSimBuilder, net: Vec<Link>, path: Vec<LinkIdx>, trace: SpeedTrace },
    /// `make_est_times` per train, then `run_dispatch`
    Meet { net: Vec<Link>, trains: Vec<SpeedLimitTrainSim> },
    /// network validation (verdict; the error TEXT is compared separately)
    Validate(Vec<Link>),
    /// the crate's own dispatch test: shipped Taconite network, `speed_limit_train_sim_fwd/rev`
    Taconite,
}

impl Scen {
    fn kind(&self) -> &'static str {
        match self {
            Scen::Batch(_) => "loco_batch",
            Scen::Consist(_) => "consist_sim",
            Scen::SetSpeedDefault => "set_speed_default",
            Scen::SpeedLimitValid => "speed_limit_valid",
            Scen::Built { .. } => "built_set_speed",
            Scen::Meet { .. } => "est_times_dispatch",
            Scen::Validate(_) => "validate",
            Scen::Taconite => "taconite_est_times_dispatch",
        }
    }
}

#[derive(Clone, Default, Debug)]
struct Out {
    canon: String,
    raw: String,
    /// `{:#}` of the returned error, `"<panic>"` for a panic
    err: Option<String>,
    /// per-element canonical text (batches)
    elems: Vec<String>,
    /// distribution notes (counted by the parent)
    notes: Vec<String>,
}

fn errs<T>(r: &Option<anyhow::Result<T>>) -> Option<String> {
    match r {
        None => Some("<panic>".into()),
        Some(Err(e)) => Some(format!("{:#}", e)),
        Some(Ok(_)) => None,
    }
}

/// rebuild every std HashMap of a scenario's inputs: a new map gets a new `RandomState` (the keys of the
/// per-thread seed are incremented for every map created), so iteration order varies between
/// repeated executions even inside one process
fn rehash_links(net: &mut [Link]) {
    for l in net.iter_mut() {
        let fresh: HashMap<TrainType, SpeedSet> = l.speed_sets.drain().collect();
        l.speed_sets = fresh;
    }
}
fn rehashed(s: &Scen) -> Scen {
    let mut s = s.clone();
    match &mut s {
        Scen::Built { builder, net, .. } => {
            let fresh: HashMap<String, u32> = builder.train_config.n_cars_by_type.drain().collect();
            builder.train_config.n_cars_by_type = fresh;
            rehash_links(net);
        }
        Scen::Meet { net, .. } => rehash_links(net),
        Scen::Validate(net) => rehash_links(net),
        _ => {}
    }
    s
}


static TACONITE_NET: std::sync::OnceLock<Option<Vec<Link>>> = std::sync::OnceLock::new();
fn taconite() -> Option<&'static Vec<Link>> {
    TACONITE_NET.get_or_init(|| { let p = format!("{}/python/altrios/resources/networks/Taconite.yaml", std::env::var("VERIF_REPO").unwrap_or_else(|_| "/repo".into())); guard(|| Network::from_file(p).ok().map(|n| n.0)).flatten() }).as_ref()
}

fn meet(net: &[Link], trains: &[SpeedLimitTrainSim]) -> Out {
    let r = guard(|| -> anyhow::Result<Value> {
        let mut ets = vec![];
        let mut cons = vec![];
        for t in trains {
            let (et, con) = make_est_times(t.clone(), net)?;
            ets.push(et);
            cons.push(con);
        }
        let ets_v = serde_json::to_value(&ets)?;
        let plan = run_dispatch(net, trains, ets, false, false);
        let plan_v = match plan {
            Ok(p) => json!({"ok": p}),
            Err(e) => json!({"err": format!("{:#}", e)}),
        };
        Ok(json!({"est_times": ets_v, "consists": cons, "dispatch": plan_v}))
    });
    let e = errs(&r);
    let mut notes = vec![];
    if let Some(Ok(v)) = &r { notes.push(format!("dispatch.{}", if v["dispatch"].get("ok").is_some() { "plan" } else { "err" })); }
    let body = match r { Some(Ok(v)) => v, _ => Value::Null };
    Out { canon: canon(&body), raw: raw(&body), err: e, elems: vec![], notes }
}

fn run_scen(s: &Scen, par: bool) -> Out {
    let s = &rehashed(s);
    match s {
        Scen::Batch(sims) => {
            let mut v = LocomotiveSimulationVec(sims.clone());
            let r = guard(|| v.walk(par));
            Out { canon: canon(&v), raw: raw(&v), err: errs(&r), elems: v.0.iter().map(canon).collect(), notes: vec![] }
        }
        Scen::Consist(sim) => {
            let mut x = sim.clone();
            let r = guard(|| x.walk());
            Out { canon: canon(&x), raw: raw(&x), err: errs(&r), elems: vec![], notes: vec![] }
        }
        Scen::SetSpeedDefault => {
            let mut x = SetSpeedTrainSim::default();
            let r = guard(|| x.walk());
            Out { canon: canon(&x), raw: raw(&x), err: errs(&r), elems: vec![], notes: vec![] }
        }
        Scen::SpeedLimitValid => {
            let mut x = SpeedLimitTrainSim::valid();
            let r = guard(|| x.walk());
            Out { canon: canon(&x), raw: raw(&x), err: errs(&r), elems: vec![], notes: vec![] }
        }
        Scen::Built { builder, net, path, trace } => {
            let r = guard(|| -> anyhow::Result<SetSpeedTrainSim> {
                let mut sim = builder.make_set_speed_train_sim(net, path, trace.clone(), Some(1))?;
                sim.walk()?;
                Ok(sim)
            });
            let e = errs(&r);
            // the same configuration through the location map (a std HashMap built afresh on every run)
            // into a speed-limited sim and its estimated-time network
            let r2 = guard(|| -> anyhow::Result<(EstTimeNet, Consist)> {
                let mut b2 = builder.clone();
                b2.origin_id = Some("Orig".into());
                b2.destination_id = Some("Dest".into());
                let mut lm: LocationMap = HashMap::new();
                for (i, nme) in ["Alpha", "Orig", "Bravo", "Dest", "Charlie", "Delta"].iter().enumerate() {
                    let link = match *nme { "Orig" => path[0].idx() as u32, "Dest" => path[path.len() - 1].idx() as u32, _ => path[i % path.len()].idx() as u32 };
                    lm.insert(nme.to_string(), vec![crate::dispgen::location(nme, link)]);
                }
                let slts = b2.make_speed_limit_train_sim(&lm, None, None, None)?;
                make_est_times(slts, net)
            });
            let e2 = errs(&r2);
            let mut notes = vec![format!("built.est_times.{}", match &e2 { None => "ok", Some(x) if x == "<panic>" => "panic", _ => "err" })];
            if let Some(x) = &e2 { notes.push(format!("built.est_times_error: {}", x.chars().take(160).collect::<String>())); }
            // inputs are part of the output: their raw text shows hash-map serialization order
            let (sc, sr) = match &r { Some(Ok(sim)) => (canon(sim), raw(sim)), _ => ("null".to_string(), "null".to_string()) };
            let (ec, er) = match &r2 { Some(Ok(x)) => (canon(x), raw(x)), _ => (format!("{:?}", e2), format!("{:?}", e2)) };
            Out {
                canon: format!("{{\"sim\":{},\"est\":{},\"train_config\":{},\"network\":{}}}", sc, ec, canon(&builder.train_config), canon(net)),
                raw: format!("{{\"sim\":{},\"est\":{},\"train_config\":{},\"network\":{}}}", sr, er, raw(&builder.train_config), raw(net)),
                err: e,
                elems: vec![],
                notes,
            }
        }
        Scen::Meet { net, trains } => meet(net, trains),
        Scen::Taconite => match taconite() {
            Some(net) => meet(net, &[speed_limit_train_sim_fwd(), speed_limit_train_sim_rev()]),
            None => Out { canon: "network file not loadable".into(), raw: "network file not loadable".into(), err: None, elems: vec![], notes: vec!["taconite.skipped_network_file_not_loadable".into()] },
        },
        Scen::Validate(net) => {
            let r = guard(|| net.validate());
            let (verdict, text) = match &r {
                None => ("panic".to_string(), String::new()),
                Some(Ok(())) => ("ok".to_string(), String::new()),
                Some(Err(e)) => ("err".to_string(), format!("{}", e)),   // Display: all messages, no backtraces
            };
            // canon = what the property is about (the verdict); raw additionally carries the message text
            Out { canon: verdict.clone(), raw: format!("{}|{}", verdict, text), err: None, elems: vec![], notes: vec![format!("validate.verdict.{}", verdict)] }
        }
    }
}

// ------------------------------------------------------------------------------------ generators

fn gen_trace(r: &mut Rng, steps: usize, fail_at: Option<usize>) -> PowerTrace {
    // ramp (<= 5 kW/s, the shipped default's slope) / hold / ramp down; dyadic time stamps
    let n1 = (steps / 3).max(2);
    let slope = *r.pick(&[1000.0, 2500.0, 5000.0]);
    let dt = *r.pick(&[0.5, 1.0, 1.0, 2.0]);
    let mut time = vec![];
    let mut pwr = vec![];
    let mut on = vec![];
    let off_from = if r.chance(0.3) { steps - steps / 5 } else { usize::MAX };
    for i in 0..steps {
        time.push(i as f64 * dt);
        let up = (i.min(n1)) as f64 * slope * dt;
        let down = (steps - 1 - i).min(n1) as f64 * slope * dt;
        let mut p = up.min(down);
        if i >= off_from { p = 0.0; }
        if Some(i) == fail_at { p = 1.0e9; }   // far beyond any rating: the step is rejected
        pwr.push(p);
        on.push(if i >= off_from { Some(false) } else if r.chance(0.1) { None } else { Some(true) });
    }
    PowerTrace::new(time, pwr, on)
}

fn gen_unit(r: &mut Rng) -> Locomotive {
    let mut l = if r.chance(0.6) { Locomotive::default() } else { Locomotive::default_battery_electric_loco() };
    l.pwr_aux_offset = uc::W * *r.pick(&[0.0, 8554.15, 2.0e4]);
    l.pwr_aux_traction_coeff = uc::R * *r.pick(&[0.0, 0.000539638, 0.005]);
    l
}

fn gen_batch(r: &mut Rng, n: usize, fail_idx: &[usize], steps_hi: usize) -> Vec<LocomotiveSimulation> {
    (0..n).map(|i| {
        let steps = r.usize(12, steps_hi);
        let fail_at = if fail_idx.contains(&i) { Some(r.usize(1, steps - 1)) } else { None };
        let tr = gen_trace(r, steps, fail_at);
        let si = *r.pick(&[Some(1), Some(1), Some(3), None]);
        LocomotiveSimulation::new(gen_unit(r), tr, si)
    }).collect()
}

fn rail_vehicle(r: &mut Rng, name: &str) -> RailVehicle {
    RailVehicle {
        car_type: name.into(),
        // lengths that are NOT exactly representable (imperial car lengths in metres): a sum of such terms depends on
        // the order of the additions, so a fold in hash order shows up as a bit difference between processes
        length: m(*r.pick(&[15.24, 18.288, 20.4216, 27.432, 16.1544, 10.7, 19.5072])),
        axle_count: 4,
        brake_count: 1,
        mass_static_base: uc::KG * (r.range(20, 40) as f64 * 1000.0 + *r.pick(&[0.3, 0.1, 453.59237])),
        mass_freight: uc::KG * (r.range(0, 80) as f64 * 1000.7),
        speed_max: mps(*r.pick(&[25.0, 30.0, 35.0])),
        braking_ratio: uc::R * *r.pick(&[0.05, 0.1, 0.15]),
        mass_rot_per_axle: uc::KG * *r.pick(&[1500.3, 1499.9, 1650.1]),
        bearing_res_per_axle: uc::N * *r.pick(&[150.3, 178.1, 200.7]),
        rolling_ratio: uc::R * *r.pick(&[0.0005, 0.00075, 0.001]),
        davis_b: uc::SPM * *r.pick(&[0.0, 0.00001, 0.00003]),
        // every per-type quantity that a builder may total over the car types is a non-dyadic decimal, so that ANY
        // fold over the types in hash order (lengths, masses, drag areas, axle or brake totals …) changes low bits
        cd_area: uc::M2 * *r.pick(&[2.13, 4.7, 6.55, 3.3, 5.1]),
        curve_coeff_0: uc::R * 0.0,
        curve_coeff_1: uc::R * 0.0,
        curve_coeff_2: uc::R * 0.0,
    }
}

const CAR_NAMES: [&str; 8] = ["Bulk", "Tank_Loaded", "Tank_Empty", "Autorack", "Intermodal", "Manifest_Loaded", "Manifest_Empty", "Coal"];

fn gen_built(r: &mut Rng) -> Scen {
    let k = r.usize(3, 7);
    let mut names: Vec<&str> = CAR_NAMES.to_vec();
    r.shuffle(&mut names);
    let rvs: Vec<RailVehicle> = names[..k].iter().map(|n| rail_vehicle(r, n)).collect();
    let mut n_cars: HashMap<String, u32> = HashMap::new();
    for rv in &rvs { n_cars.insert(rv.car_type.clone(), r.range(1, 9) as u32); }
    let tt = *r.pick(&[TrainType::Freight, TrainType::Freight, TrainType::Passenger]);
    let tc = TrainConfig { rail_vehicles: rvs, n_cars_by_type: n_cars, train_type: tt, train_length: None, train_mass: None, cd_area_vec: None };
    let locos: Vec<Locomotive> = (0..r.usize(2, 4)).map(|_| gen_unit(r)).collect();
    let pdct = if r.chance(0.5) { PowerDistributionControlType::Proportional(Proportional) } else { PowerDistributionControlType::RESGreedy(RESGreedy) };
    let con = Consist::new(locos, Some(1), pdct);
    let builder = TrainSimBuilder::new("det".into(), tc, con, None, None, None);
    let o = NetOpts { n_links: r.usize(2, 4), len_lo: 2500, len_hi: 4000, max_grade: 0.004, use_speed_sets_map: true, ..Default::default() };
    let mut net = gen_line(r, &o);
    // give the map-typed links a second / third train type so that the map really has several keys
    for l in net.iter_mut().skip(1) {
        if l.speed_set.is_none() {
            let keep = l.speed_sets.get(&tt).cloned().or_else(|| l.speed_sets.iter().min_by_key(|kv| *kv.0 as u8).map(|kv| kv.1.clone()));
            if let Some(ss) = keep {
                for t in [TrainType::Freight, TrainType::Passenger, TrainType::Intermodal, TrainType::Commuter] {
                    let mut s2 = ss.clone();
                    if t != tt { for sl in s2.speed_limits.iter_mut() { sl.speed = sl.speed * 0.5; } }
                    l.speed_sets.insert(t, s2);
                }
            }
        }
    }
    let path = route_fwd(o.n_links);
    // gentle trace: 0 -> v in 120 s, hold, back to 0; well inside the route
    let v = *r.pick(&[4.0, 6.0, 8.0]);
    let hold = r.usize(20, 80);
    let mut time = vec![];
    let mut speed = vec![];
    let mut t = 0.0;
    for i in 0..=120 { time.push(t); speed.push(v * i as f64 / 120.0); t += 1.0; }
    for _ in 0..hold { time.push(t); speed.push(v); t += 1.0; }
    for i in (0..120).rev() { time.push(t); speed.push(v * i as f64 / 120.0); t += 1.0; }
    Scen::Built { builder, net, path, trace: SpeedTrace::new(time, speed, None) }
}

fn gen_consist_sim(r: &mut Rng) -> Scen {
    let locos: Vec<Locomotive> = (0..r.usize(2, 5)).map(|_| gen_unit(r)).collect();
    let pdct = if r.chance(0.5) { PowerDistributionControlType::Proportional(Proportional) } else { PowerDistributionControlType::RESGreedy(RESGreedy) };
    let con = Consist::new(locos, Some(1), pdct);
    let steps = r.usize(30, 120);
    Scen::Consist(ConsistSimulation::new(con, gen_trace(r, steps, None), Some(1)))
}

fn gen_validate(r: &mut Rng) -> Scen {
    let o = NetOpts { n_links: r.usize(2, 4), use_speed_sets_map: true, ..Default::default() };
    let mut net = gen_line(r, &o);
    // several keys per map; sometimes one of the sets is invalid (a negative offset)
    let bad = r.chance(0.6);
    for l in net.iter_mut().skip(1) {
        if l.speed_set.is_none() {
            if let Some(ss) = l.speed_sets.iter().min_by_key(|kv| *kv.0 as u8).map(|kv| kv.1.clone()) {
                for t in [TrainType::Freight, TrainType::Passenger, TrainType::Intermodal, TrainType::TiltTrain] {
                    l.speed_sets.insert(t, ss.clone());
                }
                if bad {
                    if let Some(s) = l.speed_sets.get_mut(&TrainType::Intermodal) {
                        if let Some(sl) = s.speed_limits.first_mut() { sl.offset_start = m(-1.0); }
                    }
                }
            }
        }
    }
    Scen::Validate(net)
}

fn build_scenarios(r: &mut Rng, tier: &str) -> Vec<Scen> {
    let thorough = tier == "thorough";
    let mut v = vec![];
    // the crate's own default batch (three identical default simulations)
    v.push(Scen::Batch(LocomotiveSimulationVec::default().0));
    let (n_ok, n_fail, steps_hi) = if thorough { (20, 80, 300) } else { (6, 20, 200) };
    for _ in 0..n_ok {
        let mut rr = r.fork();
        let n = rr.usize(3, 12);
        v.push(Scen::Batch(gen_batch(&mut rr, n, &[], steps_hi)));
    }
    for k in 0..n_fail {
        let mut rr = r.fork();
        let n = rr.usize(3, 12);
        // one failing element: first / last / anywhere; sometimes two
        let mut f = vec![match k % 4 { 0 => 0, 1 => n - 1, _ => rr.usize(0, n - 1) }];
        if k % 5 == 4 { let g = rr.usize(0, n - 1); if !f.contains(&g) { f.push(g); } }
        v.push(Scen::Batch(gen_batch(&mut rr, n, &f, steps_hi)));
    }
    for _ in 0..(if thorough { 10 } else { 4 }) { let mut rr = r.fork(); v.push(gen_consist_sim(&mut rr)); }
    v.push(Scen::SetSpeedDefault);
    v.push(Scen::SpeedLimitValid);
    for _ in 0..(if thorough { 24 } else { 6 }) { let mut rr = r.fork(); v.push(gen_built(&mut rr)); }
    for _ in 0..(if thorough { 16 } else { 4 }) {
        let mut rr = r.fork();
        let sc = gen_scenario(&mut rr, if thorough { 4 } else { 3 });
        v.push(Scen::Meet { net: sc.dn.net, trains: sc.trains });
    }
    for _ in 0..(if thorough { 30 } else { 10 }) { let mut rr = r.fork(); v.push(gen_validate(&mut rr)); }
    v.push(Scen::Taconite);
    // appended last (the random streams of the scenarios above stay those of earlier runs): trains with SEVERAL origin
    // links that all reach the destination — the two parallel tracks of a siding. `get_link_idx_options` and the branching
    // simulation of `make_est_times` build the estimated-time graph in the order of the origins: any hash-ordered
    // container on that path shows up as a node numbering that differs between processes.
    for _ in 0..(if thorough { 8 } else { 3 }) {
        let mut rr = r.fork();
        let mut sc = gen_scenario(&mut rr, 2);
        let mut tries = 0;
        while sc.dn.sidings.is_empty() && tries < 20 { sc = gen_scenario(&mut rr, 2); tries += 1; }
        if let Some(&(k, sf, srv)) = sc.dn.sidings.first() {
            let n_main = sc.dn.main_fwd.len();
            let east = sc.dirs[0];
            let (origs, d) = if east { (vec![location("O", sc.dn.main_fwd[k]), location("O", sf)], sc.dn.main_fwd[n_main - 1]) }
                else { (vec![location("O", sc.dn.main_rev[k]), location("O", srv)], sc.dn.main_rev[0]) };
            let depart = if rr.chance(0.5) { 0.0 } else { rr.range(1, 40) as f64 * 60.0 };
            sc.trains[0] = gen_train(&mut rr, "T1", origs, vec![location("D", d)], depart);
            sc.trains.truncate(1);
        }
        v.push(Scen::Meet { net: sc.dn.net, trains: sc.trains });
    }
    v
}

// ------------------------------------------------------------------------------------ child process

fn threads_now() -> u64 {
    std::fs::read_to_string("/proc/self/status").ok()
        .and_then(|s| s.lines().find(|l| l.starts_with("Threads:")).and_then(|l| l.split_whitespace().nth(1).and_then(|x| x.parse().ok())))
        .unwrap_or(0)
}

fn out_json(o: &Out) -> Value {
    json!({"canon": digest(&o.canon), "raw": digest(&o.raw), "err": o.err, "elems": o.elems.iter().map(|e| digest(e)).collect::<Vec<_>>()})
}

/// hidden sub-command: run every scenario once (batches: serially and in parallel under the global
/// rayon pool, whose size the parent chose through RAYON_NUM_THREADS), one JSON line per scenario
fn child_main(r: &mut Rng, tier: &str) -> ! {
    use std::io::Write;
    let scens = build_scenarios(r, tier);
    let dump = std::env::var("VERIF_DET_DUMP").ok();
    let so = std::io::stdout();
    let mut so = so.lock();
    // every second fresh process runs the scenario list in REVERSE order (and prints it in the usual one): a result that
    // depends on what ran earlier in the process or on the thread (a cache, a search hint, a counter kept in a static or
    // thread-local) then differs from the parent's, which ran the list forwards
    let reverse = std::env::var("VERIF_DET_ORDER").map(|v| v == "rev").unwrap_or(false);
    let order: Vec<usize> = if reverse { (0..scens.len()).rev().collect() } else { (0..scens.len()).collect() };
    let mut lines: Vec<String> = vec![String::new(); scens.len()];
    for k in order {
        let s = &scens[k];
        let ser = run_scen(s, false);
        let par = if let Scen::Batch(_) = s { Some(run_scen(s, true)) } else { None };
        if let Some(d) = &dump {
            let _ = std::fs::write(format!("{}/child-{}-ser.json", d, k), &ser.canon);
            if let Some(p) = &par { let _ = std::fs::write(format!("{}/child-{}-par.json", d, k), &p.canon); }
        }
        let text = if let Scen::Validate(_) = s { Some(ser.raw.clone()) } else { None };
        let line = json!({"k": k, "kind": s.kind(), "ser": out_json(&ser), "par": par.as_ref().map(out_json), "threads": threads_now(), "text": text});
        lines[k] = line.to_string();
    }
    for l in &lines { let _ = writeln!(so, "{}", l); }
    let _ = so.flush();
    std::process::exit(0)
}

struct Child {
    pool: usize,
    handle: std::process::Child,
}

static CHILD_NO: std::sync::atomic::AtomicUsize = std::sync::atomic::AtomicUsize::new(0);

fn spawn_child(pool: usize, tier: &str, seed: u64) -> Option<Child> {
    let exe = std::env::current_exe().ok()?;
    let no = CHILD_NO.fetch_add(1, std::sync::atomic::Ordering::SeqCst);
    let h = std::process::Command::new(exe)
        .args(["run", "det", "--tier", tier, "--seed", &seed.to_string(), "--out", "/dev/null"])
        .env("VERIF_DET_CHILD", "1")
        .env("VERIF_DET_ORDER", if no % 2 == 1 { "rev" } else { "fwd" })
        .env("RAYON_NUM_THREADS", pool.to_string())
        .stdin(std::process::Stdio::null())
        .stdout(std::process::Stdio::piped())
        .stderr(std::process::Stdio::null())
        .spawn()
        .ok()?;
    Some(Child { pool, handle: h })
}

// ------------------------------------------------------------------------------------ observation of a batch run

/// per element: Some(true) = in its walked state, Some(false) = untouched input, None = neither
fn classify(elems: &[String], alone: &[String], input: &[String]) -> Vec<Option<bool>> {
    elems.iter().enumerate().map(|(i, e)| if *e == alone[i] { Some(true) } else if *e == input[i] { Some(false) } else { None }).collect()
}

fn reported_idx(err: &Option<String>) -> Option<usize> {
    let e = err.as_ref()?;
    let p = e.find("loco_sim idx:")?;
    let digits: String = e[p + "loco_sim idx:".len()..].chars().take_while(|c| c.is_ascii_digit()).collect();
    digits.parse().ok()
}

struct BatchRef {
    n: usize,
    input: Vec<String>,
    alone: Vec<String>,
    alone_err: Vec<Option<String>>,
    fail: Vec<bool>,
}

fn batch_ref(sims: &[LocomotiveSimulation], digests: bool) -> BatchRef {
    let d = |s: String| if digests { digest(&s) } else { s };
    let input: Vec<String> = sims.iter().map(|s| d(canon(s))).collect();
    let mut alone = vec![];
    let mut alone_err = vec![];
    for s in sims {
        let mut x = s.clone();
        let r = guard(|| x.walk());
        alone.push(d(canon(&x)));
        alone_err.push(errs(&r));
    }
    let fail = alone_err.iter().map(|e| e.is_some()).collect();
    BatchRef { n: sims.len(), input, alone, alone_err, fail }
}

/// oracle + model op for ONE observation of a batch walk (serial or parallel), given per-element texts
/// (or digests) `elems` and the returned error
#[allow(clippy::too_many_arguments)]
fn check_batch_obs(ctx: &mut Ctx, case: &str, how: &str, parallel: bool, rf: &BatchRef, elems: &[String], err: &Option<String>, input: &Value) {
    let cls = classify(elems, &rf.alone, &rf.input);
    let detail_base = format!("{} {}", case, how);
    // (1) every element is its own walk or untouched
    ctx.checked("C18", "par_elementwise");
    if let Some(i) = cls.iter().position(|c| c.is_none()) {
        ctx.fail("C18", "par_elementwise", case,
            format!("{}: element {} is neither the result of walking it alone nor its untouched input", detail_base, i), input.clone());
        return;
    }
    let walked: Vec<bool> = cls.iter().map(|c| c.unwrap()).collect();
    let ambiguous = (0..rf.n).any(|i| rf.alone[i] == rf.input[i]);
    if ambiguous { ctx.count("det.batch.ambiguous_element"); return; }
    let rep = reported_idx(err);
    let any_fail = rf.fail.iter().any(|f| *f);
    // (2) error reporting
    ctx.checked("C18", "par_error_reported");
    if err.as_deref() == Some("<panic>") {
        ctx.fail("C18", "par_error_reported", case, format!("{}: the batch walk panicked", detail_base), input.clone());
        return;
    }
    let walked_failing: Vec<usize> = (0..rf.n).filter(|i| walked[*i] && rf.fail[*i]).collect();
    if walked_failing.is_empty() {
        if err.is_some() {
            ctx.fail("C18", "par_error_reported", case, format!("{}: error reported although no walked element fails: {:?}", detail_base, err), input.clone());
        }
        // nothing failed among the walked ones: nothing may have been skipped
        ctx.checked("C18", "par_complete_without_error");
        if walked.iter().any(|w| !*w) {
            ctx.fail("C18", "par_complete_without_error", case, format!("{}: elements left untouched although no walked element failed (walked = {:?})", detail_base, walked), input.clone());
        }
    } else {
        match (err, rep) {
            (None, _) => ctx.fail("C18", "par_error_reported", case, format!("{}: elements {:?} failed but the batch walk returned Ok", detail_base, walked_failing), input.clone()),
            (Some(e), None) => ctx.fail("C18", "par_error_reported", case, format!("{}: the error does not name an element index: {}", detail_base, e), input.clone()),
            (Some(e), Some(i)) => {
                if !walked_failing.contains(&i) {
                    ctx.fail("C18", "par_error_reported", case, format!("{}: error names element {} which is not a walked failing element {:?}", detail_base, i, walked_failing), input.clone());
                } else {
                    // the text is exactly the element's own error with the index prepended
                    let want = format!("loco_sim idx:{}: {}", i, rf.alone_err[i].clone().unwrap_or_default());
                    if *e != want {
                        ctx.fail("C18", "par_error_reported", case, format!("{}: error text `{}` is not the element's own error `{}`", detail_base, e, want), input.clone());
                    }
                    if Some(&i) == walked_failing.iter().min() { ctx.count("det.batch.reported_is_lowest_failing_walked"); } else { ctx.count("det.batch.reported_is_not_lowest_failing_walked"); }
                }
            }
        }
    }
    // (3) serial semantics exactly; parallel = serial when nothing fails
    if !parallel {
        ctx.checked("C18", "serial_stops_at_first_error");
        let first = rf.fail.iter().position(|f| *f);
        let want: Vec<bool> = (0..rf.n).map(|i| first.map(|k| i <= k).unwrap_or(true)).collect();
        if walked != want || rep != first {
            ctx.fail("C18", "serial_stops_at_first_error", case, format!("{}: walked = {:?}, reported = {:?}; expected walked = {:?}, reported = {:?}", detail_base, walked, rep, want, first), input.clone());
        }
        let ans = format!("ok {} {}", seq(&walked, |x| b(*x)), opt(&rep, |x| x.to_string()));
        ctx.op("C18", "ser_run", &seq(&rf.fail, |x| b(*x)), &ans);
    } else {
        if !any_fail {
            ctx.checked("C18", "par_equals_serial");
            if walked.iter().any(|w| !*w) || err.is_some() {
                ctx.fail("C18", "par_equals_serial", case, format!("{}: no element fails but walked = {:?}, err = {:?}", detail_base, walked, err), input.clone());
            }
        }
        let n_un = walked.iter().filter(|w| !**w).count();
        ctx.count(&format!("det.par_obs.{}", if !any_fail { "all_ok" } else if n_un == 0 { "failing_batch_all_walked" } else { "failing_batch_some_untouched" }));
        if walked_failing.len() > 1 { ctx.count("det.par_obs.two_failures_walked"); }
        let args = format!("{} {} {}", seq(&rf.fail, |x| b(*x)), seq(&walked, |x| b(*x)), opt(&rep, |x| x.to_string()));
        ctx.op("C18", "par_check", &args, "ok T");
    }
}

// ------------------------------------------------------------------------------------ small hash-order cases

fn cars_total_case(ctx: &mut Ctx, r: &mut Rng) {
    let k = r.usize(0, 7);
    let mut mp: HashMap<String, u32> = HashMap::new();
    let big = r.chance(0.15);
    for i in 0..k {
        let v = if big && r.chance(0.6) { u32::MAX - r.below(5) as u32 - if i == 0 { 0 } else { u32::MAX / 2 } } else { r.below(200) as u32 };
        mp.insert(format!("{}{}", r.pick(&CAR_NAMES), i), v);
    }
    let tc = TrainConfig { rail_vehicles: vec![], n_cars_by_type: mp, train_type: TrainType::Freight, train_length: None, train_mass: None, cd_area_vec: None };
    let vals: Vec<u32> = tc.n_cars_by_type.values().cloned().collect();   // the implementation's own iteration order
    let got = guard(|| tc.cars_total());
    let exact: u64 = vals.iter().map(|v| *v as u64).sum();
    ctx.checked("C18", "cars_total_order_free");
    let ans = match got {
        Some(t) => {
            if t as u64 != exact {
                ctx.fail("C18", "cars_total_order_free", "cars_total", format!("cars_total() = {} but the values sum to {}", t, exact), json!({"n_cars_by_type": tc.n_cars_by_type}));
            }
            ctx.count("det.cars_total.ok");
            format!("ok {}", t)
        }
        None => {
            if exact <= u32::MAX as u64 {
                ctx.fail("C18", "cars_total_order_free", "cars_total", format!("cars_total() panicked but the values sum to {} (fits u32)", exact), json!({"n_cars_by_type": tc.n_cars_by_type}));
            }
            ctx.count("det.cars_total.overflow_panic");
            "panic".to_string()
        }
    };
    ctx.op("C18", "cars_total", &seq(&vals, |v| v.to_string()), &ans);
}

const TYPES: [TrainType; 6] = [TrainType::Freight, TrainType::Passenger, TrainType::Intermodal, TrainType::HighSpeedPassenger, TrainType::TiltTrain, TrainType::Commuter];

fn find_key_case(ctx: &mut Ctx, r: &mut Rng) {
    // one link whose `speed_sets` map has k train types, each with its own whole-link limit
    let k = r.usize(0, 6);
    let mut types = TYPES.to_vec();
    r.shuffle(&mut types);
    let len = 1000.0;
    let mut link = Link {
        idx_curr: LinkIdx::new(1),
        length: m(len),
        elevs: vec![Elev { offset: m(0.0), elev: m(0.0) }, Elev { offset: m(len), elev: m(0.0) }],
        ..Default::default()
    };
    let speed_of = |t: &TrainType| 5.0 + (*t as u8) as f64;      // distinct, below the train's 25 m/s
    for t in &types[..k] {
        link.speed_sets.insert(*t, SpeedSet {
            speed_limits: vec![SpeedLimit { offset_start: m(0.0), offset_end: m(len), speed: mps(speed_of(t)) }],
            speed_params: vec![],
            is_head_end: false,
        });
    }
    link.speed_set = None;
    let net = vec![Link::default(), link];
    let want_t = *r.pick(&TYPES);
    let tp = TrainParams { train_type: want_t, ..TrainParams::valid() };
    let mut tpc = PathTpc::new(tp);
    let res = guard(|| tpc.extend(&net, [LinkIdx::new(1)]));
    let keys: Vec<TrainType> = net[1].speed_sets.keys().cloned().collect();   // iteration order of THIS map instance
    let key_tok = |t: &TrainType| format!("{:?}", t);
    let args = format!("{} {}", seq(&keys, key_tok), key_tok(&want_t));
    ctx.checked("C18", "speed_set_by_key");
    let ans = match res {
        None => { ctx.fail("C18", "speed_set_by_key", "find_key", "PathTpc::extend panicked".into(), json!({"keys": keys.iter().map(key_tok).collect::<Vec<_>>(), "train_type": key_tok(&want_t)})); "panic".to_string() }
        Some(Err(_)) => {
            if keys.contains(&want_t) {
                ctx.fail("C18", "speed_set_by_key", "find_key", format!("train type {:?} is a key of speed_sets but extend failed", want_t), json!({"keys": keys.iter().map(key_tok).collect::<Vec<_>>()}));
            }
            ctx.count("det.find_key.absent");
            "ok N".to_string()
        }
        Some(Ok(())) => {
            // which set was applied? the limit in force at the start of the link
            let v = tpc.speed_points().first().map(|p| p.speed_limit.value).unwrap_or(f64::NAN);
            let chosen = keys.iter().position(|t| speed_of(t) == v);
            if chosen.map(|i| keys[i]) != Some(want_t) {
                ctx.fail("C18", "speed_set_by_key", "find_key", format!("train type {:?}: limit in force {} m/s is not that type's speed set (keys in iteration order {:?})", want_t, v, keys), json!({"keys": keys.iter().map(key_tok).collect::<Vec<_>>(), "train_type": key_tok(&want_t)}));
            }
            ctx.count("det.find_key.present");
            match chosen { Some(i) => format!("ok S {}", i), None => "ok N".to_string() }
        }
    };
    ctx.op("C18", "find_key", &args, &ans);
}

// ------------------------------------------------------------------------------------ block

fn scen_input(k: usize, s: &Scen, seed_hint: &str) -> Value {
    let body = match s {
        Scen::Batch(sims) => json!({"loco_sim_vec": sims}),
        Scen::Consist(sim) => json!({"consist_sim": sim}),
        Scen::Built { builder, net, path, trace } => json!({"train_config": builder.train_config, "consist": builder.loco_con, "network": net, "path": path.iter().map(|l| l.idx()).collect::<Vec<_>>(), "speed_trace": trace}),
        Scen::Meet { net, trains } => json!({"network": net, "trains": trains}),
        Scen::Validate(net) => json!({"network": net}),
        _ => Value::Null,
    };
    // keep replays bounded
    let txt = body.to_string();
    let body = if txt.len() > 400_000 { json!({"too_large_to_inline_bytes": txt.len()}) } else { body };
    json!({"scenario_index": k, "kind": s.kind(), "how_to_rebuild": seed_hint, "input": body})
}

pub fn run(ctx: &mut Ctx, r: &mut Rng, tier: &str) {
    if std::env::var("VERIF_DET_CHILD").is_ok() {
        child_main(r, tier);
    }
    let seed = r.0 ^ 0x9E37_79B9_7F4A_7C15;     // Rng::new(seed) = seed ^ const
    let thorough = tier == "thorough";
    // children first: they run while this process does its own share
    let reps = if thorough { 3 } else { 2 };
    let mut children = vec![];
    for _ in 0..reps {
        for p in POOLS {
            match spawn_child(p, tier, seed) {
                Some(c) => children.push(c),
                None => ctx.fail("C18", "child_process_ran", "spawn", format!("could not spawn a fresh process (pool {})", p), Value::Null),
            }
        }
    }
    let mut rs = r.clone();
    let scens = build_scenarios(&mut rs, tier);
    let hint = format!("scenario list = build_scenarios(seed {}, tier {}) in /verif/harness/src/b_det.rs", seed, tier);

    // ---- this process: serial twice, parallel under the default pool
    let mut base: Vec<Out> = vec![];
    let mut refs: Vec<Option<BatchRef>> = vec![];
    for (k, s) in scens.iter().enumerate() {
        ctx.count(&format!("det.scenario.{}", s.kind()));
        let case = format!("s{}", k);
        let input = scen_input(k, s, &hint);
        let a = run_scen(s, false);
        let b2 = run_scen(s, false);
        if !matches!(s, Scen::Validate(_)) {
            ctx.count(&format!("det.outcome.{}.{}", s.kind(), match &a.err { None => "ok", Some(e) if e == "<panic>" => "panic", _ => "err" }));
        }
        for nt in &a.notes { if nt.contains(": ") { ctx.sample("det.note", json!(nt)); } else { ctx.count(&format!("det.{}", nt)); } }
        ctx.checked("C18", "repeat_in_process");
        if a.canon != b2.canon || a.err != b2.err {
            ctx.fail("C18", "repeat_in_process", &case, format!("{}: two executions on equal inputs in one process differ (canonical {} vs {}; err {:?} vs {:?})", s.kind(), digest(&a.canon), digest(&b2.canon), a.err, b2.err), input.clone());
        } else if a.raw != b2.raw {
            ctx.count("det.raw_text_differs_in_process(hash_map_serialization_or_message_order)");
        }
        let mut rf_opt = None;
        if let Scen::Batch(sims) = s {
            let n_fail_intended = sims.iter().filter(|x| x.power_trace.pwr.iter().any(|p| p.value >= 1.0e9)).count();
            let rf = batch_ref(sims, false);
            ctx.count(&format!("det.batch.size.{}", rf.n));
            ctx.count(&format!("det.batch.failing_elements.{}", rf.fail.iter().filter(|f| **f).count()));
            if n_fail_intended != rf.fail.iter().filter(|f| **f).count() { ctx.count("det.batch.unintended_failure"); }
            check_batch_obs(ctx, &case, "serial in-process", false, &rf, &a.elems, &a.err, &input);
            for rep in 0..(if thorough { 10 } else { 5 }) {
                let p = run_scen(s, true);
                check_batch_obs(ctx, &case, &format!("parallel in-process (default pool) #{}", rep), true, &rf, &p.elems, &p.err, &input);
                if !rf.fail.iter().any(|f| *f) {
                    ctx.checked("C18", "par_equals_serial_bytes");
                    if p.canon != a.canon {
                        ctx.fail("C18", "par_equals_serial_bytes", &case, format!("parallel walk (default pool) differs from the serial walk: {} vs {}", digest(&p.canon), digest(&a.canon)), input.clone());
                    }
                }
            }
            if rf.fail.iter().any(|f| *f) { ctx.sample("det.failing_batch", json!({"n": rf.n, "fails": rf.fail, "serial_error": a.err})); }
            // digests for the comparison with the children
            rf_opt = Some(BatchRef { n: rf.n, input: rf.input.iter().map(|x| digest(x)).collect(), alone: rf.alone.iter().map(|x| digest(x)).collect(), alone_err: rf.alone_err.clone(), fail: rf.fail.clone() });
        }
        refs.push(rf_opt);
        base.push(a);
    }

    // ---- fresh processes
    for c in children {
        let pool = c.pool;
        let outp = c.handle.wait_with_output();
        ctx.checked("C18", "child_process_ran");
        let outp = match outp {
            Ok(o) if o.status.success() => o,
            Ok(o) => { ctx.fail("C18", "child_process_ran", "child", format!("fresh process (pool {}) exited with {:?}", pool, o.status.code()), Value::Null); continue; }
            Err(e) => { ctx.fail("C18", "child_process_ran", "child", format!("fresh process (pool {}) failed: {}", pool, e), Value::Null); continue; }
        };
        let text = String::from_utf8_lossy(&outp.stdout);
        let lines: Vec<Value> = text.lines().filter_map(|l| serde_json::from_str(l).ok()).collect();
        if lines.len() != scens.len() {
            ctx.fail("C18", "child_process_ran", "child", format!("fresh process (pool {}) reported {} scenarios, expected {}", pool, lines.len(), scens.len()), Value::Null);
            continue;
        }
        ctx.count(&format!("det.child.pool_{}", pool));
        let mut max_threads = 0;
        for (k, l) in lines.iter().enumerate() {
            let s = &scens[k];
            let case = format!("s{}", k);
            let how = format!("fresh process, rayon pool {}", pool);
            let input = scen_input(k, s, &hint);
            max_threads = max_threads.max(l["threads"].as_u64().unwrap_or(0));
            let a = &base[k];
            let get = |v: &Value, f: &str| v[f].as_str().unwrap_or("").to_string();
            let ser = &l["ser"];
            let ser_err = ser["err"].as_str().map(|x| x.to_string());
            ctx.checked("C18", "fresh_process");
            if get(ser, "canon") != digest(&a.canon) || l["kind"].as_str() != Some(s.kind()) {
                ctx.fail("C18", "fresh_process", &case, format!("{}: output in a fresh process ({}) differs from this process: {} vs {}", s.kind(), how, get(ser, "canon"), digest(&a.canon)), input.clone());
            } else if get(ser, "raw") != digest(&a.raw) {
                ctx.count(&format!("det.raw_text_differs_across_processes.{}", s.kind()));
                if let Some(t) = l["text"].as_str() {
                    ctx.sample("det.validation_message_order_differs", json!({"this_process": a.raw.chars().take(500).collect::<String>(), "fresh_process": t.chars().take(500).collect::<String>()}));
                }
            }
            ctx.checked("C18", "fresh_process_error");
            if ser_err != a.err {
                ctx.fail("C18", "fresh_process_error", &case, format!("{}: error in a fresh process ({}) differs: {:?} vs {:?}", s.kind(), how, ser_err, a.err), input.clone());
            }
            if let (Some(rf), Some(par)) = (&refs[k], l.get("par").filter(|p| !p.is_null())) {
                let elems: Vec<String> = par["elems"].as_array().map(|a| a.iter().map(|x| x.as_str().unwrap_or("").to_string()).collect()).unwrap_or_default();
                let perr = par["err"].as_str().map(|x| x.to_string());
                if elems.len() != rf.n {
                    ctx.fail("C18", "par_elementwise", &case, format!("{}: batch changed length {} -> {}", how, rf.n, elems.len()), input.clone());
                    continue;
                }
                check_batch_obs(ctx, &case, &format!("parallel, {}", how), true, rf, &elems, &perr, &input);
                // the child's own serial run, element by element
                let selems: Vec<String> = ser["elems"].as_array().map(|a| a.iter().map(|x| x.as_str().unwrap_or("").to_string()).collect()).unwrap_or_default();
                if selems.len() == rf.n { check_batch_obs(ctx, &case, &format!("serial, {}", how), false, rf, &selems, &ser_err, &input); }
                if !rf.fail.iter().any(|f| *f) {
                    ctx.checked("C18", "par_equals_serial_bytes");
                    if get(par, "canon") != digest(&a.canon) {
                        ctx.fail("C18", "par_equals_serial_bytes", &case, format!("parallel walk ({}) differs from the serial walk: {} vs {}", how, get(par, "canon"), digest(&a.canon)), input.clone());
                    }
                }
            }
        }
        // the pool really had that many workers (main thread + workers; polars may add its own)
        ctx.checked("C18", "pool_size_effective");
        if (max_threads as usize) < pool + 1 {
            ctx.fail("C18", "pool_size_effective", "child", format!("fresh process asked for a rayon pool of {} but only {} threads existed", pool, max_threads), Value::Null);
        }
    }

    // ---- folds over std hash maps, on the implementation's own iteration order
    let (nc, nf) = if thorough { (2000, 2000) } else { (200, 300) };
    for _ in 0..nc { let mut rr = r.fork(); cars_total_case(ctx, &mut rr); }
    for _ in 0..nf { let mut rr = r.fork(); find_key_case(ctx, &mut rr); }
}
