//! Block `disp`: meet-pass dispatch scenarios (C04, C05, C15) — scenario probe (ops/oracles are added per property).
use crate::dispgen::*;
use crate::prng::Rng;
use crate::proto::*;
use altrios_core::meet_pass::dispatch::run_dispatch;
use altrios_core::prelude::*;
use altrios_core::validate::*;
use serde_json::json;

pub fn run(ctx: &mut Ctx, r: &mut Rng, tier: &str) {
    let n = if tier == "thorough" { 60 } else { 6 };
    for _ in 0..n {
        let mut rr = r.fork();
        let sc = gen_scenario(&mut rr, 4);
        if let Err(e) = sc.dn.net.validate() { ctx.count("disp.net_invalid"); ctx.sample("disp.net_invalid", json!(format!("{:?}", e).chars().take(300).collect::<String>())); continue; }
        let t0 = std::time::Instant::now();
        let mut ets = vec![];
        let mut ok = true;
        for t in &sc.trains {
            match guard(|| make_est_times(t.clone(), &sc.dn.net)) {
                Some(Ok((et, _))) => { ctx.count("disp.est_ok"); ctx.count_n("disp.est_nodes", et.val.len() as u64); ets.push(et); }
                Some(Err(e)) => { ctx.count("disp.est_err"); ctx.sample("disp.est_err", json!(format!("{:?}", e).chars().take(400).collect::<String>())); ok = false; break; }
                None => { ctx.count("disp.est_panic"); ctx.sample("disp.est_panic", json!(last_panic())); ok = false; break; }
            }
        }
        let t_est = t0.elapsed().as_secs_f64();
        if !ok { continue; }
        let t1 = std::time::Instant::now();
        match guard(|| run_dispatch(&sc.dn.net, &sc.trains, ets.clone(), false, false)) {
            Some(Ok(plan)) => { ctx.count("disp.dispatch_ok"); ctx.sample("disp.plan", json!({"trains": sc.trains.len(), "sidings": sc.dn.sidings.len(), "n_main": sc.dn.main_fwd.len(), "dirs": sc.dirs, "est_s": t_est, "disp_s": t1.elapsed().as_secs_f64(),
                "plan": plan.iter().map(|p| p.iter().map(|x| (x.link_idx.idx(), x.time.value)).collect::<Vec<_>>()).collect::<Vec<_>>()})); }
            Some(Err(e)) => { ctx.count("disp.dispatch_err"); ctx.sample("disp.dispatch_err", json!(format!("{:?}", e).chars().take(300).collect::<String>())); }
            None => { ctx.count("disp.dispatch_panic"); ctx.sample("disp.dispatch_panic", json!(last_panic())); }
        }
    }
}
