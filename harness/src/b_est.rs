//! Block `est`: estimated-time network (C15).
//!
//! For every generated scenario (single track with 0..4 sidings of one or two links, also parallel to the
//! first / last segment so that there are several origin and destination links; trains in both
//! directions; several departure times; a few routes too short for the train to depart) and for every
//! corpus case (/verif/corpus/C15/*.json: replays of the repaired defects) the real `make_est_times` is
//! run.  A `verif-hooks` observer hands out the node vector just before `update_times_forward`; the two
//! (private) passes are then also driven by hand through the hook wrappers, which must reproduce the
//! function's own result.
//!
//! Ops (the Lean driver must print the same answer):
//!   est_forward  <nodes> <depart>                       -> ok <nodes> | panic     real update_times_forward
//!   est_backward <nodes>                                -> ok <nodes> | panic     real update_times_backward
//!   est_check    <net> <origs> <dests> <tol> <nodes>    -> ok b1..b7              brute-force oracle verdicts
//!   est_fwd_check <nodes> <depart>                      -> ok T|F                 shortest-path recomputation
//!   running_time <first> <last>                         -> ok <hours>
//! The passes are additionally run on the same topologies with re-drawn durations (many more relinking
//! patterns, ties), and the checkers on mutated graphs (must be rejected by both sides alike).
//!
//! ORACLE (independent of the model): every clause of C15 is re-checked on the implementation's output by
//! exhaustive enumeration of all start-to-end walks; known findings are reported under their own clause
//! names (`time_sched_nonneg`, `short_route_never_departs`).
use crate::dispgen::{gen_train, location};
use crate::netgen::*;
use crate::prng::Rng;
use crate::proto::*;
use altrios_core::meet_pass::disp_structs::*;
use altrios_core::meet_pass::est_times::{verif_hooks, EstTime};
use altrios_core::prelude::*;
use altrios_core::track::*;
use altrios_core::traits::SerdeAPI;
use altrios_core::uc;
use altrios_core::validate::*;
use serde_json::json;
use std::cell::RefCell;
use std::rc::Rc;

pub const TOL: f64 = 1e-6;
/// failing inputs are serialised only when a check fails
type Inp<'a> = &'a dyn Fn() -> serde_json::Value;

// ------------------------------------------------------------------------------------------------ networks

#[derive(Clone, Debug)]
pub struct EstNet {
    pub net: Vec<Link>,
    pub main_fwd: Vec<u32>,
    pub main_rev: Vec<u32>,
    /// (main segment index, forward siding links in travel order, reverse siding links in travel order)
    pub sidings: Vec<(usize, Vec<u32>, Vec<u32>)>,
}

fn flat_link(idx: u32, len: f64, speed: f64, e0: f64, e1: f64) -> Link {
    Link {
        idx_curr: LinkIdx::new(idx),
        length: m(len),
        elevs: vec![Elev { offset: m(0.0), elev: m(e0) }, Elev { offset: m(len), elev: m(e1) }],
        headings: vec![],
        speed_set: Some(SpeedSet {
            speed_limits: vec![SpeedLimit { offset_start: m(0.0), offset_end: m(len), speed: mps(speed) }],
            speed_params: vec![],
            is_head_end: false,
        }),
        ..Default::default()
    }
}

/// single track of `n_main` segments with sidings parallel to the segments in `siding_at` (any segment,
/// also the first and the last: those serve as alternative origins / destinations; never two adjacent
/// ones); a siding is one link or two links in series; every link has a flipped twin.
pub fn gen_est_net(r: &mut Rng, n_main: usize, siding_at: &[(usize, usize)], equal_sidings: bool, short_links: bool) -> EstNet {
    let n = n_main as u32;
    let mut next_idx = 2 * n + 1;
    let fm = |k: usize| (k as u32) + 1;
    let rm = |k: usize| n + (k as u32) + 1;
    let total: usize = 2 * n_main + 2 * siding_at.iter().map(|s| s.1).sum::<usize>() + 1;
    let mut net: Vec<Link> = vec![Link::default(); total];
    let lens: Vec<f64> = (0..n_main).map(|_| if short_links { r.range(4, 12) as f64 * 250.0 } else { r.range(16, 40) as f64 * 250.0 }).collect();
    let speeds: Vec<f64> = (0..n_main).map(|_| *r.pick(&[15.0, 20.0, 25.0])).collect();
    for k in 0..n_main {
        let g = r.range(-4, 4) as f64 / 1024.0;
        let mut l = flat_link(fm(k), lens[k], speeds[k], 100.0, 100.0 + g * lens[k]);
        l.idx_prev = LinkIdx::new(if k > 0 { fm(k - 1) } else { 0 });
        l.idx_next = LinkIdx::new(if k + 1 < n_main { fm(k + 1) } else { 0 });
        l.idx_flip = LinkIdx::new(rm(k));
        net[fm(k) as usize] = l;
        let mut f = flat_link(rm(k), lens[k], speeds[k], 100.0 + g * lens[k], 100.0);
        f.idx_next = LinkIdx::new(if k > 0 { rm(k - 1) } else { 0 });
        f.idx_prev = LinkIdx::new(if k + 1 < n_main { rm(k + 1) } else { 0 });
        f.idx_flip = LinkIdx::new(fm(k));
        net[rm(k) as usize] = f;
    }
    let mut sidings = vec![];
    for &(k, parts) in siding_at {
        // `equal_sidings`: the siding is an exact copy of the main segment (ties between the branches)
        let slen = if equal_sidings { lens[k] } else { lens[k] * *r.pick(&[1.0, 1.0, 1.25, 0.75]) };
        let sspeed = if equal_sidings { speeds[k] } else { *r.pick(&[10.0, 10.0, 15.0, 20.0, 25.0]) };
        let parts = if equal_sidings { 1 } else { parts };
        let fw: Vec<u32> = (0..parts).map(|i| next_idx + i as u32).collect();
        let rv: Vec<u32> = (0..parts).map(|i| next_idx + (parts + i) as u32).collect();
        next_idx += 2 * parts as u32;
        let plen = slen / parts as f64;
        let (e0, e1) = if equal_sidings {
            (net[fm(k) as usize].elevs[0].elev.value, net[fm(k) as usize].elevs[1].elev.value)
        } else { (100.0, 100.0) };
        for i in 0..parts {
            let mut s = flat_link(fw[i], plen, sspeed, e0, e1);
            s.idx_prev = LinkIdx::new(if i > 0 { fw[i - 1] } else if k > 0 { fm(k - 1) } else { 0 });
            s.idx_next = LinkIdx::new(if i + 1 < parts { fw[i + 1] } else if k + 1 < n_main { fm(k + 1) } else { 0 });
            s.idx_flip = LinkIdx::new(rv[parts - 1 - i]);
            net[fw[i] as usize] = s;
            let mut t = flat_link(rv[i], plen, sspeed, e1, e0);
            t.idx_prev = LinkIdx::new(if i > 0 { rv[i - 1] } else if k + 1 < n_main { rm(k + 1) } else { 0 });
            t.idx_next = LinkIdx::new(if i + 1 < parts { rv[i + 1] } else if k > 0 { rm(k - 1) } else { 0 });
            t.idx_flip = LinkIdx::new(fw[parts - 1 - i]);
            net[rv[i] as usize] = t;
        }
        if k > 0 {
            net[fm(k - 1) as usize].idx_next_alt = LinkIdx::new(fw[0]);
            net[rm(k - 1) as usize].idx_prev_alt = LinkIdx::new(rv[parts - 1]);
        }
        if k + 1 < n_main {
            net[fm(k + 1) as usize].idx_prev_alt = LinkIdx::new(fw[parts - 1]);
            net[rm(k + 1) as usize].idx_next_alt = LinkIdx::new(rv[0]);
        }
        sidings.push((k, fw, rv));
    }
    // the total length of net is exactly `total` only when `parts` was not overridden
    net.truncate(next_idx as usize);
    EstNet { net, main_fwd: (0..n_main).map(fm).collect(), main_rev: (0..n_main).map(rm).collect(), sidings }
}

// ------------------------------------------------------------------------------------------------ graph view

#[derive(Clone, Copy, Debug, PartialEq)]
pub struct Nd {
    pub ts: f64,
    pub ttn: f64,
    pub dist: f64,
    pub speed: f64,
    pub next: usize,
    pub next_alt: usize,
    pub prev: usize,
    pub prev_alt: usize,
    pub link: usize,
    /// 0 arrive, 1 clear, 2 fake
    pub ty: u8,
}

fn nd(e: &EstTime) -> Nd {
    Nd {
        ts: e.time_sched.value, ttn: e.time_to_next.value, dist: e.dist_to_next.value, speed: e.speed.value,
        next: e.idx_next as usize, next_alt: e.idx_next_alt as usize, prev: e.idx_prev as usize, prev_alt: e.idx_prev_alt as usize,
        link: e.link_event.link_idx.idx(),
        ty: match e.link_event.est_type { EstType::Arrive => 0, EstType::Clear => 1, EstType::Fake => 2 },
    }
}
fn est(n: &Nd) -> EstTime {
    EstTime {
        time_sched: uc::S * n.ts, time_to_next: uc::S * n.ttn, dist_to_next: uc::M * n.dist, speed: uc::MPS * n.speed,
        idx_next: n.next as u32, idx_next_alt: n.next_alt as u32, idx_prev: n.prev as u32, idx_prev_alt: n.prev_alt as u32,
        link_event: LinkEvent { link_idx: LinkIdx::new(n.link as u32), est_type: match n.ty { 0 => EstType::Arrive, 1 => EstType::Clear, _ => EstType::Fake } },
    }
}
fn nds(v: &[EstTime]) -> Vec<Nd> { v.iter().map(nd).collect() }
fn ests(v: &[Nd]) -> Vec<EstTime> { v.iter().map(est).collect() }

fn nd_tok(n: &Nd) -> String {
    format!("{} {} {} {} {} {} {} {} {} {}", f(n.ts), f(n.ttn), f(n.dist), f(n.speed), n.next, n.next_alt, n.prev, n.prev_alt, n.link,
        match n.ty { 0 => "A", 1 => "C", _ => "F" })
}
fn nds_tok(v: &[Nd]) -> String { seq(v, nd_tok) }
fn nds_json(v: &[Nd]) -> serde_json::Value {
    json!(v.iter().map(|n| json!([n.ts, n.ttn, n.dist, n.speed, n.next, n.next_alt, n.prev, n.prev_alt, n.link, n.ty])).collect::<Vec<_>>())
}
fn same_nds(a: &[Nd], b: &[Nd]) -> bool {
    let fe = |x: f64, y: f64| (x.is_nan() && y.is_nan()) || x == y;
    a.len() == b.len() && a.iter().zip(b).all(|(p, q)| fe(p.ts, q.ts) && fe(p.ttn, q.ttn) && fe(p.dist, q.dist) && fe(p.speed, q.speed)
        && p.next == q.next && p.next_alt == q.next_alt && p.prev == q.prev && p.prev_alt == q.prev_alt && p.link == q.link && p.ty == q.ty)
}

/// track adjacency as the checkers see it: per link (idx_next, idx_next_alt)
fn adj_of(net: &[Link]) -> Vec<(usize, usize)> { net.iter().map(|l| (l.idx_next.idx(), l.idx_next_alt.idx())).collect() }
fn adj_tok(a: &[(usize, usize)]) -> String { seq(a, |p| format!("{} {}", p.0, p.1)) }
fn us_tok(a: &[usize]) -> String { seq(a, |p| format!("{}", p)) }

// ------------------------------------------------------------------------------------------------ brute-force oracle

#[derive(Clone, Debug, Default, PartialEq)]
pub struct Verdict {
    pub links: bool,
    pub walks: bool,
    pub route: bool,
    pub fin: bool,
    pub nonneg: bool,
    pub tight: bool,
    pub alt: bool,
    pub detail: Vec<(String, String)>,
    pub n_walks: usize,
}
impl Verdict {
    fn bits(&self) -> String {
        format!("{} {} {} {} {} {} {}", b(self.links), b(self.walks), b(self.route), b(self.fin), b(self.nonneg), b(self.tight), b(self.alt))
    }
    fn note(&mut self, clause: &str, d: String) { if self.detail.len() < 12 { self.detail.push((clause.into(), d)); } }
}

/// clause "links": index ranges, boundary nodes, every forward link mirrored by a backward link and vice versa
fn links_ok(g: &[Nd], v: &mut Verdict) -> bool {
    let n = g.len();
    if n < 2 { v.note("links_mutual", "fewer than two nodes".into()); return false; }
    let mut ok = true;
    for (i, x) in g.iter().enumerate() {
        let mut bad = |why: &str| { ok = false; v.note("links_mutual", format!("node {}: {}", i, why)); };
        if x.next >= n || x.next_alt >= n || x.prev >= n || x.prev_alt >= n { bad("index out of range"); continue; }
        if i == 0 && !(x.next == 1 && x.next_alt == 0 && x.prev == 0 && x.prev_alt == 0) { bad("start node malformed"); }
        if i == 1 && !(x.prev == 0 && x.prev_alt == 0) { bad("second node has a predecessor other than the start"); }
        if i >= 2 && x.prev == 0 { bad("no idx_prev"); }
        if i == n - 1 && !(x.next == 0 && x.next_alt == 0) { bad("end node has a successor"); }
        if i < n - 1 && x.next == 0 { bad("no idx_next"); }
        if x.next != 0 && !(g[x.next].prev == i || g[x.next].prev_alt == i) { bad("idx_next not mirrored by idx_prev/_alt"); }
        if x.next_alt != 0 && !(g[x.next_alt].prev == i || g[x.next_alt].prev_alt == i) { bad("idx_next_alt not mirrored by idx_prev/_alt"); }
        if x.prev != 0 && !(g[x.prev].next == i || g[x.prev].next_alt == i) { bad("idx_prev not mirrored by idx_next/_alt"); }
        if x.prev_alt != 0 && !(g[x.prev_alt].next == i || g[x.prev_alt].next_alt == i) { bad("idx_prev_alt not mirrored by idx_next/_alt"); }
        if x.next_alt != 0 && x.next_alt == x.next { bad("idx_next_alt equals idx_next"); }
        if x.prev_alt != 0 && x.prev_alt == x.prev { bad("idx_prev_alt equals idx_prev"); }
    }
    ok
}

fn succs(x: &Nd) -> Vec<(usize, bool)> {
    let mut s = vec![];
    if x.next != 0 { s.push((x.next, false)); }
    if x.next_alt != 0 { s.push((x.next_alt, true)); }
    s
}

/// no cycle anywhere (three-colour depth-first search over all nodes)
fn acyclic(g: &[Nd]) -> bool {
    let n = g.len();
    let mut col = vec![0u8; n];
    for s in 0..n {
        if col[s] != 0 { continue; }
        let mut st: Vec<(usize, usize)> = vec![(s, 0)];
        col[s] = 1;
        while let Some(&(u, k)) = st.last() {
            let su = succs(&g[u]);
            if k < su.len() {
                st.last_mut().unwrap().1 += 1;
                let w = su[k].0;
                if col[w] == 1 { return false; }
                if col[w] == 0 { col[w] = 1; st.push((w, 0)); }
            } else { col[u] = 2; st.pop(); }
        }
    }
    true
}

/// all maximal walks from node 0 (each a list of node indices); None if more than `cap`
fn all_walks(g: &[Nd], cap: usize) -> Option<Vec<Vec<usize>>> {
    let mut out = vec![];
    let mut path = vec![0usize];
    fn rec(g: &[Nd], path: &mut Vec<usize>, out: &mut Vec<Vec<usize>>, cap: usize) -> bool {
        let u = *path.last().unwrap();
        let su = succs(&g[u]);
        if su.is_empty() { out.push(path.clone()); return out.len() <= cap; }
        for (w, _) in su {
            path.push(w);
            if !rec(g, path, out, cap) { return false; }
            path.pop();
        }
        true
    }
    if rec(g, &mut path, &mut out, cap) { Some(out) } else { None }
}

/// the property's route clause on one start-to-end walk, stated on the event sequence as a whole
fn route_of_walk(g: &[Nd], w: &[usize], adj: &[(usize, usize)], origs: &[usize], dests: &[usize]) -> Result<(), (String, String)> {
    let ev: Vec<(usize, bool)> = w.iter().filter(|&&i| g[i].ty != 2).map(|&i| (g[i].link, g[i].ty == 0)).collect();
    let arr: Vec<usize> = ev.iter().filter(|e| e.1).map(|e| e.0).collect();
    let clr: Vec<usize> = ev.iter().filter(|e| !e.1).map(|e| e.0).collect();
    let c = "route_contiguous".to_string();
    if arr.is_empty() { return Err((c, "no arrive event on the walk".into())); }
    if !origs.contains(&arr[0]) { return Err((c, format!("first link {} is not an origin", arr[0]))); }
    if !dests.contains(arr.last().unwrap()) { return Err((c, format!("last link {} is not a destination", arr.last().unwrap()))); }
    for k in 1..arr.len() {
        let (a, bb) = (arr[k - 1], arr[k]);
        let ok = a < adj.len() && bb != 0 && (adj[a].0 == bb || adj[a].1 == bb);
        if !ok { return Err((c, format!("link {} does not follow link {} in the track network", bb, a))); }
    }
    // each segment cleared after it is entered: at every prefix the clears are a prefix of the arrives
    let c = "clear_after_arrive".to_string();
    let (mut na, mut nc) = (0usize, 0usize);
    for e in &ev {
        if e.1 { na += 1; } else {
            if nc >= na { return Err((c, format!("link {} cleared before it is entered", e.0))); }
            if arr[nc] != e.0 { return Err((c, format!("clear of link {} out of route order (expected {})", e.0, arr[nc]))); }
            nc += 1;
        }
    }
    // links still under the train when it stops at its destination are (rightly) never cleared
    let _ = clr;
    Ok(())
}

pub fn oracle(g: &[Nd], adj: &[(usize, usize)], origs: &[usize], dests: &[usize], tol: f64) -> Verdict {
    let mut v = Verdict::default();
    v.links = links_ok(g, &mut v);
    v.walks = v.links && acyclic(g);
    if v.links && !v.walks { v.note("walks_reach_end", "the graph has a cycle".into()); }
    if v.walks {
        match all_walks(g, 200_000) {
            None => { v.route = false; v.note("walks_capped", "more than 200000 walks".into()); }
            Some(ws) => {
                v.n_walks = ws.len();
                v.route = true;
                for w in &ws {
                    if *w.last().unwrap() != g.len() - 1 { v.walks = false; v.route = false; v.note("walks_reach_end", format!("walk stops at node {}", w.last().unwrap())); break; }
                    if let Err((c, d)) = route_of_walk(g, w, adj, origs, dests) { v.route = false; v.note(&c, format!("{} on walk {:?}", d, w)); break; }
                }
            }
        }
    }
    v.fin = g.iter().all(|x| x.ts.is_finite() && x.ttn.is_finite());
    if !v.fin { v.note("times_finite", "a scheduled time or duration is NaN or infinite".into()); }
    if v.fin {
        v.nonneg = true;
        for (i, x) in g.iter().enumerate() {
            if !(0.0 <= x.ttn) { v.nonneg = false; v.note("durations_nonneg", format!("node {} has negative time_to_next {}", i, x.ttn)); }
            if !(0.0 <= x.ts) { v.nonneg = false; v.note("time_sched_nonneg", format!("node {} ({}) has negative time_sched {}", i, ["arrive", "clear", "fake"][x.ty as usize], x.ts)); }
        }
    }
    if v.links && v.fin {
        v.tight = true;
        v.alt = true;
        // predecessor-centric: for every node, every node that links to it
        for (i, x) in g.iter().enumerate() {
            for (q, y) in g.iter().enumerate() {
                if y.next == i && i != 0 && !((x.ts - (y.ts + y.ttn)).abs() <= tol) {
                    v.tight = false;
                    v.note("next_links_tight", format!("node {} at {} but predecessor {} (idx_next) gives {} + {}", i, x.ts, q, y.ts, y.ttn));
                }
                if y.next_alt == i && i != 0 && !(x.ts <= y.ts + tol) {
                    v.alt = false;
                    v.note("alt_not_later", format!("alternate node {} at {} later than its split node {} at {}", i, x.ts, q, y.ts));
                }
            }
        }
    }
    v
}

/// the property's two time clauses as it words them (independent of `tight` / `alt`)
fn oracle_time_clauses(ctx: &mut Ctx, case: &str, g: &[Nd], tol: f64, input: Inp) {
    for (i, x) in g.iter().enumerate() {
        if i == 0 { continue; }
        // primary predecessor: idx_prev, when it reaches this node by its primary link
        let p = x.prev;
        if g[p].next == i {
            ctx.checked("C15", "time_eq_primary_pred");
            let want = g[p].ts + g[p].ttn;
            if !((x.ts - want).abs() <= tol) {
                ctx.fail("C15", "time_eq_primary_pred", case, format!("node {} scheduled at {} but primary predecessor {} gives {} + {} = {}", i, x.ts, p, g[p].ts, g[p].ttn, want), input());
            }
        }
        for (q, y) in g.iter().enumerate() {
            if y.next == i || y.next_alt == i {
                ctx.checked("C15", "time_le_any_pred");
                // a predecessor allows: its own time plus its duration (an alternate link takes no time)
                let allow = if y.next == i { y.ts + y.ttn } else { y.ts };
                if !(x.ts <= allow + tol) {
                    ctx.fail("C15", "time_le_any_pred", case, format!("node {} scheduled at {} later than predecessor {} allows ({}; link {})", i, x.ts, q, allow, if y.next == i { "idx_next" } else { "idx_next_alt" }), input());
                }
            }
        }
    }
}

/// forward pass result = shortest-path times from the start (exact recomputation in topological order)
fn fwd_shortest_ok(g: &[Nd], depart: f64) -> (bool, String) {
    let mut v = Verdict::default();
    if !links_ok(g, &mut v) { return (false, format!("links: {:?}", v.detail)); }
    if !acyclic(g) { return (false, "cycle".into()); }
    if g.iter().any(|x| !x.ts.is_finite() || !x.ttn.is_finite()) { return (false, "non-finite".into()); }
    let n = g.len();
    // longest-path rank as topological order
    let mut indeg = vec![0usize; n];
    for x in g { for (w, _) in succs(x) { indeg[w] += 1; } }
    let mut order = vec![];
    let mut st: Vec<usize> = (0..n).filter(|&i| indeg[i] == 0).collect();
    while let Some(u) = st.pop() { order.push(u); for (w, _) in succs(&g[u]) { indeg[w] -= 1; if indeg[w] == 0 { st.push(w); } } }
    let mut d = vec![f64::INFINITY; n];
    d[0] = depart;
    for &u in &order {
        if u != 0 {
            let mut best = f64::INFINITY;
            for (q, y) in g.iter().enumerate() {
                if y.next == u { best = best.min(d[q] + y.ttn); }
                if y.next_alt == u { best = best.min(d[q]); }
            }
            d[u] = best;
        }
        if d[u] != g[u].ts { return (false, format!("node {}: time_sched {} but shortest path from the start gives {}", u, g[u].ts, d[u])); }
    }
    // and the primary predecessor attains it
    for (i, x) in g.iter().enumerate() {
        if i == 0 { continue; }
        let p = &g[x.prev];
        let via = if p.next == i { p.ts + p.ttn } else { p.ts };
        if via != x.ts { return (false, format!("node {}: idx_prev {} does not attain the minimum", i, x.prev)); }
    }
    (true, String::new())
}

// ------------------------------------------------------------------------------------------------ passes through the hooks

fn run_forward(g: &[Nd], depart: f64) -> Option<Vec<Nd>> {
    let mut v = ests(g);
    guard(|| verif_hooks::verif_update_times_forward(&mut v, uc::S * depart)).map(|_| nds(&v))
}
fn run_backward(g: &[Nd]) -> Option<Vec<Nd>> {
    let mut v = ests(g);
    guard(|| verif_hooks::verif_update_times_backward(&mut v)).map(|_| nds(&v))
}
fn ans_nodes(x: &Option<Vec<Nd>>) -> String {
    match x { Some(v) => format!("ok {}", nds_tok(v)), None => "panic".into() }
}
fn finite_in(g: &[Nd]) -> bool { g.iter().all(|x| x.ttn.is_finite() && x.ttn.abs() < 1e12 && (x.ts.is_nan() || (x.ts.is_finite() && x.ts.abs() < 1e12))) }

/// forward + backward on a pre-pass vector, op lines, checks; returns (mid, post)
fn drive_passes(ctx: &mut Ctx, real: bool, pre: &[Nd], depart: f64, input: Inp) -> Option<(Vec<Nd>, Vec<Nd>)> {
    let tag = if real { "real" } else { "redrawn" };
    if !finite_in(pre) || !depart.is_finite() { ctx.count("est.pass.skipped_nonfinite"); return None; }
    let mid = run_forward(pre, depart);
    let id = ctx.op("C15", "est_forward", &format!("{} {}", nds_tok(pre), f(depart)), &ans_nodes(&mid));
    ctx.count(&format!("est.pass.{}.forward_{}", tag, if mid.is_some() { "ok" } else { "panic" }));
    let mid = match mid { Some(m) => m, None => {
        let cl = if real { "pass_no_panic" } else { "redrawn.pass_no_panic" };
        ctx.checked("C15", cl);
        ctx.fail("C15", cl, &id, format!("update_times_forward panicked on a well-linked graph: {}", last_panic()), input());
        return None; } };
    let relinked = pre.iter().zip(&mid).filter(|(a, b)| a.next != b.next || a.prev != b.prev).count();
    ctx.count(if relinked > 0 { "est.pass.forward_relinked" } else { "est.pass.forward_no_relink" });
    ctx.count_n("est.pass.nodes_relinked_forward", relinked as u64);
    // forward result = shortest path from the start, exactly
    let (okf, why) = fwd_shortest_ok(&mid, depart);
    ctx.op("C15", "est_fwd_check", &format!("{} {}", nds_tok(&mid), f(depart)), &format!("ok {}", b(okf)));
    if real {
        ctx.checked("C15", "forward_is_shortest_path");
        if !okf { ctx.fail("C15", "forward_is_shortest_path", &id, why, input()); }
    } else {
        ctx.checked("C15", "redrawn.forward_is_shortest_path");
        if !okf { ctx.fail("C15", "redrawn.forward_is_shortest_path", &id, why, input()); }
    }
    let post = run_backward(&mid);
    let id2 = ctx.op("C15", "est_backward", &nds_tok(&mid), &ans_nodes(&post));
    ctx.count(&format!("est.pass.{}.backward_{}", tag, if post.is_some() { "ok" } else { "panic" }));
    let post = match post { Some(p) => p, None => {
        let cl = if real { "pass_no_panic" } else { "redrawn.pass_no_panic" };
        ctx.checked("C15", cl);
        ctx.fail("C15", cl, &id2, format!("update_times_backward panicked on the forward pass's output: {}", last_panic()), input());
        return None; } };
    ctx.checked("C15", if real { "pass_no_panic" } else { "redrawn.pass_no_panic" });
    let relinked = mid.iter().zip(&post).filter(|(a, b)| a.next != b.next || a.prev != b.prev).count();
    ctx.count(if relinked > 0 { "est.pass.backward_relinked" } else { "est.pass.backward_no_relink" });
    ctx.count_n("est.pass.nodes_relinked_backward", relinked as u64);
    Some((mid, post))
}

// ------------------------------------------------------------------------------------------------ checks on a finished graph

struct Case<'a> { adj: &'a [(usize, usize)], origs: &'a [usize], dests: &'a [usize] }

fn check_op(ctx: &mut Ctx, c: &Case, g: &[Nd]) -> (String, Verdict) {
    let v = oracle(g, c.adj, c.origs, c.dests, TOL);
    let id = ctx.op("C15", "est_check", &format!("{} {} {} {} {}", adj_tok(c.adj), us_tok(c.origs), us_tok(c.dests), f(TOL), nds_tok(g)), &format!("ok {}", v.bits()));
    (id, v)
}

/// duration of a walk: an `idx_next` link takes its source's `time_to_next`, an `idx_next_alt` link no time
fn walk_duration(g: &[Nd], w: &[usize]) -> f64 {
    let mut d = 0.0;
    for k in 1..w.len() { if g[w[k - 1]].next == w[k] { d += g[w[k - 1]].ttn; } }
    d
}

pub const CLAUSES: [&str; 9] = ["links_mutual", "walks_reach_end", "route_contiguous", "clear_after_arrive", "times_finite", "durations_nonneg", "time_sched_nonneg", "next_links_tight", "alt_not_later"];

/// every clause of the property on a graph the implementation produced.
/// `short`: some origin-to-destination route is not longer than the train plus the 5 miles `update_movement`
/// wants ahead of it — the simulated train then never departs (known finding, reported under its own clause).
fn oracle_final(ctx: &mut Ctx, c: &Case, g: &[Nd], short: bool, input: Inp) -> Verdict {
    let (id, v) = check_op(ctx, c, g);
    for cl in CLAUSES { ctx.checked("C15", cl); }
    ctx.count_n("est.walks_enumerated", v.n_walks as u64);
    for (cl, d) in &v.detail {
        if short && cl == "route_contiguous" && d.contains("is not a destination") {
            ctx.checked("C15", "short_route_never_departs");
            ctx.fail("C15", "short_route_never_departs", &id, format!("train never departs on a route shorter than 5 miles ahead of it: {}", d), input());
        } else {
            ctx.fail("C15", cl, &id, d.clone(), input());
        }
    }
    if v.links && v.fin { oracle_time_clauses(ctx, &id, g, TOL, input); }
    // the trip ends with its last event: every link into the chain of end fakes takes no time
    if v.links && v.walks {
        let n = g.len();
        let mut in_end = vec![false; n];
        // reverse index order is not topological in general: iterate to the fixpoint
        loop {
            let mut ch = false;
            for i in 0..n {
                if !in_end[i] && g[i].ty == 2 && succs(&g[i]).iter().all(|(w, _)| in_end[*w]) { in_end[i] = true; ch = true; }
            }
            if !ch { break; }
        }
        ctx.checked("C15", "end_chain_zero_duration");
        for (i, x) in g.iter().enumerate() {
            if x.next != 0 && in_end[x.next] && x.ttn != 0.0 {
                ctx.fail("C15", "end_chain_zero_duration", &id, format!("node {} leads into the end chain with time_to_next {} (the end is scheduled later than the last event)", i, x.ttn), input());
                break;
            }
        }
    }
    // running time: what `get_running_time_hours` computes, and what it means
    let (first, last) = (g[0].ts, g[g.len() - 1].ts);
    let hours = (uc::S * last - uc::S * first).get::<altrios_core::si::hour>();
    ctx.op("C15", "running_time", &format!("{} {}", f(first), f(last)), &format!("ok {}", f(hours)));
    ctx.checked("C15", "running_time_last_minus_first");
    if !(hours * 3600.0 - (last - first)).abs().le(&(1e-9 * (last.abs() + first.abs() + 1.0))) {
        ctx.fail("C15", "running_time_last_minus_first", &id, format!("running time {} h but last - first = {} s", hours, last - first), input());
    }
    if v.links && v.walks && v.fin {
        if let Some(ws) = all_walks(g, 200_000) {
            ctx.checked("C15", "running_time_is_fastest_walk");
            let best = ws.iter().map(|w| walk_duration(g, w)).fold(f64::INFINITY, f64::min);
            if !((last - first - best).abs() <= TOL * g.len() as f64 + 1e-9 * best.abs()) {
                ctx.fail("C15", "running_time_is_fastest_walk", &id, format!("last - first = {} s but the fastest start-to-end walk takes {} s", last - first, best), input());
            }
        }
    }
    v
}

/// mutated copies of a finished graph: the Lean checker and the brute-force oracle must agree on each clause
fn mutants(ctx: &mut Ctx, r: &mut Rng, c: &Case, g: &[Nd], k: usize) {
    let n = g.len();
    for _ in 0..k {
        let mut h = g.to_vec();
        let mut adj = c.adj.to_vec();
        let mut origs = c.origs.to_vec();
        let mut dests = c.dests.to_vec();
        let i = r.usize(0, n - 1);
        let kind = r.usize(0, 13);
        match kind {
            0 => { h[i].next = r.usize(0, n - 1); }
            1 => { h[i].next_alt = r.usize(0, n - 1); }
            2 => { h[i].prev = r.usize(0, n - 1); }
            3 => { h[i].prev_alt = r.usize(0, n - 1); }
            4 => { let x = h[i].next; h[i].next = h[i].next_alt; h[i].next_alt = x; }
            5 => { h[i].link = r.usize(0, adj.len() - 1); }
            6 => { h[i].ty = (h[i].ty + r.usize(1, 2) as u8) % 3; }
            7 => { h[i].ts += *r.pick(&[-64.0, -1.0, 1.0, 64.0, 1e-3, -1e-3]); }
            8 => { h[i].ttn += *r.pick(&[-64.0, -1.0, 1.0, 64.0]); }
            9 => { h[i].ts = *r.pick(&[f64::NAN, f64::INFINITY, -1.0]); }
            10 => { if r.chance(0.5) { let o0 = origs[0]; origs.retain(|&o| o != o0); origs.push(0); } else { let d0 = dests[0]; dests.retain(|&d| d != d0); dests.push(0); } }
            11 => { let l = r.usize(0, adj.len() - 1); if r.chance(0.5) { adj[l].0 = 0; } else { adj[l] = (adj[l].1, adj[l].0); } }
            12 => { // drop a clear / arrive node out of its chain (only for plain chain nodes)
                let x = h[i];
                if x.ty != 2 && x.next_alt == 0 && x.prev_alt == 0 && x.prev != 0 && x.next != 0 && h[x.prev].next == i && h[x.next].prev == i {
                    h[x.prev].next = x.next; h[x.next].prev = x.prev; h[i].ty = 2;
                    // the node stays in the vector as an unreachable fake: links clause must reject
                }
            }
            _ => { // swap the events of two nodes
                let j = r.usize(0, n - 1);
                let (l, t) = (h[i].link, h[i].ty); h[i].link = h[j].link; h[i].ty = h[j].ty; h[j].link = l; h[j].ty = t;
            }
        }
        let cm = Case { adj: &adj, origs: &origs, dests: &dests };
        let (_, v) = check_op(ctx, &cm, &h);
        let all = v.links && v.walks && v.route && v.fin && v.nonneg && v.tight && v.alt;
        ctx.count(if all { "est.mutant.accepted" } else { "est.mutant.rejected" });
        ctx.count(&format!("est.mutant.kind{}.{}", kind, if all { "accepted" } else { "rejected" }));
    }
}

/// the same topology with re-drawn durations: exercises relinking decisions and ties
fn redraw(r: &mut Rng, pre: &[Nd]) -> (Vec<Nd>, f64) {
    let mut h = pre.to_vec();
    let n = h.len();
    let mode = r.usize(0, 3);
    for i in 0..n {
        let x = h[i];
        // the zero durations of the construction stay zero: the two start nodes, join fakes (the node they lead
        // to lists them as idx_prev_alt), the end chain and the end node
        let structural_zero = i <= 1 || x.next == 0 || (x.ty == 2 && (x.next == n - 1 || pre[x.next].prev_alt == i));
        if structural_zero { continue; }
        h[i].ttn = match mode {
            0 => r.range(0, 6) as f64 * 16.0,          // many ties, zeros
            1 => r.range(1, 4000) as f64 * 0.125,      // dyadic, exact sums
            2 => r.f64_in(0.0, 500.0),                 // arbitrary doubles
            _ => r.range(0, 3) as f64,                 // tiny integers: ties everywhere
        };
    }
    let depart = *r.pick(&[0.0, 0.0, 60.0, 1024.0, 3599.5]);
    (h, depart)
}

// ------------------------------------------------------------------------------------------------ source pin

/// `get_running_time_hours` is compiled only with pyo3; its body is pinned textually (regenerated every run)
fn running_time_source_ok() -> (bool, String) {
    let p = "/repo/rust/altrios-core/src/meet_pass/est_times/mod.rs";
    let src = match std::fs::read_to_string(p) { Ok(s) => s, Err(e) => return (false, format!("cannot read {}: {}", p, e)) };
    let pos = match src.find("pub fn get_running_time_hours") { Some(p) => p, None => return (false, "get_running_time_hours not found".into()) };
    let rest = &src[pos..];
    let open = rest.find('{').unwrap_or(0);
    let mut depth = 0i32;
    let mut end = rest.len();
    for (k, ch) in rest.char_indices().skip(open) {
        if ch == '{' { depth += 1; }
        if ch == '}' { depth -= 1; if depth == 0 { end = k; break; } }
    }
    let body: String = rest[open + 1..end].chars().filter(|c| !c.is_whitespace()).collect();
    let want = "(self.val.last().unwrap().time_sched-self.val.first().unwrap().time_sched).get::<si::hour>()";
    (body == want, format!("body of get_running_time_hours is `{}`", body))
}

// ------------------------------------------------------------------------------------------------ scenarios

struct Scen { en: EstNet, east: bool, origs: Vec<Location>, dests: Vec<Location>, depart: f64, train: SpeedLimitTrainSim, desc: serde_json::Value, short: bool }

/// length of the shortest link route from an origin to (and including) the first destination link reached
fn min_route_len(net: &[Link], origs: &[usize], dests: &[usize]) -> f64 {
    fn rec(net: &[Link], l: usize, dests: &[usize], acc: f64, depth: usize, best: &mut f64) {
        if l == 0 || l >= net.len() || depth > net.len() { return; }
        let acc = acc + net[l].length.value;
        if dests.contains(&l) { if acc < *best { *best = acc; } return; }
        rec(net, net[l].idx_next.idx(), dests, acc, depth + 1, best);
        rec(net, net[l].idx_next_alt.idx(), dests, acc, depth + 1, best);
    }
    let mut best = f64::INFINITY;
    for &o in origs { rec(net, o, dests, 0.0, 0, &mut best); }
    best
}

fn gen_scen(r: &mut Rng, big: bool) -> Scen {
    let n_main = r.usize(2, if big { 8 } else { 5 });
    let max_sid = if big { 4 } else { 3 };
    let mut siding_at = vec![];
    let mut k = 0;
    let p_sid = *r.pick(&[0.0, 0.4, 0.7, 1.0]);
    while k < n_main && siding_at.len() < max_sid {
        if r.chance(p_sid) { siding_at.push((k, r.usize(1, 2))); k += 2; } else { k += 1; }
    }
    let equal = r.chance(0.15);
    let short_links = r.chance(0.1);
    let en = gen_est_net(r, n_main, &siding_at, equal, short_links);
    let east = r.chance(0.5);
    let mains: Vec<u32> = if east { en.main_fwd.clone() } else { en.main_rev.iter().rev().cloned().collect() };
    // sidings in travel order: (position along `mains`, links in travel order)
    let sid: Vec<(usize, Vec<u32>)> = en.sidings.iter().map(|s| if east { (s.0, s.1.clone()) } else { (n_main - 1 - s.0, s.2.clone()) }).collect();
    let ko = if n_main > 3 && r.chance(0.15) { 1 } else { 0 };
    let kd = if n_main - ko > 3 && r.chance(0.15) { n_main - 2 } else { n_main - 1 };
    let mut origs = vec![location("O", mains[ko])];
    let mut dests = vec![location("D", mains[kd])];
    for s in &sid {
        if s.0 == ko && r.chance(0.8) { origs.push(location("O2", s.1[0])); }
        if s.0 == kd && r.chance(0.8) { dests.push(location("D2", *s.1.last().unwrap())); }
    }
    // an origin from which no destination can be reached, a destination that cannot be reached (both are dropped / harmless)
    if r.chance(0.15) { let other = if east { en.main_rev[0] } else { en.main_fwd[0] }; origs.push(location("Ox", other)); }
    if r.chance(0.1) && kd + 1 < n_main { dests.push(location("Dx", mains[n_main - 1])); }
    if r.chance(0.3) { origs.reverse(); }
    if r.chance(0.3) { dests.reverse(); }
    let depart = if r.chance(0.35) { 0.0 } else { r.range(0, 40) as f64 * 60.0 };
    let train = gen_train(r, "T", origs.clone(), dests.clone(), depart);
    let oi: Vec<usize> = origs.iter().map(|o| o.link_idx.idx()).collect();
    let di: Vec<usize> = dests.iter().map(|o| o.link_idx.idx()).collect();
    let min_len = min_route_len(&en.net, &oi, &di);
    let short = min_len <= train.state.length.value + 5.0 * 1609.344;
    let desc = json!({"n_main": n_main, "sidings": siding_at, "equal_sidings": equal, "east": east, "depart_s": depart,
        "origs": oi, "dests": di, "train_length_m": train.state.length.value, "shortest_route_m": min_len,
        "links": en.net.iter().map(|l| json!([l.idx_curr.idx(), l.idx_next.idx(), l.idx_next_alt.idx(), l.idx_prev.idx(), l.idx_prev_alt.idx(), l.length.value])).collect::<Vec<_>>()});
    Scen { en, east, origs, dests, depart, train, desc, short }
}

/// corpus: past failures (replays of the repaired defects) as `{network, speed_limit_train_sim}` JSON files in
/// /verif/corpus/C15; they run first, independent of the seed
fn corpus_scens() -> Vec<(String, Scen)> {
    let mut out = vec![];
    let dir = "/verif/corpus/C15";
    let mut names: Vec<String> = match std::fs::read_dir(dir) {
        Ok(d) => d.filter_map(|e| e.ok()).filter_map(|e| e.file_name().into_string().ok()).filter(|n| n.ends_with(".json")).collect(),
        Err(_) => vec![],
    };
    names.sort();
    for n in names {
        let txt = match std::fs::read_to_string(format!("{}/{}", dir, n)) { Ok(t) => t, Err(_) => continue };
        let j: serde_json::Value = match serde_json::from_str(&txt) { Ok(j) => j, Err(_) => continue };
        let inp = if j.get("input").is_some() { j["input"].clone() } else { j.clone() };
        let net: Vec<Link> = match serde_json::from_value(inp["network"].clone()) { Ok(n) => n, Err(_) => continue };
        let train = match guard(|| SpeedLimitTrainSim::from_json(&inp["speed_limit_train_sim"].to_string())) { Some(Ok(t)) => t, _ => continue };
        let oi: Vec<usize> = train.origs.iter().map(|o| o.link_idx.idx()).collect();
        let di: Vec<usize> = train.dests.iter().map(|o| o.link_idx.idx()).collect();
        let min_len = min_route_len(&net, &oi, &di);
        let short = min_len <= train.state.length.value + 5.0 * 1609.344;
        let desc = json!({"corpus_file": n, "origs": oi, "dests": di, "depart_s": train.state.time.value, "train_length_m": train.state.length.value, "shortest_route_m": min_len});
        let sc = Scen { en: EstNet { net, main_fwd: vec![], main_rev: vec![], sidings: vec![] }, east: true, origs: train.origs.clone(), dests: train.dests.clone(),
            depart: train.state.time.value, train, desc, short };
        out.push((n, sc));
    }
    out
}

/// the shipped Taconite network with the crate's own example trains (about a thousand links, dozens of passing sidings,
/// two origin and two destination links per train)
fn taconite_scen(east: bool, depart: f64) -> Option<Scen> {
    use altrios_core::train::{speed_limit_train_sim_fwd, speed_limit_train_sim_rev};
    static NET: std::sync::OnceLock<Option<Vec<Link>>> = std::sync::OnceLock::new();
    let net = NET.get_or_init(|| {
        let p = format!("{}/python/altrios/resources/networks/Taconite.yaml", std::env::var("VERIF_REPO").unwrap_or_else(|_| "/repo".into()));
        guard(|| Network::from_file(p).ok().map(|n| n.0)).flatten()
    }).as_ref()?;
    let mut train = if east { speed_limit_train_sim_fwd() } else { speed_limit_train_sim_rev() };
    train.state.time = uc::S * depart;
    let oi: Vec<usize> = train.origs.iter().map(|o| o.link_idx.idx()).collect();
    let di: Vec<usize> = train.dests.iter().map(|o| o.link_idx.idx()).collect();
    let desc = json!({"network": "python/altrios/resources/networks/Taconite.yaml as shipped in the tree under test", "train": if east { "speed_limit_train_sim_fwd()" } else { "speed_limit_train_sim_rev()" },
        "origs": oi, "dests": di, "depart_s": depart, "train_length_m": train.state.length.value});
    Some(Scen { en: EstNet { net: net.clone(), main_fwd: vec![], main_rev: vec![], sidings: vec![] }, east, origs: train.origs.clone(), dests: train.dests.clone(), depart, train, desc, short: false })
}

fn scenario(ctx: &mut Ctx, r: &mut Rng, big: bool, n_redraw: usize, n_mut: usize) {
    let sc = gen_scen(r, big);
    run_scen(ctx, r, sc, n_redraw, n_mut);
}

fn run_scen(ctx: &mut Ctx, r: &mut Rng, sc: Scen, n_redraw: usize, n_mut: usize) {
    if let Err(e) = sc.en.net.validate() {
        ctx.count("est.net_invalid");
        ctx.sample("est.net_invalid", json!(format!("{:?}", e).chars().take(300).collect::<String>()));
        return;
    }
    ctx.count(&format!("est.scen.sidings.{}", sc.en.sidings.len()));
    ctx.count(&format!("est.scen.n_origs.{}", sc.origs.len()));
    ctx.count(&format!("est.scen.n_dests.{}", sc.dests.len()));
    ctx.count(if sc.east { "est.scen.eastbound" } else { "est.scen.westbound" });
    ctx.count(if sc.depart == 0.0 { "est.scen.depart_zero" } else { "est.scen.depart_later" });
    ctx.count(if sc.short { "est.scen.short_route" } else { "est.scen.long_route" });
    let pre: Rc<RefCell<Option<(Vec<EstTime>, f64)>>> = Rc::new(RefCell::new(None));
    let p2 = pre.clone();
    verif_hooks::set_pre_pass_observer(Some(Box::new(move |v, t| { *p2.borrow_mut() = Some((v.to_vec(), t.value)); })));
    let res = guard(|| make_est_times(sc.train.clone(), &sc.en.net));
    verif_hooks::set_pre_pass_observer(None);
    let full = || json!({"kind": "scenario", "scenario": sc.desc, "network": serde_json::to_value(&sc.en.net).unwrap_or_default(),
        "speed_limit_train_sim": serde_json::to_value(&sc.train).unwrap_or_default(),
        "how": "make_est_times(speed_limit_train_sim, network); the property's clauses are checked on the returned EstTimeNet.val"});
    let et = match res {
        Some(Ok((et, _))) => et,
        Some(Err(e)) => {
            ctx.count(if sc.short { "est.construction_err.short_route" } else { "est.construction_err.other" });
            ctx.sample("est.construction_err", json!({"err": format!("{:?}", e).chars().take(300).collect::<String>(), "scenario": sc.desc}));
            return;
        }
        None => {
            // construction aborted: outside the quantifier ("for which construction succeeds"), recorded
            ctx.count(if sc.short { "est.construction_panic.short_route" } else { "est.construction_panic.other" });
            if !sc.short {
                // not a clause of C15 (which speaks of successful constructions), but never seen on the repaired tree:
                // an abort of the construction or of its passes on a valid long route is reported
                ctx.checked("C15", "construction_panic");
                ctx.fail("C15", "construction_panic", "scenario", format!("make_est_times panicked on a valid network with a route long enough for the train to run: {}", last_panic()), full());
            }
            ctx.sample("est.construction_panic", json!({"panic": last_panic(), "scenario": sc.desc}));
            return;
        }
    };
    ctx.count("est.construction_ok");
    let fin = nds(&et.val);
    ctx.count_n("est.nodes", fin.len() as u64);
    let adj = adj_of(&sc.en.net);
    let origs: Vec<usize> = sc.origs.iter().map(|o| o.link_idx.idx()).collect();
    let dests: Vec<usize> = sc.dests.iter().map(|o| o.link_idx.idx()).collect();
    let c = Case { adj: &adj, origs: &origs, dests: &dests };
    let n_split = fin.iter().filter(|x| x.next_alt != 0).count();
    let n_join = fin.iter().filter(|x| x.prev_alt != 0).count();
    ctx.count(&format!("est.graph.splits.{}", n_split.min(6)));
    ctx.count(&format!("est.graph.joins.{}", n_join.min(6)));
    if n_split > 0 { ctx.count("est.graph.with_alternatives"); } else { ctx.count("est.graph.single_route"); }

    // the property's clauses on the real output
    let fin_in = || { let mut j = full(); j["nodes"] = nds_json(&fin); j };
    let v = oracle_final(ctx, &c, &fin, sc.short, &fin_in);
    ctx.sample("est.graph", json!({"scenario": sc.desc, "n_nodes": fin.len(), "walks": v.n_walks, "verdict": v.bits()}));
    let stopped_on = { // links still under the train at the end (not cleared)
        let arr = fin.iter().filter(|x| x.ty == 0).count(); let clr = fin.iter().filter(|x| x.ty == 1).count(); arr.saturating_sub(clr) };
    ctx.count(if stopped_on > 0 { "est.graph.some_link_never_cleared" } else { "est.graph.all_links_cleared" });

    // the passes, driven by hand from the observed pre-pass vector, reproduce the real result
    let (pre_v, depart) = match pre.borrow().clone() { Some(p) => p, None => { ctx.fail("C15", "hook", "scenario", "pre-pass observer was not called".into(), full()); return; } };
    let pre_n = nds(&pre_v);
    let pin = || { let mut j = full(); j["pre_pass_nodes"] = nds_json(&pre_n); j["time_depart"] = json!(depart); j };
    if let Some((_mid, post)) = drive_passes(ctx, true, &pre_n, depart, &pin) {
        ctx.checked("C15", "manual_passes_equal_real");
        if !same_nds(&post, &fin) {
            ctx.fail("C15", "manual_passes_equal_real", "scenario", "update_times_forward/backward through the hook wrappers differ from make_est_times's own result".into(), pin());
        }
    }
    // same topology, re-drawn durations: many more relinking decisions (ties, zeros, arbitrary doubles) for the
    // correspondence of the passes.  These graphs are not outputs of make_est_times, so they are outside the
    // property's quantifier; but the passes claim to be shortest-path passes for any durations, and (after
    // C15-fix-1..3) they are on every such graph: a violation is reported under its own clause names.
    for _ in 0..n_redraw {
        let (h, dep) = redraw(r, &pre_n);
        let rin = || json!({"kind": "passes_redrawn", "pre_pass_nodes": nds_json(&h), "time_depart": dep,
            "how": "verif_update_times_forward(nodes, time_depart) then verif_update_times_backward(nodes); node = [time_sched, time_to_next, dist_to_next, speed, idx_next, idx_next_alt, idx_prev, idx_prev_alt, link_idx, est_type 0 arrive 1 clear 2 fake]"});
        if let Some((_m, post)) = drive_passes(ctx, false, &h, dep, &rin) {
            let (id, vr) = check_op(ctx, &c, &post);
            for cl in ["links_mutual", "walks_reach_end", "next_links_tight", "alt_not_later", "durations_nonneg", "times_finite"] {
                ctx.checked("C15", &format!("redrawn.{}", cl));
            }
            for (cl, d) in &vr.detail {
                if ["links_mutual", "walks_reach_end", "next_links_tight", "alt_not_later", "durations_nonneg", "times_finite"].contains(&cl.as_str()) {
                    ctx.fail("C15", &format!("redrawn.{}", cl), &id, d.clone(), rin());
                }
            }
            // relinking must not change which event sequences the walks see
            ctx.checked("C15", "redrawn.route_verdict_kept");
            if vr.links && vr.walks && vr.route != v.route {
                ctx.fail("C15", "redrawn.route_verdict_kept", &id, format!("route clause {} on the real graph but {} after the passes with re-drawn durations", v.route, vr.route), rin());
            }
            ctx.count(if vr.nonneg { "est.redrawn.times_nonneg" } else { "est.redrawn.some_time_negative" });
        }
    }
    mutants(ctx, r, &c, &fin, n_mut);
}

pub fn run(ctx: &mut Ctx, r: &mut Rng, tier: &str) {
    ctx.checked("C15", "running_time_source");
    let (ok, what) = running_time_source_ok();
    if !ok {
        ctx.fail("C15", "running_time_source", "source", format!("get_running_time_hours no longer returns last minus first scheduled time in hours: {}", what), json!({"file": "rust/altrios-core/src/meet_pass/est_times/mod.rs"}));
    }
    let (n, n_redraw, n_mut) = if tier == "thorough" { (3000, 8, 8) } else { (500, 6, 6) };
    for (name, sc) in corpus_scens() {
        ctx.count("est.corpus_cases");
        ctx.sample("est.corpus", json!(name));
        let mut rr = Rng::new(0xC15);
        run_scen(ctx, &mut rr, sc, n_redraw, n_mut);
    }
    for i in 0..n {
        let mut rr = r.fork();
        scenario(ctx, &mut rr, tier == "thorough" && i % 3 == 0, n_redraw, n_mut);
    }
    for k in 0..(if tier == "thorough" { 6 } else { 2 }) {
        let mut rr = r.fork();
        let depart = if k < 2 { 0.0 } else { rr.range(1, 6) as f64 * 1800.0 };
        match taconite_scen(k % 2 == 0, depart) {
            Some(sc) => { ctx.count("est.scen.taconite"); run_scen(ctx, &mut rr, sc, 2, 2); }
            None => ctx.count("est.scen.taconite_unavailable"),
        }
    }
}
