//! Block `est`: estimated-time network (C15) — PROBE VERSION (work in progress).
use crate::dispgen::{gen_train, location};
use crate::netgen::*;
use crate::prng::Rng;
use crate::proto::*;
use altrios_core::meet_pass::disp_structs::*;
use altrios_core::meet_pass::est_times::{verif_hooks, EstTime};
use altrios_core::prelude::*;
use altrios_core::track::*;
use altrios_core::validate::*;
use serde_json::json;
use std::cell::RefCell;
use std::rc::Rc;

#[derive(Clone, Debug)]
pub struct EstNet {
    pub net: Vec<Link>,
    pub main_fwd: Vec<u32>,
    pub main_rev: Vec<u32>,
    /// (main segment index, forward siding links in travel order, reverse siding links in travel order)
    pub sidings: Vec<(usize, Vec<u32>, Vec<u32>)>,
}

fn flat_link(idx: u32, len: f64, speed: f64, e0: f64, e1: f64) -> Link {
    Link {
        idx_curr: LinkIdx::new(idx),
        length: m(len),
        elevs: vec![Elev { offset: m(0.0), elev: m(e0) }, Elev { offset: m(len), elev: m(e1) }],
        headings: vec![],
        speed_set: Some(SpeedSet {
            speed_limits: vec![SpeedLimit { offset_start: m(0.0), offset_end: m(len), speed: mps(speed) }],
            speed_params: vec![],
            is_head_end: false,
        }),
        ..Default::default()
    }
}

/// single track of `n_main` segments with sidings parallel to the segments in `siding_at` (any segment,
/// also the first and the last: those serve as alternative origins / destinations; never two adjacent
/// ones); a siding is one link or two links in series; every link has a flipped twin.
pub fn gen_est_net(r: &mut Rng, n_main: usize, siding_at: &[(usize, usize)]) -> EstNet {
    let n = n_main as u32;
    let mut next_idx = 2 * n + 1;
    let fm = |k: usize| (k as u32) + 1;
    let rm = |k: usize| n + (k as u32) + 1;
    let total: usize = 2 * n_main + 2 * siding_at.iter().map(|s| s.1).sum::<usize>() + 1;
    let mut net: Vec<Link> = vec![Link::default(); total];
    let lens: Vec<f64> = (0..n_main).map(|_| r.range(8, 28) as f64 * 250.0).collect();
    let speeds: Vec<f64> = (0..n_main).map(|_| *r.pick(&[15.0, 20.0, 25.0])).collect();
    for k in 0..n_main {
        let g = r.range(-4, 4) as f64 / 1024.0;
        let mut l = flat_link(fm(k), lens[k], speeds[k], 100.0, 100.0 + g * lens[k]);
        l.idx_prev = LinkIdx::new(if k > 0 { fm(k - 1) } else { 0 });
        l.idx_next = LinkIdx::new(if k + 1 < n_main { fm(k + 1) } else { 0 });
        l.idx_flip = LinkIdx::new(rm(k));
        net[fm(k) as usize] = l;
        let mut f = flat_link(rm(k), lens[k], speeds[k], 100.0 + g * lens[k], 100.0);
        f.idx_next = LinkIdx::new(if k > 0 { rm(k - 1) } else { 0 });
        f.idx_prev = LinkIdx::new(if k + 1 < n_main { rm(k + 1) } else { 0 });
        f.idx_flip = LinkIdx::new(fm(k));
        net[rm(k) as usize] = f;
    }
    let mut sidings = vec![];
    for &(k, parts) in siding_at {
        let slen = lens[k] * *r.pick(&[1.0, 1.0, 1.25, 0.75]);
        let sspeed = *r.pick(&[10.0, 10.0, 15.0, 20.0]);
        let fw: Vec<u32> = (0..parts).map(|i| next_idx + i as u32).collect();
        let rv: Vec<u32> = (0..parts).map(|i| next_idx + (parts + i) as u32).collect();
        next_idx += 2 * parts as u32;
        let plen = slen / parts as f64;
        for i in 0..parts {
            // forward part i, reverse part (parts-1-i) is its flip
            let mut s = flat_link(fw[i], plen, sspeed, 100.0, 100.0);
            s.idx_prev = LinkIdx::new(if i > 0 { fw[i - 1] } else if k > 0 { fm(k - 1) } else { 0 });
            s.idx_next = LinkIdx::new(if i + 1 < parts { fw[i + 1] } else if k + 1 < n_main { fm(k + 1) } else { 0 });
            s.idx_flip = LinkIdx::new(rv[parts - 1 - i]);
            net[fw[i] as usize] = s;
            let mut t = flat_link(rv[i], plen, sspeed, 100.0, 100.0);
            t.idx_prev = LinkIdx::new(if i > 0 { rv[i - 1] } else if k + 1 < n_main { rm(k + 1) } else { 0 });
            t.idx_next = LinkIdx::new(if i + 1 < parts { rv[i + 1] } else if k > 0 { rm(k - 1) } else { 0 });
            t.idx_flip = LinkIdx::new(fw[parts - 1 - i]);
            net[rv[i] as usize] = t;
        }
        if k > 0 {
            net[fm(k - 1) as usize].idx_next_alt = LinkIdx::new(fw[0]);
            net[rm(k - 1) as usize].idx_prev_alt = LinkIdx::new(rv[parts - 1]);
        }
        if k + 1 < n_main {
            net[fm(k + 1) as usize].idx_prev_alt = LinkIdx::new(fw[parts - 1]);
            net[rm(k + 1) as usize].idx_next_alt = LinkIdx::new(rv[0]);
        }
        sidings.push((k, fw, rv));
    }
    EstNet { net, main_fwd: (0..n_main).map(fm).collect(), main_rev: (0..n_main).map(rm).collect(), sidings }
}

fn ty(t: EstType) -> &'static str {
    match t { EstType::Arrive => "A", EstType::Clear => "C", EstType::Fake => "F" }
}

fn dump(v: &[EstTime]) -> Vec<String> {
    v.iter().enumerate().map(|(i, e)| format!("{:3} {}{:<3} n={:<3} na={:<3} p={:<3} pa={:<3} ts={:10.3} ttn={:9.3} d={:9.1} v={:6.2}",
        i, ty(e.link_event.est_type), e.link_event.link_idx.idx(), e.idx_next, e.idx_next_alt, e.idx_prev, e.idx_prev_alt,
        e.time_sched.value, e.time_to_next.value, e.dist_to_next.value, e.speed.value)).collect()
}

pub fn run(ctx: &mut Ctx, r: &mut Rng, tier: &str) {
    let n = if tier == "thorough" { 40 } else { 8 };
    for ci in 0..n {
        let mut rr = r.fork();
        let n_main = rr.usize(2, 5);
        let mut siding_at = vec![];
        let mut k = 0;
        while k < n_main {
            if rr.chance(0.5) { siding_at.push((k, rr.usize(1, 2))); k += 2; } else { k += 1; }
        }
        let en = gen_est_net(&mut rr, n_main, &siding_at);
        if let Err(e) = en.net.validate() { ctx.count("est.net_invalid"); ctx.sample("est.net_invalid", json!(format!("{:?}", e).chars().take(300).collect::<String>())); continue; }
        let east = rr.chance(0.5);
        let (mains, sid): (&Vec<u32>, Vec<(usize, Vec<u32>)>) = if east { (&en.main_fwd, en.sidings.iter().map(|s| (s.0, s.1.clone())).collect()) } else { (&en.main_rev, en.sidings.iter().map(|s| (s.0, s.2.clone())).collect()) };
        let (ko, kd) = if east { (0, n_main - 1) } else { (n_main - 1, 0) };
        let mut origs = vec![location("O", mains[ko])];
        let mut dests = vec![location("D", mains[kd])];
        for s in &sid {
            if s.0 == ko { origs.push(location("O2", s.1[0])); }
            if s.0 == kd { dests.push(location("D2", *s.1.last().unwrap())); }
        }
        let depart = if rr.chance(0.3) { 0.0 } else { rr.range(0, 40) as f64 * 60.0 };
        let train = gen_train(&mut rr, "T", origs.clone(), dests.clone(), depart);
        let pre: Rc<RefCell<Option<(Vec<EstTime>, f64)>>> = Rc::new(RefCell::new(None));
        let p2 = pre.clone();
        verif_hooks::set_pre_pass_observer(Some(Box::new(move |v, t| { *p2.borrow_mut() = Some((v.to_vec(), t.value)); })));
        let t0 = std::time::Instant::now();
        let res = guard(|| make_est_times(train.clone(), &en.net));
        verif_hooks::set_pre_pass_observer(None);
        let dt = t0.elapsed().as_secs_f64();
        match res {
            Some(Ok((et, _))) => {
                ctx.count("est.ok");
                let pre = pre.borrow().clone().unwrap();
                ctx.sample("est.graph", json!({"case": ci, "secs": dt, "n_main": n_main, "sidings": siding_at, "east": east, "len": train.state.length.value,
                    "origs": origs.iter().map(|o| o.link_idx.idx()).collect::<Vec<_>>(), "dests": dests.iter().map(|o| o.link_idx.idx()).collect::<Vec<_>>(),
                    "links": en.net.iter().map(|l| (l.idx_curr.idx(), l.idx_next.idx(), l.idx_next_alt.idx(), l.length.value)).collect::<Vec<_>>(),
                    "depart": depart, "pre": dump(&pre.0), "post": dump(&et.val)}));
                eprintln!("case {} ok nodes={} secs={:.2}", ci, et.val.len(), dt);
            }
            Some(Err(e)) => { ctx.count("est.err"); ctx.sample("est.err", json!(format!("{:?}", e).chars().take(400).collect::<String>())); eprintln!("case {} err", ci); }
            None => { ctx.count("est.panic"); ctx.sample("est.panic", json!(last_panic())); eprintln!("case {} panic {}", ci, last_panic()); }
        }
    }
}
