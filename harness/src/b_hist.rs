//! Block `hist` (C19): histories and step counters through the whole object tree.
//!
//! Drives the REAL LocomotiveSimulation / ConsistSimulation / SetSpeedTrainSim /
//! SpeedLimitTrainSim (walk, walk_timed_path, manual step(), set_save_interval mid-run,
//! injected failing steps) and after every checkpoint dumps the real object tree: for every
//! node, in pre-order: path, `state.i`, `save_interval`, `history.len()`, the `i` column.
//! The op line describes the driver ops performed so far; the Lean driver replays them on the
//! tree shape that the scanner regenerated from the Rust sources and must print the same dump.
//! The oracle checks the clauses of C19 directly on the dumps (never through the model).
//!
//! Scripts also make the nested intervals NON-UNIFORM before a top-level `set_save_interval`: a component
//! is given its own interval through its pub `save_interval` field (`poke k v`), a nested locomotive /
//! the consist is reconfigured through its own setter (`setat k v`); `k` is the position of the object
//! among the dump lines that carry an interval.  Such a run is ALWAYS followed by a top-level set, half of
//! the time with the value the consist (or the top object) already holds: the top-level setter must reach
//! every nested object whatever it held before.
use crate::prng::Rng;
use crate::proto::*;
use altrios_core::consist::locomotive::locomotive_model::{DummyLoco, PowertrainType};
use altrios_core::consist::{PowerDistributionControlType, Proportional, RESGreedy};
use altrios_core::prelude::*;
use altrios_core::track::*;
use altrios_core::train::*;
use altrios_core::validate::*;
use altrios_core::{si, uc};
use serde_json::{json, Value};

const P: &str = "C19";

// ------------------------------------------------------------------ dump of the real object

#[derive(Clone, Debug, PartialEq)]
struct Node {
    path: String,
    i: Option<usize>,
    /// `None` = the struct has no save_interval field
    iv: Option<Option<usize>>,
    hist_i: Option<Vec<usize>>,
    /// `history.len()` as the API reports it (first column)
    hist_len: Option<usize>,
    /// time column where the state has one
    hist_time: Option<Vec<f64>>,
}

impl Node {
    fn tok(&self) -> String {
        format!(
            "{} {} {} {}",
            self.path,
            self.i.map(|x| x.to_string()).unwrap_or("-".into()),
            match &self.iv { None => "-".to_string(), Some(None) => "N".into(), Some(Some(n)) => format!("S {}", n) },
            match &self.hist_i { None => "-".to_string(), Some(v) => seq(v, |x| x.to_string()) }
        )
    }
}

fn dump_tok(nodes: &[Node]) -> String {
    let mut s = nodes.len().to_string();
    for n in nodes {
        s.push(' ');
        s.push_str(&n.tok());
    }
    s
}

/// a private `save_interval` read through the struct's own Serialize impl
fn jiv(j: &Value) -> Option<Option<usize>> {
    match j.get("save_interval") {
        None => panic!("harness: serialized object has no save_interval key"),
        Some(Value::Null) => Some(None),
        Some(v) => Some(Some(v.as_u64().expect("save_interval is not an integer") as usize)),
    }
}

macro_rules! comp_node {
    ($out:expr, $path:expr, $c:expr) => {
        $out.push(Node {
            path: $path,
            i: Some($c.state.i),
            iv: Some($c.save_interval),
            hist_i: Some($c.history.i.clone()),
            hist_len: Some($c.history.len()),
            hist_time: None,
        })
    };
}

fn dump_loco(out: &mut Vec<Node>, path: &str, l: &Locomotive, j: &Value) {
    out.push(Node { path: path.to_string(), i: Some(l.state.i), iv: jiv(j), hist_i: Some(l.history.i.clone()), hist_len: Some(l.history.len()), hist_time: None });
    let pt = format!("{}.loco_type#0", path);
    match &l.loco_type {
        PowertrainType::ConventionalLoco(c) => {
            let p = format!("{}.ConventionalLoco#0", pt);
            comp_node!(out, format!("{}.fc#0", p), c.fc);
            comp_node!(out, format!("{}.gen#1", p), c.gen);
            comp_node!(out, format!("{}.edrv#2", p), c.edrv);
        }
        PowertrainType::HybridLoco(h) => {
            let p = format!("{}.HybridLoco#0", pt);
            comp_node!(out, format!("{}.fc#0", p), h.fc);
            comp_node!(out, format!("{}.gen#1", p), h.gen);
            comp_node!(out, format!("{}.res#2", p), h.res);
            comp_node!(out, format!("{}.edrv#3", p), h.edrv);
        }
        PowertrainType::BatteryElectricLoco(b) => {
            let p = format!("{}.BatteryElectricLoco#0", pt);
            comp_node!(out, format!("{}.res#0", p), b.res);
            comp_node!(out, format!("{}.edrv#1", p), b.edrv);
        }
        PowertrainType::DummyLoco(_) => {}
    }
}

fn dump_consist(out: &mut Vec<Node>, path: &str, c: &Consist, j: &Value) {
    out.push(Node { path: path.to_string(), i: Some(c.state.i), iv: jiv(j), hist_i: Some(c.history.i.clone()), hist_len: Some(c.history.len()), hist_time: None });
    for (k, l) in c.loco_vec.iter().enumerate() {
        dump_loco(out, &format!("{}.loco_vec#{}", path, k), l, &j["loco_vec"][k]);
    }
}

fn times(v: &[si::Time]) -> Vec<f64> {
    v.iter().map(|t| t.value).collect()
}

enum Sim {
    Loco(LocomotiveSimulation),
    Consist(ConsistSimulation),
    SetSpeed(SetSpeedTrainSim),
    SpeedLimit(Box<SpeedLimitTrainSim>),
}

impl Sim {
    fn kind(&self) -> &'static str {
        match self { Sim::Loco(_) => "loco", Sim::Consist(_) => "consist", Sim::SetSpeed(_) => "setSpeed", Sim::SpeedLimit(_) => "speedLimit" }
    }
    fn dump(&self) -> Vec<Node> {
        let mut out = Vec::new();
        match self {
            Sim::Loco(s) => {
                let j = serde_json::to_value(&s.loco_unit).unwrap();
                out.push(Node { path: "LocomotiveSimulation".into(), i: Some(s.i), iv: None, hist_i: None, hist_len: None, hist_time: None });
                dump_loco(&mut out, "LocomotiveSimulation.loco_unit#0", &s.loco_unit, &j);
            }
            Sim::Consist(s) => {
                let j = serde_json::to_value(&s.loco_con).unwrap();
                out.push(Node { path: "ConsistSimulation".into(), i: Some(s.i), iv: None, hist_i: None, hist_len: None, hist_time: None });
                dump_consist(&mut out, "ConsistSimulation.loco_con#0", &s.loco_con, &j);
            }
            Sim::SetSpeed(s) => {
                let j = json!({"save_interval": serde_json::to_value(s).unwrap()["save_interval"], "loco_con": serde_json::to_value(&s.loco_con).unwrap()});
                out.push(Node { path: "SetSpeedTrainSim".into(), i: Some(s.state.i), iv: jiv(&j), hist_i: Some(s.history.i.clone()), hist_len: Some(s.history.len()), hist_time: Some(times(&s.history.time)) });
                dump_consist(&mut out, "SetSpeedTrainSim.loco_con#0", &s.loco_con, &j["loco_con"]);
            }
            Sim::SpeedLimit(s) => {
                let jc = serde_json::to_value(&s.loco_con).unwrap();
                out.push(Node { path: "SpeedLimitTrainSim".into(), i: Some(s.state.i), iv: Some(s.get_save_interval()), hist_i: Some(s.history.i.clone()), hist_len: Some(s.history.len()), hist_time: Some(times(&s.history.time)) });
                dump_consist(&mut out, "SpeedLimitTrainSim.loco_con#0", &s.loco_con, &jc);
                comp_node!(out, "SpeedLimitTrainSim.fric_brake#1".to_string(), s.fric_brake);
            }
        }
        out
    }
    fn top_i(&self) -> usize {
        match self { Sim::Loco(s) => s.i, Sim::Consist(s) => s.i, Sim::SetSpeed(s) => s.state.i, Sim::SpeedLimit(s) => s.state.i }
    }
    fn step(&mut self) -> Option<anyhow::Result<()>> {
        guard(|| match self { Sim::Loco(s) => s.step(), Sim::Consist(s) => s.step(), Sim::SetSpeed(s) => s.step(), Sim::SpeedLimit(s) => s.step() })
    }
    fn walk(&mut self) -> Option<anyhow::Result<()>> {
        guard(|| match self { Sim::Loco(s) => s.walk(), Sim::Consist(s) => s.walk(), Sim::SetSpeed(s) => s.walk(), Sim::SpeedLimit(s) => s.walk() })
    }
    fn set_iv(&mut self, v: Option<usize>) {
        match self { Sim::Loco(s) => s.set_save_interval(v), Sim::Consist(s) => s.set_save_interval(v), Sim::SetSpeed(s) => s.set_save_interval(v), Sim::SpeedLimit(s) => s.set_save_interval(v) }
    }
    fn consist_mut(&mut self) -> Option<&mut Consist> {
        match self { Sim::Loco(_) => None, Sim::Consist(s) => Some(&mut s.loco_con), Sim::SetSpeed(s) => Some(&mut s.loco_con), Sim::SpeedLimit(s) => Some(&mut s.loco_con) }
    }
    /// the locomotive a dump path goes through (`…loco_unit#0…` / `…loco_vec#j…`)
    fn loco_mut(&mut self, segs: &[&str]) -> Option<&mut Locomotive> {
        if segs.iter().any(|x| *x == "loco_unit#0") {
            return match self { Sim::Loco(s) => Some(&mut s.loco_unit), _ => None };
        }
        let j: usize = segs.iter().find_map(|x| x.strip_prefix("loco_vec#"))?.parse().ok()?;
        self.consist_mut()?.loco_vec.get_mut(j)
    }
    /// Write the interval of the NESTED object with dump path `path`, by-passing the top-level setter:
    /// `own_setter` = false: raw write of its pub `save_interval` field (components, friction brake);
    /// `own_setter` = true: the object's own `set_save_interval` (locomotive, consist).
    /// Returns false when the object offers no such access from outside.
    fn nested_write(&mut self, path: &str, v: Option<usize>, own_setter: bool) -> bool {
        let segs: Vec<&str> = path.split('.').collect();
        if segs.len() < 2 { return false; }
        let last = segs[segs.len() - 1].split('#').next().unwrap_or("");
        match (last, own_setter) {
            ("fric_brake", false) => match self { Sim::SpeedLimit(s) => { s.fric_brake.save_interval = v; true } _ => false },
            ("loco_con", true) => match self.consist_mut() { Some(c) => { c.set_save_interval(v); true } None => false },
            ("loco_vec", true) | ("loco_unit", true) => match self.loco_mut(&segs) { Some(l) => { l.set_save_interval(v); true } None => false },
            ("fc", false) | ("gen", false) | ("res", false) | ("edrv", false) => {
                let Some(l) = self.loco_mut(&segs) else { return false; };
                match (&mut l.loco_type, last) {
                    (PowertrainType::ConventionalLoco(c), "fc") => c.fc.save_interval = v,
                    (PowertrainType::ConventionalLoco(c), "gen") => c.gen.save_interval = v,
                    (PowertrainType::ConventionalLoco(c), "edrv") => c.edrv.save_interval = v,
                    (PowertrainType::HybridLoco(h), "fc") => h.fc.save_interval = v,
                    (PowertrainType::HybridLoco(h), "gen") => h.gen.save_interval = v,
                    (PowertrainType::HybridLoco(h), "res") => h.res.save_interval = v,
                    (PowertrainType::HybridLoco(h), "edrv") => h.edrv.save_interval = v,
                    (PowertrainType::BatteryElectricLoco(b), "res") => b.res.save_interval = v,
                    (PowertrainType::BatteryElectricLoco(b), "edrv") => b.edrv.save_interval = v,
                    _ => return false,
                }
                true
            }
            _ => false,
        }
    }
    /// number of steps the trace still allows (trace-driven kinds)
    fn steps_left(&self) -> Option<usize> {
        match self {
            Sim::Loco(s) => Some(s.power_trace.len().saturating_sub(s.i)),
            Sim::Consist(s) => Some(s.power_trace.len().saturating_sub(s.i)),
            Sim::SetSpeed(s) => Some(s.speed_trace.len().saturating_sub(s.state.i)),
            Sim::SpeedLimit(_) => None,
        }
    }
    /// make the NEXT step fail (over-limit power demand / negative trace speed / no braking force);
    /// returns a token to undo it
    fn inject(&mut self) -> f64 {
        match self {
            Sim::Loco(s) => { let i = s.i; let old = s.power_trace.pwr[i].value; s.power_trace.pwr[i] = uc::W * 1.0e12; old }
            Sim::Consist(s) => { let i = s.i; let old = s.power_trace.pwr[i].value; s.power_trace.pwr[i] = uc::W * 1.0e12; old }
            Sim::SetSpeed(s) => { let i = s.state.i; let old = s.speed_trace.speed[i].value; s.speed_trace.speed[i] = uc::MPS * -1.0; old }
            Sim::SpeedLimit(s) => { let old = s.fric_brake.force_max.value; s.fric_brake.force_max = uc::N * -1.0e12; old }
        }
    }
    fn repair(&mut self, old: f64) {
        match self {
            Sim::Loco(s) => { let i = s.i; s.power_trace.pwr[i] = uc::W * old; }
            Sim::Consist(s) => { let i = s.i; s.power_trace.pwr[i] = uc::W * old; }
            Sim::SetSpeed(s) => { let i = s.state.i; s.speed_trace.speed[i] = uc::MPS * old; }
            Sim::SpeedLimit(s) => { s.fric_brake.force_max = uc::N * old; }
        }
    }
    /// the private `HybridLoco.i` of every hybrid unit (read through serde), with the unit's state.i
    fn hybrid_counters(&self) -> Vec<(usize, usize)> {
        let locos: Vec<&Locomotive> = match self {
            Sim::Loco(s) => vec![&s.loco_unit],
            Sim::Consist(s) => s.loco_con.loco_vec.iter().collect(),
            Sim::SetSpeed(s) => s.loco_con.loco_vec.iter().collect(),
            Sim::SpeedLimit(s) => s.loco_con.loco_vec.iter().collect(),
        };
        locos.iter().filter_map(|l| match &l.loco_type {
            PowertrainType::HybridLoco(h) => {
                let j = serde_json::to_value(&**h).unwrap();
                Some((j["i"].as_u64().unwrap() as usize, l.state.i))
            }
            _ => None,
        }).collect()
    }
}

// ------------------------------------------------------------------ generators

const VARIANTS: [&str; 4] = ["ConventionalLoco", "HybridLoco", "BatteryElectricLoco", "DummyLoco"];

fn make_loco(v: &str) -> Locomotive {
    let mut l = match v {
        "ConventionalLoco" => Locomotive::default(),
        "BatteryElectricLoco" => Locomotive::default_battery_electric_loco(),
        "HybridLoco" => Locomotive::default_hybrid_electric_loco(),
        _ => { let mut l = Locomotive::default(); l.loco_type = PowertrainType::DummyLoco(DummyLoco {}); l }
    };
    // the model's initial shape has every interval `None`; `<Sim>::new` must then establish the real one
    l.set_save_interval(None);
    l
}

fn gen_variants(r: &mut Rng, kind: &str, nmax: usize) -> Vec<&'static str> {
    let pickv = |r: &mut Rng| -> &'static str {
        // hybrid and dummy units are rarer: most runs should get past the first step
        match r.below(10) { 0 => "HybridLoco", 1 => "DummyLoco", 2..=5 => "ConventionalLoco", _ => "BatteryElectricLoco" }
    };
    if kind == "loco" { return vec![match r.below(8) { 0 => "HybridLoco", 1 => "DummyLoco", 2..=4 => "ConventionalLoco", _ => "BatteryElectricLoco" }]; }
    let n = match r.below(10) { 0 => 0, 1 | 2 => 1, _ => r.usize(2, nmax) };
    (0..n).map(|_| pickv(r)).collect()
}

fn make_consist(r: &mut Rng, vs: &[&str]) -> Consist {
    let locos: Vec<Locomotive> = vs.iter().map(|v| make_loco(v)).collect();
    let pdct = if r.chance(0.5) { PowerDistributionControlType::Proportional(Proportional) } else { PowerDistributionControlType::RESGreedy(RESGreedy) };
    Consist::new(locos, None, pdct)
}

fn gen_interval(r: &mut Rng) -> Option<usize> {
    match r.below(12) { 0 | 1 => None, 2 | 3 | 4 => Some(1), 5 | 6 => Some(2), 7 | 8 => Some(3), 9 => Some(7), 10 => Some(r.usize(4, 12)), _ => Some(r.usize(13, 60)) }
}

fn power_trace(r: &mut Rng, len: usize, n_units: usize) -> PowerTrace {
    // gentle ramp well inside every unit's transient limits; a few idle / braking samples
    let per_unit = *r.pick(&[2.0e4, 1.0e5, 2.5e5]);
    let peak = per_unit * n_units.max(1) as f64;
    let t: Vec<f64> = (0..len).map(|k| k as f64).collect();
    let p: Vec<f64> = (0..len).map(|k| {
        let x = (k as f64 / 40.0).min(1.0) * peak;
        if r.chance(0.1) { 0.0 } else { x }
    }).collect();
    PowerTrace::new(t, p, vec![Some(true); len])
}

fn speed_trace(len: usize) -> SpeedTrace {
    let mut st = SpeedTrace::default();
    st.trim(None, Some(len)).unwrap();
    st
}

/// 3 copies of the crate's valid 10 km link in a line, and a timed path over them
fn timed_network() -> (Vec<Link>, Vec<LinkIdxTime>) {
    let mut net = vec![Link::default()];
    for k in 1..=3u32 {
        let mut l = Link::valid();
        l.idx_curr = LinkIdx::new(k);
        l.idx_prev = LinkIdx::new(if k > 1 { k - 1 } else { 0 });
        l.idx_next = LinkIdx::new(if k < 3 { k + 1 } else { 0 });
        net.push(l);
    }
    let tp: Vec<LinkIdxTime> = [(0.0, 1u32), (120.0, 2), (600.0, 3), (1200.0, 3)].iter()
        .map(|(t, k)| serde_json::from_value(json!({"time": t, "link_idx": serde_json::to_value(LinkIdx::new(*k)).unwrap()})).expect("LinkIdxTime from json"))
        .collect();
    (net, tp)
}

struct Case {
    kind: &'static str,
    vs: Vec<&'static str>,
    iv0: Option<usize>,
    sim: Sim,
    /// script of driver ops performed so far, as tokens
    ops: Vec<String>,
    /// every op so far is part of one fresh, uninterrupted walk from the constructor
    input: Value,
}

fn build(r: &mut Rng, kind: &'static str, vs: Vec<&'static str>, iv0: Option<usize>, len: usize) -> Case {
    let seed_note = json!({"kind": kind, "variants": vs, "save_interval": iv0, "trace_len": len});
    let sim = match kind {
        "loco" => Sim::Loco(LocomotiveSimulation::new(make_loco(vs[0]), power_trace(r, len, 1), iv0)),
        "consist" => { let c = make_consist(r, &vs); Sim::Consist(ConsistSimulation::new(c, power_trace(r, len, vs.len()), iv0)) }
        "setSpeed" => {
            let c = make_consist(r, &vs);
            Sim::SetSpeed(SetSpeedTrainSim::new(c, TrainState::valid(), speed_trace(len), TrainRes::valid(), PathTpc::valid(), iv0))
        }
        _ => {
            let c = make_consist(r, &vs);
            // `new` leaves the braking points empty; the crate's own `valid()` recipe is: valid path, then recalc.
            // extend_path(.., &[]) recalculates the braking points without changing the path.
            let mut s = SpeedLimitTrainSim::new("hist".into(), &[], &[], c, TrainState::valid(), TrainRes::valid(), PathTpc::valid(), FricBrake::default(), iv0, None, None);
            let _ = guard(|| s.extend_path(&Vec::<Link>::valid(), &[]));
            Sim::SpeedLimit(Box::new(s))
        }
    };
    Case { kind, vs, iv0, sim, ops: vec![], input: seed_note }
}

impl Case {
    fn args(&self) -> String {
        format!("{} {} {} {}", self.kind, seq(&self.vs, |v| v.to_string()), opt(&self.iv0, |n| n.to_string()), seq(&self.ops, |o| o.clone()))
    }
    fn replay(&self) -> Value {
        let mut j = self.input.clone();
        j["ops"] = json!(self.ops);
        j
    }
}

// ------------------------------------------------------------------ oracle

fn expected_rows(n: Option<usize>, k: usize) -> Vec<usize> {
    match n {
        None => vec![],
        Some(n) => {
            let mut v = vec![];
            if n == 1 { v.push(1); }
            for j in 1..=k { if j % n == 0 { v.push(j); } }
            v
        }
    }
}

struct Orc<'a> {
    ctx: &'a mut Ctx,
}
impl<'a> Orc<'a> {
    fn req(&mut self, clause: &str, ok: bool, case: &Case, detail: impl FnOnce() -> String) {
        self.ctx.checked(P, clause);
        if !ok {
            let d = detail();
            self.ctx.fail(P, clause, case.kind, d, case.replay());
        }
    }
}

/// clauses that must hold at every checkpoint of every script
fn oracle_alignment(ctx: &mut Ctx, case: &Case, nodes: &[Node]) {
    let mut o = Orc { ctx };
    // step counters of all nested objects are equal
    let is: Vec<(&str, usize)> = nodes.iter().filter_map(|n| n.i.map(|i| (n.path.as_str(), i))).collect();
    o.req("counters_equal", is.windows(2).all(|w| w[0].1 == w[1].1), case, || {
        let top = is[0].1;
        let bad = is.iter().find(|x| x.1 != top).unwrap();
        format!("step counters differ: {} has i={} but {} has i={}", is[0].0, top, bad.0, bad.1)
    });
    // every save_interval equals the top-level one (set through `new` / top-level set_save_interval)
    let ivs: Vec<(&str, Option<usize>)> = nodes.iter().filter_map(|n| n.iv.map(|v| (n.path.as_str(), v))).collect();
    o.req("interval_reaches_every_object", ivs.windows(2).all(|w| w[0].1 == w[1].1), case, || {
        let bad = ivs.iter().find(|x| x.1 != ivs[0].1).unwrap();
        format!("save_interval not propagated: {} has {:?} but {} has {:?}", ivs[0].0, ivs[0].1, bad.0, bad.1)
    });
    // every history has the same length and row k refers to the same step
    let hs: Vec<(&str, &Vec<usize>)> = nodes.iter().filter_map(|n| n.hist_i.as_ref().map(|h| (n.path.as_str(), h))).collect();
    if !hs.is_empty() {
        o.req("history_lengths_equal", hs.windows(2).all(|w| w[0].1.len() == w[1].1.len()), case, || {
            let bad = hs.iter().find(|x| x.1.len() != hs[0].1.len()).unwrap();
            format!("history lengths differ: {} has {} rows but {} has {}", hs[0].0, hs[0].1.len(), bad.0, bad.1.len())
        });
        o.req("history_rows_same_step", hs.windows(2).all(|w| w[0].1 == w[1].1), case, || {
            let bad = hs.iter().find(|x| x.1 != hs[0].1).unwrap();
            format!("row k of two histories refers to different steps: {} i-column {:?} vs {} i-column {:?}", hs[0].0, &hs[0].1[..hs[0].1.len().min(12)], bad.0, &bad.1[..bad.1.len().min(12)])
        });
    }
    // all columns of one history have the same length (HistoryVec::push pushes every field; len() reads the first)
    o.req("history_columns_consistent", nodes.iter().all(|n| match (&n.hist_i, n.hist_len, &n.hist_time) {
        (Some(h), Some(l), t) => h.len() == l && t.as_ref().map(|t| t.len() == l).unwrap_or(true),
        _ => true,
    }), case, || "history.len() differs from the length of its i/time column".into());
    // the rows are in step order and never refer to a step that has not been executed
    if let (Some((_, top)), Some((_, h))) = (is.first(), hs.first()) {
        o.req("history_rows_in_step_order", h.windows(2).all(|w| w[0] <= w[1]) && h.iter().all(|x| *x >= 1 && *x <= *top), case,
            || format!("i-column {:?} not non-decreasing within 1..={}", &h[..h.len().min(16)], top));
    }
}

/// a fresh uninterrupted walk from the constructor: k executed steps (then possibly an error)
fn oracle_fresh_walk(ctx: &mut Ctx, case: &Case, nodes: &[Node], k: usize, t0: f64) {
    let mut o = Orc { ctx };
    let want = expected_rows(case.iv0, k);
    let top_i = nodes[0].i.unwrap();
    o.req("counter_is_steps_plus_one", top_i == k + 1, case, || format!("top-level counter {} after {} executed steps", top_i, k));
    for n in nodes {
        if let Some(h) = &n.hist_i {
            match case.iv0 {
                None => o.req("disabled_saving_keeps_histories_empty", h.is_empty(), case, || format!("{}: {} rows with save_interval=None", n.path, h.len())),
                Some(iv) => {
                    o.req("row_count_formula", h.len() == want.len(), case, || format!("{}: {} rows after {} executed steps with interval {} (expected {} = [interval==1] + #multiples)", n.path, h.len(), k, iv, want.len()));
                    o.req("row_step_indices", *h == want, case, || format!("{}: i-column {:?}, expected {:?} (interval {}, {} steps)", n.path, &h[..h.len().min(16)], &want[..want.len().min(16)], iv, k));
                }
            }
        }
        // time column (train state only): the row saved after executed step j was taken at the end of step j
        if let (Some(h), Some(t)) = (&n.hist_i, &n.hist_time) {
            if h.len() == t.len() {
                let init_row = matches!(case.iv0, Some(1));
                let ok = h.iter().zip(t).enumerate().all(|(r, (i, t))| {
                    if init_row && r == 0 { *t == t0 } else { *t == t0 + *i as f64 }
                });
                o.req("row_time_matches_step", ok, case, || format!("{}: time column {:?} vs i-column {:?} (1 s steps from t0={})", n.path, &t[..t.len().min(12)], &h[..h.len().min(12)], t0));
            }
        }
    }
}

/// Second, shape-agnostic reading of the same clauses: walk the serialized simulation and take EVERY
/// object that has a `history` with an `i` column, wherever it sits — a component the typed dump above
/// does not know about (a new nested object) is still compared with all the others.
fn collect_generic(j: &Value, path: &str, out: &mut Vec<(String, Vec<u64>, Option<Value>, Option<u64>)>) {
    match j {
        Value::Object(m) => {
            if let Some(Value::Object(h)) = m.get("history") {
                if let Some(Value::Array(col)) = h.get("i") {
                    let col: Vec<u64> = col.iter().filter_map(|x| x.as_u64()).collect();
                    let iv = m.get("save_interval").cloned();
                    let si = m.get("state").and_then(|s| s.get("i")).and_then(|x| x.as_u64());
                    out.push((path.to_string(), col, iv, si));
                }
            }
            for (k, v) in m {
                if k == "history" || k == "path_tpc" || k == "train_res" || k == "power_trace" || k == "speed_trace" || k == "braking_points" { continue; }
                collect_generic(v, &format!("{}.{}", path, k), out);
            }
        }
        Value::Array(a) => {
            for (k, v) in a.iter().enumerate() { collect_generic(v, &format!("{}[{}]", path, k), out); }
        }
        _ => {}
    }
}

fn oracle_generic(ctx: &mut Ctx, case: &Case, typed: &[Node]) {
    let j = match &case.sim {
        Sim::Loco(s) => serde_json::to_value(&s.loco_unit).map(|v| json!({"loco_unit": v})),
        Sim::Consist(s) => serde_json::to_value(&s.loco_con).map(|v| json!({"loco_con": v})),
        Sim::SetSpeed(s) => serde_json::to_value(s),
        Sim::SpeedLimit(s) => serde_json::to_value(&**s),
    }.unwrap();
    let mut g = Vec::new();
    collect_generic(&j, "", &mut g);
    let mut o = Orc { ctx };
    let n_typed = typed.iter().filter(|n| n.hist_i.is_some()).count();
    o.req("every_history_bearing_object_is_known", g.len() == n_typed, case, || format!("the serialized object has {} objects with a history, the typed walk knows {}: {:?}", g.len(), n_typed, g.iter().map(|x| x.0.clone()).collect::<Vec<_>>()));
    if let Some(first) = g.first() {
        o.req("generic_history_rows_same_step", g.iter().all(|x| x.1 == first.1), case, || {
            let bad = g.iter().find(|x| x.1 != first.1).unwrap();
            format!("serialized histories differ: {} has {} rows, {} has {} rows", first.0, first.1.len(), bad.0, bad.1.len())
        });
        o.req("generic_interval_reaches_every_object", g.iter().all(|x| x.2 == first.2), case, || {
            let bad = g.iter().find(|x| x.2 != first.2).unwrap();
            format!("serialized save_interval differs: {} has {:?}, {} has {:?}", first.0, first.2, bad.0, bad.2)
        });
        let sis: Vec<u64> = g.iter().filter_map(|x| x.3).collect();
        o.req("generic_counters_equal", sis.windows(2).all(|w| w[0] == w[1]), case, || format!("serialized state.i values differ: {:?}", sis));
    }
}

// ------------------------------------------------------------------ scripts

fn emit(ctx: &mut Ctx, case: &Case, nodes: &[Node]) {
    ctx.op(P, "hist_run", &case.args(), &format!("ok {}", dump_tok(nodes)));
}

/// a panic inside solve_step (e.g. an assertion of the train physics) is not this property's business:
/// the case stops there; the message is kept in the distribution
fn note_panic(ctx: &mut Ctx, case: &Case) {
    let msg: String = last_panic().split_whitespace().collect::<Vec<_>>().join(" ").split(" LHS").next().unwrap_or("").chars().take(110).collect();
    ctx.count(&format!("hist.unexpected_panic: {}", msg));
    let mut j = case.replay();
    j["panic"] = json!(last_panic());
    ctx.sample("hist_unexpected_panic", j);
}

fn iv_tok(v: Option<usize>) -> String {
    opt(&v, |n| n.to_string())
}

/// perform one walk (plain or timed) and record it; returns (executed steps, ended with Err) or None on panic
fn do_walk(ctx: &mut Ctx, case: &mut Case, timed: Option<&(Vec<Link>, Vec<LinkIdxTime>)>) -> Option<(usize, bool)> {
    let i0 = case.sim.top_i();
    let res = match (timed, &mut case.sim) {
        (Some((net, tp)), Sim::SpeedLimit(s)) => guard(|| s.walk_timed_path(net, tp)),
        _ => case.sim.walk(),
    };
    let k = case.sim.top_i() - i0;
    match res {
        None => { ctx.count("hist.walk.panicked"); note_panic(ctx, case); None }
        Some(r) => {
            let failed = r.is_err();
            case.ops.push(format!("{} {} {}", if timed.is_some() { "walkt" } else { "walk" }, k, b(failed)));
            ctx.count(if failed { "hist.walk.ended_with_error" } else { "hist.walk.completed" });
            Some((k, failed))
        }
    }
}

/// fresh object, one walk to the end (or to the injected / natural error)
fn case_fresh_walk(ctx: &mut Ctx, r: &mut Rng, kind: &'static str, vs: Vec<&'static str>, iv0: Option<usize>, len: usize, fail_at: Option<usize>, timed: bool) {
    let mut case = build(r, kind, vs, iv0, len);
    let tnet = if timed && kind == "speedLimit" {
        // timed path: start from an EMPTY path, `walk_timed_path` extends it as it goes
        if let Sim::SpeedLimit(s) = &mut case.sim {
            let c = s.loco_con.clone();
            **s = SpeedLimitTrainSim::new("hist".into(), &[], &[], c, TrainState::valid(), TrainRes::valid(), PathTpc::new(TrainParams::valid()), FricBrake::default(), iv0, None, None);
        }
        Some(timed_network())
    } else { None };
    let mut planted: Option<f64> = None;
    if let Some(fa) = fail_at {
        // failing step planted INSIDE the trace before the walk starts (over-limit power / negative speed)
        match &mut case.sim {
            Sim::Loco(s) => { if fa < s.power_trace.len() { planted = Some(s.power_trace.pwr[fa].value); s.power_trace.pwr[fa] = uc::W * 1.0e12; } }
            Sim::Consist(s) => { if fa < s.power_trace.len() { planted = Some(s.power_trace.pwr[fa].value); s.power_trace.pwr[fa] = uc::W * 1.0e12; } }
            Sim::SetSpeed(s) => { if fa < s.speed_trace.len() { planted = Some(s.speed_trace.speed[fa].value); s.speed_trace.speed[fa] = uc::MPS * -1.0; } }
            Sim::SpeedLimit(s) => { s.fric_brake.force_max = uc::N * -1.0e12; }
        }
        case.input["fail_at_trace_index"] = json!(fa);
    }
    let t0 = match &case.sim { Sim::SetSpeed(s) => s.state.time.value, Sim::SpeedLimit(s) => s.state.time.value, _ => 0.0 };
    // the constructor alone
    let n0 = case.sim.dump();
    emit(ctx, &case, &n0);
    oracle_alignment(ctx, &case, &n0);
    {
        let mut o = Orc { ctx };
        o.req("fresh_object_has_empty_histories", n0.iter().all(|n| n.hist_i.as_ref().map(|h| h.is_empty()).unwrap_or(true) && n.i.map(|i| i == 1).unwrap_or(true)), &case, || "a freshly constructed simulation has rows or a counter != 1".into());
        let top = n0.iter().find_map(|n| n.iv).unwrap();
        o.req("constructor_sets_interval", top == iv0, &case, || format!("constructor was given {:?}, top-level object reports {:?}", iv0, top));
    }
    let Some((k, failed)) = do_walk(ctx, &mut case, tnet.as_ref()) else { return; };
    let n1 = case.sim.dump();
    emit(ctx, &case, &n1);
    oracle_alignment(ctx, &case, &n1);
    oracle_generic(ctx, &case, &n1);
    oracle_fresh_walk(ctx, &case, &n1, k, t0);
    ctx.count(&format!("hist.fresh.{}.{}", kind, if failed { "err" } else { "ok" }));
    ctx.count(&format!("hist.fresh.interval.{}", match iv0 { None => "none".to_string(), Some(1) => "1".into(), Some(n) if n <= 7 => n.to_string(), _ => "big".into() }));
    ctx.count(&format!("hist.fresh.steps.{}", match k { 0 => "0", 1..=3 => "1-3", 4..=15 => "4-15", 16..=99 => "16-99", _ => "100+" }));
    if let (Some(fa), true) = (fail_at, kind != "speedLimit") {
        // an injected failure at trace index fa stops the walk after fa-1 executed steps (unless the run died earlier / a dummy unit absorbed it)
        if failed && k + 1 == fa { ctx.count("hist.fresh.failed_exactly_at_injected_step"); }
    }
    for (hi, li) in case.sim.hybrid_counters() {
        ctx.count(if hi == li { "hist.hybrid_private_counter.equal" } else { "hist.hybrid_private_counter.differs" });
    }
    if k > 0 { ctx.sample(&format!("hist_fresh_{}", kind), case.replay()); }
    // the user repairs the input and resumes with a second walk() on the same object
    if let (Some(fa), Some(old), true) = (fail_at, planted, failed && case.sim.top_i() == fail_at.unwrap_or(0)) {
        match &mut case.sim {
            Sim::Loco(s) => s.power_trace.pwr[fa] = uc::W * old,
            Sim::Consist(s) => s.power_trace.pwr[fa] = uc::W * old,
            Sim::SetSpeed(s) => s.speed_trace.speed[fa] = uc::MPS * old,
            Sim::SpeedLimit(_) => {}
        }
        if do_walk(ctx, &mut case, None).is_some() {
            let n2 = case.sim.dump();
            emit(ctx, &case, &n2);
            oracle_alignment(ctx, &case, &n2);
            ctx.count("hist.fresh.resumed_after_error");
            let mut o = Orc { ctx };
            // rows written before the error are still there, in front
            let keep = n1.iter().zip(&n2).all(|(a, bb)| match (&a.hist_i, &bb.hist_i) { (Some(x), Some(y)) => y.len() >= x.len() && y[..x.len()] == x[..], _ => true });
            o.req("earlier_rows_intact_after_error", keep, &case, || "rows written before the failing step changed after resuming".into());
        }
    }
}

/// the nested objects whose interval can be written from outside, read off the dump itself:
/// (k = position among the dump lines that carry an interval — the index the model uses —, path, own setter?)
fn nested_targets(nodes: &[Node]) -> Vec<(usize, String, bool)> {
    let mut out = vec![];
    for (k, n) in nodes.iter().filter(|n| n.iv.is_some()).enumerate() {
        let last = n.path.rsplit('.').next().unwrap_or("").split('#').next().unwrap_or("");
        if !n.path.contains('.') { continue; } // the top-level object: that is what `set` is for
        match last {
            "fc" | "gen" | "res" | "edrv" | "fric_brake" => out.push((k, n.path.clone(), false)),
            "loco_con" | "loco_vec" | "loco_unit" => out.push((k, n.path.clone(), true)),
            other => panic!("harness: dump node {} ({}) carries an interval but the script generator does not know how to write it", n.path, other),
        }
    }
    out
}

/// top-level `set_save_interval(v)` with its oracles; returns the dump after it
fn do_top_set(ctx: &mut Ctx, case: &mut Case, prev: &[Node], v: Option<usize>) -> Vec<Node> {
    case.sim.set_iv(v);
    case.ops.push(format!("set {}", iv_tok(v)));
    ctx.count("hist.script.set_interval");
    let n = case.sim.dump();
    emit(ctx, case, &n);
    oracle_alignment(ctx, case, &n);
    let mut o = Orc { ctx };
    o.req("set_interval_changes_nothing_else", n.len() == prev.len() && n.iter().zip(prev).all(|(a, bb)| a.i == bb.i && a.hist_i == bb.hist_i), case, || "set_save_interval changed a counter or a history".into());
    o.req("set_interval_value_everywhere", n.iter().all(|x| x.iv.map(|w| w == v).unwrap_or(true)), case, || {
        let bad = n.iter().find(|x| x.iv.map(|w| w != v).unwrap_or(false)).unwrap();
        format!("after set_save_interval({:?}) at the top level {} still holds {:?}", v, bad.path, bad.iv.unwrap())
    });
    n
}

/// 1..3 writes to nested intervals (pub field of a component / own setter of a locomotive or of the
/// consist), each compared with the model, then ALWAYS — before any step — a top-level set: with
/// probability 1/2 with the value the consist (or the top object) holds at that moment, otherwise a fresh one
fn do_nested_writes_then_set(ctx: &mut Ctx, r: &mut Rng, case: &mut Case, prev: Vec<Node>) -> Vec<Node> {
    let mut prev = prev;
    let targets = nested_targets(&prev);
    let n_w = r.usize(1, 3);
    for _ in 0..n_w {
        if targets.is_empty() { break; }
        let (k, path, own) = targets[r.below(targets.len() as u64) as usize].clone();
        let cur = prev.iter().find(|x| x.path == path).and_then(|x| x.iv).unwrap();
        // a value the object does not hold already
        let mut w = gen_interval(r);
        for _ in 0..8 { if w != cur { break; } w = gen_interval(r); }
        if !case.sim.nested_write(&path, w, own) { panic!("harness: cannot write the interval of {}", path); }
        case.ops.push(format!("{} {} {}", if own { "setat" } else { "poke" }, k, iv_tok(w)));
        ctx.count("hist.script.poke");
        ctx.count(if own { "hist.script.nested_write.own_setter" } else { "hist.script.nested_write.pub_field" });
        ctx.count(&format!("hist.script.poke_kind.{}", case.kind));
        let n = case.sim.dump();
        emit(ctx, case, &n);
        // no alignment oracle here: the intervals are non-uniform on purpose
        let mut o = Orc { ctx };
        o.req("nested_write_changes_nothing_else", n.len() == prev.len() && n.iter().zip(&prev).all(|(a, bb)| a.path == bb.path && a.i == bb.i && a.hist_i == bb.hist_i), case, || "writing a nested save_interval changed a counter or a history".into());
        let inside = |p: &str| p == path || (p.starts_with(&path) && p[path.len()..].starts_with('.'));
        o.req("nested_write_stays_in_its_subtree", n.iter().zip(&prev).all(|(a, bb)| inside(&a.path) || a.iv == bb.iv), case, || format!("writing the interval of {} changed the interval of an object outside it", path));
        if own {
            o.req("nested_setter_reaches_its_subtree", n.iter().all(|x| !inside(&x.path) || x.iv.map(|y| y == w).unwrap_or(true)), case, || {
                let bad = n.iter().find(|x| inside(&x.path) && x.iv.map(|y| y != w).unwrap_or(false)).unwrap();
                format!("{}.set_save_interval({:?}) left {:?} in {}", path, w, bad.iv.unwrap(), bad.path)
            });
        } else {
            o.req("nested_field_write_took_effect", n.iter().find(|x| x.path == path).and_then(|x| x.iv) == Some(w), case, || format!("{} does not hold the written value", path));
        }
        if n.iter().filter_map(|x| x.iv).collect::<Vec<_>>().windows(2).any(|p| p[0] != p[1]) { ctx.count("hist.script.tree_non_uniform_before_set"); }
        prev = n;
    }
    // the top-level set
    let top_now = prev.iter().find_map(|x| x.iv).unwrap();
    let second_now = prev.iter().find(|x| { let l = x.path.rsplit('.').next().unwrap_or(""); l.starts_with("loco_con#") || l.starts_with("loco_unit#") }).and_then(|x| x.iv).unwrap_or(top_now);
    let v = if r.chance(0.5) {
        ctx.count("hist.script.set_same_as_current");
        if r.chance(0.75) { second_now } else { top_now }
    } else {
        gen_interval(r)
    };
    if prev.iter().any(|x| x.iv.map(|w| w != v).unwrap_or(false)) { ctx.count("hist.script.set_must_overwrite_a_different_nested_value"); }
    do_top_set(ctx, case, &prev, v)
}

/// manual stepping with checkpoints, interval changed mid-run (at the top level, and behind its back in
/// nested objects followed by a top-level set), injected failing steps, then a walk
fn case_script(ctx: &mut Ctx, r: &mut Rng, kind: &'static str, vs: Vec<&'static str>, iv0: Option<usize>, len: usize) {
    let mut case = build(r, kind, vs, iv0, len);
    let n_ops = r.usize(3, 10);
    let mut prev = case.sim.dump();
    emit(ctx, &case, &prev);
    oracle_alignment(ctx, &case, &prev);
    for _ in 0..n_ops {
        let left = case.sim.steps_left().unwrap_or(1000);
        let choice = r.below(12);
        if choice >= 10 {
            // nested intervals written behind the back of the top-level cascade, then a top-level set
            prev = do_nested_writes_then_set(ctx, r, &mut case, prev);
        } else if choice < 2 {
            // change the interval at the top level
            let v = gen_interval(r);
            prev = do_top_set(ctx, &mut case, &prev, v);
        } else if choice < 4 && left > 1 {
            // injected failing step, then repaired
            let old = case.sim.inject();
            let res = case.sim.step();
            case.sim.repair(old);
            match res {
                None => { ctx.count("hist.script.step_panicked"); note_panic(ctx, &case); return; }
                Some(Ok(())) => { case.ops.push("step".into()); ctx.count("hist.script.injected_failure_absorbed"); }
                Some(Err(_)) => { case.ops.push("fail".into()); ctx.count("hist.script.failing_step"); }
            }
            let failed = case.ops.last().unwrap() == "fail";
            let n = case.sim.dump();
            emit(ctx, &case, &n);
            oracle_alignment(ctx, &case, &n);
            if failed {
                let mut o = Orc { ctx };
                o.req("failing_step_saves_nothing", n == prev, &case, || "a step() that returned Err changed a counter, an interval or a history".into());
            }
            prev = n;
        } else if left > 1 {
            // one or several good steps
            let m = r.usize(1, 4).min(left - 1);
            for _ in 0..m {
                match case.sim.step() {
                    None => { ctx.count("hist.script.step_panicked"); note_panic(ctx, &case); return; }
                    Some(Ok(())) => { case.ops.push("step".into()); ctx.count("hist.script.step_ok"); }
                    Some(Err(_)) => { case.ops.push("fail".into()); ctx.count("hist.script.step_natural_error"); }
                }
            }
            let n = case.sim.dump();
            emit(ctx, &case, &n);
            oracle_alignment(ctx, &case, &n);
            prev = n;
        }
    }
    // finish with a walk over the rest (speed-limited: bounded by the path; skip when the budget is large)
    if kind != "speedLimit" || r.chance(0.3) {
        if do_walk(ctx, &mut case, None).is_some() {
            let n = case.sim.dump();
            emit(ctx, &case, &n);
            oracle_alignment(ctx, &case, &n);
        }
    }
    for (hi, li) in case.sim.hybrid_counters() {
        ctx.count(if hi == li { "hist.hybrid_private_counter.equal" } else { "hist.hybrid_private_counter.differs" });
    }
    let nf = case.sim.dump();
    oracle_generic(ctx, &case, &nf);
    ctx.count(&format!("hist.script.{}", kind));
    ctx.sample("hist_script", case.replay());
}

/// `save_interval = Some(0)`: `i % 0` — outside the property's "None, 1, n"; run and compare the outcome
fn case_zero(ctx: &mut Ctx, r: &mut Rng, kind: &'static str) {
    let vs: Vec<&'static str> = if kind == "loco" { vec!["ConventionalLoco"] } else { vec!["ConventionalLoco", "BatteryElectricLoco"] };
    let mut case = build(r, kind, vs, Some(0), 5);
    let res = case.sim.walk();
    case.ops.push("walk 0 F".into());
    let ans = match res { None => "panic".to_string(), Some(_) => format!("ok {}", dump_tok(&case.sim.dump())) };
    ctx.op(P, "hist_run", &case.args(), &ans);
    ctx.count(if res.is_none() { "hist.zero_interval.panics" } else { "hist.zero_interval.no_panic" });
}

/// objects assembled from `Default` parts WITHOUT the constructor: not in the property's statement
/// (they have no single save interval); recorded in the distribution only
fn observe_defaults(ctx: &mut Ctx) {
    let s = SetSpeedTrainSim::default();
    let j = serde_json::to_value(&s).unwrap();
    if j["save_interval"] != j["loco_con"]["save_interval"] { ctx.count("hist.observe.default_set_speed_sim_intervals_differ"); }
    if guard(|| s.get_save_interval()).is_none() { ctx.count("hist.observe.default_set_speed_sim_get_save_interval_panics"); }
    let l = Locomotive::default();
    let lj = serde_json::to_value(&l).unwrap();
    if let PowertrainType::ConventionalLoco(c) = &l.loco_type {
        if lj["save_interval"].as_u64().map(|x| x as usize) != c.fc.save_interval { ctx.count("hist.observe.default_locomotive_intervals_differ"); }
    }
    // struct literal instead of `new`: the locomotive records, its components do not
    let mut pt = PowerTrace::default();
    pt.trim(None, Some(6)).unwrap();
    let mut ls = LocomotiveSimulation { loco_unit: Locomotive::default(), power_trace: pt, i: 1 };
    if let Some(Ok(())) = guard(|| ls.walk()) {
        if let PowertrainType::ConventionalLoco(c) = &ls.loco_unit.loco_type {
            if ls.loco_unit.history.len() != c.fc.history.len() { ctx.count("hist.observe.struct_literal_sim_histories_differ"); }
        }
    }
}

fn case_sim_vec(ctx: &mut Ctx, r: &mut Rng) {
    let mut v = SpeedLimitTrainSimVec(vec![SpeedLimitTrainSim::valid(), SpeedLimitTrainSim::valid()]);
    let iv = gen_interval(r);
    v.set_save_interval(iv);
    ctx.op(P, "hist_vec", "", "ok 1");
    ctx.checked(P, "sim_vec_interval_reaches_every_object");
    for s in &v.0 {
        let n = Sim::SpeedLimit(Box::new(s.clone())).dump();
        if !n.iter().all(|x| x.iv.map(|w| w == iv).unwrap_or(true)) {
            ctx.fail(P, "sim_vec_interval_reaches_every_object", "sim_vec", format!("SpeedLimitTrainSimVec::set_save_interval({:?}) did not reach every nested object", iv), json!({"interval": iv}));
        }
    }
}

pub fn run(ctx: &mut Ctx, r: &mut Rng, tier: &str) {
    let thorough = tier == "thorough";
    const KINDS: [&str; 4] = ["loco", "consist", "setSpeed", "speedLimit"];
    // ---- corpus: every kind x every listed interval, one fresh full walk; every variant alone
    for kind in KINDS {
        for iv in [None, Some(1), Some(2), Some(3), Some(7)] {
            let vs: Vec<&'static str> = if kind == "loco" { vec!["ConventionalLoco"] } else { vec!["ConventionalLoco", "BatteryElectricLoco", "ConventionalLoco"] };
            let mut rr = r.fork();
            case_fresh_walk(ctx, &mut rr, kind, vs, iv, 23, None, false);
        }
        for v in VARIANTS {
            let mut rr = r.fork();
            case_fresh_walk(ctx, &mut rr, kind, vec![v], Some(2), 9, None, false);
        }
        let mut rr = r.fork();
        case_zero(ctx, &mut rr, kind);
    }
    // timed-path walks (speed-limited only)
    for iv in [None, Some(1), Some(3), Some(7)] {
        let mut rr = r.fork();
        case_fresh_walk(ctx, &mut rr, "speedLimit", vec!["ConventionalLoco", "ConventionalLoco", "BatteryElectricLoco"], iv, 0, None, true);
    }
    observe_defaults(ctx);
    let mut rr = r.fork();
    case_sim_vec(ctx, &mut rr);
    // ---- generated
    let n_cases = if thorough { 4000 } else { 320 };
    for c in 0..n_cases {
        let mut rr = r.fork();
        let kind = KINDS[c % 4];
        // full speed-limited walks are long (hundreds of steps x rows): fewer of them
        let nmax = if thorough { 8 } else { 5 };
        let vs = gen_variants(&mut rr, kind, nmax);
        let iv = gen_interval(&mut rr);
        let len = match rr.below(6) { 0 => 2, 1 => rr.usize(2, 5), 2 | 3 => rr.usize(5, 30), _ => rr.usize(30, if thorough { 200 } else { 80 }) };
        ctx.count(&format!("hist.consist_size.{}", match vs.len() { 0 => "0", 1 => "1", 2..=3 => "2-3", _ => "4+" }));
        for v in &vs { ctx.count(&format!("hist.variant.{}", v)); }
        match rr.below(10) {
            0..=3 => {
                if kind == "speedLimit" && !rr.chance(if thorough { 0.3 } else { 0.15 }) {
                    case_script(ctx, &mut rr, kind, vs, iv, len);
                } else {
                    let timed = kind == "speedLimit" && rr.chance(0.4);
                    case_fresh_walk(ctx, &mut rr, kind, vs, iv, len, None, timed);
                }
            }
            4..=5 => {
                let fa = rr.usize(1, len.max(2) - 1);
                if kind == "speedLimit" { case_script(ctx, &mut rr, kind, vs, iv, len); } else { case_fresh_walk(ctx, &mut rr, kind, vs, iv, len, Some(fa), false); }
            }
            _ => case_script(ctx, &mut rr, kind, vs, iv, len),
        }
    }
}
