//! Block `mass` (C20) — probe version
use crate::prng::Rng;
use crate::proto::*;
use altrios_core::consist::locomotive::locomotive_model::{ForceMaxSideEffect, MuSideEffect, PowertrainType};
use altrios_core::prelude::*;
use altrios_core::traits::{Mass, MassSideEffect, SerdeAPI};
use altrios_core::validate::Valid;
use altrios_core::{si, uc};
use serde_json::json;

pub fn run(_ctx: &mut Ctx, _r: &mut Rng, _tier: &str) {
    let fc = FuelConverter::default();
    let v = serde_json::to_value(&fc).unwrap();
    eprintln!("fc json len {}", v.to_string().len());
    eprintln!("fc keys {:?}", v.as_object().unwrap().keys().collect::<Vec<_>>());
    let res = ReversibleEnergyStorage::default();
    let v = serde_json::to_value(&res).unwrap();
    eprintln!("res json len {}", v.to_string().len());
    eprintln!("res keys {:?}", v.as_object().unwrap().keys().collect::<Vec<_>>());
    let l = Locomotive::default();
    let v = serde_json::to_value(&l).unwrap();
    eprintln!("loco json len {}", v.to_string().len());
    eprintln!("loco keys {:?}", v.as_object().unwrap().keys().collect::<Vec<_>>());
    eprintln!("loco_type keys {:?}", v["loco_type"].as_object().unwrap().keys().collect::<Vec<_>>());
    eprintln!("mass {:?} mu {:?} force {:?}", v["mass"], v["mu"], v["force_max"]);
    let mut v2 = v.clone();
    v2["mu"] = json!(0.3);
    v2["loco_type"] = json!({"DummyLoco": {}});
    let d: Result<Locomotive, _> = serde_json::from_value(v2);
    eprintln!("dummy from_value ok={}", d.is_ok());
    if let Ok(mut d) = d {
        eprintln!("dummy mass() = {:?}", d.mass().map_err(|e| e.to_string().len()));
        let r = d.set_mass(None, MassSideEffect::None);
        eprintln!("dummy set_mass(None) ok={}", r.is_ok());
    }
    // train
    let tc = TrainConfig::valid();
    let tp = tc.make_train_params();
    eprintln!("make_train_params ok={} towed={:?}", tp.is_ok(), tp.as_ref().map(|t| t.towed_mass_static.value).ok());
    let con = Consist::default();
    eprintln!("consist mass {:?} force {:?}", con.mass().map(|m| m.map(|x| x.value)).ok(), con.force_max().map(|x| x.value).ok());
    let tsb = TrainSimBuilder::new("t".into(), tc, con, None, None, None);
    let st = SpeedTrace::default();
    let r = guard(|| tsb.make_set_speed_train_sim_and_parts(Vec::<Link>::new(), Vec::<LinkIdx>::new(), st, None));
    match r {
        None => eprintln!("parts: panic"),
        Some(Err(e)) => eprintln!("parts: err {:#}", e),
        Some(Ok((sim, tp, _, _, _))) => eprintln!("parts ok: mass_static {} towed {}", sim.state.mass_static.value, tp.towed_mass_static.value),
    }

    eprintln!("g bits {:016x} eps bits {:016x}", uc::ACC_GRAV.value.to_bits(), 1e-8f64.to_bits());
    // load with inconsistent mu/mass/force
    {
        let mut v = serde_json::to_value(&Locomotive::default()).unwrap();
        v["mu"] = json!(0.3); v["mass"] = json!(100000.0); v["force_max"] = json!(1.0);
        let y = serde_yaml::to_string(&v).unwrap();
        let r = Locomotive::from_yaml(&y);
        eprintln!("load inconsistent force: ok={}", r.is_ok());
        if let Ok(l) = r { eprintln!("  force_max() ok={}", l.force_max().is_ok()); }
        let mut v = serde_json::to_value(&FuelConverter::default()).unwrap();
        v["mass"] = json!(1000.0); v["specific_pwr"] = json!(2.0);
        let y = serde_yaml::to_string(&v).unwrap();
        let r = FuelConverter::from_yaml(&y);
        eprintln!("load inconsistent fc: ok={}", r.is_ok());
        if let Ok(l) = r { eprintln!("  mass() ok={}", l.mass().is_ok()); }
        let mut v = serde_json::to_value(&Generator::default()).unwrap();
        v["mass"] = json!(1000.0); v["specific_pwr"] = json!(2.0);
        let y = serde_yaml::to_string(&v).unwrap();
        eprintln!("load inconsistent gen: ok={}", Generator::from_yaml(&y).is_ok());
        let yv = serde_yaml::to_value(&Locomotive::default()).unwrap();
        eprintln!("yaml value mass {:?} mu {:?}", yv["mass"], yv["mu"]);
    }
    {
        let mut rv = RailVehicle::default();
        rv.car_type = "Bulk".into();
        rv.mass_static_base = uc::KG * 30000.0; rv.mass_freight = uc::KG * 70000.0;
        rv.length = uc::M * 15.0; rv.axle_count = 4; rv.brake_count = 1; rv.speed_max = uc::MPS * 30.0;
        rv.braking_ratio = uc::R * 0.1;
        let mut tc = TrainConfig::valid();
        tc.rail_vehicles = vec![rv];
        let tp = tc.make_train_params();
        eprintln!("make_train_params ok={} towed={:?}", tp.is_ok(), tp.as_ref().map(|t| t.towed_mass_static.value).ok());
        let tsb = TrainSimBuilder::new("t".into(), tc, Consist::default(), None, None, None);
        let r = guard(|| tsb.make_set_speed_train_sim_and_parts(Vec::<Link>::new(), Vec::<LinkIdx>::new(), SpeedTrace::default(), None));
        match r {
            None => eprintln!("parts: panic"),
            Some(Err(e)) => eprintln!("parts: err {:#}", e),
            Some(Ok((sim, tp, _, _, _))) => eprintln!("parts ok: mass_static {} towed {}", sim.state.mass_static.value, tp.towed_mass_static.value),
        }
    }
    let _ = (si::Mass::default(), uc::KG, ForceMaxSideEffect::Mass, MuSideEffect::Mass);
    let _ = PowertrainType::DummyLoco(DummyLoco::default());
}
