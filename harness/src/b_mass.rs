//! Block `mass` (C20): mass / adhesion / traction-limit bookkeeping.
//! Drives the real `Mass` impls of FuelConverter, Generator, ReversibleEnergyStorage, Locomotive
//! (all four powertrain kinds), Consist, and the train static-mass computation; every call is one
//! op line carrying the implementation's pre-state, the answer carries Ok/Err AND the post-state
//! (several setters write before a later `?` fails).  Private fields are read through
//! `serde_yaml::to_value` (exact f64, keeps inf/NaN) and objects with arbitrary private fields are
//! built with `serde_yaml::from_value` (plain `Deserialize`, no `init`).
use crate::prng::Rng;
use crate::proto::*;
use altrios_core::consist::locomotive::locomotive_model::{ForceMaxSideEffect, MuSideEffect, PowertrainType};
use altrios_core::consist::{PowerDistributionControlType, Proportional};
use altrios_core::prelude::*;
use altrios_core::traits::{Mass, MassSideEffect, SerdeAPI};
use altrios_core::uc;
use serde_json::json;
use serde_yaml::Value as Y;
use std::collections::HashMap;

const P: &str = "C20";
const EPS: f64 = 1e-8;

// ---------------------------------------------------------------- views

#[derive(Clone, Copy, Debug, PartialEq)]
pub enum Slot { Fc, Gen, Res }
impl Slot {
    fn name(self) -> &'static str { match self { Slot::Fc => "fc", Slot::Gen => "gen", Slot::Res => "res" } }
    fn spec_key(self) -> &'static str { match self { Slot::Res => "specific_energy", _ => "specific_pwr" } }
    fn rating_key(self) -> &'static str { match self { Slot::Res => "energy_capacity_joules", _ => "pwr_out_max_watts" } }
}

#[derive(Clone, Debug, PartialEq)]
pub struct CompV { mass: Option<f64>, spec: Option<f64>, rating: f64 }

#[derive(Clone, Copy, Debug, PartialEq)]
pub enum Kind { Conv, Hybrid, Bel, Dummy }
impl Kind {
    fn name(self) -> &'static str { match self { Kind::Conv => "conv", Kind::Hybrid => "hybrid", Kind::Bel => "bel", Kind::Dummy => "dummy" } }
    fn variant(self) -> &'static str {
        match self { Kind::Conv => "ConventionalLoco", Kind::Hybrid => "HybridLoco", Kind::Bel => "BatteryElectricLoco", Kind::Dummy => "DummyLoco" }
    }
    fn slots(self) -> &'static [Slot] {
        match self { Kind::Conv => &[Slot::Fc, Slot::Gen], Kind::Hybrid => &[Slot::Fc, Slot::Gen, Slot::Res], Kind::Bel => &[Slot::Res], Kind::Dummy => &[] }
    }
}

#[derive(Clone, Debug, PartialEq)]
pub struct LocoV {
    kind: Kind,
    comps: Vec<CompV>,
    mass: Option<f64>,
    mu: Option<f64>,
    ballast: Option<f64>,
    baseline: Option<f64>,
    force: f64,
}

fn yf(v: &Y) -> Option<f64> {
    match v { Y::Number(n) => n.as_f64(), _ => None }
}
fn yopt(x: Option<f64>) -> Y {
    match x { Some(v) => Y::from(v), None => Y::Null }
}
fn comp_from_y(v: &Y, s: Slot) -> CompV {
    CompV { mass: yf(&v["mass"]), spec: yf(&v[s.spec_key()]), rating: yf(&v[s.rating_key()]).unwrap_or(f64::NAN) }
}
fn comp_into_y(v: &mut Y, s: Slot, c: &CompV) {
    v["mass"] = yopt(c.mass);
    v[s.spec_key()] = yopt(c.spec);
    v[s.rating_key()] = Y::from(c.rating);
}
fn kind_of(l: &Locomotive) -> Kind {
    match &l.loco_type {
        PowertrainType::ConventionalLoco(_) => Kind::Conv,
        PowertrainType::HybridLoco(_) => Kind::Hybrid,
        PowertrainType::BatteryElectricLoco(_) => Kind::Bel,
        PowertrainType::DummyLoco(_) => Kind::Dummy,
    }
}
pub fn view_loco(l: &Locomotive) -> LocoV {
    let v = serde_yaml::to_value(l).unwrap();
    let kind = kind_of(l);
    let pt = &v["loco_type"][kind.variant()];
    LocoV {
        kind,
        comps: kind.slots().iter().map(|s| comp_from_y(&pt[s.name()], *s)).collect(),
        mass: yf(&v["mass"]),
        mu: yf(&v["mu"]),
        ballast: yf(&v["ballast_mass"]),
        baseline: yf(&v["baseline_mass"]),
        force: yf(&v["force_max"]).unwrap_or(f64::NAN),
    }
}

pub trait CompLike: Mass + Clone + PartialEq + serde::Serialize + serde::de::DeserializeOwned + SerdeAPI {
    const SLOT: Slot;
}
impl CompLike for FuelConverter { const SLOT: Slot = Slot::Fc; }
impl CompLike for Generator { const SLOT: Slot = Slot::Gen; }
impl CompLike for ReversibleEnergyStorage { const SLOT: Slot = Slot::Res; }
fn view_comp<T: CompLike>(c: &T) -> CompV {
    comp_from_y(&serde_yaml::to_value(c).unwrap(), T::SLOT)
}

// ---------------------------------------------------------------- templates / builders

pub struct Tmpl { fc: Y, gen: Y, res: Y, edrv: Y, loco: Y, hybrid: Y }
impl Tmpl {
    pub fn new() -> Self {
        let mut fc = FuelConverter::default();
        fc.save_interval = None;
        let mut gen = Generator::default();
        gen.save_interval = None;
        let mut edrv = ElectricDrivetrain::default();
        edrv.save_interval = None;
        let mut res = ReversibleEnergyStorage::default();
        res.save_interval = None;
        res.eta_interp_grid = [vec![23.0], vec![0.5], vec![1.0]];
        res.eta_interp_values = vec![vec![vec![0.95]]];
        let mut loco = Locomotive::default();
        loco.set_save_interval(None);
        let hy = serde_yaml::to_value(&HybridLoco::default()).unwrap();
        Tmpl {
            fc: serde_yaml::to_value(&fc).unwrap(),
            gen: serde_yaml::to_value(&gen).unwrap(),
            res: serde_yaml::to_value(&res).unwrap(),
            edrv: serde_yaml::to_value(&edrv).unwrap(),
            loco: serde_yaml::to_value(&loco).unwrap(),
            hybrid: hy,
        }
    }
    fn comp_y(&self, s: Slot, c: &CompV) -> Y {
        let mut v = match s { Slot::Fc => self.fc.clone(), Slot::Gen => self.gen.clone(), Slot::Res => self.res.clone() };
        comp_into_y(&mut v, s, c);
        v
    }
    fn build_comp<T: CompLike>(&self, c: &CompV) -> T {
        serde_yaml::from_value(self.comp_y(T::SLOT, c)).expect("component from template")
    }
    fn loco_y(&self, l: &LocoV) -> Y {
        let mut v = self.loco.clone();
        let mut pt = match l.kind {
            Kind::Hybrid => self.hybrid.clone(),
            _ => Y::Mapping(Default::default()),
        };
        for (s, c) in l.kind.slots().iter().zip(&l.comps) {
            pt[s.name()] = self.comp_y(*s, c);
        }
        if l.kind != Kind::Dummy {
            pt["edrv"] = self.edrv.clone();
        }
        let mut lt = serde_yaml::Mapping::new();
        lt.insert(Y::from(l.kind.variant()), pt);
        v["loco_type"] = Y::Mapping(lt);
        v["mass"] = yopt(l.mass);
        v["mu"] = yopt(l.mu);
        v["ballast_mass"] = yopt(l.ballast);
        v["baseline_mass"] = yopt(l.baseline);
        v["force_max"] = Y::from(l.force);
        v
    }
    pub fn build_loco(&self, l: &LocoV) -> Locomotive {
        serde_yaml::from_value(self.loco_y(l)).expect("locomotive from template")
    }
}

// ---------------------------------------------------------------- tokens

fn of(x: &Option<f64>) -> String { opt(x, |v| f(*v)) }
fn tok_comp(c: &CompV) -> String { format!("{} {} {}", of(&c.mass), of(&c.spec), f(c.rating)) }
fn tok_loco(l: &LocoV) -> String {
    let mut s = l.kind.name().to_string();
    for c in &l.comps { s.push(' '); s.push_str(&tok_comp(c)); }
    format!("{} {} {} {} {} {}", s, of(&l.mass), of(&l.mu), of(&l.ballast), of(&l.baseline), f(l.force))
}
fn tok_locos(ls: &[LocoV]) -> String { seq(ls, tok_loco) }

fn mse_tok(se: &MassSideEffect) -> &'static str {
    match se { MassSideEffect::None => "se_none", MassSideEffect::Extensive => "extensive", MassSideEffect::Intensive => "intensive" }
}
#[derive(Clone, Copy, Debug, PartialEq)]
enum Fse { Mass, UpdateMu, SetMuToNone, SetMassToNone, SetMassAndMuToNone }
impl Fse {
    const ALL: [Fse; 5] = [Fse::Mass, Fse::UpdateMu, Fse::SetMuToNone, Fse::SetMassToNone, Fse::SetMassAndMuToNone];
    fn tok(self) -> &'static str {
        match self { Fse::Mass => "mass", Fse::UpdateMu => "update_mu", Fse::SetMuToNone => "set_mu_to_none",
            Fse::SetMassToNone => "set_mass_to_none", Fse::SetMassAndMuToNone => "set_mass_and_mu_to_none" }
    }
    fn real(self) -> ForceMaxSideEffect {
        match self { Fse::Mass => ForceMaxSideEffect::Mass, Fse::UpdateMu => ForceMaxSideEffect::UpdateMu,
            Fse::SetMuToNone => ForceMaxSideEffect::SetMuToNone, Fse::SetMassToNone => ForceMaxSideEffect::SetMassToNone,
            Fse::SetMassAndMuToNone => ForceMaxSideEffect::SetMassAndMuToNone }
    }
}
#[derive(Clone, Copy, Debug, PartialEq)]
enum Muse { Mass, ForceMax, SetMassToNone }
impl Muse {
    const ALL: [Muse; 3] = [Muse::Mass, Muse::ForceMax, Muse::SetMassToNone];
    fn tok(self) -> &'static str { match self { Muse::Mass => "mass", Muse::ForceMax => "force_max", Muse::SetMassToNone => "set_mass_to_none" } }
    fn real(self) -> MuSideEffect {
        match self { Muse::Mass => MuSideEffect::Mass, Muse::ForceMax => MuSideEffect::ForceMax, Muse::SetMassToNone => MuSideEffect::SetMassToNone }
    }
}

/// a number the model's `eqb`/printing treats differently from IEEE: NaN or -0.0
fn odd(x: f64) -> bool { x.is_nan() || (x == 0.0 && x.is_sign_negative()) }
fn odd_o(x: &Option<f64>) -> bool { x.map_or(false, odd) }
fn comp_odd(c: &CompV) -> bool { odd_o(&c.mass) || odd_o(&c.spec) || odd(c.rating) }
fn loco_odd(l: &LocoV) -> bool {
    l.comps.iter().any(comp_odd) || odd_o(&l.mass) || odd_o(&l.mu) || odd_o(&l.ballast) || odd_o(&l.baseline) || odd(l.force)
}
fn fin_o(x: &Option<f64>) -> bool { x.map_or(true, |v| v.is_finite()) }
fn comp_fin(c: &CompV) -> bool { fin_o(&c.mass) && fin_o(&c.spec) && c.rating.is_finite() }
fn loco_fin(l: &LocoV) -> bool {
    l.comps.iter().all(comp_fin) && fin_o(&l.mass) && fin_o(&l.mu) && fin_o(&l.ballast) && fin_o(&l.baseline) && l.force.is_finite()
}

fn res_tok<T>(r: &Option<anyhow::Result<T>>, g: impl Fn(&T) -> String) -> String {
    match r { None => "panic".into(), Some(Err(_)) => "err".into(), Some(Ok(v)) => format!("ok {}", g(v)) }
}
fn om(x: &Option<si_mass>) -> String { opt(x, |v| f(v.value)) }
#[allow(non_camel_case_types)]
type si_mass = altrios_core::si::Mass;


// ---------------------------------------------------------------- oracle helpers (never consult the model)

/// equality up to a tolerance clearly LOOSER than `almost_eq(.., 1e-8)`: never fires on float noise
fn close_loose(a: f64, b: f64) -> bool {
    (a - b).abs() <= 4.0 * EPS * a.abs().max(b.abs()) + 2.0 * EPS
}
/// clearly INSIDE `almost_eq(.., 1e-8)`
fn close_tight(a: f64, b: f64) -> bool {
    (a - b).abs() <= 0.25 * EPS * a.abs().min(b.abs())
}
/// two computations of the same product/quotient
fn same(a: f64, b: f64) -> bool {
    a == b || (a - b).abs() <= 1e-12 * a.abs().max(b.abs())
}
fn same_o(a: &Option<f64>, b: &Option<f64>) -> bool {
    match (a, b) { (None, None) => true, (Some(x), Some(y)) => same(*x, *y), _ => false }
}

fn comp_derived_o(c: &CompV) -> Option<f64> { c.spec.map(|s| c.rating / s) }
/// the component's own invariant on its fields
fn comp_inv(c: &CompV) -> bool {
    match (c.mass, comp_derived_o(c)) { (Some(m), Some(d)) => close_loose(m, d), _ => true }
}
fn comp_json(c: &CompV) -> serde_json::Value { json!({"mass": c.mass, "specific": c.spec, "rating": c.rating}) }
fn loco_json(l: &LocoV) -> serde_json::Value {
    json!({"kind": l.kind.name(), "comps": l.comps.iter().map(comp_json).collect::<Vec<_>>(), "mass": l.mass, "mu": l.mu,
           "ballast_mass": l.ballast, "baseline_mass": l.baseline, "force_max": l.force})
}

/// what the locomotive's mass derived from its parts is, computed from the fields alone:
/// `Some(Some(d))` known, `Some(None)` legitimately unknown, `None` undefined (partial data)
fn loco_derived_o(l: &LocoV) -> Option<Option<f64>> {
    if !l.comps.iter().all(comp_inv) { return None; }
    match (l.baseline, l.ballast) {
        (Some(base), Some(bal)) => {
            if l.kind == Kind::Dummy || l.comps.iter().any(|c| c.mass.is_none()) { return None; }
            Some(Some(l.comps.iter().map(|c| c.mass.unwrap()).sum::<f64>() + base + bal))
        }
        (None, None) => {
            if l.kind == Kind::Dummy { return Some(Some(0.0)); }
            if l.comps.iter().all(|c| c.mass.is_none()) { Some(None) } else { None }
        }
        _ => None,
    }
}
fn inv_mass_fields(l: &LocoV) -> bool {
    match (l.mass, loco_derived_o(l)) { (Some(m), Some(Some(d))) => close_loose(m, d), _ => true }
}
fn g() -> f64 { uc::ACC_GRAV.value }
fn inv_force_fields(l: &LocoV) -> bool {
    match (l.mu, l.mass) { (Some(mu), Some(m)) => close_loose(l.force, mu * m * g()), _ => true }
}

// ---------------------------------------------------------------- value pools

const MASSES: [f64; 7] = [500.0, 1000.0, 2000.0, 4000.0, 8000.0, 12500.0, 20000.0];
const SPECS: [f64; 5] = [0.5, 2.0, 64.0, 250.0, 1024.0];
const NEAR: [f64; 8] = [1e-9, -1e-9, 5e-9, -5e-9, 3e-8, -3e-8, 1e-6, -1e-6];

fn near(r: &mut Rng, x: f64) -> f64 {
    if r.chance(0.15) { x + *r.pick(&[1e-9, -1e-9, 5e-8]) } else { x * (1.0 + *r.pick(&NEAR)) }
}
fn pick_se(r: &mut Rng) -> MassSideEffect {
    match r.below(3) { 0 => MassSideEffect::None, 1 => MassSideEffect::Extensive, _ => MassSideEffect::Intensive }
}

fn gen_comp(r: &mut Rng, want_mass: Option<bool>, malformed: bool) -> CompV {
    let m = *r.pick(&MASSES);
    let s = *r.pick(&SPECS);
    let spec = if r.chance(0.7) { Some(s) } else { None };
    let rating = if r.chance(0.8) { s * m } else { r.f64_in(1.0e5, 5.0e6) };
    let d = spec.map(|s| rating / s);
    let has = want_mass.unwrap_or_else(|| r.chance(0.65));
    let mass = if !has { None } else {
        match (d, r.below(10)) {
            (Some(d), 0..=5) => Some(d),
            (Some(d), 6..=7) => Some(near(r, d)),
            _ if want_mass == Some(true) => Some(d.unwrap_or(m)),
            _ => Some(*r.pick(&MASSES)),
        }
    };
    let mut c = CompV { mass, spec, rating };
    if malformed {
        match r.below(6) {
            0 => c.spec = Some(0.0),
            1 => c.rating = 0.0,
            2 => c.mass = Some(0.0),
            3 => c.spec = Some(-2.0),
            4 => c.mass = Some(-1000.0),
            _ => c.rating = f64::INFINITY,
        }
    }
    c
}

fn pick_new_mass(r: &mut Rng, cur_derived: Option<f64>, cur_mass: Option<f64>, malformed: bool) -> Option<f64> {
    if malformed && r.chance(0.3) { return Some(*r.pick(&[0.0, -500.0, 1e-9, f64::INFINITY])); }
    match r.below(20) {
        0..=2 => None,
        3..=9 => Some(*r.pick(&MASSES)),
        10..=12 => cur_derived.or(cur_mass).or(Some(1000.0)),
        13..=15 => Some(near(r, cur_derived.or(cur_mass).unwrap_or(2000.0))),
        _ => Some((r.f64_in(100.0, 50000.0) * 8.0).round() / 8.0),
    }
}

// ---------------------------------------------------------------- components

fn oracle_comp_set(ctx: &mut Ctx, id: &str, slot: Slot, pre: &CompV, new: Option<f64>, se: &MassSideEffect, post: &CompV,
                   getter: &Option<anyhow::Result<Option<si_mass>>>) {
    let input = json!({"kind": "component_set_mass", "component": slot.name(), "pre": comp_json(pre), "new_mass": new,
                       "side_effect": mse_tok(se), "post": comp_json(post)});
    let fin = comp_fin(pre) && new.map_or(true, |x| x.is_finite());
    // division guards of the theorems (DESIGN §7.20): specific != 0, rating != 0, m != 0
    let differs = matches!((comp_derived_o(pre), new), (Some(d), Some(n)) if d != n);
    let guard_ok = fin && match se {
        MassSideEffect::Extensive => !differs || pre.spec != Some(0.0),
        MassSideEffect::Intensive => !differs || (pre.rating != 0.0 && new != Some(0.0)),
        MassSideEffect::None => true,
    };
    if !guard_ok { ctx.count("mass.comp.out_of_domain"); return; }
    ctx.count("mass.comp.in_domain");
    ctx.checked(P, "comp_inv_after_set");
    if !comp_inv(post) {
        ctx.fail(P, "comp_inv_after_set", id, format!("{} after accepted set_mass({:?}, {}): mass {:?} != derived {:?}",
            slot.name(), new, mse_tok(se), post.mass, comp_derived_o(post)), input.clone());
    }
    // the getter must report the stored mass (it is consistent, clearly inside the tolerance or not at all)
    ctx.checked(P, "comp_getter_after_set");
    match getter {
        Some(Ok(m)) => {
            if m.map(|x| x.value) != post.mass {
                ctx.fail(P, "comp_getter_after_set", id, format!("mass() returned {:?}, field is {:?}", m.map(|x| x.value), post.mass), input.clone());
            }
        }
        _ => {
            let clearly = match (post.mass, comp_derived_o(post)) { (Some(m), Some(d)) => close_tight(m, d) || m == d, _ => true };
            if clearly {
                ctx.fail(P, "comp_getter_after_set", id, "mass() failed on a consistent component".into(), input.clone());
            }
        }
    }
    // resolved exactly as the option states
    ctx.checked(P, "comp_side_effect_exact");
    let mut bad: Option<String> = None;
    if post.mass != new { bad = Some(format!("mass field {:?} != requested {:?}", post.mass, new)); }
    if let Some(n) = new {
        if differs {
            ctx.count(&format!("mass.comp.resolve.{}", mse_tok(se)));
            match se {
                MassSideEffect::Extensive => {
                    if !(same(post.rating, pre.spec.unwrap() * n) && post.spec == pre.spec) {
                        bad = Some(format!("Extensive: rating' {} != specific {} * m {}, or specific changed", post.rating, pre.spec.unwrap(), n));
                    }
                }
                MassSideEffect::Intensive => {
                    if !(same_o(&post.spec, &Some(pre.rating / n)) && post.rating == pre.rating) {
                        bad = Some(format!("Intensive: specific' {:?} != rating {} / m {}, or rating changed", post.spec, pre.rating, n));
                    }
                }
                MassSideEffect::None => {
                    if !(post.spec.is_none() && post.rating == pre.rating) {
                        bad = Some(format!("None: specific' {:?} must be None, rating unchanged", post.spec));
                    }
                }
            }
        } else {
            ctx.count("mass.comp.resolve.nothing_to_do");
            if !(post.spec == pre.spec && post.rating == pre.rating) {
                bad = Some("no inconsistency to resolve but specific/rating changed".into());
            }
        }
    }
    if let Some(d) = bad { ctx.fail(P, "comp_side_effect_exact", id, d, input); }
}

fn comp_case<T: CompLike>(ctx: &mut Ctx, r: &mut Rng, t: &Tmpl, malformed: bool) {
    let slot = T::SLOT;
    let start = gen_comp(r, None, malformed);
    let mut c: T = t.build_comp(&start);
    ctx.count(&format!("mass.comp.start.mass_{}.spec_{}", start.mass.is_some(), start.spec.is_some()));
    let n = r.usize(1, 12);
    for _ in 0..n {
        let pre = view_comp(&c);
        let emit = !comp_odd(&pre);
        match r.below(20) {
            0..=11 => {
                let new = pick_new_mass(r, comp_derived_o(&pre), pre.mass, malformed);
                let se = pick_se(r);
                let mut c2 = c.clone();
                let res = guard(|| c2.set_mass(new.map(|m| uc::KG * m), se.clone()));
                let post = view_comp(&c2);
                let a = match &res { None => "panic".to_string(), Some(Err(_)) => "err".into(), Some(Ok(())) => format!("ok {}", tok_comp(&post)) };
                let id = if emit && !new.map_or(false, odd) {
                    ctx.op(P, &format!("{}_set_mass", slot.name()), &format!("{} {} {}", tok_comp(&pre), of(&new), mse_tok(&se)), &a)
                } else { ctx.count("mass.skip_odd"); format!("{}-unemitted", slot.name()) };
                match res {
                    None => {
                        ctx.checked(P, "no_panic");
                        ctx.fail(P, "no_panic", &id, "component set_mass panicked".into(), json!({"pre": comp_json(&pre), "new": new, "se": mse_tok(&se)}));
                        return;
                    }
                    Some(Err(_)) => { ctx.count("mass.comp.set.err"); c = c2; }
                    Some(Ok(())) => {
                        ctx.count("mass.comp.set.ok");
                        let getter = guard(|| c2.mass());
                        oracle_comp_set(ctx, &id, slot, &pre, new, &se, &post, &getter);
                        ctx.sample("mass.comp_set", json!({"component": slot.name(), "pre": comp_json(&pre), "new": new, "se": mse_tok(&se), "post": comp_json(&post)}));
                        c = c2;
                    }
                }
            }
            12..=15 => {
                let res = guard(|| c.mass());
                if emit { ctx.op(P, &format!("{}_mass", slot.name()), &tok_comp(&pre), &res_tok(&res, om)); }
                // getter: Ok only on a consistent object, and then the stored field
                if !(comp_fin(&pre) && comp_derived_o(&pre).map_or(true, |d| d.is_finite())) { ctx.count("mass.comp.get.nonfinite"); continue; }
                ctx.checked(P, "comp_getter");
                let inp = json!({"kind": "component_mass_getter", "component": slot.name(), "state": comp_json(&pre)});
                match (&res, pre.mass, comp_derived_o(&pre)) {
                    (None, _, _) => ctx.fail(P, "no_panic", "getter", "mass() panicked".into(), inp),
                    (Some(Ok(m)), pm, d) => {
                        ctx.count("mass.comp.get.ok");
                        let consistent = match (pm, d) { (Some(a), Some(b)) => close_loose(a, b), _ => true };
                        if m.map(|x| x.value) != pm || !consistent {
                            ctx.fail(P, "comp_getter", "getter", format!("mass() = Ok({:?}) on fields mass {:?}, derived {:?}", m.map(|x| x.value), pm, d), inp);
                        }
                    }
                    (Some(Err(_)), pm, d) => {
                        ctx.count("mass.comp.get.err");
                        let clearly = match (pm, d) { (Some(a), Some(b)) => close_tight(a, b) || a == b, _ => true };
                        if clearly { ctx.fail(P, "comp_getter", "getter", format!("mass() = Err on consistent fields mass {:?}, derived {:?}", pm, d), inp); }
                    }
                }
            }
            16..=17 => {
                let res = guard(|| c.derived_mass());
                if emit { ctx.op(P, &format!("{}_derived_mass", slot.name()), &tok_comp(&pre), &res_tok(&res, om)); }
            }
            18 => {
                let mut c2 = c.clone();
                c2.expunge_mass_fields();
                let post = view_comp(&c2);
                if emit { ctx.op(P, &format!("{}_expunge", slot.name()), &tok_comp(&pre), &format!("ok {}", tok_comp(&post))); }
                c = c2;
            }
            _ => {
                // load from YAML text with whatever (redundant) mass data the object now holds
                let y = c.to_yaml().unwrap();
                let res = guard(|| T::from_yaml(&y));
                let a = match &res { None => "panic", Some(Err(_)) => "err", Some(Ok(_)) => "ok" };
                if emit && comp_fin(&pre) { ctx.op(P, &format!("{}_load", slot.name()), &tok_comp(&pre), a); }
                ctx.checked(P, "load_accepts_only_consistent");
                ctx.count(&format!("mass.comp.load.{}", a));
                if let Some(Ok(_)) = res {
                    if !comp_inv(&pre) {
                        ctx.fail(P, "load_accepts_only_consistent", slot.name(),
                            format!("{}::from_yaml accepted mass {:?} with derived {:?}", slot.name(), pre.mass, comp_derived_o(&pre)),
                            json!({"kind": "component_load", "component": slot.name(), "fields": comp_json(&pre), "yaml": y}));
                    }
                }
            }
        }
    }
}

// ---------------------------------------------------------------- locomotives

const MUS: [f64; 4] = [0.2, 0.25, 0.3, 0.35];
const FORCES: [f64; 4] = [300.0e3, 500.0e3, 667.2e3, 800.0e3];
const LOCO_MASSES: [f64; 4] = [100000.0, 150000.0, 195000.0, 220000.0];

pub fn gen_loco_v(r: &mut Rng, malformed: bool) -> LocoV {
    let kind = match r.below(20) { 0..=7 => Kind::Conv, 8..=14 => Kind::Bel, 15..=17 => Kind::Hybrid, _ => Kind::Dummy };
    // mass mode: 0 = nothing known below the locomotive, 1 = everything known, 2 = partial (derived undefined)
    let mode = match r.below(20) { 0..=8 => 0, 9..=17 => 1, _ => 2 };
    let comps: Vec<CompV> = kind.slots().iter().map(|_| {
        let want = match mode { 0 => Some(false), 1 => Some(true), _ => None };
        let mut c = gen_comp(r, want, false);
        if mode == 1 && r.chance(0.9) { if let Some(d) = comp_derived_o(&c) { c.mass = Some(d); } }
        c
    }).collect();
    let (baseline, ballast) = match mode {
        0 => (None, None),
        1 => if kind == Kind::Dummy { (None, None) } else { (Some(*r.pick(&[90000.0, 120000.0, 150000.0])), Some(*r.pick(&[0.0, 5000.0, 20000.0]))) },
        _ => match r.below(3) { 0 => (Some(100000.0), None), 1 => (None, Some(5000.0)), _ => (Some(100000.0), Some(5000.0)) },
    };
    let mut l = LocoV { kind, comps, mass: None, mu: None, ballast, baseline, force: *r.pick(&FORCES) };
    let d = loco_derived_o(&l).flatten();
    l.mass = match (d, r.below(20)) {
        (_, 0..=4) => None,
        (Some(d), 5..=15) => Some(d),
        (Some(d), 16..=17) => Some(near(r, d)),
        (Some(_), _) => Some(*r.pick(&LOCO_MASSES)),
        (None, _) => Some(*r.pick(&LOCO_MASSES)),
    };
    l.mu = if r.chance(0.35) { None } else { Some(*r.pick(&MUS)) };
    if let (Some(mu), Some(m)) = (l.mu, l.mass) {
        l.force = match r.below(20) { 0..=13 => mu * m * g(), 14..=16 => near(r, mu * m * g()), _ => *r.pick(&FORCES) };
    }
    if malformed {
        match r.below(6) {
            0 => l.mu = Some(0.0),
            1 => l.mass = Some(0.0),
            2 => l.force = 0.0,
            3 => l.mu = Some(-0.3),
            4 => l.mass = Some(-1000.0),
            _ => l.force = -5.0,
        }
    }
    l
}

#[derive(Clone, Debug)]
enum LOp {
    SetMass(Option<f64>, MassSideEffect),
    SetForce(f64, Fse),
    SetMu(f64, Muse),
    CompSet(Slot, Option<f64>, MassSideEffect),
    GetMass, GetMu, GetForce, GetDerivedTrait, Expunge, Load,
}

fn pick_lop(r: &mut Rng, v: &LocoV, malformed: bool) -> LOp {
    let d = loco_derived_o(v).flatten();
    match r.below(40) {
        0..=8 => {
            let new = match r.below(12) {
                0..=1 => None,
                2..=3 => v.mass.or(Some(195000.0)),
                4..=5 => d.or(Some(150000.0)),
                6..=7 => match v.mu { Some(mu) if mu != 0.0 => Some(v.force / (mu * g())), _ => Some(100000.0) },
                8 => Some(near(r, v.mass.or(d).unwrap_or(195000.0))),
                _ => Some(*r.pick(&LOCO_MASSES)),
            };
            let new = if malformed && r.chance(0.2) { Some(*r.pick(&[0.0, -1.0])) } else { new };
            let se = if r.chance(0.88) { MassSideEffect::None } else { pick_se(r) };
            LOp::SetMass(new, se)
        }
        9..=19 => {
            let fm = match (v.mu, v.mass, r.below(10)) {
                (_, _, 0..=1) => v.force,
                (Some(mu), Some(m), 2..=4) => mu * m * g(),
                (Some(mu), Some(m), 5) => near(r, mu * m * g()),
                _ => *r.pick(&FORCES),
            };
            let fm = if malformed && r.chance(0.2) { *r.pick(&[0.0, -100.0]) } else { fm };
            LOp::SetForce(fm, *r.pick(&Fse::ALL))
        }
        20..=28 => {
            let mu = match (v.mass, r.below(10)) {
                (_, 0..=1) => v.mu.unwrap_or(0.3),
                (Some(m), 2..=4) if m != 0.0 => v.force / (m * g()),
                _ => *r.pick(&MUS),
            };
            let mu = if malformed && r.chance(0.2) { *r.pick(&[0.0, -0.2]) } else { mu };
            LOp::SetMu(mu, *r.pick(&Muse::ALL))
        }
        29..=31 => {
            let slot = *r.pick(&[Slot::Fc, Slot::Gen, Slot::Res]);
            let cur = v.kind.slots().iter().position(|s| *s == slot).map(|i| v.comps[i].clone());
            let new = pick_new_mass(r, cur.as_ref().and_then(comp_derived_o), cur.and_then(|c| c.mass), false);
            LOp::CompSet(slot, new, pick_se(r))
        }
        32..=33 => LOp::GetMass,
        34 => LOp::GetMu,
        35..=36 => LOp::GetForce,
        37 => LOp::GetDerivedTrait,
        38 => LOp::Expunge,
        _ => LOp::Load,
    }
}

/// getters: `Ok` only on consistent fields (and then the stored value); `Err` only when not clearly consistent
fn oracle_loco_getters(ctx: &mut Ctx, id: &str, l: &Locomotive, v: &LocoV, input: &serde_json::Value) {
    if !loco_fin(v) { return; }
    let fm = guard(|| l.force_max());
    let mu = guard(|| l.mu());
    let ms = guard(|| l.mass());
    if fm.is_none() || mu.is_none() || ms.is_none() {
        ctx.checked(P, "no_panic");
        ctx.fail(P, "no_panic", id, "a locomotive getter panicked".into(), input.clone());
        return;
    }
    ctx.checked(P, "loco_getters_report_consistent_values");
    let force_loose = inv_force_fields(v);
    let force_tight = match (v.mu, v.mass) { (Some(mu), Some(m)) => close_tight(v.force, mu * m * g()) || v.force == mu * m * g(), _ => true };
    let mut bad: Option<String> = None;
    match fm.unwrap() {
        Ok(x) => if x.value != v.force || !force_loose { bad = Some(format!("force_max() = Ok({}) on force_max {} mu {:?} mass {:?}", x.value, v.force, v.mu, v.mass)); },
        Err(_) => if force_tight { bad = Some("force_max() = Err on consistent fields".into()); },
    }
    match mu.unwrap() {
        Ok(x) => if x.map(|q| q.value) != v.mu || !force_loose { bad = Some(format!("mu() = Ok({:?}) on force_max {} mu {:?} mass {:?}", x.map(|q| q.value), v.force, v.mu, v.mass)); },
        Err(_) => if force_tight { bad = Some("mu() = Err on consistent fields".into()); },
    }
    match (ms.unwrap(), loco_derived_o(v)) {
        (Ok(x), Some(d)) => {
            let want = v.mass.or(d);
            if !same_o(&x.map(|q| q.value), &want) || !inv_mass_fields(v) {
                bad = Some(format!("mass() = Ok({:?}) on mass {:?}, derived {:?}", x.map(|q| q.value), v.mass, d));
            }
        }
        (Ok(x), None) => bad = Some(format!("mass() = Ok({:?}) although the derived mass is undefined (partial mass data)", x.map(|q| q.value))),
        (Err(_), Some(d)) => {
            let tight = match (v.mass, d) { (Some(m), Some(d)) => close_tight(m, d) || m == d, _ => true }
                && v.comps.iter().all(|c| match (c.mass, comp_derived_o(c)) { (Some(m), Some(d)) => close_tight(m, d) || m == d, _ => true });
            if tight { bad = Some(format!("mass() = Err on consistent mass {:?}, derived {:?}", v.mass, d)); }
        }
        (Err(_), None) => {}
    }
    if let Some(d) = bad { ctx.fail(P, "loco_getters_report_consistent_values", id, d, input.clone()); }
}

struct SeqState {
    /// the mass half of the invariant is owed: true from a consistent start, re-established by every accepted
    /// call that validates the mass, lost by a nested component update
    mass_owed: bool,
    history: Vec<serde_json::Value>,
    start: serde_json::Value,
    had_reject: bool,
}

#[allow(clippy::too_many_arguments)]
fn oracle_loco_setter(ctx: &mut Ctx, id: &str, st: &mut SeqState, op: &LOp, pre: &LocoV, post: &LocoV, ok: bool) {
    let input = json!({"kind": "locomotive_sequence", "start": st.start, "calls": st.history, "pre_of_last": loco_json(pre), "post_of_last": loco_json(post)});
    let opname = match op { LOp::SetMass(..) => "set_mass", LOp::SetForce(_, se) => se.tok(), LOp::SetMu(_, se) => se.tok(), _ => "other" };
    let opk = match op { LOp::SetMass(..) => "set_mass".to_string(), LOp::SetForce(_, se) => format!("set_force_max.{}", se.tok()), LOp::SetMu(_, se) => format!("set_mu.{}", se.tok()), _ => "other".into() };
    if !ok {
        st.had_reject = true;
        let mutated = pre != post;
        ctx.count(&format!("mass.loco.reject.{}.{}", opk, if mutated { "mutated" } else { "clean" }));
        if mutated && inv_force_fields(pre) && !inv_force_fields(post) { ctx.count("mass.loco.reject.leaves_force_inconsistent"); }
        return;
    }
    ctx.count(&format!("mass.loco.accept.{}", opk));
    if st.had_reject { ctx.count("mass.loco.accept_after_reject"); }
    let fin = loco_fin(pre) && loco_fin(post);
    // ---- force half: owed after EVERY accepted call, from any state (guard: UpdateMu divides by m*g)
    let guard_ok = fin && match op {
        LOp::SetForce(_, Fse::UpdateMu) => pre.mass != Some(0.0),
        _ => true,
    };
    if guard_ok {
        ctx.checked(P, "inv_force_after_accept");
        if !inv_force_fields(post) {
            ctx.fail(P, "inv_force_after_accept", id, format!("after accepted {}: force_max {} vs mu {:?} * mass {:?} * g = {:?}",
                opk, post.force, post.mu, post.mass, post.mu.zip(post.mass).map(|(a, b)| a * b * g())), input.clone());
        }
    } else { ctx.count("mass.loco.out_of_domain"); }
    // ---- mass half
    let validates_mass = !matches!(op, LOp::SetForce(_, Fse::UpdateMu) | LOp::SetForce(_, Fse::SetMuToNone));
    if validates_mass { st.mass_owed = true; }
    if st.mass_owed && fin {
        let clause = if pre.kind == Kind::Dummy { "inv_mass_after_accept_dummy" } else { "inv_mass_after_accept" };
        ctx.checked(P, clause);
        if !inv_mass_fields(post) {
            ctx.fail(P, clause, id, format!("after accepted {} ({} locomotive, sequence from a consistent start): mass {:?} vs derived {:?}",
                opk, pre.kind.name(), post.mass, loco_derived_o(post)), input.clone());
        }
    }
    // ---- resolved exactly as the option states
    if !fin { return; }
    ctx.checked(P, "loco_side_effect_exact");
    let mut bad: Option<String> = None;
    match op {
        LOp::SetMass(new, _) => {
            let want = new.or(loco_derived_o(pre).flatten());
            if post.mass != want && !(new.is_none() && same_o(&post.mass, &want)) { bad = Some(format!("mass' {:?} != {:?}", post.mass, want)); }
            if post.mu != pre.mu { bad = Some("set_mass changed mu".into()); }
            if let (Some(mu), Some(m)) = (post.mu, post.mass) { if !same(post.force, mu * m * g()) { bad = Some("force_max' != mu*m*g".into()); } }
        }
        LOp::SetForce(fm, Fse::Mass) => {
            if post.mu != pre.mu { bad = Some("Mass option changed mu".into()); }
            match pre.mu {
                Some(mu) => if !(same_o(&post.mass, &Some(fm / (mu * g()))) && close_loose(post.force, *fm)) { bad = Some(format!("mass' {:?} != F/(mu g) {} or force' {} != F {}", post.mass, fm / (mu * g()), post.force, fm)); },
                None => bad = Some("accepted without a traction coefficient".into()),
            }
        }
        LOp::SetForce(fm, Fse::UpdateMu) => {
            let want = pre.mass.map(|m| fm / (m * g()));
            if !(post.force == *fm && post.mass == pre.mass && same_o(&post.mu, &want)) { bad = Some(format!("UpdateMu: force' {} mass' {:?} mu' {:?} (want {:?})", post.force, post.mass, post.mu, want)); }
        }
        LOp::SetForce(fm, Fse::SetMuToNone) => if !(post.force == *fm && post.mass == pre.mass && post.mu.is_none()) { bad = Some("SetMuToNone".into()); },
        LOp::SetForce(fm, Fse::SetMassToNone) => if !(post.force == *fm && post.mass.is_none() && post.mu == pre.mu) { bad = Some("SetMassToNone".into()); },
        LOp::SetForce(fm, Fse::SetMassAndMuToNone) => if !(post.force == *fm && post.mass.is_none() && post.mu.is_none()) { bad = Some("SetMassAndMuToNone".into()); },
        LOp::SetMu(mu, Muse::Mass) => {
            if !(post.mu == Some(*mu) && same_o(&post.mass, &Some(pre.force / (mu * g()))) && close_loose(post.force, pre.force)) {
                bad = Some(format!("set_mu/Mass: mu' {:?} mass' {:?} (want {}) force' {} (want {})", post.mu, post.mass, pre.force / (mu * g()), post.force, pre.force));
            }
        }
        LOp::SetMu(mu, Muse::ForceMax) => {
            let m = pre.mass.or(loco_derived_o(pre).flatten());
            match m {
                Some(m) => if !(post.mu == Some(*mu) && post.mass == pre.mass && same(post.force, mu * g() * m)) { bad = Some(format!("set_mu/ForceMax: force' {} != mu g m {}", post.force, mu * g() * m)); },
                None => bad = Some("set_mu/ForceMax accepted without any mass".into()),
            }
        }
        LOp::SetMu(mu, Muse::SetMassToNone) => if !(post.mu == Some(*mu) && post.mass.is_none() && post.force == pre.force) { bad = Some("set_mu/SetMassToNone".into()); },
        _ => {}
    }
    // no locomotive-level setter may touch baseline / ballast, and components only by expunging
    if post.baseline != pre.baseline || post.ballast != pre.ballast { bad = Some("baseline/ballast changed".into()); }
    if let Some(d) = bad { ctx.fail(P, "loco_side_effect_exact", id, format!("{} ({}): {}", opk, opname, d), input); }
}

fn loco_case(ctx: &mut Ctx, r: &mut Rng, t: &Tmpl, malformed: bool, scripted: Option<Vec<LOp>>, start: Option<LocoV>) {
    let start = start.unwrap_or_else(|| gen_loco_v(r, malformed));
    let mut l = t.build_loco(&start);
    debug_assert!(view_loco(&l) == start || loco_odd(&start));
    let consistent_start = inv_mass_fields(&start) && inv_force_fields(&start) && start.comps.iter().all(comp_inv);
    ctx.count(&format!("mass.loco.start.{}.{}", start.kind.name(), if consistent_start { "consistent" } else { "inconsistent" }));
    ctx.count(&format!("mass.loco.start.known.mass_{}.mu_{}.derived_{}", start.mass.is_some(), start.mu.is_some(),
        match loco_derived_o(&start) { Some(Some(_)) => "some", Some(None) => "none", None => "undefined" }));
    let mut st = SeqState { mass_owed: consistent_start, history: vec![], start: loco_json(&start), had_reject: false };
    let n = scripted.as_ref().map_or_else(|| r.usize(1, 12), |s| s.len());
    for i in 0..n {
        let pre = view_loco(&l);
        let emit = !loco_odd(&pre);
        let op = match &scripted { Some(s) => s[i].clone(), None => pick_lop(r, &pre, malformed) };
        let pre_tok = tok_loco(&pre);
        match &op {
            LOp::SetMass(..) | LOp::SetForce(..) | LOp::SetMu(..) => {
                let mut l2 = l.clone();
                let (res, name, args, odd_arg) = match &op {
                    LOp::SetMass(new, se) => (guard(|| l2.set_mass(new.map(|m| uc::KG * m), se.clone())), "loco_set_mass", format!("{} {}", of(new), mse_tok(se)), new.map_or(false, odd)),
                    LOp::SetForce(fm, se) => (guard(|| l2.set_force_max(uc::N * *fm, se.real())), "loco_set_force_max", format!("{} {}", f(*fm), se.tok()), odd(*fm)),
                    LOp::SetMu(mu, se) => (guard(|| l2.set_mu(uc::R * *mu, se.real())), "loco_set_mu", format!("{} {}", f(*mu), se.tok()), odd(*mu)),
                    _ => unreachable!(),
                };
                let post = view_loco(&l2);
                st.history.push(json!({"call": name, "args": format!("{:?}", op), "result": match &res { None => "panic", Some(Ok(())) => "ok", Some(Err(_)) => "err" }}));
                let a = match &res { None => "panic".to_string(), Some(Err(_)) => format!("err {}", tok_loco(&post)), Some(Ok(())) => format!("ok {}", tok_loco(&post)) };
                let id = if emit && !odd_arg { ctx.op(P, name, &format!("{} {}", pre_tok, args), &a) } else { ctx.count("mass.skip_odd"); "unemitted".to_string() };
                match res {
                    None => {
                        ctx.checked(P, "no_panic");
                        ctx.fail(P, "no_panic", &id, format!("{} panicked", name), json!({"start": st.start, "calls": st.history}));
                        return;
                    }
                    Some(r2) => {
                        oracle_loco_setter(ctx, &id, &mut st, &op, &pre, &post, r2.is_ok());
                        let inp = json!({"kind": "locomotive_sequence", "start": st.start, "calls": st.history, "state": loco_json(&post)});
                        oracle_loco_getters(ctx, &id, &l2, &post, &inp);
                        if i == 0 { ctx.sample("mass.loco_setter", json!({"pre": loco_json(&pre), "call": format!("{:?}", op), "ok": r2.is_ok(), "post": loco_json(&post)})); }
                        l = l2;
                    }
                }
            }
            LOp::CompSet(slot, new, se) => {
                let mut l2 = l.clone();
                let nm = new.map(|m| uc::KG * m);
                let res: Option<Option<anyhow::Result<()>>> = guard(|| match slot {
                    Slot::Fc => l2.fuel_converter_mut().map(|c| c.set_mass(nm, se.clone())),
                    Slot::Gen => l2.generator_mut().map(|c| c.set_mass(nm, se.clone())),
                    Slot::Res => l2.reversible_energy_storage_mut().map(|c| c.set_mass(nm, se.clone())),
                });
                let post = view_loco(&l2);
                let a = match &res { None => "panic".to_string(), Some(None) => "absent".into(), Some(Some(Err(_))) => "err".into(), Some(Some(Ok(()))) => format!("ok {}", tok_loco(&post)) };
                if emit && !new.map_or(false, odd) { ctx.op(P, "loco_comp_set_mass", &format!("{} {} {} {}", pre_tok, slot.name(), of(new), mse_tok(se)), &a); }
                if let Some(Some(Ok(()))) = res {
                    st.history.push(json!({"call": format!("{}_mut().set_mass", slot.name()), "args": format!("{:?}", op), "result": "ok"}));
                    ctx.count("mass.loco.nested_comp_update");
                    if inv_mass_fields(&pre) && loco_derived_o(&pre).is_some() && !(inv_mass_fields(&post) && loco_derived_o(&post).is_some()) {
                        // observation, not a clause: a component updated through `*_mut()` cannot keep its parent consistent
                        ctx.count("mass.loco.nested_comp_update_breaks_parent");
                    }
                    st.mass_owed = false;
                    l = l2;
                }
            }
            LOp::GetMass => { let res = guard(|| l.mass()); if emit { ctx.op(P, "loco_mass", &pre_tok, &res_tok(&res, om)); } }
            LOp::GetMu => { let res = guard(|| l.mu()); if emit { ctx.op(P, "loco_mu", &pre_tok, &res_tok(&res, |x| opt(x, |v| f(v.value)))); } }
            LOp::GetForce => { let res = guard(|| l.force_max()); if emit { ctx.op(P, "loco_force_max", &pre_tok, &res_tok(&res, |x| f(x.value))); } }
            LOp::GetDerivedTrait => {
                let res = guard(|| Mass::derived_mass(&l));
                if emit { ctx.op(P, "loco_derived_mass_trait", &pre_tok, &res_tok(&res, om)); }
                // observation: the trait's derived_mass of a Locomotive is the powertrain's first component only
                if let (Some(Ok(Some(d))), Some(Some(want))) = (&res, loco_derived_o(&pre)) {
                    ctx.count(if close_loose(d.value, want) { "mass.loco.trait_derived.agrees" } else { "mass.loco.trait_derived.differs_from_inherent" });
                }
            }
            LOp::Expunge => {
                let mut l2 = l.clone();
                l2.expunge_mass_fields();
                let post = view_loco(&l2);
                if emit { ctx.op(P, "loco_expunge", &pre_tok, &format!("ok {}", tok_loco(&post))); }
                st.history.push(json!({"call": "expunge_mass_fields"}));
                st.mass_owed = false;
                l = l2;
            }
            LOp::Load => { load_loco(ctx, &l, &pre, emit); }
        }
    }
}

/// `from_yaml` of the YAML text of `l` (whatever redundant data it holds): accepted only if consistent
fn load_loco(ctx: &mut Ctx, l: &Locomotive, v: &LocoV, emit: bool) {
    let y = l.to_yaml().unwrap();
    let res = guard(|| Locomotive::from_yaml(&y));
    let a = match &res { None => "panic", Some(Err(_)) => "err", Some(Ok(_)) => "ok" };
    if emit && loco_fin(v) { ctx.op(P, "loco_load", &tok_loco(v), a); }
    ctx.count(&format!("mass.loco.load.{}", a));
    ctx.checked(P, "load_accepts_only_consistent");
    let consistent = inv_mass_fields(v) && loco_derived_o(v).is_some() && inv_force_fields(v) && v.comps.iter().all(comp_inv);
    ctx.count(&format!("mass.loco.load.fields_{}", if consistent { "consistent" } else { "inconsistent" }));
    match res {
        None => ctx.fail(P, "no_panic", "load", "Locomotive::from_yaml panicked".into(), json!({"yaml": y})),
        Some(Ok(loaded)) => {
            if !consistent {
                ctx.fail(P, "load_accepts_only_consistent", "load",
                    format!("Locomotive::from_yaml accepted redundant data that disagree: mass {:?} derived {:?} mu {:?} force_max {} (mu*m*g = {:?})",
                        v.mass, loco_derived_o(v), v.mu, v.force, v.mu.zip(v.mass).map(|(a, b)| a * b * g())),
                    json!({"kind": "locomotive_load", "fields": loco_json(v), "yaml": y}));
            }
            ctx.checked(P, "load_round_trip");
            if loaded != *l && loco_fin(v) {
                ctx.fail(P, "load_round_trip", "load", "loaded locomotive differs from the saved one".into(), json!({"yaml": y}));
            }
        }
        Some(Err(_)) => {
            let tight = match (v.mu, v.mass) { (Some(mu), Some(m)) => close_tight(v.force, mu * m * g()) || v.force == mu * m * g(), _ => true }
                && match (v.mass, loco_derived_o(v)) { (Some(m), Some(Some(d))) => close_tight(m, d) || m == d, (_, Some(_)) => true, _ => false }
                && v.comps.iter().all(|c| match (c.mass, comp_derived_o(c)) { (Some(m), Some(d)) => close_tight(m, d) || m == d, _ => true });
            if tight && loco_fin(v) {
                ctx.fail(P, "load_accepts_only_consistent", "load", "Locomotive::from_yaml rejected consistent data".into(),
                    json!({"kind": "locomotive_load", "fields": loco_json(v), "yaml": y}));
            }
        }
    }
}

// ---------------------------------------------------------------- consists

fn make_consist(locos: Vec<Locomotive>) -> Consist {
    Consist::new(locos, None, PowerDistributionControlType::Proportional(Proportional))
}

/// roll-up clauses, computed from the units' own getters
fn oracle_consist(ctx: &mut Ctx, id: &str, c: &Consist, vs: &[LocoV]) {
    let input = json!({"kind": "consist", "locomotives": vs.iter().map(loco_json).collect::<Vec<_>>()});
    let cm = guard(|| c.mass());
    let cf = guard(|| c.force_max());
    if cm.is_none() || cf.is_none() {
        ctx.checked(P, "no_panic");
        ctx.fail(P, "no_panic", id, "Consist::mass / force_max panicked".into(), input);
        return;
    }
    let ms: Vec<anyhow::Result<Option<si_mass>>> = c.loco_vec.iter().map(|l| l.mass()).collect();
    let fs: Vec<anyhow::Result<altrios_core::si::Force>> = c.loco_vec.iter().map(|l| l.force_max()).collect();
    ctx.checked(P, "consist_mass_is_sum");
    let any_err = ms.iter().any(|m| m.is_err());
    let vals: Vec<Option<f64>> = ms.iter().filter_map(|m| m.as_ref().ok()).map(|m| m.map(|x| x.value)).collect();
    let shape = if c.loco_vec.is_empty() { "empty" } else if any_err { "unit_err" } else if vals.iter().all(|m| m.is_none()) { "all_none" }
        else if vals.iter().all(|m| m.is_some()) { "all_some" } else { "mixed" };
    ctx.count(&format!("mass.consist.mass.{}", shape));
    let got = cm.unwrap();
    let okk = match shape {
        "all_some" => { let s: f64 = vals.iter().map(|m| m.unwrap()).sum(); matches!(&got, Ok(Some(x)) if same(x.value, s)) }
        "all_none" => matches!(&got, Ok(None)),
        _ => got.is_err(),
    };
    if !okk {
        ctx.fail(P, "consist_mass_is_sum", id, format!("Consist::mass() = {:?} for unit masses {:?} ({})", got.as_ref().map(|m| m.map(|x| x.value)).map_err(|_| "Err"), vals, shape), input.clone());
    }
    ctx.checked(P, "consist_force_max_is_sum");
    let gotf = cf.unwrap();
    let okf = if fs.iter().any(|x| x.is_err()) { ctx.count("mass.consist.force.unit_err"); gotf.is_err() } else {
        ctx.count("mass.consist.force.sum");
        let s: f64 = fs.iter().map(|x| x.as_ref().unwrap().value).sum();
        matches!(&gotf, Ok(x) if same(x.value, s))
    };
    if !okf {
        ctx.fail(P, "consist_force_max_is_sum", id, format!("Consist::force_max() = {:?}", gotf.as_ref().map(|x| x.value).map_err(|_| "Err")), input);
    }
}

fn gen_consist_locos(r: &mut Rng, t: &Tmpl, nmax: usize) -> Vec<Locomotive> {
    let n = if r.chance(0.04) { 0 } else { r.usize(1, nmax) };
    // most consists homogeneous in what they know, so that the all-Some / all-None branches are the common ones
    let style = r.below(10);
    (0..n).map(|_| {
        let mut v = gen_loco_v(r, false);
        for _ in 0..20 {
            let cons = inv_mass_fields(&v) && inv_force_fields(&v) && loco_derived_o(&v).is_some();
            let known = v.mass.is_some() || matches!(loco_derived_o(&v), Some(Some(_)));
            let okv = match style { 0..=4 => cons && known, 5..=6 => cons && !known, _ => true };
            if okv { break; }
            v = gen_loco_v(r, false);
        }
        t.build_loco(&v)
    }).collect()
}

fn consist_case(ctx: &mut Ctx, r: &mut Rng, t: &Tmpl, nmax: usize) {
    let mut c = make_consist(gen_consist_locos(r, t, nmax));
    ctx.count(&format!("mass.consist.n.{}", c.loco_vec.len()));
    let rounds = r.usize(1, 4);
    for round in 0..rounds {
        let vs: Vec<LocoV> = c.loco_vec.iter().map(view_loco).collect();
        let emit = !vs.iter().any(loco_odd);
        let rm = guard(|| c.mass());
        let rf = guard(|| c.force_max());
        let mut id = "unemitted".to_string();
        if emit {
            id = ctx.op(P, "consist_mass", &tok_locos(&vs), &res_tok(&rm, om));
            ctx.op(P, "consist_force_max", &tok_locos(&vs), &res_tok(&rf, |x| f(x.value)));
        }
        oracle_consist(ctx, &id, &c, &vs);
        if round == 0 && r.chance(0.3) {
            // Consist::from_yaml: accepted only when the roll-up and every unit are consistent
            let y = c.to_yaml().unwrap();
            let res = guard(|| Consist::from_yaml(&y));
            let a = match &res { None => "panic", Some(Err(_)) => "err", Some(Ok(_)) => "ok" };
            if emit && vs.iter().all(loco_fin) { ctx.op(P, "consist_load", &tok_locos(&vs), a); }
            ctx.count(&format!("mass.consist.load.{}", a));
            ctx.checked(P, "load_accepts_only_consistent");
            if let Some(Ok(_)) = res {
                let cons = vs.iter().all(|v| inv_mass_fields(v) && loco_derived_o(v).is_some() && inv_force_fields(v) && v.comps.iter().all(comp_inv));
                if !cons {
                    ctx.fail(P, "load_accepts_only_consistent", &id, "Consist::from_yaml accepted a unit with redundant data that disagree".into(),
                        json!({"kind": "consist_load", "locomotives": vs.iter().map(loco_json).collect::<Vec<_>>()}));
                }
            }
        }
        if c.loco_vec.is_empty() { break; }
        // one setter call on one unit, then the roll-ups again
        let i = r.usize(0, c.loco_vec.len() - 1);
        let v = view_loco(&c.loco_vec[i]);
        let op = pick_lop(r, &v, false);
        let l = &mut c.loco_vec[i];
        let _ = guard(|| match &op {
            LOp::SetMass(new, se) => l.set_mass(new.map(|m| uc::KG * m), se.clone()).is_ok(),
            LOp::SetForce(fm, se) => l.set_force_max(uc::N * *fm, se.real()).is_ok(),
            LOp::SetMu(mu, se) => l.set_mu(uc::R * *mu, se.real()).is_ok(),
            _ => true,
        });
    }
}

// ---------------------------------------------------------------- train static mass

#[derive(Clone, Debug)]
struct RvV { key: usize, base: f64, freight: f64 }

fn make_rv(v: &RvV) -> RailVehicle {
    let mut rv = RailVehicle::default();
    rv.car_type = format!("T{}", v.key);
    rv.mass_static_base = uc::KG * v.base;
    rv.mass_freight = uc::KG * v.freight;
    rv.length = uc::M * 15.0;
    rv.axle_count = 4;
    rv.brake_count = 1;
    rv.speed_max = uc::MPS * 30.0;
    rv.braking_ratio = uc::R * 0.1;
    rv.mass_rot_per_axle = uc::KG * 680.0;
    rv
}

fn train_case(ctx: &mut Ctx, r: &mut Rng, t: &Tmpl) {
    let ntypes = if r.chance(0.03) { 0 } else { r.usize(1, 4) };
    let mut rvs: Vec<RvV> = (0..ntypes).map(|k| RvV {
        key: k,
        base: *r.pick(&[20000.0, 25000.0, 30000.5, 33000.0]),
        freight: *r.pick(&[0.0, 50000.0, 70000.25, 100000.0]),
    }).collect();
    if ntypes > 1 && r.chance(0.1) { let k = rvs[0].key; rvs[1].key = k; ctx.count("mass.train.duplicate_car_type"); }
    let mut ncars: Vec<(usize, u32)> = vec![];
    for v in &rvs { if !ncars.iter().any(|(k, _)| *k == v.key) { ncars.push((v.key, *r.pick(&[0u32, 1, 7, 50, 100, 135]))); } }
    let variant = r.below(12);
    match variant {
        0 if !ncars.is_empty() => { ncars.pop(); ctx.count("mass.train.missing_key"); }
        1 => { ncars.push((9, 3)); ctx.count("mass.train.extra_key"); }
        _ => {}
    }
    r.shuffle(&mut ncars);
    let override_ = if r.chance(0.35) { Some(*r.pick(&[1.0e6, 5.5e6, 1.25e7])) } else { None };
    let locos = gen_consist_locos(r, t, 4);
    let con = make_consist(locos);
    let lvs: Vec<LocoV> = con.loco_vec.iter().map(view_loco).collect();
    let tc = TrainConfig {
        rail_vehicles: rvs.iter().map(make_rv).collect(),
        n_cars_by_type: ncars.iter().map(|(k, n)| (format!("T{}", k), *n)).collect::<HashMap<String, u32>>(),
        train_type: TrainType::Freight,
        train_length: None,
        train_mass: override_.map(|m| uc::KG * m),
        cd_area_vec: None,
    };
    let rv_tok = seq(&rvs, |v| format!("{} {} {}", v.key, f(v.base), f(v.freight)));
    let nc_tok = seq(&ncars, |(k, n)| format!("{} {}", k, n));
    let ov_tok = of(&override_);
    let input = json!({"kind": "train", "override_kg": override_, "rail_vehicles": rvs.iter().map(|v| json!({"type": v.key, "base": v.base, "freight": v.freight})).collect::<Vec<_>>(),
        "n_cars_by_type": ncars, "locomotives": lvs.iter().map(loco_json).collect::<Vec<_>>()});
    // towed mass
    let tp = guard(|| tc.make_train_params());
    let id = ctx.op(P, "train_towed", &format!("{} {} {}", ov_tok, rv_tok, nc_tok), &res_tok(&tp, |p| f(p.towed_mass_static.value)));
    let cars: Option<f64> = rvs.iter().try_fold(0.0, |acc, v| ncars.iter().find(|(k, _)| *k == v.key).map(|(_, n)| acc + (v.base + v.freight) * *n as f64));
    ctx.checked(P, "train_towed_mass");
    match (&tp, cars) {
        (Some(Ok(p)), Some(s)) => {
            ctx.count(if override_.is_some() { "mass.train.towed.override" } else { "mass.train.towed.cars" });
            let want = override_.unwrap_or(s);
            if !same(p.towed_mass_static.value, want) {
                ctx.fail(P, "train_towed_mass", &id, format!("towed_mass_static {} != {}", p.towed_mass_static.value, want), input.clone());
            }
        }
        (Some(Ok(p)), None) => ctx.fail(P, "train_towed_mass", &id, format!("accepted with a car type missing from n_cars_by_type: {}", p.towed_mass_static.value), input.clone()),
        (Some(Err(_)), Some(_)) => {
            // eager evaluation of the car sum cannot fail here, so a rejection is wrong
            ctx.fail(P, "train_towed_mass", &id, "make_train_params rejected complete car data".into(), input.clone());
        }
        (Some(Err(_)), None) => { ctx.count("mass.train.towed.rejected_missing_key"); if override_.is_some() { ctx.count("mass.train.towed.rejected_despite_override"); } }
        (None, _) => { ctx.count("mass.train.towed.panic"); if !rvs.is_empty() { ctx.fail(P, "no_panic", &id, "make_train_params panicked".into(), input.clone()); } }
    }
    // static mass of the built simulation
    let tsb = TrainSimBuilder::new("t".into(), tc, con.clone(), None, None, None);
    let parts = guard(|| tsb.make_set_speed_train_sim_and_parts(Vec::<Link>::new(), Vec::<LinkIdx>::new(), SpeedTrace::default(), None));
    let a = res_tok(&parts, |p| format!("{} {}", f(p.1.towed_mass_static.value), f(p.0.state.mass_static.value)));
    let emit = !lvs.iter().any(loco_odd);
    let id2 = if emit { ctx.op(P, "train_mass_static", &format!("{} {} {} {}", ov_tok, rv_tok, nc_tok, tok_locos(&lvs)), &a) } else { "unemitted".into() };
    ctx.checked(P, "train_static_mass");
    let cm = con.mass();
    let keys_ok = rvs.iter().all(|v| ncars.iter().any(|(k, _)| *k == v.key)) && ncars.iter().all(|(k, _)| rvs.iter().any(|v| v.key == *k));
    match (&parts, cars, &cm) {
        (Some(Ok(p)), Some(s), Ok(cm)) if keys_ok => {
            ctx.count(&format!("mass.train.static.ok.consist_{}", if cm.is_some() { "some" } else { "none" }));
            let want = override_.unwrap_or(s) + cm.map_or(0.0, |m| m.value);
            if !same(p.0.state.mass_static.value, want) {
                ctx.fail(P, "train_static_mass", &id2, format!("mass_static {} != cars/override {} + consist {:?}", p.0.state.mass_static.value, override_.unwrap_or(s), cm.map(|m| m.value)), input.clone());
            }
        }
        (Some(Ok(p)), _, _) => ctx.fail(P, "train_static_mass", &id2, format!("built a train (mass_static {}) from inconsistent inputs", p.0.state.mass_static.value), input.clone()),
        (Some(Err(_)), Some(_), Ok(_)) if keys_ok && !rvs.is_empty() => ctx.fail(P, "train_static_mass", &id2, "rejected consistent inputs".into(), input.clone()),
        (Some(Err(_)), _, _) => ctx.count("mass.train.static.rejected"),
        (None, _, _) => { ctx.count("mass.train.static.panic"); if !rvs.is_empty() { ctx.fail(P, "no_panic", &id2, "make_train_sim_parts panicked".into(), input.clone()); } }
    }
    ctx.sample("mass.train", input);
}

// ---------------------------------------------------------------- scripted (reject, then accept) sequences and corpus

fn scripted_starts() -> Vec<LocoV> {
    let fc = CompV { mass: Some(4000.0), spec: Some(250.0), rating: 1.0e6 };
    let gen = CompV { mass: Some(2000.0), spec: Some(500.0), rating: 1.0e6 };
    let res = CompV { mass: Some(8000.0), spec: Some(2.0), rating: 16000.0 };
    let none = |c: &CompV| CompV { mass: None, spec: None, rating: c.rating };
    let mu = 0.3;
    let mk = |kind: Kind, comps: Vec<CompV>, baseline: Option<f64>, ballast: Option<f64>, mass: Option<f64>, mu: Option<f64>| {
        let force = match (mu, mass) { (Some(a), Some(b)) => a * b * g(), _ => 667.2e3 };
        LocoV { kind, comps, mass, mu, ballast, baseline, force }
    };
    vec![
        // the shipped default: mass only
        mk(Kind::Conv, vec![none(&fc), none(&gen)], None, None, Some(195000.0), None),
        mk(Kind::Conv, vec![none(&fc), none(&gen)], None, None, Some(195000.0), Some(mu)),
        mk(Kind::Conv, vec![fc.clone(), gen.clone()], Some(150000.0), Some(5000.0), Some(161000.0), Some(mu)),
        mk(Kind::Bel, vec![res.clone()], Some(150000.0), Some(5000.0), Some(163000.0), Some(mu)),
        mk(Kind::Bel, vec![none(&res)], None, None, None, Some(mu)),
        mk(Kind::Hybrid, vec![fc, gen, res], Some(150000.0), Some(5000.0), Some(169000.0), Some(mu)),
        // DummyLoco as `build_dummy_loco` assembles it (default mass, no mu), and with only mu known
        mk(Kind::Dummy, vec![], None, None, Some(195000.0), None),
        mk(Kind::Dummy, vec![], None, None, None, Some(mu)),
    ]
}

fn scripted_cases(ctx: &mut Ctx, r: &mut Rng, t: &Tmpl) {
    let firsts = |v: &LocoV| -> Vec<LOp> {
        let m = v.mass.unwrap_or(1000.0);
        vec![
            LOp::SetMass(Some(m + 1000.0), MassSideEffect::None),
            LOp::SetMass(None, MassSideEffect::None),
            LOp::SetMass(Some(m), MassSideEffect::Extensive),
            LOp::SetForce(v.force * 1.5, Fse::Mass),
            LOp::SetMu(0.25, Muse::Mass),
            LOp::SetMu(0.25, Muse::ForceMax),
        ]
    };
    let seconds: Vec<LOp> = vec![
        LOp::SetForce(500.0e3, Fse::UpdateMu), LOp::SetForce(500.0e3, Fse::SetMuToNone), LOp::SetForce(500.0e3, Fse::SetMassToNone),
        LOp::SetForce(500.0e3, Fse::SetMassAndMuToNone), LOp::SetForce(500.0e3, Fse::Mass),
        LOp::SetMu(0.2, Muse::Mass), LOp::SetMu(0.2, Muse::ForceMax), LOp::SetMu(0.2, Muse::SetMassToNone),
        LOp::SetMass(None, MassSideEffect::None),
    ];
    for start in scripted_starts() {
        for a in firsts(&start) {
            for b in &seconds {
                ctx.count("mass.scripted.reject_then_accept");
                let script = vec![a.clone(), b.clone(), LOp::GetMass, LOp::GetForce, LOp::Load];
                loco_case(ctx, r, t, false, Some(script), Some(start.clone()));
            }
        }
    }
}

pub fn run(ctx: &mut Ctx, r: &mut Rng, tier: &str) {
    let t = Tmpl::new();
    let k = if tier == "thorough" { 15 } else { 1 };
    scripted_cases(ctx, r, &t);
    for _ in 0..(120 * k) {
        let mut rr = r.fork(); comp_case::<FuelConverter>(ctx, &mut rr, &t, false);
        let mut rr = r.fork(); comp_case::<Generator>(ctx, &mut rr, &t, false);
        let mut rr = r.fork(); comp_case::<ReversibleEnergyStorage>(ctx, &mut rr, &t, false);
    }
    for _ in 0..(20 * k) {
        let mut rr = r.fork(); comp_case::<FuelConverter>(ctx, &mut rr, &t, true);
        let mut rr = r.fork(); comp_case::<Generator>(ctx, &mut rr, &t, true);
        let mut rr = r.fork(); comp_case::<ReversibleEnergyStorage>(ctx, &mut rr, &t, true);
    }
    for _ in 0..(500 * k) { let mut rr = r.fork(); loco_case(ctx, &mut rr, &t, false, None, None); }
    for _ in 0..(60 * k) { let mut rr = r.fork(); loco_case(ctx, &mut rr, &t, true, None, None); }
    for i in 0..(150 * k) { let mut rr = r.fork(); consist_case(ctx, &mut rr, &t, if tier == "thorough" && i % 3 == 0 { 8 } else { 5 }); }
    for _ in 0..(150 * k) { let mut rr = r.fork(); train_case(ctx, &mut rr, &t); }
}
