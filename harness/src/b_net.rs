//! Block `net`: network validation (C16).
//!
//! Drives the real `<[Link] as ObjState>::validate` / `Network::validate` / `Network::from_json` /
//! `from_yaml` / `from_file` (incl. the legacy-layout fallback) on generated valid networks, on
//! every single-fault mutation of them (each rule, at each link), on pairs of mutations and on
//! out-of-range / NaN / ±∞ values in every numeric field.  Emits one op line per call for the Lean
//! model and checks the clauses of the property with an independent transcription of the
//! documented rules (`consistent`) on the implementation's own answers.
use crate::netgen::*;
use crate::prng::Rng;
use crate::proto::*;
use altrios_core::track::*;
use altrios_core::traits::SerdeAPI;
use altrios_core::uc;
use altrios_core::validate::*;
use serde_json::{json, Value};
use std::collections::HashMap;

const P: &str = "C16";
const TMP: &str = "/verif/work/net";
const SHIPPED: &str = "/repo/python/altrios/resources/networks";

// ------------------------------------------------------------------------------------------
// tokens (raw bit patterns: -0.0 and NaN payloads travel unchanged)
// ------------------------------------------------------------------------------------------

fn fb(x: f64) -> String {
    format!("x{:016x}", x.to_bits())
}
fn st(s: &str) -> String {
    let t: String = s.chars().map(|c| if c.is_whitespace() { '_' } else { c }).collect();
    format!("s:{}", t)
}
const ALL_TYPES: [TrainType; 7] = [
    TrainType::None,
    TrainType::Freight,
    TrainType::Passenger,
    TrainType::Intermodal,
    TrainType::HighSpeedPassenger,
    TrainType::TiltTrain,
    TrainType::Commuter,
];
fn tt(t: TrainType) -> &'static str {
    match t {
        TrainType::None => "None",
        TrainType::Freight => "Freight",
        TrainType::Passenger => "Passenger",
        TrainType::Intermodal => "Intermodal",
        TrainType::HighSpeedPassenger => "HighSpeedPassenger",
        TrainType::TiltTrain => "TiltTrain",
        TrainType::Commuter => "Commuter",
    }
}
fn tok_elev(e: &Elev) -> String {
    format!("{} {}", fb(e.offset.value), fb(e.elev.value))
}
fn tok_heading(h: &Heading) -> String {
    format!("{} {} {} {}", fb(h.offset.value), fb(h.heading.value), opt(&h.lat, |x| fb(*x)), opt(&h.lon, |x| fb(*x)))
}
fn tok_limit(s: &SpeedLimit) -> String {
    format!("{} {} {}", fb(s.offset_start.value), fb(s.offset_end.value), fb(s.speed.value))
}
fn tok_param(p: &SpeedParam) -> String {
    format!(
        "{} {} {}",
        fb(p.limit_val),
        match p.limit_type {
            LimitType::MassTotal => "MassTotal",
            LimitType::MassPerBrake => "MassPerBrake",
            LimitType::AxleCount => "AxleCount",
        },
        match p.compare_type {
            CompareType::TpEqualRp => "TpEqualRp",
            CompareType::TpGreaterThanRp => "TpGreaterThanRp",
            CompareType::TpLessThanRp => "TpLessThanRp",
            CompareType::TpGreaterThanEqualRp => "TpGreaterThanEqualRp",
            CompareType::TpLessThanEqualRp => "TpLessThanEqualRp",
        }
    )
}
fn tok_set(s: &SpeedSet) -> String {
    format!("{} {} {}", seq(&s.speed_limits, tok_limit), seq(&s.speed_params, tok_param), b(s.is_head_end))
}
fn tok_old_set(s: &OldSpeedSet) -> String {
    format!("{} {} {} {}", seq(&s.speed_limits, tok_limit), seq(&s.speed_params, tok_param), tt(s.train_type), b(s.is_head_end))
}
fn tok_cat(c: &CatPowerLimit) -> String {
    format!("{} {} {} {}", fb(c.offset_start.value), fb(c.offset_end.value), fb(c.power_limit.value), opt(&c.district_id, |s| st(s)))
}
/// `sorted`: hash map entries by train type (canonical, for comparing networks); otherwise in the
/// map's own iteration order (what `values()` hands to the validator)
fn tok_link(l: &Link, sorted: bool) -> String {
    let mut kv: Vec<(&TrainType, &SpeedSet)> = l.speed_sets.iter().collect();
    if sorted {
        kv.sort_by_key(|(k, _)| **k as u8);
    }
    format!(
        "{} {} {} {} {} {} {} {} {} {} {} {} {} {}",
        l.idx_curr.idx(),
        l.idx_flip.idx(),
        l.idx_next.idx(),
        l.idx_next_alt.idx(),
        l.idx_prev.idx(),
        l.idx_prev_alt.idx(),
        opt(&l.osm_id, |s| st(s)),
        fb(l.length.value),
        seq(&l.elevs, tok_elev),
        seq(&l.headings, tok_heading),
        seq(&kv, |(k, s)| format!("{} {}", tt(**k), tok_set(s))),
        opt(&l.speed_set, tok_set),
        seq(&l.cat_power_limits, tok_cat),
        seq(&l.link_idxs_lockout, |i| i.idx().to_string()),
    )
}
fn tok_net(n: &[Link], sorted: bool) -> String {
    seq(n, |l| tok_link(l, sorted))
}

/// a link in the legacy layout as the harness builds it: the link without speed information plus
/// the vector of legacy speed sets (order and duplicates chosen by the harness)
#[derive(Clone, Debug)]
struct Legacy {
    base: Link,
    sets: Vec<OldSpeedSet>,
}
/// field order of `link_old.rs::Link`
fn tok_legacy(l: &Legacy) -> String {
    let k = &l.base;
    format!(
        "{} {} {} {} {} {} {} {} {} {} {} {} {}",
        seq(&k.elevs, tok_elev),
        seq(&k.headings, tok_heading),
        seq(&l.sets, tok_old_set),
        seq(&k.cat_power_limits, tok_cat),
        fb(k.length.value),
        k.idx_next.idx(),
        k.idx_next_alt.idx(),
        k.idx_prev.idx(),
        k.idx_prev_alt.idx(),
        k.idx_curr.idx(),
        k.idx_flip.idx(),
        opt(&k.osm_id, |s| st(s)),
        seq(&k.link_idxs_lockout, |i| i.idx().to_string()),
    )
}
fn legacy_value(l: &Legacy) -> Value {
    let mut v = serde_json::to_value(&l.base).unwrap();
    let o = v.as_object_mut().unwrap();
    o.remove("speed_set");
    o.insert("speed_sets".into(), serde_json::to_value(&l.sets).unwrap());
    v
}
/// the same through serde_yaml's value type (keeps NaN / inf, which JSON values cannot)
fn legacy_yaml(ls: &[Legacy]) -> String {
    let seq: Vec<serde_yaml::Value> = ls
        .iter()
        .map(|l| {
            let mut v = serde_yaml::to_value(&l.base).unwrap();
            if let serde_yaml::Value::Mapping(mp) = &mut v {
                mp.remove(&serde_yaml::Value::String("speed_set".into()));
                mp.insert(serde_yaml::Value::String("speed_sets".into()), serde_yaml::to_value(&l.sets).unwrap());
            }
            v
        })
        .collect();
    serde_yaml::to_string(&serde_yaml::Value::Sequence(seq)).unwrap()
}

/// where two token strings first differ (for finding texts)
fn first_diff(a: &str, b: &str) -> String {
    let (ta, tb): (Vec<&str>, Vec<&str>) = (a.split(' ').collect(), b.split(' ').collect());
    let i = ta.iter().zip(tb.iter()).position(|(x, y)| x != y).unwrap_or(ta.len().min(tb.len()));
    let lo = i.saturating_sub(3);
    format!("token {}: got [{}] want [{}]", i, ta[lo..(i + 4).min(ta.len())].join(" "), tb[lo..(i + 4).min(tb.len())].join(" "))
}

fn verdict<T, E>(r: &Option<Result<T, E>>) -> &'static str {
    match r {
        None => "panic",
        Some(Err(_)) => "err",
        Some(Ok(_)) => "ok",
    }
}

// ------------------------------------------------------------------------------------------
// the independent oracle: the documented rules, written as plain quantified statements over f64
// (IEEE comparisons: anything involving NaN is false)
// ------------------------------------------------------------------------------------------

fn o_profile(offs: &[f64], len: f64) -> bool {
    let n = offs.len();
    n >= 2 && (0..n).all(|i| (i + 1..n).all(|j| offs[i] < offs[j])) && offs[0] == 0.0 && offs[n - 1] == len
}
fn o_elevs(es: &[Elev], len: f64) -> bool {
    let offs: Vec<f64> = es.iter().map(|e| e.offset.value).collect();
    o_profile(&offs, len) && es.iter().all(|e| e.elev.value.is_finite())
}
fn o_headings(hs: &[Heading], len: f64) -> bool {
    if hs.is_empty() {
        return true;
    }
    let offs: Vec<f64> = hs.iter().map(|h| h.offset.value).collect();
    o_profile(&offs, len) && hs.iter().all(|h| 0.0 <= h.heading.value && h.heading.value < 2.0 * std::f64::consts::PI)
}
fn o_limit(s: &SpeedLimit) -> bool {
    0.0 <= s.offset_start.value && s.offset_start.value <= s.offset_end.value && !s.speed.value.is_nan()
}
fn o_lex_le(a: &SpeedLimit, b: &SpeedLimit) -> bool {
    let (a, b) = ((a.offset_start.value, a.offset_end.value, a.speed.value), (b.offset_start.value, b.offset_end.value, b.speed.value));
    a.0 < b.0 || (a.0 == b.0 && (a.1 < b.1 || (a.1 == b.1 && a.2 <= b.2)))
}
fn o_param(p: &SpeedParam) -> bool {
    p.limit_val >= 0.0 && (p.limit_type != LimitType::AxleCount || p.limit_val.is_infinite() || p.limit_val % 1.0 == 0.0)
}
fn o_limits(ls: &[SpeedLimit]) -> bool {
    let n = ls.len();
    ls.iter().all(o_limit)
        && (0..n).all(|i| {
            (i + 1..n).all(|j| {
                o_lex_le(&ls[i], &ls[j]) && !(ls[i].offset_start == ls[j].offset_start && ls[i].offset_end == ls[j].offset_end)
            })
        })
}
fn o_params(ps: &[SpeedParam]) -> bool {
    ps.iter().all(o_param) && (1..ps.len()).all(|i| ps[i - 1] != ps[i])
}
fn o_speed_set(s: &SpeedSet) -> bool {
    !s.speed_limits.is_empty() && o_limits(&s.speed_limits) && o_params(&s.speed_params)
}
fn o_cats(xs: &[CatPowerLimit], len: f64) -> bool {
    let n = xs.len();
    xs.iter().all(|x| {
        0.0 <= x.offset_start.value && x.offset_start.value <= x.offset_end.value && x.offset_end.value <= len && 0.0 <= x.power_limit.value
    }) && (0..n).all(|i| (i + 1..n).all(|j| xs[i].offset_end.value <= xs[j].offset_start.value))
}
fn o_dummy(l: &Link) -> bool {
    [l.idx_curr, l.idx_flip, l.idx_next, l.idx_next_alt, l.idx_prev, l.idx_prev_alt].iter().all(|i| i.idx() == 0)
        && l.length.value == 0.0
        && l.elevs.is_empty()
        && l.headings.is_empty()
        && l.speed_sets.is_empty()
        && match &l.speed_set {
            None => true,
            Some(s) => s.speed_limits.is_empty() && s.speed_params.is_empty() && !s.is_head_end,
        }
        && l.cat_power_limits.is_empty()
}
fn o_link(l: &Link) -> bool {
    let len = l.length.value;
    let (c, f, nx, na, pv, pa) =
        (l.idx_curr.idx(), l.idx_flip.idx(), l.idx_next.idx(), l.idx_next_alt.idx(), l.idx_prev.idx(), l.idx_prev_alt.idx());
    c != 0
        && len > 0.0
        && o_elevs(&l.elevs, len)
        && o_headings(&l.headings, len)
        && ((!l.speed_sets.is_empty() && l.speed_set.is_none() && l.speed_sets.values().all(o_speed_set))
            || (l.speed_sets.is_empty() && l.speed_set.as_ref().map(o_speed_set).unwrap_or(false)))
        && o_cats(&l.cat_power_limits, len)
        && (f == 0 || (f != c && f != nx && f != na && f != pv && f != pa))
        && (na == 0 || nx != 0)
        && (pa == 0 || pv != 0)
}
pub fn consistent(n: &[Link]) -> bool {
    if n.len() < 2 || !o_dummy(&n[0]) {
        return false;
    }
    let get = |j: usize| n.get(j);
    (1..n.len()).all(|i| {
        let l = &n[i];
        let (f, nx, na, pv, pa) = (l.idx_flip.idx(), l.idx_next.idx(), l.idx_next_alt.idx(), l.idx_prev.idx(), l.idx_prev_alt.idx());
        o_link(l)
            && l.idx_curr.idx() == i
            && [f, nx, na, pv, pa].iter().all(|j| *j < n.len())
            && (f == 0 || get(f).map(|m| m.idx_flip.idx() == i).unwrap_or(false))
            && [nx, na].iter().all(|j| *j == 0 || get(*j).map(|m| m.idx_prev.idx() == i || m.idx_prev_alt.idx() == i).unwrap_or(false))
            && [pv, pa].iter().all(|j| *j == 0 || get(*j).map(|m| m.idx_next.idx() == i || m.idx_next_alt.idx() == i).unwrap_or(false))
            && (na == 0 || [nx, na].iter().all(|j| get(*j).map(|m| m.idx_prev_alt.idx() == 0).unwrap_or(true)))
            && (pa == 0 || [pv, pa].iter().all(|j| get(*j).map(|m| m.idx_next_alt.idx() == 0).unwrap_or(true)))
    })
}

// ------------------------------------------------------------------------------------------
// generators of valid networks
// ------------------------------------------------------------------------------------------

#[derive(Clone, Debug, Default)]
struct Topo {
    n: usize,
    next: Vec<[usize; 2]>,
    prev: Vec<[usize; 2]>,
}
impl Topo {
    fn new(n: usize) -> Self {
        Topo { n, next: vec![[0, 0]; n + 1], prev: vec![[0, 0]; n + 1] }
    }
    fn can_add(&self, a: usize, b: usize) -> bool {
        self.next[a][1] == 0 && self.prev[b][1] == 0 && !self.next[a].contains(&b) && !self.prev[b].contains(&a)
    }
    fn add(&mut self, a: usize, b: usize) {
        let i = if self.next[a][0] == 0 { 0 } else { 1 };
        self.next[a][i] = b;
        let j = if self.prev[b][0] == 0 { 0 } else { 1 };
        self.prev[b][j] = a;
    }
    /// no link with two successors is followed by a link with two predecessors
    fn switch_free(&self) -> bool {
        (1..=self.n).all(|a| {
            (self.next[a][1] == 0 || self.next[a].iter().all(|m| self.prev[*m][1] == 0))
                && (self.prev[a][1] == 0 || self.prev[a].iter().all(|m| self.next[*m][1] == 0))
        })
    }
    fn try_add(&mut self, a: usize, b: usize) -> bool {
        if !self.can_add(a, b) {
            return false;
        }
        let save = self.clone();
        self.add(a, b);
        if !self.switch_free() {
            *self = save;
            return false;
        }
        true
    }
}

fn gen_topo(r: &mut Rng, family: &str, n: usize) -> Topo {
    let mut t = Topo::new(n);
    match family {
        "ring" => {
            for i in 1..=n {
                t.add(i, i % n + 1);
            }
        }
        "docs" => {
            // the schematic of docs/src/api-doc/rail-network.md (forward links 1..7)
            t = Topo::new(7);
            for (a, b) in [(1, 4), (2, 3), (3, 4), (4, 7), (4, 5), (5, 6)] {
                t.add(a, b);
            }
        }
        "scissors" => {
            // deliberately NOT switch-free: 1 -> 3, 1 -> 4, 2 -> 3   (link 1 diverges, link 3 merges)
            t = Topo::new(n.max(4));
            for (a, b) in [(1, 3), (1, 4), (2, 3)] {
                t.add(a, b);
            }
            for i in 4..t.n {
                t.add(i, i + 1);
            }
        }
        _ => {
            for i in 1..n {
                t.add(i, i + 1);
            }
            if family == "junctions" {
                let k = r.usize(1, n);
                for _ in 0..k * 3 {
                    let a = r.usize(1, n);
                    let b = r.usize(1, n);
                    if a != b {
                        t.try_add(a, b);
                    }
                }
            }
        }
    }
    t
}

fn mirror(fwd: &Link) -> Link {
    let len = fwd.length;
    let mut l = fwd.clone();
    l.elevs = fwd.elevs.iter().rev().map(|e| Elev { offset: len - e.offset, elev: e.elev }).collect();
    l.headings = fwd.headings.iter().rev().map(|h| Heading { offset: len - h.offset, ..*h }).collect();
    l.cat_power_limits = vec![];
    l
}

#[derive(Clone, Debug)]
struct GenOpts {
    family: &'static str,
    n: usize,
    /// 0 = no reverse links, 1 = all, 2 = a random subset
    flips: u8,
    /// 0 = netgen's mix, 1 = every link uses the per-type map (legacy layout can express it)
    all_map: bool,
    lockouts: bool,
    grid: f64,
}

fn build(r: &mut Rng, g: &GenOpts) -> Vec<Link> {
    let t = gen_topo(r, g.family, g.n);
    let n = t.n;
    let o = NetOpts {
        n_links: n,
        grid: g.grid,
        len_lo: 4,
        len_hi: *r.pick(&[16, 200, 4000]),
        max_elev_pts: 5,
        max_speed_limits: 4,
        use_speed_sets_map: true,
        cat_power: true,
        speed_params: true,
        ..Default::default()
    };
    let mut net = vec![Link::default()];
    for k in 1..=n {
        let mut l = gen_link(r, k as u32, &o);
        if g.all_map {
            if let Some(s) = l.speed_set.take() {
                l.speed_sets.insert(*r.pick(&ALL_TYPES[1..]), s);
                if r.chance(0.3) {
                    let s2 = speed_set(r, (l.length.value / g.grid) as i64, &o);
                    l.speed_sets.insert(*r.pick(&ALL_TYPES[1..]), s2);
                }
            }
        }
        if r.chance(0.3) {
            l.osm_id = Some(format!("way {}_{}", r.below(100000), k));
        }
        l.idx_next = LinkIdx::new(t.next[k][0] as u32);
        l.idx_next_alt = LinkIdx::new(t.next[k][1] as u32);
        l.idx_prev = LinkIdx::new(t.prev[k][0] as u32);
        l.idx_prev_alt = LinkIdx::new(t.prev[k][1] as u32);
        net.push(l);
    }
    if g.flips > 0 {
        // which forward links get a reverse twin, and its index
        let mut twin = vec![0usize; n + 1];
        let mut cnt = n;
        for k in 1..=n {
            if g.flips == 1 || r.chance(0.6) {
                cnt += 1;
                twin[k] = cnt;
            }
        }
        for k in 1..=n {
            if twin[k] == 0 {
                continue;
            }
            let mut l = mirror(&net[k]);
            l.idx_curr = LinkIdx::new(twin[k] as u32);
            l.idx_flip = LinkIdx::new(k as u32);
            // successors of the twin = twins of the predecessors (those that exist), and vice versa
            let nx: Vec<usize> = t.prev[k].iter().map(|p| twin[*p]).filter(|x| *x != 0).collect();
            let pv: Vec<usize> = t.next[k].iter().map(|p| twin[*p]).filter(|x| *x != 0).collect();
            l.idx_next = LinkIdx::new(*nx.first().unwrap_or(&0) as u32);
            l.idx_next_alt = LinkIdx::new(*nx.get(1).unwrap_or(&0) as u32);
            l.idx_prev = LinkIdx::new(*pv.first().unwrap_or(&0) as u32);
            l.idx_prev_alt = LinkIdx::new(*pv.get(1).unwrap_or(&0) as u32);
            net[k].idx_flip = LinkIdx::new(twin[k] as u32);
            net.push(l);
        }
    }
    if g.lockouts {
        let len = net.len();
        for k in 1..len {
            if r.chance(0.3) {
                let m = r.usize(1, 2);
                net[k].link_idxs_lockout = (0..m).map(|_| LinkIdx::new(r.usize(1, len - 1) as u32)).collect();
            }
        }
    }
    net
}

// ------------------------------------------------------------------------------------------
// mutations
// ------------------------------------------------------------------------------------------

struct Mutant {
    name: String,
    /// Some(true): must still be accepted; Some(false): a rule is broken, must be rejected;
    /// None: the harness does not claim to know (the rules decide)
    expect: Option<bool>,
    net: Vec<Link>,
    /// link whose own `validate()` is also compared (0 = none)
    at: usize,
}

const NAN2: f64 = f64::NAN;
const INF: f64 = f64::INFINITY;

fn li(i: usize) -> LinkIdx {
    LinkIdx::new(i as u32)
}

fn each_set(l: &mut Link, which: usize, fun: impl Fn(&mut SpeedSet)) {
    // the `which`-th speed set of the link (type-neutral one first)
    if let Some(s) = l.speed_set.as_mut() {
        if which == 0 {
            fun(s);
        }
        return;
    }
    let mut keys: Vec<TrainType> = l.speed_sets.keys().copied().collect();
    keys.sort_by_key(|k| *k as u8);
    if let Some(k) = keys.get(which % keys.len().max(1)) {
        fun(l.speed_sets.get_mut(k).unwrap());
    }
}

/// all single-fault (and a number of benign) mutations of link `k` of a valid network
fn link_mutants(base: &[Link], k: usize, r: &mut Rng, out: &mut Vec<Mutant>) {
    let len = base.len();
    let l0 = &base[k];
    let lenv = l0.length.value;
    let mut push = |name: &str, expect: Option<bool>, edit: &dyn Fn(&mut Vec<Link>)| {
        let mut net = base.to_vec();
        edit(&mut net);
        out.push(Mutant { name: name.to_string(), expect, net, at: k });
    };
    let other = |pred: &dyn Fn(usize) -> bool| -> Option<usize> { (1..len).find(|j| *j != k && pred(*j)) };

    // ---- indices equal positions
    push("idx_curr_zero", Some(false), &|n| n[k].idx_curr = li(0));
    if let Some(j) = other(&|_| true) {
        push("idx_curr_other", Some(false), &|n| n[k].idx_curr = li(j));
        push("swap_positions", Some(false), &|n| n.swap(k, j));
    }
    push("idx_curr_oob", Some(false), &|n| n[k].idx_curr = li(len + 3));
    push("idx_curr_max", Some(false), &|n| n[k].idx_curr = LinkIdx::new(u32::MAX));

    // ---- references outside the network
    for (fname, sel) in [("flip", 0usize), ("next", 1), ("next_alt", 2), ("prev", 3), ("prev_alt", 4)] {
        for (vname, v) in [("len", len as u32), ("len_plus", len as u32 + 7), ("u32max", u32::MAX)] {
            push(&format!("oob_{}_{}", fname, vname), Some(false), &|n| {
                let x = LinkIdx::new(v);
                match sel {
                    0 => n[k].idx_flip = x,
                    1 => n[k].idx_next = x,
                    2 => n[k].idx_next_alt = x,
                    3 => n[k].idx_prev = x,
                    _ => n[k].idx_prev_alt = x,
                }
            });
        }
    }

    // ---- reverse-direction pairs
    push("flip_self", Some(false), &|n| n[k].idx_flip = li(k));
    if l0.idx_flip.idx() != 0 {
        let f = l0.idx_flip.idx();
        push("flip_one_sided", Some(false), &|n| n[f].idx_flip = li(0));
        push("flip_dropped_one_side", Some(false), &|n| n[k].idx_flip = li(0));
        if let Some(j) = other(&|j| j != f) {
            push("flip_wrong_target", Some(false), &|n| n[k].idx_flip = li(j));
        }
    } else if let Some(j) = other(&|j| base[j].idx_flip.idx() != k) {
        push("flip_unreciprocated", Some(false), &|n| n[k].idx_flip = li(j));
    }
    if l0.idx_next.idx() != 0 {
        push("flip_eq_next", Some(false), &|n| n[k].idx_flip = n[k].idx_next);
    }
    if l0.idx_next_alt.idx() != 0 {
        push("flip_eq_next_alt", Some(false), &|n| n[k].idx_flip = n[k].idx_next_alt);
    }
    if l0.idx_prev.idx() != 0 {
        push("flip_eq_prev", Some(false), &|n| n[k].idx_flip = n[k].idx_prev);
    }
    if l0.idx_prev_alt.idx() != 0 {
        push("flip_eq_prev_alt", Some(false), &|n| n[k].idx_flip = n[k].idx_prev_alt);
    }

    // ---- next / prev reciprocated, alternates only with primaries
    if l0.idx_next.idx() != 0 {
        push("next_dropped", Some(false), &|n| n[k].idx_next = li(0));
        if let Some(j) = other(&|j| base[j].idx_prev.idx() != k && base[j].idx_prev_alt.idx() != k) {
            push("next_redirected", Some(false), &|n| n[k].idx_next = li(j));
        }
        if l0.idx_next_alt.idx() == 0 {
            push("next_alt_dup_primary", None, &|n| n[k].idx_next_alt = n[k].idx_next);
            if let Some(j) = other(&|j| base[j].idx_prev.idx() != k && base[j].idx_prev_alt.idx() != k) {
                push("next_alt_unreciprocated", Some(false), &|n| n[k].idx_next_alt = li(j));
            }
        } else {
            push("next_alt_dropped", Some(false), &|n| n[k].idx_next_alt = li(0));
            push("next_swapped_with_alt", Some(true), &|n| {
                let a = n[k].idx_next;
                n[k].idx_next = n[k].idx_next_alt;
                n[k].idx_next_alt = a;
            });
        }
    } else if let Some(j) = other(&|_| true) {
        push("next_alt_without_primary", Some(false), &|n| n[k].idx_next_alt = li(j));
        push("next_unreciprocated", if base[j].idx_prev.idx() == k || base[j].idx_prev_alt.idx() == k { None } else { Some(false) }, &|n| {
            n[k].idx_next = li(j)
        });
    }
    if l0.idx_prev.idx() != 0 {
        push("prev_dropped", Some(false), &|n| n[k].idx_prev = li(0));
        if let Some(j) = other(&|j| base[j].idx_next.idx() != k && base[j].idx_next_alt.idx() != k) {
            push("prev_redirected", Some(false), &|n| n[k].idx_prev = li(j));
        }
        if l0.idx_prev_alt.idx() == 0 {
            push("prev_alt_dup_primary", None, &|n| n[k].idx_prev_alt = n[k].idx_prev);
            if let Some(j) = other(&|j| base[j].idx_next.idx() != k && base[j].idx_next_alt.idx() != k) {
                push("prev_alt_unreciprocated", Some(false), &|n| n[k].idx_prev_alt = li(j));
            }
        } else {
            push("prev_alt_dropped", Some(false), &|n| n[k].idx_prev_alt = li(0));
            push("prev_swapped_with_alt", Some(true), &|n| {
                let a = n[k].idx_prev;
                n[k].idx_prev = n[k].idx_prev_alt;
                n[k].idx_prev_alt = a;
            });
        }
    } else if let Some(j) = other(&|_| true) {
        push("prev_alt_without_primary", Some(false), &|n| n[k].idx_prev_alt = li(j));
    }

    // ---- things validation does not look at
    push("lockout_out_of_range", Some(true), &|n| n[k].link_idxs_lockout = vec![li(len + 5), LinkIdx::new(u32::MAX)]);
    push("osm_id_changed", Some(true), &|n| n[k].osm_id = Some("x y".into()));

    // ---- length
    for (name, v, e) in [
        ("length_zero", 0.0, Some(false)),
        ("length_neg_zero", -0.0, Some(false)),
        ("length_negative", -lenv, Some(false)),
        ("length_nan", NAN2, Some(false)),
        ("length_pos_inf", INF, Some(false)),
        ("length_neg_inf", -INF, Some(false)),
        ("length_longer", lenv + 1.0, Some(false)),
        ("length_shorter", lenv * 0.5, Some(false)),
        ("length_next_up", f64::from_bits(lenv.to_bits() + 1), Some(false)),
    ] {
        push(name, e, &|n| n[k].length = m(v));
    }
    // an infinitely long link whose profiles end at +inf satisfies every stated rule
    push("length_inf_profiles_inf", Some(true), &|n| {
        n[k].length = m(INF);
        n[k].elevs.last_mut().unwrap().offset = m(INF);
        if let Some(h) = n[k].headings.last_mut() {
            h.offset = m(INF);
        }
    });

    // ---- elevations
    let ne = l0.elevs.len();
    push("elevs_empty", Some(false), &|n| n[k].elevs.clear());
    push("elevs_single", Some(false), &|n| n[k].elevs.truncate(1));
    push("elevs_first_not_zero", Some(false), &|n| n[k].elevs[0].offset = m(n[k].elevs[1].offset.value * 0.5));
    push("elevs_first_negative", Some(false), &|n| n[k].elevs[0].offset = m(-1.0));
    push("elevs_first_neg_zero", Some(true), &|n| n[k].elevs[0].offset = m(-0.0));
    push("elevs_last_beyond", Some(false), &|n| n[k].elevs[ne - 1].offset += m(1.0));
    push("elevs_last_short", Some(false), &|n| {
        let a = n[k].elevs[ne - 2].offset.value;
        n[k].elevs[ne - 1].offset = m(0.5 * (a + lenv))
    });
    push("elevs_duplicate_offset", Some(false), &|n| {
        let e = n[k].elevs[ne - 1];
        n[k].elevs.push(e)
    });
    if ne >= 3 {
        push("elevs_unsorted", Some(false), &|n| {
            let a = n[k].elevs[1].offset;
            n[k].elevs[1].offset = n[k].elevs[2].offset;
            n[k].elevs[2].offset = a;
        });
        push("elevs_equal_neighbours", Some(false), &|n| n[k].elevs[1].offset = n[k].elevs[0].offset);
        push("elevs_mid_inf", Some(false), &|n| n[k].elevs[1].offset = m(INF));
        push("elevs_point_removed", Some(true), &|n| {
            n[k].elevs.remove(1);
        });
    }
    let j = r.usize(0, ne - 1);
    for (name, v) in [("nan", NAN2), ("pos_inf", INF), ("neg_inf", -INF)] {
        push(&format!("elev_value_{}", name), Some(false), &|n| n[k].elevs[j].elev = m(v));
        push(&format!("elev_offset_{}", name), Some(false), &|n| n[k].elevs[j].offset = m(v));
    }
    push("elev_value_changed", Some(true), &|n| n[k].elevs[j].elev = m(-12345.5));

    // ---- headings
    if l0.headings.is_empty() {
        push("headings_added", Some(true), &|n| {
            n[k].headings = vec![
                Heading { offset: m(0.0), heading: uc::RAD * 0.0, lat: None, lon: None },
                Heading { offset: m(lenv), heading: uc::RAD * 6.283185307179585, lat: Some(NAN2), lon: Some(-INF) },
            ]
        });
        push("headings_single", Some(false), &|n| n[k].headings = vec![Heading { offset: m(0.0), heading: uc::RAD * 1.0, lat: None, lon: None }]);
        push("headings_not_spanning", Some(false), &|n| {
            n[k].headings = vec![
                Heading { offset: m(0.0), heading: uc::RAD * 1.0, lat: None, lon: None },
                Heading { offset: m(lenv * 0.5), heading: uc::RAD * 1.0, lat: None, lon: None },
            ]
        });
    } else {
        let nh = l0.headings.len();
        let j = r.usize(0, nh - 1);
        push("headings_removed", Some(true), &|n| n[k].headings.clear());
        push("headings_single", Some(false), &|n| n[k].headings.truncate(1));
        push("headings_first_not_zero", Some(false), &|n| n[k].headings[0].offset = m(n[k].headings[1].offset.value * 0.5));
        push("headings_last_beyond", Some(false), &|n| n[k].headings[nh - 1].offset += m(1.0));
        push("headings_duplicate_offset", Some(false), &|n| {
            let e = n[k].headings[nh - 1];
            n[k].headings.push(e)
        });
        if nh >= 3 {
            push("headings_unsorted", Some(false), &|n| {
                let a = n[k].headings[1].offset;
                n[k].headings[1].offset = n[k].headings[2].offset;
                n[k].headings[2].offset = a;
            });
        }
        for (name, v, e) in [
            ("one_rev", 6.283185307179586, Some(false)),
            ("below_one_rev", 6.283185307179585, Some(true)),
            ("above_one_rev", 7.0, Some(false)),
            ("slightly_negative", -1e-8, Some(false)),
            ("neg_zero", -0.0, Some(true)),
            ("zero", 0.0, Some(true)),
            ("nan", NAN2, Some(false)),
            ("pos_inf", INF, Some(false)),
            ("neg_inf", -INF, Some(false)),
        ] {
            push(&format!("heading_value_{}", name), e, &|n| n[k].headings[j].heading = uc::RAD * v);
        }
        push("heading_offset_nan", Some(false), &|n| n[k].headings[j].offset = m(NAN2));
        push("heading_latlon_nan", Some(true), &|n| {
            n[k].headings[j].lat = Some(NAN2);
            n[k].headings[j].lon = Some(INF)
        });
    }

    // ---- speed sets: exactly one of map / neutral set
    let valid_set = SpeedSet {
        speed_limits: vec![SpeedLimit { offset_start: m(0.0), offset_end: m(lenv), speed: mps(10.0) }],
        speed_params: vec![],
        is_head_end: false,
    };
    {
        let vs = valid_set.clone();
        push("speed_both_given", Some(false), &|n| {
            if n[k].speed_set.is_some() {
                n[k].speed_sets.insert(TrainType::Freight, vs.clone());
            } else {
                n[k].speed_set = Some(vs.clone());
            }
        });
    }
    push("speed_neither_given", Some(false), &|n| {
        n[k].speed_set = None;
        n[k].speed_sets.clear();
    });
    {
        let vs = valid_set.clone();
        push("speed_layout_switched", Some(true), &|n| {
            if n[k].speed_set.is_some() {
                n[k].speed_set = None;
                n[k].speed_sets.insert(TrainType::None, vs.clone());
            } else {
                n[k].speed_sets.clear();
                n[k].speed_set = Some(vs.clone());
            }
        });
    }
    push("speed_extra_empty_set_in_map", if l0.speed_set.is_some() { Some(false) } else { Some(false) }, &|n| {
        n[k].speed_sets.insert(TrainType::TiltTrain, SpeedSet::default());
        // (with a neutral set present this is also "both given")
    });
    let nsets = if l0.speed_set.is_some() { 1 } else { l0.speed_sets.len() };
    let w = r.usize(0, nsets.max(1) - 1);
    push("speed_set_without_limits", Some(false), &|n| each_set(&mut n[k], w, |s| s.speed_limits.clear()));
    push("speed_limit_start_after_end", Some(false), &|n| {
        each_set(&mut n[k], w, |s| {
            let q = s.speed_limits.last_mut().unwrap();
            q.offset_start = q.offset_end + m(1.0);
        })
    });
    push("speed_limit_negative_start", Some(false), &|n| each_set(&mut n[k], w, |s| s.speed_limits[0].offset_start = m(-1.0)));
    for (name, v) in [("nan", NAN2), ("neg_inf", -INF)] {
        push(&format!("speed_limit_start_{}", name), Some(false), &|n| each_set(&mut n[k], w, |s| s.speed_limits[0].offset_start = m(v)));
        push(&format!("speed_limit_end_{}", name), Some(false), &|n| each_set(&mut n[k], w, |s| s.speed_limits.last_mut().unwrap().offset_end = m(v)));
    }
    push("speed_limit_start_pos_inf", Some(false), &|n| each_set(&mut n[k], w, |s| s.speed_limits[0].offset_start = m(INF)));
    push("speed_limit_last_end_pos_inf", Some(true), &|n| each_set(&mut n[k], w, |s| s.speed_limits.last_mut().unwrap().offset_end = m(INF)));
    push("speed_value_nan", Some(false), &|n| each_set(&mut n[k], w, |s| s.speed_limits[0].speed = mps(NAN2)));
    for (name, v) in [("pos_inf", INF), ("neg_inf", -INF), ("negative", -3.0), ("zero", 0.0)] {
        push(&format!("speed_value_{}", name), Some(true), &|n| each_set(&mut n[k], w, |s| s.speed_limits[0].speed = mps(v)));
    }
    push("speed_limits_duplicate_bounds", Some(false), &|n| {
        each_set(&mut n[k], w, |s| {
            let mut q = s.speed_limits[0];
            q.speed += mps(1.0);
            s.speed_limits.insert(1, q);
        })
    });
    push("speed_limits_unsorted", Some(false), &|n| {
        each_set(&mut n[k], w, |s| {
            // a restriction that sorts strictly before the first one, appended at the end
            let q = s.speed_limits[0];
            let e = if q.offset_end.value > q.offset_start.value { 0.5 * (q.offset_start.value + q.offset_end.value) } else { q.offset_end.value };
            if e < q.offset_end.value {
                s.speed_limits.push(SpeedLimit { offset_start: q.offset_start, offset_end: m(e), speed: q.speed });
            } else {
                s.speed_limits.push(SpeedLimit { offset_start: q.offset_start, offset_end: q.offset_end, speed: q.speed - mps(1.0) });
            }
        })
    });
    push("speed_limits_overlapping", Some(true), &|n| {
        each_set(&mut n[k], w, |s| {
            // a restriction overlapping the last one (sorted after it): sorted + unique is all that is asked
            let q = *s.speed_limits.last().unwrap();
            s.speed_limits.push(SpeedLimit { offset_start: q.offset_start, offset_end: q.offset_end + m(3.0), speed: q.speed });
        })
    });
    for (name, p, e) in [
        ("negative", SpeedParam { limit_val: -1.0, limit_type: LimitType::MassTotal, compare_type: CompareType::TpLessThanRp }, Some(false)),
        ("nan", SpeedParam { limit_val: NAN2, limit_type: LimitType::MassPerBrake, compare_type: CompareType::TpLessThanRp }, Some(false)),
        ("neg_inf", SpeedParam { limit_val: -INF, limit_type: LimitType::MassPerBrake, compare_type: CompareType::TpLessThanRp }, Some(false)),
        ("pos_inf", SpeedParam { limit_val: INF, limit_type: LimitType::AxleCount, compare_type: CompareType::TpLessThanRp }, Some(true)),
        ("axles_fractional", SpeedParam { limit_val: 100.5, limit_type: LimitType::AxleCount, compare_type: CompareType::TpGreaterThanRp }, Some(false)),
        ("axles_integer", SpeedParam { limit_val: 100.0, limit_type: LimitType::AxleCount, compare_type: CompareType::TpGreaterThanRp }, Some(true)),
        ("mass_fractional", SpeedParam { limit_val: 100.5, limit_type: LimitType::MassTotal, compare_type: CompareType::TpEqualRp }, Some(true)),
        ("neg_zero", SpeedParam { limit_val: -0.0, limit_type: LimitType::AxleCount, compare_type: CompareType::TpEqualRp }, Some(true)),
    ] {
        push(&format!("speed_param_{}", name), e, &|n| each_set(&mut n[k], w, |s| s.speed_params = vec![p]));
    }
    let pa = SpeedParam { limit_val: 1.0e5, limit_type: LimitType::MassTotal, compare_type: CompareType::TpGreaterThanRp };
    let pb = SpeedParam { limit_val: 400.0, limit_type: LimitType::AxleCount, compare_type: CompareType::TpLessThanRp };
    push("speed_params_equal_neighbours", Some(false), &|n| each_set(&mut n[k], w, |s| s.speed_params = vec![pb, pa, pa]));
    push("speed_params_equal_zero_signs", Some(false), &|n| {
        each_set(&mut n[k], w, |s| {
            s.speed_params = vec![SpeedParam { limit_val: 0.0, ..pa }, SpeedParam { limit_val: -0.0, ..pa }]
        })
    });
    push("speed_params_equal_non_neighbours", Some(true), &|n| each_set(&mut n[k], w, |s| s.speed_params = vec![pa, pb, pa]));

    // ---- catenary sections
    let c = |a: f64, e: f64, p: f64| CatPowerLimit { offset_start: m(a), offset_end: m(e), power_limit: uc::W * p, district_id: None };
    let q = lenv / 4.0;
    for (name, xs, e) in [
        ("one_full", vec![c(0.0, lenv, 1e6)], Some(true)),
        ("disjoint", vec![c(0.0, q, 1e6), c(2.0 * q, 3.0 * q, 2e6)], Some(true)),
        ("abutting", vec![c(0.0, q, 1e6), c(q, lenv, 2e6)], Some(true)),
        ("zero_length_section", vec![c(q, q, 1e6), c(q, lenv, 2e6)], Some(true)),
        ("power_zero_inf", vec![c(0.0, q, 0.0), c(q, lenv, INF)], Some(true)),
        ("overlapping", vec![c(0.0, 2.0 * q, 1e6), c(q, 3.0 * q, 2e6)], Some(false)),
        ("nested", vec![c(0.0, lenv, 1e6), c(q, 2.0 * q, 2e6)], Some(false)),
        ("overlapping_non_neighbours", vec![c(0.0, 3.0 * q, 1e6), c(3.0 * q, 3.0 * q, 1e6), c(q, lenv, 2e6)], Some(false)),
        ("unsorted", vec![c(2.0 * q, 3.0 * q, 1e6), c(0.0, q, 2e6)], Some(false)),
        ("start_after_end", vec![c(2.0 * q, q, 1e6)], Some(false)),
        ("negative_start", vec![c(-1.0, q, 1e6)], Some(false)),
        ("beyond_length", vec![c(0.0, lenv + 1.0, 1e6)], Some(false)),
        ("beyond_length_not_last", vec![c(0.0, lenv + 1.0, 1e6), c(lenv + 1.0, lenv + 1.0, 1e6), c(lenv + 1.0, lenv, 1e6)], Some(false)),
        ("end_inf", vec![c(0.0, INF, 1e6)], Some(false)),
        ("start_nan", vec![c(NAN2, q, 1e6)], Some(false)),
        ("end_nan", vec![c(0.0, NAN2, 1e6)], Some(false)),
        ("power_nan", vec![c(0.0, q, NAN2)], Some(false)),
        ("power_negative", vec![c(0.0, q, -1.0)], Some(false)),
        ("power_neg_inf", vec![c(0.0, q, -INF)], Some(false)),
    ] {
        push(&format!("cat_{}", name), e, &|n| n[k].cat_power_limits = xs.clone());
    }
}

/// mutations of the network as a whole and of the dummy entry
fn net_mutants(base: &[Link], out: &mut Vec<Mutant>) {
    let mut push = |name: &str, expect: Option<bool>, edit: &dyn Fn(&mut Vec<Link>)| {
        let mut net = base.to_vec();
        edit(&mut net);
        out.push(Mutant { name: name.to_string(), expect, net, at: 0 });
    };
    let vs = SpeedSet {
        speed_limits: vec![SpeedLimit { offset_start: m(0.0), offset_end: m(1.0), speed: mps(10.0) }],
        speed_params: vec![],
        is_head_end: false,
    };
    push("unchanged", Some(true), &|_| {});
    push("net_empty", Some(false), &|n| n.clear());
    push("net_only_dummy", Some(false), &|n| n.truncate(1));
    push("net_dummy_removed", Some(false), &|n| {
        n.remove(0);
    });
    push("net_dummy_duplicated", Some(false), &|n| n.insert(0, Link::default()));
    push("net_dummy_at_end", Some(false), &|n| n.push(Link::default()));
    push("net_last_link_removed", None, &|n| {
        n.pop();
    });
    for (name, sel) in [("curr", 0), ("flip", 1), ("next", 2), ("next_alt", 3), ("prev", 4), ("prev_alt", 5)] {
        push(&format!("dummy_idx_{}_real", name), Some(false), &|n| {
            let x = li(1);
            match sel {
                0 => n[0].idx_curr = x,
                1 => n[0].idx_flip = x,
                2 => n[0].idx_next = x,
                3 => n[0].idx_next_alt = x,
                4 => n[0].idx_prev = x,
                _ => n[0].idx_prev_alt = x,
            }
        });
    }
    for (name, v, e) in [("one", 1.0, Some(false)), ("nan", NAN2, Some(false)), ("inf", INF, Some(false)), ("neg_zero", -0.0, Some(true)), ("tiny", 5e-324, Some(false))] {
        push(&format!("dummy_length_{}", name), e, &|n| n[0].length = m(v));
    }
    push("dummy_with_elevs", Some(false), &|n| n[0].elevs = n[1].elevs.clone());
    push("dummy_with_one_elev", Some(false), &|n| n[0].elevs = n[1].elevs[..1].to_vec());
    push("dummy_with_headings", Some(false), &|n| {
        n[0].headings = vec![Heading { offset: m(0.0), heading: uc::RAD * 0.0, lat: None, lon: None }, Heading { offset: m(1.0), heading: uc::RAD * 0.0, lat: None, lon: None }]
    });
    {
        let vs = vs.clone();
        push("dummy_with_speed_sets", Some(false), &|n| {
            n[0].speed_sets.insert(TrainType::Freight, vs.clone());
        });
    }
    {
        let vs = vs.clone();
        push("dummy_with_speed_set", Some(false), &|n| n[0].speed_set = Some(vs.clone()));
    }
    push("dummy_with_empty_speed_set", Some(true), &|n| n[0].speed_set = Some(SpeedSet::default()));
    push("dummy_with_empty_head_end_set", Some(false), &|n| n[0].speed_set = Some(SpeedSet { is_head_end: true, ..Default::default() }));
    push("dummy_with_empty_set_with_params", Some(false), &|n| {
        n[0].speed_set = Some(SpeedSet { speed_params: vec![SpeedParam::default()], ..Default::default() })
    });
    push("dummy_with_cat", Some(false), &|n| {
        n[0].cat_power_limits = vec![CatPowerLimit { offset_start: m(0.0), offset_end: m(0.0), power_limit: uc::W * 1.0, district_id: None }]
    });
    push("dummy_with_lockout_and_osm", Some(true), &|n| {
        n[0].link_idxs_lockout = vec![li(1)];
        n[0].osm_id = Some("dummy".into())
    });
}

// ------------------------------------------------------------------------------------------
// one case: every path through the real code, op lines, oracle clauses
// ------------------------------------------------------------------------------------------

fn net_all_finite(n: &[Link]) -> bool {
    let sl = |s: &SpeedSet| {
        s.speed_limits.iter().all(|q| q.offset_start.value.is_finite() && q.offset_end.value.is_finite() && q.speed.value.is_finite())
            && s.speed_params.iter().all(|p| p.limit_val.is_finite())
    };
    n.iter().all(|l| {
        l.length.value.is_finite()
            && l.elevs.iter().all(|e| e.offset.value.is_finite() && e.elev.value.is_finite())
            && l.headings.iter().all(|h| {
                h.offset.value.is_finite() && h.heading.value.is_finite() && h.lat.map(|x| x.is_finite()).unwrap_or(true) && h.lon.map(|x| x.is_finite()).unwrap_or(true)
            })
            && l.speed_sets.values().all(sl)
            && l.speed_set.as_ref().map(sl).unwrap_or(true)
            && l.cat_power_limits.iter().all(|c| c.offset_start.value.is_finite() && c.offset_end.value.is_finite() && c.power_limit.value.is_finite())
    })
}

/// token strings equal up to one unit in the last place per number (serde_json's default float
/// parser is not correctly rounded; that is property C17's subject, not this one's)
fn close_1ulp(a: &str, b: &str) -> bool {
    let (ta, tb): (Vec<&str>, Vec<&str>) = (a.split(' ').collect(), b.split(' ').collect());
    ta.len() == tb.len()
        && ta.iter().zip(tb.iter()).all(|(x, y)| {
            x == y
                || (x.starts_with('x') && y.starts_with('x') && {
                    match (u64::from_str_radix(&x[1..], 16), u64::from_str_radix(&y[1..], 16)) {
                        (Ok(p), Ok(q)) => p.abs_diff(q) <= 1,
                        _ => false,
                    }
                })
        })
}

struct Seen {
    direct: &'static str,
    /// the JSON text of this network parses back to exactly this network
    json_faithful: bool,
}

fn run_case(ctx: &mut Ctx, name: &str, expect: Option<bool>, net: &[Link], at: usize, serde_paths: bool, files: bool, tag: &str) -> Seen {
    let netv = net.to_vec();
    let tokens = tok_net(net, false);
    let canon = tok_net(net, true);
    let input = json!({"case": tag, "mutation": name, "network_tokens": tokens.clone(),
        "network_json": serde_json::to_value(&netv).unwrap_or(Value::Null)});

    // ---- the implementation, directly
    let direct = guard(|| netv.validate());
    let vd = verdict(&direct);
    let id = ctx.op(P, "validate_net", &tokens, vd);
    ctx.count(&format!("net.verdict.{}", vd));
    ctx.count(&format!("net.mut.{}", name));

    ctx.checked(P, "never_panics");
    if direct.is_none() {
        ctx.fail(P, "never_panics", &id, format!("<[Link]>::validate panicked (mutation {})", name), input.clone());
    }
    // accept <=> rules
    let want = consistent(net);
    ctx.checked(P, "accept_iff_rules");
    ctx.count(if want { "net.rules.consistent" } else { "net.rules.inconsistent" });
    if (vd == "ok") != want && direct.is_some() {
        ctx.fail(P, "accept_iff_rules", &id,
            format!("validator says {} but the documented rules say {} (mutation {})", vd, if want { "consistent" } else { "inconsistent" }, name),
            input.clone());
    }
    // the mutator's own label
    if let Some(e) = expect {
        ctx.checked(P, if e { "benign_accepted" } else { "fault_rejected" });
        if (vd == "ok") != e && direct.is_some() {
            ctx.fail(P, if e { "benign_accepted" } else { "fault_rejected" }, &id,
                format!("mutation {} should be {} but validate() returned {}", name, if e { "accepted" } else { "rejected" }, vd),
                input.clone());
        }
        if want != e {
            // the harness' two opinions disagree: a harness defect, reported loudly
            ctx.fail(P, "harness_label_vs_rules", &id, format!("mutation {} labelled {} but rules say {}", name, e, want), input.clone());
        }
    }
    // the mutated link on its own
    if at != 0 && at < net.len() {
        let l = net[at].clone();
        let r = guard(|| l.validate());
        let v = verdict(&r);
        let lid = ctx.op(P, "validate_link", &tok_link(&l, false), v);
        ctx.checked(P, "link_accept_iff_rules");
        let w = if l.idx_curr.idx() == 0 { o_dummy(&l) } else { o_link(&l) };
        if r.is_none() || (v == "ok") != w {
            ctx.fail(P, if r.is_none() { "never_panics" } else { "link_accept_iff_rules" }, &lid,
                format!("Link::validate says {} but the per-link rules say {} (mutation {})", v, w, name), input.clone());
        }
    }
    if !serde_paths {
        return Seen { direct: vd, json_faithful: false };
    }
    let mut json_faithful = false;

    // ---- Network wrapper and the string round trips
    let nw = Network(netv.clone());
    let vw = verdict(&guard(|| nw.validate()));
    ctx.checked(P, "paths_agree");
    if vw != vd {
        ctx.fail(P, "paths_agree", &id, format!("Network::validate {} vs [Link]::validate {}", vw, vd), input.clone());
    }
    for fmt in ["json", "yaml"] {
        let s = match fmt {
            "json" => nw.to_json(),
            _ => nw.to_yaml(),
        };
        let s = match s {
            Ok(s) => s,
            Err(_) => {
                ctx.count(&format!("net.{}.serialize_failed", fmt));
                continue;
            }
        };
        // what the text denotes, parsed without validation
        let parsed: Option<Network> = match fmt {
            "json" => serde_json::from_str(&s).ok(),
            _ => serde_yaml::from_str(&s).ok(),
        };
        let same = parsed.as_ref().map(|p| tok_net(&p.0, true) == canon).unwrap_or(false);
        let loaded = guard(|| match fmt {
            "json" => Network::from_json(&s),
            _ => Network::from_yaml(&s),
        });
        let vl = verdict(&loaded);
        ctx.checked(P, "never_panics");
        if loaded.is_none() {
            ctx.fail(P, "never_panics", &id, format!("Network::from_{} panicked (mutation {})", fmt, name), input.clone());
        }
        if same {
            if fmt == "json" {
                json_faithful = true;
            }
            ctx.count(&format!("net.{}.roundtrip_same", fmt));
            ctx.checked(P, "paths_agree");
            if vl != vd {
                ctx.fail(P, "paths_agree", &id, format!("Network::from_{} {} vs direct validate {} (mutation {})", fmt, vl, vd, name), input.clone());
            }
            if let Some(Ok(n2)) = &loaded {
                if tok_net(&n2.0, true) != canon {
                    ctx.fail(P, "paths_agree", &id, format!("Network::from_{} returned a different network (mutation {})", fmt, name), input.clone());
                }
            }
        } else {
            // JSON has no NaN/inf (serde_json writes null), and serde_json's float parser may be off
            // by one ulp: in both cases the text does not denote the network
            let drift = parsed.as_ref().map(|p| close_1ulp(&tok_net(&p.0, true), &canon)).unwrap_or(false);
            if drift {
                ctx.count(&format!("net.{}.float_parse_drift", fmt));
            } else if !net_all_finite(net) {
                ctx.count(&format!("net.{}.non_finite_not_representable", fmt));
            } else {
                ctx.checked(P, "paths_agree");
                ctx.fail(P, "paths_agree", &id, format!("{} text of an all-finite network does not parse back to it (mutation {})", fmt, name), input.clone());
            }
        }
        if files && same {
            let path = format!("{}/cur_{}.{}", TMP, ctx.case_no, fmt);
            if std::fs::write(&path, &s).is_ok() {
                let lf = guard(|| Network::from_file(&path));
                let vf = verdict(&lf);
                ctx.checked(P, "paths_agree");
                ctx.count("net.file.current_layout");
                if vf != vd {
                    ctx.fail(P, "paths_agree", &id, format!("Network::from_file({}) {} vs direct validate {} (mutation {})", fmt, vf, vd, name), input.clone());
                }
                let _ = std::fs::remove_file(&path);
            }
        }
    }
    Seen { direct: vd, json_faithful }
}

/// the legacy layout of `net` (every link must have `speed_set == None`)
fn to_legacy(r: &mut Rng, net: &[Link], shadow: bool) -> Vec<Legacy> {
    net.iter()
        .map(|l| {
            let mut base = l.clone();
            base.speed_sets = HashMap::new();
            base.speed_set = None;
            let mut sets: Vec<OldSpeedSet> = l
                .speed_sets
                .iter()
                .map(|(k, s)| OldSpeedSet { speed_limits: s.speed_limits.clone(), speed_params: s.speed_params.clone(), train_type: *k, is_head_end: s.is_head_end })
                .collect();
            r.shuffle(&mut sets);
            if shadow && !sets.is_empty() && r.chance(0.7) {
                // an earlier entry of the same train type that the later one must override
                let i = r.usize(0, sets.len() - 1);
                let mut g = sets[i].clone();
                g.is_head_end = !g.is_head_end;
                g.speed_limits.truncate(1);
                if let Some(q) = g.speed_limits.first_mut() {
                    q.speed += mps(1.0);
                }
                let at = r.usize(0, i);
                sets.insert(at, g);
            }
            Legacy { base, sets }
        })
        .collect()
}

fn legacy_case(ctx: &mut Ctx, r: &mut Rng, name: &str, net: &[Link], seen: &Seen, files: bool, emit_links: bool, tag: &str) {
    let direct = seen.direct;
    if net.iter().any(|l| l.speed_set.is_some()) {
        ctx.count("net.legacy.not_expressible");
        return;
    }
    let shadow = r.chance(0.4);
    let leg = to_legacy(r, net, shadow);
    ctx.count(if shadow { "net.legacy.with_shadowed_duplicates" } else { "net.legacy.plain" });
    let val = Value::Array(leg.iter().map(legacy_value).collect());
    let canon = tok_net(net, true);
    let input = json!({"case": tag, "mutation": name, "legacy_json": val.clone(), "network_tokens": tok_net(net, false)});
    let finite = seen.json_faithful;
    let text = if finite { serde_json::to_string(&val).unwrap() } else { legacy_yaml(&leg) };
    let fmt = if finite { "json" } else { "yaml" };
    let old = guard(|| if finite { NetworkOld::from_json(&text) } else { NetworkOld::from_yaml(&text) });
    ctx.checked(P, "never_panics");
    let old = match old {
        None => {
            ctx.fail(P, "never_panics", "legacy", format!("NetworkOld::from_{} panicked (mutation {})", fmt, name), input.clone());
            return;
        }
        Some(Err(e)) => {
            ctx.checked(P, "legacy_same_network");
            ctx.fail(P, "legacy_same_network", "legacy", format!("legacy layout did not parse: {} (mutation {})", e, name), input.clone());
            return;
        }
        Some(Ok(o)) => o,
    };
    // what was parsed, tokenised from the crate's own legacy objects (field order of link_old.rs)
    let old_toks: Vec<String> = old
        .0
        .iter()
        .map(|k| {
            format!(
                "{} {} {} {} {} {} {} {} {} {} {} {} {}",
                seq(&k.elevs, tok_elev),
                seq(&k.headings, tok_heading),
                seq(&k.speed_sets, tok_old_set),
                seq(&k.cat_power_limits, tok_cat),
                fb(k.length.value),
                k.idx_next.idx(),
                k.idx_next_alt.idx(),
                k.idx_prev.idx(),
                k.idx_prev_alt.idx(),
                k.idx_curr.idx(),
                k.idx_flip.idx(),
                opt(&k.osm_id, |s| st(s)),
                seq(&k.link_idxs_lockout, |i| i.idx().to_string()),
            )
        })
        .collect();
    let mine: Vec<String> = leg.iter().map(tok_legacy).collect();
    if old_toks != mine {
        // the text did not denote the legacy network the harness built
        ctx.checked(P, "legacy_same_network");
        ctx.fail(P, "legacy_same_network", "legacy", format!("legacy {} text parses to something else than was written (mutation {}): {}", fmt, name, first_diff(&old_toks.join(" "), &mine.join(" "))), input.clone());
        return;
    }
    // per-link conversion against the model
    let conv: Vec<Link> = old.0.iter().map(|l| Link::from(l.clone())).collect();
    if emit_links {
        for (i, l) in old_toks.iter().enumerate() {
            ctx.op(P, "from_old_link", l, &format!("ok {}", tok_link(&conv[i], true)));
        }
    }
    let new: Network = old.into();
    // same network as the current layout
    ctx.checked(P, "legacy_same_network");
    let got = tok_net(&new.0, true);
    if got != canon || tok_net(&conv, true) != canon {
        ctx.fail(P, "legacy_same_network", "legacy", format!("legacy layout converts to a different network (mutation {}): {}", name, first_diff(&got, &canon)), input.clone());
    }
    let vn = verdict(&guard(|| new.validate()));
    let id = ctx.op(P, "validate_old_net", &seq(&old_toks, |t| t.clone()), vn);
    ctx.checked(P, "legacy_same_verdict");
    if vn != direct {
        ctx.fail(P, "legacy_same_verdict", &id, format!("legacy layout verdict {} vs current layout {} (mutation {})", vn, direct, name), input.clone());
    }
    if files {
        // the real fallback: `Network::from_file` first tries the current layout, then `NetworkOld`
        let path = format!("{}/legacy_{}.{}", TMP, ctx.case_no, fmt);
        if std::fs::write(&path, &text).is_ok() {
            let lf = guard(|| Network::from_file(&path));
            let vf = verdict(&lf);
            ctx.checked(P, "never_panics");
            ctx.checked(P, "legacy_same_verdict");
            ctx.count("net.file.legacy_layout");
            if vf != direct {
                ctx.fail(P, if lf.is_none() { "never_panics" } else { "legacy_same_verdict" }, &id,
                    format!("Network::from_file(legacy {}) {} vs current layout {} (mutation {})", fmt, vf, direct, name), input.clone());
            }
            if let Some(Ok(n2)) = &lf {
                ctx.checked(P, "legacy_same_network");
                if tok_net(&n2.0, true) != canon {
                    ctx.fail(P, "legacy_same_network", &id, format!("Network::from_file(legacy {}) loads a different network (mutation {})", fmt, name), input.clone());
                }
            }
            let _ = std::fs::remove_file(&path);
        }
    }
}

// ------------------------------------------------------------------------------------------
// element-level fuzz: every sub-validator on lists drawn from a pool of special values
// ------------------------------------------------------------------------------------------

const POOL: [f64; 16] = [
    f64::NAN, f64::INFINITY, f64::NEG_INFINITY, 0.0, -0.0, -1.0, 5e-324, 0.5, 1.0, 2.0, 100.0, 100.5,
    6.283185307179585, 6.283185307179586, 1.0e308, -1.0e-8,
];

fn element_fuzz(ctx: &mut Ctx, r: &mut Rng) {
    let v = |r: &mut Rng| -> f64 { if r.chance(0.5) { r.range(0, 4) as f64 } else { *r.pick(&POOL) } };
    let chk = |ctx: &mut Ctx, op: &str, args: String, got: Option<bool>, want: bool| {
        let a = match got {
            None => "panic",
            Some(true) => "ok",
            Some(false) => "err",
        };
        let id = ctx.op(P, op, &args, a);
        ctx.checked(P, "element_accept_iff_rules");
        ctx.count(&format!("net.elem.{}.{}", op, a));
        if got != Some(want) {
            ctx.fail(P, if got.is_none() { "never_panics" } else { "element_accept_iff_rules" }, &id,
                format!("{} says {} but the rules say {}", op, a, want), json!({"op": op, "tokens": args}));
        }
    };
    match r.below(6) {
        0 => {
            let n = r.usize(0, 4);
            let mut es: Vec<Elev> = (0..n).map(|_| Elev { offset: m(v(r)), elev: m(v(r)) }).collect();
            if r.chance(0.6) {
                es.sort_by(|a, b| a.offset.partial_cmp(&b.offset).unwrap_or(std::cmp::Ordering::Equal));
            }
            let got = guard(|| es.validate().is_ok());
            let offs: Vec<f64> = es.iter().map(|e| e.offset.value).collect();
            // [Elev]::validate knows no length: a profile up to "first is zero / last is length"
            let want = es.is_empty()
                || (es.len() >= 2
                    && (0..n).all(|i| (i + 1..n).all(|j| offs[i] < offs[j]))
                    && offs.iter().all(|o| *o >= 0.0)
                    && es.iter().all(|e| e.elev.value.is_finite()));
            chk(ctx, "validate_elevs", seq(&es, tok_elev), got, want);
        }
        1 => {
            let n = r.usize(0, 4);
            let mut hs: Vec<Heading> = (0..n).map(|_| Heading { offset: m(v(r)), heading: uc::RAD * v(r), lat: None, lon: if r.chance(0.2) { Some(v(r)) } else { None } }).collect();
            if r.chance(0.6) {
                hs.sort_by(|a, b| a.offset.partial_cmp(&b.offset).unwrap_or(std::cmp::Ordering::Equal));
            }
            let got = guard(|| hs.validate().is_ok());
            let offs: Vec<f64> = hs.iter().map(|e| e.offset.value).collect();
            let want = hs.is_empty()
                || (hs.len() >= 2
                    && (0..n).all(|i| (i + 1..n).all(|j| offs[i] < offs[j]))
                    && offs.iter().all(|o| *o >= 0.0)
                    && hs.iter().all(|h| 0.0 <= h.heading.value && h.heading.value < 2.0 * std::f64::consts::PI));
            chk(ctx, "validate_headings", seq(&hs, tok_heading), got, want);
        }
        2 => {
            let n = r.usize(0, 4);
            let mut ls: Vec<SpeedLimit> = (0..n).map(|_| SpeedLimit { offset_start: m(v(r)), offset_end: m(v(r)), speed: mps(v(r)) }).collect();
            if r.chance(0.7) {
                ls.sort_by(|a, b| a.partial_cmp(b).unwrap_or(std::cmp::Ordering::Equal));
            }
            let got = guard(|| ls.validate().is_ok());
            let want = o_limits(&ls);
            chk(ctx, "validate_speed_limits", seq(&ls, tok_limit), got, want);
        }
        3 => {
            let n = r.usize(0, 4);
            let ps: Vec<SpeedParam> = (0..n)
                .map(|_| SpeedParam {
                    limit_val: v(r),
                    limit_type: *r.pick(&[LimitType::MassTotal, LimitType::MassPerBrake, LimitType::AxleCount]),
                    compare_type: *r.pick(&[CompareType::TpEqualRp, CompareType::TpGreaterThanRp, CompareType::TpLessThanEqualRp]),
                })
                .collect();
            let got = guard(|| ps.validate().is_ok());
            chk(ctx, "validate_speed_params", seq(&ps, tok_param), got, o_params(&ps));
        }
        4 => {
            let n = r.usize(0, 3);
            let mut ls: Vec<SpeedLimit> = (0..n).map(|_| SpeedLimit { offset_start: m(v(r)), offset_end: m(v(r)), speed: mps(v(r)) }).collect();
            ls.sort_by(|a, b| a.partial_cmp(b).unwrap_or(std::cmp::Ordering::Equal));
            let np = r.usize(0, 2);
            let ps: Vec<SpeedParam> = (0..np).map(|_| SpeedParam { limit_val: v(r), limit_type: LimitType::AxleCount, compare_type: CompareType::TpEqualRp }).collect();
            let s = SpeedSet { speed_limits: ls, speed_params: ps, is_head_end: r.chance(0.5) };
            let got = guard(|| s.validate().is_ok());
            // SpeedSet::validate on its own also accepts the "fake" set: no limits, no params, not head end
            let want = if s.speed_limits.is_empty() { s.speed_params.is_empty() && !s.is_head_end } else { o_speed_set(&s) };
            chk(ctx, "validate_speed_set", tok_set(&s), got, want);
        }
        _ => {
            let n = r.usize(0, 4);
            let mut xs: Vec<CatPowerLimit> = (0..n).map(|_| CatPowerLimit { offset_start: m(v(r)), offset_end: m(v(r)), power_limit: uc::W * v(r), district_id: None }).collect();
            if r.chance(0.7) {
                xs.sort_by(|a, b| a.partial_cmp(b).unwrap_or(std::cmp::Ordering::Equal));
            }
            let got = guard(|| xs.validate().is_ok());
            // [CatPowerLimit]::validate knows no length
            let want = o_cats(&xs, f64::INFINITY);
            chk(ctx, "validate_cats", seq(&xs, tok_cat), got, want);
        }
    }
}

// ------------------------------------------------------------------------------------------
// shipped network files
// ------------------------------------------------------------------------------------------

fn shipped(ctx: &mut Ctx, thorough: bool) {
    let mut loaded: HashMap<String, Network> = HashMap::new();
    let mut names = vec!["simple_corridor_network.yaml", "links_test.yaml"];
    if thorough {
        names.extend(["Taconite.yaml", "Taconite-NoBalloon.yaml", "Taconite_v0.1.6.yaml"]);
    }
    for name in names {
        let path = format!("{}/{}", SHIPPED, name);
        if !std::path::Path::new(&path).exists() {
            ctx.count("net.shipped.missing");
            continue;
        }
        // links_test.yaml is a bare Vec<Link> written by a unit test, the others are Networks
        let r = guard(|| Network::from_file(&path));
        ctx.checked(P, "shipped_loads");
        ctx.count(&format!("net.shipped.{}.{}", name, verdict(&r)));
        match r {
            Some(Ok(n)) => {
                let v = verdict(&guard(|| n.0.validate()));
                ctx.op(P, "validate_net", &tok_net(&n.0, false), v);
                ctx.checked(P, "accept_iff_rules");
                if !consistent(&n.0) || v != "ok" {
                    ctx.fail(P, "accept_iff_rules", name, format!("shipped network {}: loaded, validate {} , rules {}", name, v, consistent(&n.0)), json!({"file": path}));
                }
                loaded.insert(name.to_string(), n);
            }
            Some(Err(e)) => {
                if name != "links_test.yaml" {
                    ctx.fail(P, "shipped_loads", name, format!("shipped network {} rejected: {}", name, e.to_string().chars().take(300).collect::<String>()), json!({"file": path}));
                }
            }
            None => ctx.fail(P, "never_panics", name, format!("loading shipped network {} panicked", name), json!({"file": path})),
        }
    }
    // "This file contains network information that is equivalent to the data contained in ./Taconite.yaml"
    if let (Some(a), Some(b)) = (loaded.get("Taconite.yaml"), loaded.get("Taconite_v0.1.6.yaml")) {
        ctx.checked(P, "legacy_same_network");
        ctx.count("net.shipped.legacy_vs_current_compared");
        // the shipped legacy file carries no catenary / lockout information and numeric osm ids differ in spelling only
        let strip = |n: &Network| -> String {
            let mut v = n.0.clone();
            for l in v.iter_mut() {
                l.osm_id = None;
            }
            tok_net(&v, true)
        };
        if strip(a) != strip(b) {
            let first = a.0.iter().zip(b.0.iter()).position(|(x, y)| {
                let (mut x, mut y) = (x.clone(), y.clone());
                x.osm_id = None;
                y.osm_id = None;
                tok_link(&x, true) != tok_link(&y, true)
            });
            ctx.fail(P, "shipped_legacy_equals_current", "Taconite", format!("Taconite_v0.1.6.yaml (legacy layout) loads to a different network than Taconite.yaml; lens {} {}; first differing link {:?}", a.0.len(), b.0.len(), first), json!({"files": ["Taconite.yaml", "Taconite_v0.1.6.yaml"]}));
        }
    }
}

// ------------------------------------------------------------------------------------------

pub fn run(ctx: &mut Ctx, r: &mut Rng, tier: &str) {
    let thorough = tier == "thorough";
    let _ = std::fs::create_dir_all(TMP);
    ctx.op(P, "const_rev", "", &format!("ok {}", fb(uc::REV.value)));

    // corpus: the crate's own fixture `Vec::<Link>::valid()` and the two probes of DESIGN.md §8
    // (#3 disjoint / overlapping catenary sections, #4 a reference outside the network)
    {
        let base = Vec::<Link>::valid();
        let mut rr = r.fork();
        let mut muts: Vec<Mutant> = vec![];
        net_mutants(&base, &mut muts);
        link_mutants(&base, 1, &mut rr, &mut muts);
        let c = |a: f64, e: f64| CatPowerLimit { offset_start: m(a), offset_end: m(e), power_limit: uc::W * 5.0e6, district_id: None };
        let mut n3a = base.clone();
        n3a[1].cat_power_limits = vec![c(0.0, 100.0), c(200.0, 300.0)];
        muts.push(Mutant { name: "corpus_cat_disjoint".into(), expect: Some(true), net: n3a, at: 1 });
        let mut n3b = base.clone();
        n3b[1].cat_power_limits = vec![c(0.0, 100.0), c(50.0, 300.0)];
        muts.push(Mutant { name: "corpus_cat_overlapping".into(), expect: Some(false), net: n3b, at: 1 });
        let mut n4 = base.clone();
        n4[1].idx_next = li(7);
        muts.push(Mutant { name: "corpus_idx_next_7".into(), expect: Some(false), net: n4, at: 1 });
        ctx.count("net.family.crate_fixture");
        for mu in &muts {
            let seen = run_case(ctx, &mu.name, mu.expect, &mu.net, mu.at, true, true, "crate_fixture");
            legacy_case(ctx, &mut rr, &mu.name, &mu.net, &seen, true, mu.name == "unchanged", "crate_fixture");
        }
    }

    // full enumeration of single faults on small networks of every family
    let mut plans: Vec<GenOpts> = vec![
        GenOpts { family: "docs", n: 7, flips: 1, all_map: true, lockouts: false, grid: 1.0 },
        GenOpts { family: "line", n: 1, flips: 0, all_map: false, lockouts: false, grid: 1.0 },
        GenOpts { family: "line", n: 2, flips: 1, all_map: true, lockouts: false, grid: 0.5 },
        GenOpts { family: "line", n: 3, flips: 0, all_map: false, lockouts: true, grid: 8.0 },
        GenOpts { family: "ring", n: 3, flips: 1, all_map: true, lockouts: true, grid: 1.0 },
        GenOpts { family: "junctions", n: 5, flips: 1, all_map: true, lockouts: true, grid: 1.0 },
        GenOpts { family: "junctions", n: 6, flips: 2, all_map: false, lockouts: false, grid: 0.5 },
        GenOpts { family: "junctions", n: 4, flips: 0, all_map: true, lockouts: false, grid: 1.0 },
    ];
    let extra = if thorough { 30 } else { 4 };
    for i in 0..extra {
        plans.push(GenOpts {
            family: *r.pick(&["line", "ring", "junctions", "junctions", "junctions"]),
            n: r.usize(2, if thorough && i % 4 == 0 { 20 } else { 7 }),
            flips: r.below(3) as u8,
            all_map: r.chance(0.6),
            lockouts: r.chance(0.5),
            grid: *r.pick(&[0.5, 1.0, 8.0]),
        });
    }
    for (pi, g) in plans.iter().enumerate() {
        let mut rr = r.fork();
        let base = build(&mut rr, g);
        let tag = format!("{}-{}-{}", g.family, g.n, pi);
        ctx.count(&format!("net.family.{}", g.family));
        ctx.count(&format!("net.size.{}", base.len().min(20)));
        if base.iter().any(|l| l.idx_next_alt.idx() != 0 || l.idx_prev_alt.idx() != 0) {
            ctx.count("net.gen.with_alternates");
        }
        ctx.sample("net.valid", json!({"family": g.family, "links": base.len(), "tokens": tok_net(&base, true)}));
        let mut muts: Vec<Mutant> = vec![];
        net_mutants(&base, &mut muts);
        // every link on small networks, a sample on the large ones
        let cap = if thorough { 6 } else { 4 };
        let ks: Vec<usize> = if base.len() - 1 <= cap {
            (1..base.len()).collect()
        } else {
            // links with alternates first, then random ones
            let mut ks: Vec<usize> = (1..base.len()).filter(|k| base[*k].idx_next_alt.idx() != 0 || base[*k].idx_prev_alt.idx() != 0).take(2).collect();
            while ks.len() < cap {
                let k = rr.usize(1, base.len() - 1);
                if !ks.contains(&k) {
                    ks.push(k);
                }
            }
            ks
        };
        ctx.count_n("net.links_fully_mutated", ks.len() as u64);
        for k in ks {
            link_mutants(&base, k, &mut rr, &mut muts);
        }
        let nm = muts.len();
        for (mi, mu) in muts.iter().enumerate() {
            // string round trips for every case of the small plans, every 3rd otherwise; files every 5th
            let serde_paths = thorough || mi % 2 == 0 || mu.name == "unchanged";
            let files = mi % 5 == 0 || mu.name == "unchanged";
            let seen = run_case(ctx, &mu.name, mu.expect, &mu.net, mu.at, serde_paths, files, &tag);
            if g.all_map && serde_paths && (mi % 4 == 0 || mu.name == "unchanged") {
                legacy_case(ctx, &mut rr, &mu.name, &mu.net, &seen, files, mu.name == "unchanged" || mi % 16 == 0, &tag);
            }
        }
        // pairs of mutations (the second applied on top of the first where the shapes allow it)
        let npairs = if thorough { 150 } else { 30 };
        for _ in 0..npairs {
            let a = &muts[rr.usize(0, nm - 1)];
            let b = &muts[rr.usize(0, nm - 1)];
            if a.net.len() != base.len() || b.net.len() != base.len() || a.at == b.at {
                continue;
            }
            // take link b.at (and whatever else b touched) from b, the rest from a
            let mut net = a.net.clone();
            for i in 0..net.len() {
                if tok_link(&b.net[i], true) != tok_link(&base[i], true) {
                    net[i] = b.net[i].clone();
                }
            }
            let name = format!("{}+{}", a.name, b.name);
            let expect = match (a.expect, b.expect) {
                (Some(false), _) | (_, Some(false)) => None, // two faults may cancel (e.g. both sides of a flip dropped)
                _ => None,
            };
            ctx.count("net.pairs");
            let seen = run_case(ctx, "pair", expect, &net, 0, true, false, &format!("{} {}", tag, name));
            if g.all_map {
                legacy_case(ctx, &mut rr, "pair", &net, &seen, false, false, &tag);
            }
        }
    }

    // coincident switch points (a topology fault, built by the generator)
    for flips in [0u8, 1] {
        let mut rr = r.fork();
        let g = GenOpts { family: "scissors", n: 5, flips, all_map: true, lockouts: false, grid: 1.0 };
        let net = build(&mut rr, &g);
        let seen = run_case(ctx, "coincident_switch_points", Some(false), &net, 0, true, true, "scissors");
        legacy_case(ctx, &mut rr, "coincident_switch_points", &net, &seen, true, true, "scissors");
        // and the same network with the merging edge removed is consistent
        let mut ok = net.clone();
        ok[3].idx_prev_alt = li(0);
        ok[2].idx_next = li(0);
        if flips == 1 {
            let (f3, f2) = (ok[3].idx_flip.idx(), ok[2].idx_flip.idx());
            ok[f3].idx_next_alt = li(0);
            ok[f2].idx_prev = li(0);
        }
        run_case(ctx, "coincident_switch_points_repaired", Some(true), &ok, 0, true, false, "scissors");
    }

    // netgen's own families (what the other blocks feed to the simulator)
    let nl = if thorough { 300 } else { 30 };
    for _ in 0..nl {
        let mut rr = r.fork();
        let o = NetOpts {
            n_links: rr.usize(1, 8),
            with_flips: rr.chance(0.5),
            grid: *rr.pick(&[0.5, 1.0, 8.0]),
            len_lo: 4,
            len_hi: *rr.pick(&[16, 200, 4000]),
            use_speed_sets_map: true,
            cat_power: true,
            speed_params: true,
            ..Default::default()
        };
        let net = gen_line(&mut rr, &o);
        ctx.count("net.family.netgen_line");
        let seen = run_case(ctx, "unchanged", Some(true), &net, 0, true, true, "netgen_line");
        legacy_case(ctx, &mut rr, "unchanged", &net, &seen, true, false, "netgen_line");
    }

    let nf = if thorough { 40000 } else { 3000 };
    for _ in 0..nf {
        let mut rr = r.fork();
        element_fuzz(ctx, &mut rr);
    }
    shipped(ctx, thorough);
}
