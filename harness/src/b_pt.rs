//! Block `pt`: powertrain components, locomotives, consists (C01, C08, C09, C10).
//! Snapshot-stepping: every call of the real code becomes one op line carrying the
//! implementation's pre-state; the Lean model must reproduce the post-state bit for bit.
use crate::prng::Rng;
use crate::proto::*;
use altrios_core::consist::locomotive::locomotive_model::PowertrainType;
use altrios_core::consist::locomotive::powertrain::ElectricMachine;
use altrios_core::consist::{LocoTrait, PowerDistributionControlType, Proportional, RESGreedy};
use altrios_core::prelude::*;
use altrios_core::utils::{interp1d, interp3d};
use altrios_core::{si, uc};
use serde_json::json;

pub const TOL: f64 = 1e-3;

// ---------------------------------------------------------------- token writers

pub fn tok_fc(x: &FuelConverter) -> String {
    let s = &x.state;
    format!(
        "{} {} {} {} {} {} {} {} {} {} {} {} {} {} {} {} {}",
        f(x.pwr_out_max.value), f(x.pwr_out_max_init.value), f(x.pwr_ramp_lag.value),
        fs(&x.pwr_out_frac_interp), fs(&x.eta_interp), f(x.pwr_idle_fuel.value),
        f(s.pwr_out_max.value), f(s.eta.value), f(s.pwr_brake.value), f(s.pwr_fuel.value),
        f(s.pwr_loss.value), f(s.pwr_idle_fuel.value), f(s.energy_brake.value), f(s.energy_fuel.value),
        f(s.energy_loss.value), f(s.energy_idle_fuel.value), b(s.engine_on)
    )
}
pub fn tok_gen(x: &Generator) -> String {
    let s = &x.state;
    format!(
        "{} {} {} {} {} {} {} {} {} {} {} {} {} {} {} {}",
        f(x.pwr_out_max.value), fs(&x.pwr_out_frac_interp), fs(&x.eta_interp), fs(&x.pwr_in_frac_interp),
        f(s.eta.value), f(s.pwr_elec_prop_out_max.value), f(s.pwr_elec_out_max.value),
        f(s.pwr_rate_out_max.value), f(s.pwr_mech_in.value), f(s.pwr_elec_prop_out.value),
        f(s.pwr_elec_aux.value), f(s.pwr_loss.value), f(s.energy_mech_in.value),
        f(s.energy_elec_prop_out.value), f(s.energy_elec_aux.value), f(s.energy_loss.value)
    )
}
pub fn tok_edrv(x: &ElectricDrivetrain) -> String {
    let s = &x.state;
    format!(
        "{} {} {} {} {} {} {} {} {} {} {} {} {} {} {} {} {} {} {}",
        f(x.pwr_out_max.value), fs(&x.pwr_out_frac_interp), fs(&x.eta_interp), fs(&x.pwr_in_frac_interp),
        f(s.eta.value), f(s.pwr_mech_out_max.value), f(s.pwr_mech_regen_max.value),
        f(s.pwr_rate_out_max.value), f(s.pwr_out_req.value), f(s.pwr_elec_prop_in.value),
        f(s.pwr_mech_prop_out.value), f(s.pwr_mech_dyn_brake.value), f(s.pwr_elec_dyn_brake.value),
        f(s.pwr_loss.value), f(s.energy_elec_prop_in.value), f(s.energy_mech_prop_out.value),
        f(s.energy_mech_dyn_brake.value), f(s.energy_elec_dyn_brake.value), f(s.energy_loss.value)
    )
}
fn vals3(v: &[Vec<Vec<f64>>]) -> String {
    seq(v, |a| seq(a, |bb| fs(bb)))
}
pub fn tok_res(x: &ReversibleEnergyStorage) -> String {
    let s = &x.state;
    format!(
        "{} {} {} {} {} {} {} {} {} {} {} {} {} {} {} {} {} {} {} {} {} {} {} {} {} {} {} {} {} {} {} {}",
        f(x.pwr_out_max.value), f(x.energy_capacity.value), f(x.energy_capacity.get::<si::watt_hour>()),
        f(x.min_soc.value), f(x.max_soc.value),
        opt(&x.soc_hi_ramp_start, |v| f(v.value)), opt(&x.soc_lo_ramp_start, |v| f(v.value)),
        fs(&x.eta_interp_grid[0]), fs(&x.eta_interp_grid[1]), fs(&x.eta_interp_grid[2]),
        vals3(&x.eta_interp_values),
        f(s.pwr_prop_out_max.value), f(s.pwr_regen_out_max.value), f(s.pwr_disch_max.value),
        f(s.pwr_charge_max.value), f(s.soc.value), f(s.eta.value), f(s.pwr_out_electrical.value),
        f(s.pwr_out_propulsion.value), f(s.pwr_aux.value), f(s.pwr_loss.value), f(s.pwr_out_chemical.value),
        f(s.energy_out_electrical.value), f(s.energy_out_propulsion.value), f(s.energy_aux.value),
        f(s.energy_loss.value), f(s.energy_out_chemical.value), f(s.max_soc.value),
        f(s.soc_hi_ramp_start.value), f(s.min_soc.value), f(s.soc_lo_ramp_start.value),
        f(s.temperature_celsius)
    )
}
pub fn tok_loco(l: &Locomotive) -> String {
    let pt = match &l.loco_type {
        PowertrainType::ConventionalLoco(c) => format!("conv {} {} {}", tok_fc(&c.fc), tok_gen(&c.gen), tok_edrv(&c.edrv)),
        PowertrainType::BatteryElectricLoco(bl) => format!("bel {} {}", tok_res(&bl.res), tok_edrv(&bl.edrv)),
        _ => "unsupported".to_string(),
    };
    let s = &l.state;
    format!(
        "{} {} {} {} {} {} {} {} {} {} {}",
        pt, f(s.pwr_out_max.value), f(s.pwr_rate_out_max.value), f(s.pwr_regen_max.value),
        f(s.pwr_out.value), f(s.pwr_aux.value), f(s.energy_out.value), f(s.energy_aux.value),
        b(l.assert_limits), f(l.pwr_aux_offset.value), f(l.pwr_aux_traction_coeff.value)
    )
}
pub fn consist_assert_limits(c: &Consist) -> bool {
    serde_json::to_value(c).unwrap()["assert_limits"].as_bool().unwrap_or(true)
}
pub fn tok_consist(c: &Consist) -> String {
    let s = &c.state;
    format!(
        "{} {} {} {} {} {} {} {} {} {} {} {} {} {} {} {} {} {} {} {}",
        seq(&c.loco_vec, tok_loco),
        match &c.pdct {
            PowerDistributionControlType::Proportional(_) => "proportional",
            PowerDistributionControlType::RESGreedy(_) => "res_greedy",
            _ => "unsupported",
        },
        b(consist_assert_limits(c)),
        f(s.pwr_out_max.value), f(s.pwr_rate_out_max.value), f(s.pwr_regen_max.value),
        f(s.pwr_out_max_reves.value), f(s.pwr_out_deficit.value), f(s.pwr_out_max_non_reves.value),
        f(s.pwr_regen_deficit.value), f(s.pwr_dyn_brake_max.value), f(s.pwr_out_req.value),
        f(s.pwr_out.value), f(s.pwr_reves.value), f(s.pwr_fuel.value), f(s.energy_out.value),
        f(s.energy_out_pos.value), f(s.energy_out_neg.value), f(s.energy_res.value), f(s.energy_fuel.value)
    )
}

fn ans<T>(r: Option<anyhow::Result<T>>, g: impl Fn(&T) -> String) -> String {
    match r {
        None => "panic".into(),
        Some(Err(_)) => "err".into(),
        Some(Ok(v)) => format!("ok {}", g(&v)),
    }
}

// ---------------------------------------------------------------- generators

/// efficiency map with knots in [0,1]; `need_in_mono`: frac/eta strictly increasing (gen, edrv)
pub fn gen_map(r: &mut Rng, need_in_mono: bool) -> (Vec<f64>, Vec<f64>) {
    for _ in 0..200 {
        let n = r.usize(2, 7);
        let mut xs: Vec<f64> = (0..n).map(|_| r.range(0, 64) as f64 / 64.0).collect();
        xs.sort_by(|a, b| a.partial_cmp(b).unwrap());
        xs.dedup();
        if xs.len() < 2 { continue; }
        if r.chance(0.6) { xs[0] = 0.0; }
        if r.chance(0.6) { let l = xs.len() - 1; xs[l] = 1.0; }
        xs.dedup();
        if xs.len() < 2 || xs.windows(2).any(|w| w[0] >= w[1]) { continue; }
        let shape = r.below(4);
        let base = r.f64_in(0.3, 0.95);
        let ys: Vec<f64> = xs.iter().enumerate().map(|(i, x)| match shape {
            0 => base,
            1 => (base * (0.6 + 0.4 * x)).min(1.0),
            2 => (base * (1.0 - 0.5 * (x - 0.6) * (x - 0.6))).min(1.0),
            _ => { let _ = i; r.f64_in(0.05, 1.0) }
        }).collect();
        if need_in_mono {
            let inf: Vec<f64> = xs.iter().zip(&ys).map(|(x, y)| x / y).collect();
            if inf.windows(2).any(|w| w[0] >= w[1]) { continue; }
        }
        return (xs, ys);
    }
    (vec![0.0, 1.0], vec![0.9, 0.8])
}

pub fn gen_fc(r: &mut Rng) -> FuelConverter {
    let mut fc = FuelConverter::default();
    if r.chance(0.75) {
        let (xs, ys) = gen_map(r, false);
        fc.pwr_out_frac_interp = xs;
        fc.eta_interp = ys.iter().map(|y| (y * 0.5).max(0.05)).collect();
        fc.pwr_out_max = uc::W * (r.range(2, 80) as f64 * 1.0e5);
        fc.pwr_out_max_init = fc.pwr_out_max * *r.pick(&[0.0, 0.05, 0.1, 0.3, 1.0]);
        fc.pwr_ramp_lag = uc::S * *r.pick(&[1.0, 5.0, 25.0, 60.0]);
        fc.pwr_idle_fuel = uc::W * *r.pick(&[0.0, 1.0e4, 19703.28, 5.0e5]);
    }
    fc.save_interval = None;
    fc
}
pub fn gen_gen(r: &mut Rng, fc_max: f64) -> Generator {
    let mut g = Generator::default();
    if r.chance(0.75) {
        let (xs, ys) = gen_map(r, true);
        g.pwr_out_frac_interp = xs;
        g.eta_interp = ys;
        g.pwr_in_frac_interp = vec![];
        g.pwr_out_max = uc::W * (fc_max * *r.pick(&[0.8, 0.9, 1.0, 1.2]));
    }
    g.save_interval = None;
    g
}
pub fn gen_edrv(r: &mut Rng, up_max: f64) -> ElectricDrivetrain {
    let mut e = ElectricDrivetrain::default();
    if r.chance(0.75) {
        let (xs, ys) = gen_map(r, true);
        e.pwr_out_frac_interp = xs;
        e.eta_interp = ys;
        e.pwr_in_frac_interp = vec![];
        e.pwr_out_max = uc::W * (up_max * *r.pick(&[0.7, 0.9, 1.0, 1.3]));
    }
    e.save_interval = None;
    e
}
pub fn gen_res(r: &mut Rng) -> ReversibleEnergyStorage {
    let mut x = ReversibleEnergyStorage::default();
    if r.chance(0.7) {
        let axis = |r: &mut Rng, lo: f64, hi: f64| -> Vec<f64> {
            let n = r.usize(1, 3);
            let mut v: Vec<f64> = (0..n).map(|_| (r.f64_in(lo, hi) * 16.0).round() / 16.0).collect();
            v.sort_by(|a, b| a.partial_cmp(b).unwrap());
            v.dedup();
            v
        };
        let gt = axis(r, 0.0, 60.0);
        let gs = axis(r, 0.0, 1.0);
        let gc = axis(r, -5.0, 5.0);
        let vals: Vec<Vec<Vec<f64>>> = gt.iter().map(|_| gs.iter().map(|_| gc.iter().map(|_| r.f64_in(0.6, 1.0)).collect()).collect()).collect();
        x.eta_interp_grid = [gt, gs, gc];
        x.eta_interp_values = vals;
        x.pwr_out_max = uc::W * (r.range(2, 60) as f64 * 1.0e5);
        x.energy_capacity = uc::J * *r.pick(&[3.6e8, 3.6e9, 8.64e9, 2.0e10]);
        let mn = *r.pick(&[0.0, 0.05, 0.2]);
        let mx = *r.pick(&[0.8, 0.95, 1.0]);
        x.min_soc = uc::R * mn;
        x.max_soc = uc::R * mx;
        x.soc_lo_ramp_start = if r.chance(0.5) { None } else { Some(uc::R * (mn + *r.pick(&[0.02, 0.05, 0.1]))) };
        x.soc_hi_ramp_start = if r.chance(0.5) { None } else { Some(uc::R * (mx - *r.pick(&[0.02, 0.05, 0.1]))) };
    }
    let mn = x.min_soc.value;
    let mx = x.max_soc.value;
    let soc = match r.below(6) {
        0 => mn + 0.001 * r.unit(),
        1 => mn + 0.05 * r.unit(),
        2 => mx - 0.001 * r.unit(),
        3 => mx - 0.05 * r.unit(),
        _ => r.f64_in(mn, mx),
    };
    x.state.soc = uc::R * soc;
    x.state.temperature_celsius = *r.pick(&[20.0, 23.0, 35.0, 45.0, 60.0]);
    x.save_interval = None;
    x
}

pub fn gen_loco(r: &mut Rng, bel: bool) -> Locomotive {
    let mut l = if bel { Locomotive::default_battery_electric_loco() } else { Locomotive::default() };
    if bel {
        let res = gen_res(r);
        let edrv = gen_edrv(r, res.pwr_out_max.value);
        l.loco_type = PowertrainType::BatteryElectricLoco(BatteryElectricLoco::new(res, edrv));
    } else {
        let fc = gen_fc(r);
        let gen = gen_gen(r, fc.pwr_out_max.value);
        let edrv = gen_edrv(r, gen.pwr_out_max.value);
        l.loco_type = PowertrainType::ConventionalLoco(ConventionalLoco::new(fc, gen, edrv));
    }
    l.pwr_aux_offset = uc::W * *r.pick(&[0.0, 8554.15, 5.0e4]);
    l.pwr_aux_traction_coeff = uc::R * *r.pick(&[0.0, 0.000539638, 0.01]);
    l.set_save_interval(None);
    l
}

pub fn gen_consist(r: &mut Rng, nmax: usize) -> Consist {
    let n = r.usize(1, nmax);
    let kind = r.below(4);
    let locos: Vec<Locomotive> = (0..n).map(|_| {
        let bel = match kind { 0 => false, 1 => true, _ => r.chance(0.5) };
        gen_loco(r, bel)
    }).collect();
    let pdct = if r.chance(0.5) { PowerDistributionControlType::Proportional(Proportional) } else { PowerDistributionControlType::RESGreedy(RESGreedy) };
    Consist::new(locos, None, pdct)
}

// ---------------------------------------------------------------- oracle helpers

fn close(a: f64, bb: f64, scale: f64) -> bool {
    (a - bb).abs() <= 1e-9 * scale.abs().max(a.abs()).max(bb.abs()) + 1e-9
}
fn almost_le(a: f64, bb: f64, e: f64) -> bool { a < bb * (1.0 + e) || a < bb + e }
fn almost_ge(a: f64, bb: f64, e: f64) -> bool { a > bb * (1.0 - e) || a > bb - e }

struct Chk<'a> {
    ctx: &'a mut Ctx,
    case: String,
    input: serde_json::Value,
}
impl<'a> Chk<'a> {
    fn req(&mut self, prop: &str, clause: &str, ok: bool, detail: impl FnOnce() -> String) {
        self.ctx.checked(prop, clause);
        if !ok {
            let d = detail();
            self.ctx.fail(prop, clause, &self.case.clone(), d, self.input.clone());
        }
    }
}

fn edrv_of(l: &Locomotive) -> &ElectricDrivetrain {
    match &l.loco_type {
        PowertrainType::ConventionalLoco(c) => &c.edrv,
        PowertrainType::BatteryElectricLoco(bl) => &bl.edrv,
        _ => unreachable!(),
    }
}

fn eta_min_res(res: &ReversibleEnergyStorage) -> f64 {
    res.eta_interp_values.iter().flatten().flatten().cloned().fold(f64::INFINITY, f64::min)
}

/// per-step clauses on one locomotive after an accepted step (C01, C08, C09)
fn oracle_loco_step(k: &mut Chk, pre: &Locomotive, post: &Locomotive, req: f64, dt: f64, engine_on: Option<bool>) {
    let on = engine_on.unwrap_or(true);
    let e0 = edrv_of(pre).state;
    let e = edrv_of(post).state;
    let er = edrv_of(post).pwr_out_max.value;
    let sc = er.abs().max(req.abs());
    // ---- drivetrain
    k.req("C01", "edrv_balance", close(e.pwr_elec_prop_in.value, e.pwr_mech_prop_out.value + e.pwr_loss.value, sc),
        || format!("edrv elec_in {} != prop {} + loss {}", e.pwr_elec_prop_in.value, e.pwr_mech_prop_out.value, e.pwr_loss.value));
    k.req("C01", "loco_pwr_out_is_request", close(post.state.pwr_out.value, req, sc),
        || format!("loco pwr_out {} != request {}", post.state.pwr_out.value, req));
    k.req("C01", "wheel_plus_dyn", close(post.state.pwr_out.value + e.pwr_mech_dyn_brake.value, e.pwr_mech_prop_out.value, sc),
        || "pwr_out + dyn_brake != mech prop out".into());
    k.req("C01", "edrv_energy_integrates", close(e.energy_mech_prop_out.value - e0.energy_mech_prop_out.value, e.pwr_mech_prop_out.value * dt, sc * dt)
        && close(e.energy_elec_prop_in.value - e0.energy_elec_prop_in.value, e.pwr_elec_prop_in.value * dt, sc * dt)
        && close(e.energy_loss.value - e0.energy_loss.value, e.pwr_loss.value * dt, sc * dt)
        && close(e.energy_mech_dyn_brake.value - e0.energy_mech_dyn_brake.value, e.pwr_mech_dyn_brake.value * dt, sc * dt),
        || "edrv cumulative energies do not advance by power*dt".into());
    k.req("C01", "loco_energy_integrates", close(post.state.energy_out.value - pre.state.energy_out.value, post.state.pwr_out.value * dt, sc * dt)
        && close(post.state.energy_aux.value - pre.state.energy_aux.value, post.state.pwr_aux.value * dt, sc * dt),
        || "locomotive energy_out/energy_aux do not advance by power*dt".into());
    k.req("C08", "edrv_loss_nonneg", e.pwr_loss.value >= 0.0 && e.energy_loss.value >= e0.energy_loss.value, || format!("edrv loss {}", e.pwr_loss.value));
    k.req("C08", "edrv_eta_range", e.eta.value > 0.0 && e.eta.value <= 1.0, || format!("edrv eta {}", e.eta.value));
    k.req("C08", "edrv_out_le_in", if req > 0.0 { e.pwr_mech_prop_out.value <= e.pwr_elec_prop_in.value * (1.0 + 1e-12) }
        else { e.pwr_elec_prop_in.value.abs() <= e.pwr_mech_prop_out.value.abs() * (1.0 + 1e-12) },
        || format!("edrv mech {} elec {} req {}", e.pwr_mech_prop_out.value, e.pwr_elec_prop_in.value, req));
    k.req("C08", "dyn_brake_only_when_braking", e.pwr_mech_dyn_brake.value >= 0.0 && (req < 0.0 || e.pwr_mech_dyn_brake.value == 0.0)
        && e.energy_mech_dyn_brake.value >= e0.energy_mech_dyn_brake.value && e.energy_elec_dyn_brake.value >= e0.energy_elec_dyn_brake.value,
        || format!("dyn brake {} with request {}", e.pwr_mech_dyn_brake.value, req));
    k.req("C09", "edrv_within_rating", req <= er, || format!("edrv req {} > rating {}", req, er));
    k.req("C09", "published_limits_sane", post.state.pwr_out_max.value <= er * (1.0 + 1e-12) && post.state.pwr_regen_max.value >= 0.0 && post.state.pwr_regen_max.value <= er * (1.0 + 1e-12),
        || format!("published out_max {} regen_max {} rating {}", post.state.pwr_out_max.value, post.state.pwr_regen_max.value, er));
    match (&pre.loco_type, &post.loco_type) {
        (PowertrainType::ConventionalLoco(c0), PowertrainType::ConventionalLoco(c)) => {
            let (f0, fc, g0, g) = (c0.fc.state, c.fc.state, c0.gen.state, c.gen.state);
            let rating = c.fc.pwr_out_max.value;
            k.req("C01", "fc_balance", close(fc.pwr_fuel.value, fc.pwr_brake.value + fc.pwr_loss.value, rating),
                || format!("fuel {} != brake {} + loss {}", fc.pwr_fuel.value, fc.pwr_brake.value, fc.pwr_loss.value));
            k.req("C01", "gen_balance", close(g.pwr_mech_in.value, g.pwr_elec_prop_out.value + g.pwr_elec_aux.value + g.pwr_loss.value, rating),
                || "gen mech_in != prop + aux + loss".into());
            k.req("C01", "handoff_fc_gen", fc.pwr_brake.value == g.pwr_mech_in.value, || "engine shaft != generator input".into());
            k.req("C01", "handoff_gen_edrv", g.pwr_elec_prop_out.value == e.pwr_elec_prop_in.value, || "generator output != drivetrain input".into());
            k.req("C01", "conv_unit_ledger", close(fc.pwr_fuel.value,
                post.state.pwr_out.value + e.pwr_mech_dyn_brake.value + g.pwr_elec_aux.value + fc.pwr_loss.value + g.pwr_loss.value + e.pwr_loss.value, rating),
                || "fuel != wheel + dyn brake + aux + losses".into());
            k.req("C01", "fc_gen_energy_integrates",
                close(fc.energy_fuel.value - f0.energy_fuel.value, fc.pwr_fuel.value * dt, rating * dt)
                && close(fc.energy_loss.value - f0.energy_loss.value, fc.pwr_loss.value * dt, rating * dt)
                && close(fc.energy_brake.value - f0.energy_brake.value, fc.pwr_brake.value * dt, rating * dt)
                && close(g.energy_mech_in.value - g0.energy_mech_in.value, g.pwr_mech_in.value * dt, rating * dt)
                && close(g.energy_loss.value - g0.energy_loss.value, g.pwr_loss.value * dt, rating * dt)
                && close(g.energy_elec_aux.value - g0.energy_elec_aux.value, g.pwr_elec_aux.value * dt, rating * dt),
                || "fc/gen cumulative energies do not advance by power*dt".into());
            k.req("C08", "fc_gen_loss_nonneg", fc.pwr_loss.value >= 0.0 && g.pwr_loss.value >= 0.0
                && fc.energy_loss.value >= f0.energy_loss.value && g.energy_loss.value >= g0.energy_loss.value && fc.energy_fuel.value >= f0.energy_fuel.value,
                || format!("fc loss {} gen loss {}", fc.pwr_loss.value, g.pwr_loss.value));
            k.req("C08", "fc_gen_eta_range", fc.eta.value > 0.0 && fc.eta.value <= 1.0 && g.eta.value > 0.0 && g.eta.value <= 1.0,
                || format!("fc eta {} gen eta {}", fc.eta.value, g.eta.value));
            k.req("C08", "fc_gen_out_le_in", fc.pwr_brake.value <= fc.pwr_fuel.value * (1.0 + 1e-12) && g.pwr_elec_prop_out.value + g.pwr_elec_aux.value <= g.pwr_mech_in.value * (1.0 + 1e-12),
                || "converter output exceeds input".into());
            if !on {
                k.req("C08", "engine_off_burns_nothing", fc.pwr_fuel.value == 0.0 && post.state.pwr_aux.value == 0.0 && g.pwr_elec_aux.value == 0.0,
                    || format!("engine off: pwr_fuel {} loco aux {} gen aux {}", fc.pwr_fuel.value, post.state.pwr_aux.value, g.pwr_elec_aux.value));
            }
            if post.assert_limits {
                k.req("C09", "fc_within_rating", almost_le(fc.pwr_brake.value, rating, TOL) && almost_le(fc.pwr_brake.value, fc.pwr_out_max.value, TOL) && fc.pwr_brake.value >= 0.0,
                    || format!("fc brake {} rating {} transient {}", fc.pwr_brake.value, rating, fc.pwr_out_max.value));
            }
            let init = c.fc.pwr_out_max_init.value;
            // "previous shaft power" is what the engine really delivered in the previous step = the generator's mechanical
            // input then — NOT the fuel converter's own record of it (a stale record must not excuse a jump)
            let prev_shaft = g0.pwr_mech_in.value;
            let ramp = prev_shaft + rating / c.fc.pwr_ramp_lag.value * dt;
            k.req("C09", "fc_transient_ramp", fc.pwr_out_max.value <= ramp.max(init) * (1.0 + 1e-12) && (init > rating || fc.pwr_out_max.value <= rating),
                || format!("transient {} previous shaft power {} (fc record {}) ramp bound {} init {} rating {}", fc.pwr_out_max.value, prev_shaft, f0.pwr_brake.value, ramp, init, rating));
            k.req("C09", "gen_within_rating", g.pwr_elec_prop_out.value >= 0.0 && g.pwr_elec_prop_out.value + g.pwr_elec_aux.value <= c.gen.pwr_out_max.value,
                || "generator output outside rating".into());
            k.req("C09", "gen_published_le_rating", g.pwr_elec_out_max.value <= c.gen.pwr_out_max.value, || "gen published > rating".into());
        }
        (PowertrainType::BatteryElectricLoco(b0), PowertrainType::BatteryElectricLoco(bl)) => {
            let (r0, rs) = (b0.res.state, bl.res.state);
            let rating = bl.res.pwr_out_max.value;
            let cap = bl.res.energy_capacity.value;
            k.req("C01", "res_balance", close(rs.pwr_out_chemical.value, rs.pwr_out_electrical.value + rs.pwr_loss.value, rating),
                || format!("chem {} != elec {} + loss {}", rs.pwr_out_chemical.value, rs.pwr_out_electrical.value, rs.pwr_loss.value));
            k.req("C01", "res_elec_is_prop_plus_aux", close(rs.pwr_out_electrical.value, rs.pwr_out_propulsion.value + rs.pwr_aux.value, rating), || "battery elec != prop + aux".into());
            k.req("C01", "handoff_res_edrv", rs.pwr_out_propulsion.value == e.pwr_elec_prop_in.value, || "battery propulsion != drivetrain input".into());
            k.req("C01", "soc_moves_by_chem", close(rs.soc.value, r0.soc.value - rs.pwr_out_chemical.value * dt / cap, 1.0),
                || format!("soc {} prev {} chem {} dt {} cap {}", rs.soc.value, r0.soc.value, rs.pwr_out_chemical.value, dt, cap));
            k.req("C01", "bel_unit_ledger", close(rs.pwr_out_chemical.value,
                post.state.pwr_out.value + e.pwr_mech_dyn_brake.value + rs.pwr_aux.value + rs.pwr_loss.value + e.pwr_loss.value, rating),
                || "chem != wheel + dyn brake + aux + losses".into());
            k.req("C01", "res_energy_integrates",
                close(rs.energy_out_chemical.value - r0.energy_out_chemical.value, rs.pwr_out_chemical.value * dt, rating * dt)
                && close(rs.energy_out_electrical.value - r0.energy_out_electrical.value, rs.pwr_out_electrical.value * dt, rating * dt)
                && close(rs.energy_loss.value - r0.energy_loss.value, rs.pwr_loss.value * dt, rating * dt)
                && close(rs.energy_aux.value - r0.energy_aux.value, rs.pwr_aux.value * dt, rating * dt),
                || "battery cumulative energies do not advance by power*dt".into());
            k.req("C08", "res_loss_nonneg", rs.pwr_loss.value >= 0.0 && rs.energy_loss.value >= r0.energy_loss.value, || format!("res loss {}", rs.pwr_loss.value));
            k.req("C08", "res_eta_range", rs.eta.value > 0.0 && rs.eta.value <= 1.0, || format!("res eta {}", rs.eta.value));
            k.req("C08", "res_out_le_in", if rs.pwr_out_electrical.value > 0.0 { rs.pwr_out_electrical.value <= rs.pwr_out_chemical.value * (1.0 + 1e-12) }
                else { rs.pwr_out_chemical.value.abs() <= rs.pwr_out_electrical.value.abs() * (1.0 + 1e-12) },
                || format!("res elec {} chem {}", rs.pwr_out_electrical.value, rs.pwr_out_chemical.value));
            let el = rs.pwr_out_electrical.value;
            k.req("C09", "res_within_limits", if el >= 0.0 { almost_le(el, rating, TOL) && almost_le(el, rs.pwr_disch_max.value, TOL) }
                else { almost_ge(el, -rating, TOL) && almost_ge(el, -rs.pwr_charge_max.value, TOL) },
                || format!("res elec {} rating {} disch_max {} charge_max {}", el, rating, rs.pwr_disch_max.value, rs.pwr_charge_max.value));
            k.req("C09", "res_published_limits", rs.pwr_disch_max.value >= 0.0 && rs.pwr_disch_max.value <= rating && rs.pwr_charge_max.value >= 0.0 && rs.pwr_charge_max.value <= rating
                && rs.pwr_prop_out_max.value >= -rs.pwr_aux.value.max(post.state.pwr_aux.value) * (1.0 + 1e-12) - 1e-9,
                || format!("disch_max {} charge_max {} prop_out_max {} aux {} rating {}", rs.pwr_disch_max.value, rs.pwr_charge_max.value, rs.pwr_prop_out_max.value, post.state.pwr_aux.value, rating));
            // SOC window, inside the step-size domain (DESIGN §7.7: H_dt)
            let eta_min = eta_min_res(&bl.res);
            let lo_w = rs.soc_lo_ramp_start.value - rs.min_soc.value;
            let hi_w = rs.max_soc.value - rs.soc_hi_ramp_start.value;
            let h_dt = rating * (1.0 + TOL) * dt <= eta_min * cap * lo_w && rating * (1.0 + TOL) * dt <= cap * hi_w;
            let started_inside = r0.soc.value >= rs.min_soc.value && r0.soc.value <= rs.max_soc.value;
            if h_dt && started_inside {
                k.ctx.count("pt.soc_window.in_domain");
                k.req("C09", "soc_window", rs.soc.value >= rs.min_soc.value - 1e-9 && rs.soc.value <= rs.max_soc.value + 1e-9,
                    || format!("soc {} outside [{}, {}] (prev {}, dt {})", rs.soc.value, rs.min_soc.value, rs.max_soc.value, r0.soc.value, dt));
            } else {
                k.ctx.count("pt.soc_window.out_of_domain");
                if !(rs.soc.value >= rs.min_soc.value - 1e-9 && rs.soc.value <= rs.max_soc.value + 1e-9) {
                    k.ctx.count("pt.soc_window.out_of_domain_and_outside_window");
                }
            }
        }
        _ => {}
    }
    // unit-level "tractive power within the published limit" (measured; enforced at consist level)
    if req > post.state.pwr_out_max.value * (1.0 + TOL) + TOL {
        k.ctx.count("pt.unit_traction_above_published_limit_accepted");
    }
}

// ---------------------------------------------------------------- scenarios

fn loco_step_real(l: &mut Locomotive, req: f64, dt: f64, on: Option<bool>) -> Option<anyhow::Result<()>> {
    guard(|| {
        l.set_pwr_aux(on);
        l.set_cur_pwr_max_out(None, uc::S * dt)?;
        l.solve_energy_consumption(uc::W * req, uc::S * dt, on)?;
        anyhow::ensure!(altrios_core::utils::almost_eq_uom(&(uc::W * req), &l.state.pwr_out, None), "pwr mismatch");
        Ok(())
    })
}

fn pick_dt(r: &mut Rng) -> f64 {
    // now and then a step far beyond the battery's step-size domain H_dt (minutes): the implementation accepts it, the
    // SOC then overshoots its window — the ledger and SOC bookkeeping clauses of C01 hold there too
    if r.chance(0.06) { return *r.pick(&[60.0, 300.0, 1200.0]); }
    *r.pick(&[0.1, 0.5, 1.0, 1.0, 1.0, 2.5, 10.0])
}

/// demand chosen relative to the limit the implementation just published
fn pick_req(r: &mut Rng, out_max: f64, regen_max: f64, rating: f64, bel: bool) -> f64 {
    let fr = *r.pick(&[0.0, 0.0, 0.1, 0.3, 0.5, 0.7, 0.9, 0.99, 1.0, 1.0]);
    match r.below(14) {
        0 => 0.0,
        1 => out_max,
        2 => f64::from_bits(out_max.to_bits().wrapping_add(1)),
        3 => out_max * (1.0 + TOL / 2.0),
        4 => out_max * (1.0 + 2.0 * TOL),
        5 => out_max * (1.0 - TOL / 2.0),
        6 | 7 if bel => -regen_max * fr,
        8 if bel => -regen_max * (1.0 + TOL),
        9 => -rating * fr,
        10 => -rating * 1.001,
        _ => out_max * fr,
    }
}

fn loco_trace_case(ctx: &mut Ctx, r: &mut Rng, steps: usize) {
    let bel = r.chance(0.5);
    let mut l = gen_loco(r, bel);
    if r.chance(0.15) { l.assert_limits = false; }
    let input0 = json!({"kind": "loco_trace", "loco": serde_json::to_value(&l).unwrap()});
    ctx.count(if bel { "pt.loco.bel" } else { "pt.loco.conv" });
    let mut trace: Vec<(f64, f64, Option<bool>)> = vec![];
    let start = l.clone();
    let mut outside = 0;
    for _ in 0..steps {
        let dt = pick_dt(r);
        let on = if bel { *r.pick(&[None, Some(true)]) } else { *r.pick(&[None, Some(true), Some(true), Some(false)]) };
        // learn the limits this step will publish
        let mut probe = l.clone();
        let lim_ok = guard(|| { probe.set_pwr_aux(on); probe.set_cur_pwr_max_out(None, uc::S * dt) }).map(|x| x.is_ok()).unwrap_or(false);
        let (om, rm) = if lim_ok { (probe.state.pwr_out_max.value, probe.state.pwr_regen_max.value) } else { (1.0e6, 0.0) };
        let rating = edrv_of(&l).pwr_out_max.value;
        let mut req = pick_req(r, om, rm, rating, bel);
        if on == Some(false) { req = if r.chance(0.8) { 0.0 } else { req }; }
        let pre = l.clone();
        let mut post = l.clone();
        let res = loco_step_real(&mut post, req, dt, on);
        let args = format!("{} {} {} {}", tok_loco(&pre), f(req), f(dt), opt(&on, |x| b(*x)));
        let a = match &res { None => "panic".to_string(), Some(Err(_)) => "err".to_string(), Some(Ok(())) => format!("ok {}", tok_loco(&post)) };
        let id = ctx.op("C01,C08,C09", "loco_sim_step", &args, &a);
        match res {
            Some(Ok(())) => {
                ctx.count("pt.loco.step_ok");
                ctx.count(if req > 0.0 { "pt.loco.traction" } else if req < 0.0 { "pt.loco.braking" } else { "pt.loco.zero" });
                if on == Some(false) { ctx.count("pt.loco.engine_off_step"); }
                let input = json!({"kind": "loco_step", "loco_before": serde_json::to_value(&pre).unwrap(), "pwr_out_req_w": req, "dt_s": dt, "engine_on": on});
                let mut k = Chk { ctx, case: id.clone(), input };
                oracle_loco_step(&mut k, &pre, &post, req, dt, on);
                // sub-ops on the same state now and then
                if r.chance(0.25) {
                    let mut a1 = pre.clone();
                    a1.set_pwr_aux(on);
                    ctx.op("C01,C08,C09", "loco_set_aux", &format!("{} {}", tok_loco(&pre), opt(&on, |x| b(*x))), &format!("ok {}", tok_loco(&a1)));
                    let mut a2 = a1.clone();
                    let r2 = guard(|| a2.set_cur_pwr_max_out(None, uc::S * dt).map(|_| a2.clone()));
                    ctx.op("C09", "loco_set_cur_max", &format!("{} {}", tok_loco(&a1), f(dt)), &ans(r2, tok_loco));
                    let mut a3 = a2.clone();
                    let r3 = guard(|| a3.solve_energy_consumption(uc::W * req, uc::S * dt, on).map(|_| a3.clone()));
                    ctx.op("C01,C08,C09", "loco_solve", &format!("{} {} {} {}", tok_loco(&a2), f(req), f(dt), opt(&on, |x| b(*x))), &ans(r3, tok_loco));
                }
                l = post;
                LocoTrait::step(&mut l);
                trace.push((req, dt, on));
                // outside its window the battery is outside C09's domain, not C01's: a few more steps, then stop
                if soc_outside_window(&l) { outside += 1; ctx.count("pt.loco.step_started_outside_soc_window"); if outside > 3 { ctx.count("pt.loco.trace_stopped_soc_outside_window"); break; } }
            }
            Some(Err(_)) => { ctx.count("pt.loco.step_err"); }
            None => {
                ctx.count("pt.loco.step_panic");
                ctx.fail("C09", "no_panic", &id, "locomotive step panicked".into(), json!({"loco_before": serde_json::to_value(&pre).unwrap(), "pwr_out_req_w": req, "dt_s": dt, "engine_on": on}));
            }
        }
    }
    // whole-run tie: the crate's own LocomotiveSimulation::walk on the accepted trace
    if !trace.is_empty() {
        let mut t = 0.0;
        let mut time = vec![0.0];
        let mut pwr = vec![0.0];
        let mut eon = vec![None];
        for (req, dt, on) in &trace { t += dt; time.push(t); pwr.push(*req); eon.push(*on); }
        let pt = PowerTrace::new(time, pwr, eon);
        let mut sim = LocomotiveSimulation::new(start.clone(), pt, None);
        let ok = guard(|| sim.walk()).map(|x| x.is_ok()).unwrap_or(false);
        ctx.checked("C01", "manual_driving_equals_walk");
        // time stamps are sums of dt, so walk()'s dt may differ from ours by rounding: compare when exact
        let exact = trace.iter().all(|(_, dt, _)| (*dt * 2.0).fract() == 0.0);
        if exact && (!ok || sim.loco_unit.state != l.state || sim.loco_unit.loco_type != l.loco_type) {
            ctx.fail("C01", "manual_driving_equals_walk", "walk", "LocomotiveSimulation::walk differs from the snapshot-stepped run".into(), input0.clone());
        }
    }
    ctx.sample("pt.loco_trace", json!({"bel": bel, "accepted_steps": trace.len(), "first_steps": trace.iter().take(4).map(|t| json!([t.0, t.1, t.2])).collect::<Vec<_>>()}));
}


// ---------------------------------------------------------------- hybrid locomotive (C08)
// The third locomotive type: engine + generator + battery + drivetrain.  Model: lean/Altrios/Hybrid.lean.
// The fuel / battery split of a step is chosen either as the constant `fuel_res_split` or by the golden-section
// search (an external optimiser working on clones); the op lines carry the split the implementation ENDED the step
// with, the model takes it as a parameter (the theorems hold for every split).

pub const HYB_GEN_AUX: f64 = 50e3;

pub fn tok_hybrid(h: &HybridLoco) -> String {
    format!("{} {} {} {} {}", tok_fc(&h.fc), tok_gen(&h.gen), tok_res(&h.res), tok_edrv(&h.edrv), f(h.fuel_res_split))
}
pub fn tok_hloco(l: &Locomotive) -> String {
    let pt = match &l.loco_type {
        PowertrainType::HybridLoco(h) => tok_hybrid(h),
        _ => "unsupported".to_string(),
    };
    let s = &l.state;
    format!(
        "{} {} {} {} {} {} {} {} {} {} {}",
        pt, f(s.pwr_out_max.value), f(s.pwr_rate_out_max.value), f(s.pwr_regen_max.value),
        f(s.pwr_out.value), f(s.pwr_aux.value), f(s.energy_out.value), f(s.energy_aux.value),
        b(l.assert_limits), f(l.pwr_aux_offset.value), f(l.pwr_aux_traction_coeff.value)
    )
}
fn hyb_of(l: &Locomotive) -> &HybridLoco {
    match &l.loco_type { PowertrainType::HybridLoco(h) => h, _ => unreachable!() }
}
pub fn gen_hloco(r: &mut Rng) -> Locomotive {
    let mut l = Locomotive::default_hybrid_electric_loco();
    let fc = gen_fc(r);
    let gen = gen_gen(r, fc.pwr_out_max.value);
    let res = gen_res(r);
    let share = *r.pick(&[0.0, 0.5, 1.0]);
    let edrv = gen_edrv(r, gen.pwr_out_max.value + res.pwr_out_max.value * share);
    let split = *r.pick(&[0.0, 0.25, 0.5, 0.5, 0.8, 1.0, 0.37]);
    // with a cost ratio the split is re-optimised on step 1 and then every `gss_interval` steps
    let ratio = if r.chance(0.5) { None } else { Some(*r.pick(&[0.5, 1.0, 3.0, 10.0])) };
    let interval = *r.pick(&[None, Some(1), Some(3), Some(60)]);
    l.loco_type = PowertrainType::HybridLoco(Box::new(HybridLoco::new(fc, gen, res, edrv, Some(split), ratio, interval)));
    l.pwr_aux_offset = uc::W * *r.pick(&[0.0, 8554.15, 5.0e4]);
    l.pwr_aux_traction_coeff = uc::R * *r.pick(&[0.0, 0.000539638, 0.01]);
    l.set_save_interval(None);
    l
}

/// C08 clauses on one accepted hybrid step (implementation only; the model is not consulted)
fn oracle_hybrid_step(k: &mut Chk, pre: &Locomotive, post: &Locomotive, req: f64, dt: f64, engine_on: Option<bool>) {
    let (h0, h) = (hyb_of(pre), hyb_of(post));
    let (e0, e) = (h0.edrv.state, h.edrv.state);
    let (f0, fc, g0, g, r0, rs) = (h0.fc.state, h.fc.state, h0.gen.state, h.gen.state, h0.res.state, h.res.state);
    let up = 1.0 + 1e-12;
    k.req("C08", "hyb_edrv_second_law", e.pwr_loss.value >= 0.0 && e.energy_loss.value >= e0.energy_loss.value
        && e.eta.value > 0.0 && e.eta.value <= 1.0
        && (if req > 0.0 { e.pwr_mech_prop_out.value <= e.pwr_elec_prop_in.value * up } else { e.pwr_elec_prop_in.value.abs() <= e.pwr_mech_prop_out.value.abs() * up }),
        || format!("hybrid edrv: eta {} loss {} mech {} elec {} req {}", e.eta.value, e.pwr_loss.value, e.pwr_mech_prop_out.value, e.pwr_elec_prop_in.value, req));
    k.req("C08", "hyb_dyn_brake_only_when_braking", e.pwr_mech_dyn_brake.value >= 0.0 && (req < 0.0 || e.pwr_mech_dyn_brake.value == 0.0)
        && e.energy_mech_dyn_brake.value >= e0.energy_mech_dyn_brake.value && e.energy_elec_dyn_brake.value >= e0.energy_elec_dyn_brake.value,
        || format!("hybrid dyn brake {} with request {}", e.pwr_mech_dyn_brake.value, req));
    k.req("C08", "hyb_fc_gen_second_law", fc.pwr_loss.value >= 0.0 && g.pwr_loss.value >= 0.0
        && fc.energy_loss.value >= f0.energy_loss.value && g.energy_loss.value >= g0.energy_loss.value && fc.energy_fuel.value >= f0.energy_fuel.value
        && fc.eta.value > 0.0 && fc.eta.value <= 1.0 && g.eta.value > 0.0 && g.eta.value <= 1.0
        && fc.pwr_brake.value <= fc.pwr_fuel.value * up && g.pwr_elec_prop_out.value + g.pwr_elec_aux.value <= g.pwr_mech_in.value * up,
        || format!("hybrid fc eta {} loss {} brake {} fuel {}; gen eta {} loss {} out {} in {}", fc.eta.value, fc.pwr_loss.value, fc.pwr_brake.value, fc.pwr_fuel.value,
            g.eta.value, g.pwr_loss.value, g.pwr_elec_prop_out.value + g.pwr_elec_aux.value, g.pwr_mech_in.value));
    k.req("C08", "hyb_res_second_law", rs.pwr_loss.value >= 0.0 && rs.energy_loss.value >= r0.energy_loss.value
        && rs.eta.value > 0.0 && rs.eta.value <= 1.0
        && (if rs.pwr_out_electrical.value > 0.0 { rs.pwr_out_electrical.value <= rs.pwr_out_chemical.value * up } else { rs.pwr_out_chemical.value.abs() <= rs.pwr_out_electrical.value.abs() * up }),
        || format!("hybrid res: eta {} loss {} elec {} chem {}", rs.eta.value, rs.pwr_loss.value, rs.pwr_out_electrical.value, rs.pwr_out_chemical.value));
    // hand-offs inside the unit: what the drivetrain draws is what generator and battery deliver; the engine shaft feeds the generator
    let sc = h.edrv.pwr_out_max.value.abs().max(req.abs());
    k.req("C08", "hyb_handoff", close(g.pwr_elec_prop_out.value + rs.pwr_out_propulsion.value, e.pwr_elec_prop_in.value, sc) && fc.pwr_brake.value == g.pwr_mech_in.value,
        || format!("hybrid: gen prop out {} + res prop {} vs edrv elec in {}; fc brake {} vs gen mech in {}", g.pwr_elec_prop_out.value, rs.pwr_out_propulsion.value, e.pwr_elec_prop_in.value, fc.pwr_brake.value, g.pwr_mech_in.value));
    // the battery is never asked for more than the discharge limit published for this step, whatever split the optimiser chose
    if e.pwr_elec_prop_in.value > 0.0 {
        k.req("C08", "hyb_res_share_le_published", rs.pwr_out_propulsion.value <= rs.pwr_prop_out_max.value,
            || format!("hybrid: battery share {} above its published limit {} (split {})", rs.pwr_out_propulsion.value, rs.pwr_prop_out_max.value, h.fuel_res_split));
    }
    // "a locomotive whose engine is commanded off consumes no fuel and no auxiliary power in that step"
    if engine_on == Some(false) {
        // two clauses, so that the known finding about the fuel cannot hide a different violation (aux drawn while off)
        k.req("C08", "hyb_engine_off_burns_nothing", fc.pwr_fuel.value == 0.0 && g.pwr_elec_aux.value == 0.0,
            || format!("hybrid commanded off still burns fuel: pwr_fuel {} W, generator aux {} W (request {} W)", fc.pwr_fuel.value, g.pwr_elec_aux.value, req));
        k.req("C08", "hyb_engine_off_no_loco_aux", post.state.pwr_aux.value == 0.0 && post.state.energy_aux.value == pre.state.energy_aux.value,
            || format!("hybrid commanded off draws auxiliary power: pwr_aux {} W, energy_aux {} -> {} J", post.state.pwr_aux.value, pre.state.energy_aux.value, post.state.energy_aux.value));
    }
    let _ = dt;
}

fn hloco_step_real(l: &mut Locomotive, req: f64, dt: f64, on: Option<bool>) -> Option<anyhow::Result<()>> {
    loco_step_real(l, req, dt, on)
}

fn hybrid_trace_case(ctx: &mut Ctx, r: &mut Rng, steps: usize) {
    let mut l = gen_hloco(r);
    if r.chance(0.15) { l.assert_limits = false; }
    let gss = hyb_of(&l).fuel_res_ratio.is_some();
    ctx.count(if gss { "pt.hyb.loco_with_split_search" } else { "pt.hyb.loco_constant_split" });
    let start = l.clone();
    let mut trace: Vec<(f64, f64, Option<bool>)> = vec![];
    for _ in 0..steps {
        let dt = pick_dt(r);
        let on = *r.pick(&[None, Some(true), Some(true), Some(false)]);
        let mut probe = l.clone();
        let lim_ok = guard(|| { probe.set_pwr_aux(on); probe.set_cur_pwr_max_out(None, uc::S * dt) }).map(|x| x.is_ok()).unwrap_or(false);
        let (om, rm) = if lim_ok { (probe.state.pwr_out_max.value, probe.state.pwr_regen_max.value) } else { (1.0e6, 0.0) };
        let rating = hyb_of(&l).edrv.pwr_out_max.value;
        // traction as often as braking (the split only matters in traction)
        let mut req = if r.chance(0.4) { pick_req(r, om, rm, rating, false) } else { pick_req(r, om, rm, rating, true) };
        if on == Some(false) && r.chance(0.8) { req = 0.0; }
        let pre = l.clone();
        let mut post = l.clone();
        let res = hloco_step_real(&mut post, req, dt, on);
        let split_used = hyb_of(&post).fuel_res_split;
        let args = format!("{} {} {} {} {} {}", tok_hloco(&pre), f(req), f(dt), opt(&on, |x| b(*x)), f(split_used), f(HYB_GEN_AUX));
        let a = match &res { None => "panic".to_string(), Some(Err(_)) => "err".to_string(), Some(Ok(())) => format!("ok {}", tok_hloco(&post)) };
        // on an error the implementation may or may not have run the split search: the model is given the pre-step split then
        let args = if matches!(res, Some(Ok(()))) { args } else {
            format!("{} {} {} {} {} {}", tok_hloco(&pre), f(req), f(dt), opt(&on, |x| b(*x)), f(hyb_of(&pre).fuel_res_split), f(HYB_GEN_AUX)) };
        let searched = split_used != hyb_of(&pre).fuel_res_split;
        // a rejected step of a searching hybrid: the decision may depend on the split the search would have chosen — not compared
        let compare = matches!(res, Some(Ok(()))) || !gss;
        let id = if compare { ctx.op("C08", "hloco_sim_step", &args, &a) } else { ctx.count("pt.hyb.rejected_step_of_searching_unit_not_compared"); format!("h{}", ctx.case_no) };
        match res {
            Some(Ok(())) => {
                ctx.count("pt.hyb.step_ok");
                ctx.count(if req > 0.0 { "pt.hyb.traction" } else if req < 0.0 { "pt.hyb.braking" } else { "pt.hyb.zero" });
                if searched { ctx.count("pt.hyb.split_changed_by_search"); }
                let input = json!({"kind": "hybrid_step", "loco_before": serde_json::to_value(&pre).unwrap(), "pwr_out_req_w": req, "dt_s": dt, "engine_on": on});
                let mut k = Chk { ctx, case: id.clone(), input };
                oracle_hybrid_step(&mut k, &pre, &post, req, dt, on);
                if r.chance(0.3) {
                    let mut a1 = pre.clone();
                    a1.set_pwr_aux(on);
                    ctx.op("C08", "hloco_set_aux", &format!("{} {}", tok_hloco(&pre), opt(&on, |x| b(*x))), &format!("ok {}", tok_hloco(&a1)));
                    let mut a2 = a1.clone();
                    let r2 = guard(|| a2.set_cur_pwr_max_out(None, uc::S * dt).map(|_| a2.clone()));
                    ctx.op("C08", "hloco_set_cur_max", &format!("{} {}", tok_hloco(&a1), f(dt)), &ans(r2, tok_hloco));
                    let mut a3 = a2.clone();
                    let r3 = guard(|| a3.solve_energy_consumption(uc::W * req, uc::S * dt, on).map(|_| a3.clone()));
                    let sp3 = match &r3 { Some(Ok(x)) => hyb_of(x).fuel_res_split, _ => split_used };
                    ctx.op("C08", "hloco_solve", &format!("{} {} {} {} {}", tok_hloco(&a2), f(req), f(dt), f(sp3), f(HYB_GEN_AUX)), &ans(r3, tok_hloco));
                    // the interval handed to the search, recomputed from the state the search sees
                    let (hh, ee) = (hyb_of(&a2), &hyb_of(&post).edrv.state);
                    if ee.pwr_elec_prop_in.value > 0.0 {
                        let pin = ee.pwr_elec_prop_in.value;
                        let lo = (1.0 - hh.res.state.pwr_prop_out_max.value / pin).clamp(0.0, 1.0);
                        let hi = (hh.gen.state.pwr_elec_prop_out_max.value / pin).clamp(0.0, 1.0);
                        ctx.op("C08", "hyb_gss_bounds", &format!("{} {} {}", f(hh.res.state.pwr_prop_out_max.value), f(hh.gen.state.pwr_elec_prop_out_max.value), f(pin)),
                            &format!("ok {} {}", f(lo), f(hi)));
                        // when the search ran in this step its answer lies in the interval it was given (or is the mean of a narrow one)
                        if searched {
                            ctx.checked("C08", "hyb_split_within_search_interval");
                            if !(split_used >= lo.min(hi) - 1e-12 && split_used <= hi.max(lo) + 1e-12) {
                                ctx.fail("C08", "hyb_split_within_search_interval", &id, format!("split {} outside [{}, {}]", split_used, lo, hi), json!({"loco_before": serde_json::to_value(&pre).unwrap(), "pwr_out_req_w": req, "dt_s": dt}));
                            }
                        }
                    }
                }
                l = post;
                LocoTrait::step(&mut l);
                trace.push((req, dt, on));
                if soc_outside_window_res(&hyb_of(&l).res) { ctx.count("pt.hyb.trace_stopped_soc_outside_window"); break; }
            }
            Some(Err(_)) => { ctx.count("pt.hyb.step_err"); }
            None => {
                ctx.count("pt.hyb.step_panic");
                if hyb_of(&pre).res.state.soc.value.is_finite() {
                    ctx.count("pt.hyb.step_panic_observed");
                }
            }
        }
    }
    // whole-run tie: the crate's own LocomotiveSimulation::walk on the accepted trace
    if !trace.is_empty() {
        let mut t = 0.0;
        let mut time = vec![0.0];
        let mut pwr = vec![0.0];
        let mut eon = vec![None];
        for (req, dt, on) in &trace { t += dt; time.push(t); pwr.push(*req); eon.push(*on); }
        let pt = PowerTrace::new(time, pwr, eon);
        let mut sim = LocomotiveSimulation::new(start.clone(), pt, None);
        let ok = guard(|| sim.walk()).map(|x| x.is_ok()).unwrap_or(false);
        ctx.checked("C08", "hyb_manual_driving_equals_walk");
        let exact = trace.iter().all(|(_, dt, _)| (*dt * 2.0).fract() == 0.0);
        if exact && (!ok || sim.loco_unit.state != l.state || sim.loco_unit.loco_type != l.loco_type) {
            ctx.fail("C08", "hyb_manual_driving_equals_walk", "walk", "LocomotiveSimulation::walk of a hybrid differs from the snapshot-stepped run".into(),
                json!({"kind": "hybrid_trace", "loco": serde_json::to_value(&start).unwrap(), "trace": trace.iter().map(|t| json!([t.0, t.1, t.2])).collect::<Vec<_>>()}));
        }
    }
    ctx.sample("pt.hybrid_trace", json!({"split_search": gss, "accepted_steps": trace.len(), "first_steps": trace.iter().take(4).map(|t| json!([t.0, t.1, t.2])).collect::<Vec<_>>()}));
}

fn soc_outside_window_res(res: &ReversibleEnergyStorage) -> bool {
    let s = res.state.soc.value;
    !(s >= res.min_soc.value && s <= res.max_soc.value)
}

/// the battery left its SOC window (only possible outside the step-size domain H_dt): what
/// follows is outside the properties' domain, the trace stops there
fn soc_outside_window(l: &Locomotive) -> bool {
    match &l.loco_type {
        PowertrainType::BatteryElectricLoco(b) => {
            let s = b.res.state;
            s.soc < s.min_soc || s.soc > s.max_soc
        }
        _ => false,
    }
}

fn is_bel(l: &Locomotive) -> bool { matches!(l.loco_type, PowertrainType::BatteryElectricLoco(_)) }

fn oracle_consist_step(k: &mut Chk, pre: &Consist, post: &Consist, req: f64, dt: f64) {
    let shares: Vec<f64> = post.loco_vec.iter().map(|l| l.state.pwr_out.value).collect();
    let sum: f64 = shares.iter().sum();
    let scale: f64 = shares.iter().map(|x| x.abs()).sum::<f64>().max(req.abs()).max(1.0);
    k.req("C10", "shares_sum_to_request", (sum - req).abs() <= 1e-8 * scale + 1e-6, || format!("sum of shares {} != request {} (shares {:?})", sum, req, shares));
    let greedy = matches!(post.pdct, PowerDistributionControlType::RESGreedy(_));
    let mut bel_max = 0.0;
    for (l, p) in post.loco_vec.iter().zip(&shares) {
        let rating = edrv_of(l).pwr_out_max.value;
        let om = l.state.pwr_out_max.value;
        if is_bel(l) { bel_max += om; }
        if is_bel(l) && om < 0.0 {
            // a battery unit whose derated discharge limit is below its auxiliary load publishes a
            // NEGATIVE traction limit and is handed more than that (negative traction while the consist pushes, or zero)
            k.req("C10", "bel_negative_traction_limit", false,
                || format!("battery unit publishes pwr_out_max = {} W (< 0: discharge limit below aux load) and is assigned {} W while the consist is asked for {} W", om, p, req));
            continue;
        }
        k.req("C10", "share_within_unit_limit", *p <= om * (1.0 + 1e-9) + 1e-6 && *p >= -rating * (1.0 + 1e-9) - 1e-6,
            || format!("share {} published out_max {} drivetrain rating {}", p, om, rating));
        k.req("C10", "no_unit_opposes_consist", if req > 0.0 { *p >= -1e-6 } else if req < 0.0 { *p <= 1e-6 } else { p.abs() <= 1e-6 },
            || format!("share {} while consist request is {}", p, req));
        let e = edrv_of(l).state;
        let regen = (-e.pwr_mech_prop_out.value).max(0.0);
        k.req("C10", "regen_only_battery_within_limit", if is_bel(l) { regen <= l.state.pwr_regen_max.value * (1.0 + 1e-9) + 1e-6 } else { regen == 0.0 },
            || format!("regen {} regen_max {} bel {}", regen, l.state.pwr_regen_max.value, is_bel(l)));
    }
    if greedy && req > 0.0 {
        let conv: f64 = post.loco_vec.iter().zip(&shares).filter(|(l, _)| !is_bel(l)).map(|(_, p)| *p).sum();
        let want = (req - bel_max).max(0.0);
        k.req("C10", "battery_first", (conv - want).abs() <= 1e-8 * scale + 1e-6, || format!("fuel units deliver {} but battery units could cover all but {}", conv, want));
    }
    // roll-ups (C01)
    let s = post.state;
    let s0 = pre.state;
    let fuel: f64 = post.loco_vec.iter().map(|l| match &l.loco_type { PowertrainType::ConventionalLoco(c) => c.fc.state.pwr_fuel.value, _ => 0.0 }).sum();
    let chem: f64 = post.loco_vec.iter().map(|l| match &l.loco_type { PowertrainType::BatteryElectricLoco(c) => c.res.state.pwr_out_chemical.value, _ => 0.0 }).sum();
    k.req("C01", "consist_power_rollup", close(s.pwr_fuel.value, fuel, scale) && close(s.pwr_reves.value, chem, scale) && close(s.pwr_out.value, sum, scale),
        || "consist pwr_fuel / pwr_reves / pwr_out differ from the sums over locomotives".into());
    // float-sound: the difference of two accumulated energies carries the rounding of the accumulation (half an ulp of the
    // accumulated value), however small the increment is
    let acc = |e1: f64, e0: f64, inc: f64| close(e1 - e0, inc, scale * dt) || (e1 - e0 - inc).abs() <= 4.0 * f64::EPSILON * e1.abs().max(e0.abs());
    k.req("C01", "consist_energy_integrates", acc(s.energy_fuel.value, s0.energy_fuel.value, s.pwr_fuel.value * dt)
        && acc(s.energy_res.value, s0.energy_res.value, s.pwr_reves.value * dt)
        && acc(s.energy_out.value, s0.energy_out.value, s.pwr_out.value * dt),
        || "consist energies do not advance by power*dt".into());
    let ef: f64 = post.loco_vec.iter().map(|l| match &l.loco_type { PowertrainType::ConventionalLoco(c) => c.fc.state.energy_fuel.value, _ => 0.0 }).sum();
    let ec: f64 = post.loco_vec.iter().map(|l| match &l.loco_type { PowertrainType::BatteryElectricLoco(c) => c.res.state.energy_out_chemical.value, _ => 0.0 }).sum();
    let eo: f64 = post.loco_vec.iter().map(|l| l.state.energy_out.value).sum();
    let es = ef.abs().max(ec.abs()).max(eo.abs()).max(1.0);
    k.req("C01", "consist_energy_rollup", close(post.get_energy_fuel().value, ef, es) && close(post.get_net_energy_res().value, ec, es),
        || "get_energy_fuel / get_net_energy_res differ from the sums over locomotives".into());
    k.req("C09", "consist_within_published", req <= s.pwr_out_max.value && -req <= s.pwr_dyn_brake_max.value,
        || format!("request {} out_max {} dyn_brake_max {}", req, s.pwr_out_max.value, s.pwr_dyn_brake_max.value));
    let _ = (eo, s0);
}

fn consist_step_real(c: &mut Consist, req: f64, dt: f64) -> Option<anyhow::Result<()>> {
    guard(|| {
        c.set_pwr_aux(Some(true))?;
        c.set_cur_pwr_max_out(None, uc::S * dt)?;
        c.solve_energy_consumption(uc::W * req, uc::S * dt, Some(true))
    })
}

fn consist_trace_case(ctx: &mut Ctx, r: &mut Rng, steps: usize, nmax: usize) {
    let mut c = gen_consist(r, nmax);
    if r.chance(0.25) {
        // a RE-COMPOSED consist: constructed from some other unit, then given its real units through the public setter
        // (anything the constructor caches about the composition — e.g. the count of battery units — is then stale)
        let real = c.loco_vec.clone();
        let first_bel = r.chance(0.3);
        let first = vec![gen_loco(r, first_bel)];
        let mut c2 = Consist::new(first, None, c.pdct.clone());
        c2.set_loco_vec(real);
        c = c2;
        ctx.count("pt.consist.recomposed_through_setter");
    }
    if r.chance(0.1) { c.set_assert_limits(false); }
    let n_bel = c.loco_vec.iter().filter(|l| is_bel(l)).count();
    ctx.count(&format!("pt.consist.n_units.{}", c.loco_vec.len()));
    ctx.count(if n_bel == 0 { "pt.consist.all_conv" } else if n_bel == c.loco_vec.len() { "pt.consist.all_bel" } else { "pt.consist.mixed" });
    ctx.count(match c.pdct { PowerDistributionControlType::Proportional(_) => "pt.consist.proportional", _ => "pt.consist.res_greedy" });
    let start = c.clone();
    let mut trace: Vec<(f64, f64)> = vec![];
    let mut outside = 0;
    for _ in 0..steps {
        let dt = pick_dt(r);
        let mut probe = c.clone();
        let lim_ok = guard(|| { probe.set_pwr_aux(Some(true))?; probe.set_cur_pwr_max_out(None, uc::S * dt) }).map(|x| x.is_ok()).unwrap_or(false);
        let (om, rm, reves) = if lim_ok { (probe.state.pwr_out_max.value, probe.state.pwr_regen_max.value, probe.state.pwr_out_max_reves.value) } else { (1.0e6, 0.0, 0.0) };
        let rating: f64 = c.loco_vec.iter().map(|l| edrv_of(l).pwr_out_max.value).sum();
        let fr = *r.pick(&[0.0, 0.1, 0.3, 0.5, 0.7, 0.9, 0.99, 1.0]);
        let req = match r.below(16) {
            0 => 0.0,
            1 => om,
            2 => f64::from_bits(om.to_bits().wrapping_add(1)),
            3 => om * (1.0 + 2.0 * TOL),
            4 => reves,                       // exactly what the battery units can cover
            5 => reves * fr,
            6 => reves + (om - reves) * fr,
            7 => -rm,
            8 => -rm * fr,
            9 => -rm - (rating - rm) * fr,
            10 => -rating,
            11 => -rating * 1.001,
            _ => om * fr,
        };
        let pre = c.clone();
        let mut post = c.clone();
        let res = consist_step_real(&mut post, req, dt);
        let args = format!("{} {} {}", tok_consist(&pre), f(req), f(dt));
        let a = match &res { None => "panic".to_string(), Some(Err(_)) => "err".to_string(), Some(Ok(())) => format!("ok {}", tok_consist(&post)) };
        let id = ctx.op("C01,C08,C09,C10", "consist_sim_step", &args, &a);
        let input = json!({"kind": "consist_step", "consist_before": serde_json::to_value(&pre).unwrap(), "pwr_out_req_w": req, "dt_s": dt});
        match res {
            Some(Ok(())) => {
                ctx.count("pt.consist.step_ok");
                ctx.count(if req > 0.0 { if post.state.pwr_out_deficit.value > 0.0 { "pt.consist.traction_with_deficit" } else { "pt.consist.traction_no_deficit" } }
                          else if req < 0.0 { if post.state.pwr_regen_deficit.value > 0.0 { "pt.consist.braking_with_regen_deficit" } else { "pt.consist.braking_regen_only" } }
                          else { "pt.consist.zero" });
                if consist_assert_limits(&pre) {
                    let mut k = Chk { ctx, case: id.clone(), input };
                    oracle_consist_step(&mut k, &pre, &post, req, dt);
                    // each unit's own step clauses, with the share it was given
                    let mut mid = pre.clone();
                    let _ = mid.set_pwr_aux(Some(true));
                    for (i, (l0, l1)) in pre.loco_vec.iter().zip(post.loco_vec.iter()).enumerate() {
                        let _ = i;
                        oracle_loco_step(&mut k, l0, l1, l1.state.pwr_out.value, dt, Some(true));
                    }
                }
                if r.chance(0.2) {
                    let mut a1 = pre.clone();
                    let _ = a1.set_pwr_aux(Some(true));
                    let mut a2 = a1.clone();
                    let r2 = guard(|| a2.set_cur_pwr_max_out(None, uc::S * dt).map(|_| a2.clone()));
                    ctx.op("C09,C10", "consist_set_cur_max", &format!("{} {}", tok_consist(&a1), f(dt)), &ans(r2, tok_consist));
                    let mut a3 = a2.clone();
                    let r3 = guard(|| a3.solve_energy_consumption(uc::W * req, uc::S * dt, Some(true)).map(|_| a3.clone()));
                    ctx.op("C01,C10", "consist_solve", &format!("{} {} {} S T", tok_consist(&a2), f(req), f(dt)), &ans(r3, tok_consist));
                    ctx.op("C01", "consist_totals", &tok_consist(&post), &format!("ok {} {}", f(post.get_energy_fuel().value), f(post.get_net_energy_res().value)));
                }
                c = post;
                LocoTrait::step(&mut c);
                trace.push((req, dt));
                if c.loco_vec.iter().any(soc_outside_window) { outside += 1; ctx.count("pt.consist.step_started_outside_soc_window"); if outside > 3 { ctx.count("pt.consist.trace_stopped_soc_outside_window"); break; } }
            }
            Some(Err(_)) => { ctx.count("pt.consist.step_err"); }
            None => {
                ctx.count("pt.consist.step_panic");
                if consist_assert_limits(&pre) {
                    ctx.fail("C10", "no_panic", &id, "consist step panicked with limit checking on".into(), input);
                }
            }
        }
    }
    if !trace.is_empty() {
        let mut t = 0.0;
        let mut time = vec![0.0];
        let mut pwr = vec![0.0];
        let mut eon = vec![None];
        for (req, dt) in &trace { t += dt; time.push(t); pwr.push(*req); eon.push(Some(true)); }
        let mut sim = ConsistSimulation::new(start.clone(), PowerTrace::new(time, pwr, eon), None);
        let ok = guard(|| sim.walk()).map(|x| x.is_ok()).unwrap_or(false);
        let exact = trace.iter().all(|(_, dt)| (*dt * 2.0).fract() == 0.0);
        ctx.checked("C01", "manual_driving_equals_walk");
        if exact && (!ok || sim.loco_con.state != c.state || sim.loco_con.loco_vec != c.loco_vec) {
            ctx.fail("C01", "manual_driving_equals_walk", "walk", "ConsistSimulation::walk differs from the snapshot-stepped run".into(),
                json!({"kind": "consist_trace", "consist": serde_json::to_value(&start).unwrap(), "trace": trace.iter().map(|t| json!([t.0, t.1])).collect::<Vec<_>>()}));
        }
    }
    ctx.sample("pt.consist_trace", json!({"units": c.loco_vec.iter().map(|l| if is_bel(l) { "bel" } else { "conv" }).collect::<Vec<_>>(), "accepted_steps": trace.len(), "first_steps": trace.iter().take(4).map(|t| json!([t.0, t.1])).collect::<Vec<_>>()}));
}

/// component-level ops on wider input domains than a locomotive step reaches
fn component_case(ctx: &mut Ctx, r: &mut Rng) {
    // interp1d: shipped and generated maps, queries at / between / outside knots and +-1 ulp
    let (xs, ys) = if r.chance(0.2) { let fc = FuelConverter::default(); (fc.pwr_out_frac_interp, fc.eta_interp) } else { gen_map(r, false) };
    let kx = *r.pick(&xs);
    let x = match r.below(6) { 0 => kx, 1 => f64::from_bits(kx.to_bits() + 1), 2 => if kx > 0.0 { f64::from_bits(kx.to_bits() - 1) } else { -0.25 }, 3 => -0.5, 4 => 1.5, _ => r.unit() };
    let got = guard(|| interp1d(&x, &xs, &ys, false));
    let lo = ys.iter().cloned().fold(f64::INFINITY, f64::min);
    let hi = ys.iter().cloned().fold(f64::NEG_INFINITY, f64::max);
    if let Some(Ok(v)) = &got {
        ctx.checked("C08", "interp1d_within_map_range");
        if !(*v >= lo - 1e-12 && *v <= hi + 1e-12) {
            ctx.fail("C08", "interp1d_within_map_range", "interp1d", format!("interp1d({}) = {} outside [{}, {}]", x, v, lo, hi), json!({"x": x, "xs": xs, "ys": ys}));
        }
    }
    ctx.op("C08,C09", "interp1d", &format!("{} {} {}", f(x), fs(&xs), fs(&ys)), &ans(got, |v| f(*v)));
    // interp3d
    let res = gen_res(r);
    let g = &res.eta_interp_grid;
    let q = |r: &mut Rng, ax: &Vec<f64>| -> f64 { let kx = *r.pick(ax); match r.below(5) { 0 => kx, 1 => kx - 1.0, 2 => kx + 1.0, 3 => f64::from_bits(kx.to_bits() + 1), _ => { let a = ax[0]; let bb = ax[ax.len() - 1]; a + (bb - a) * r.unit() } } };
    let (p0, p1, p2) = (q(r, &g[0]), q(r, &g[1]), q(r, &g[2]));
    let got3 = guard(|| interp3d(&[p0, p1, p2], g, &res.eta_interp_values));
    let lo3 = eta_min_res(&res);
    let hi3 = res.eta_interp_values.iter().flatten().flatten().cloned().fold(f64::NEG_INFINITY, f64::max);
    if let Some(Ok(v)) = &got3 {
        ctx.checked("C08", "interp3d_within_map_range");
        if !(*v >= lo3 - 1e-12 && *v <= hi3 + 1e-12) {
            ctx.fail("C08", "interp3d_within_map_range", "interp3d", format!("interp3d = {} outside [{}, {}]", v, lo3, hi3), json!({"point": [p0, p1, p2], "grid": g, "values": res.eta_interp_values}));
        }
    }
    ctx.op("C08", "interp3d", &format!("{} {} {} {} {} {} {}", f(p0), f(p1), f(p2), fs(&g[0]), fs(&g[1]), fs(&g[2]), vals3(&res.eta_interp_values)), &ans(got3, |v| f(*v)));
    // fuel converter alone: engine on/off x demand x assert_limits
    let mut fc = gen_fc(r);
    let dt = pick_dt(r);
    fc.state.pwr_brake = fc.pwr_out_max * *r.pick(&[0.0, 0.2, 0.9]);
    let pre = fc.clone();
    let r1 = guard(|| fc.set_cur_pwr_out_max(uc::S * dt).map(|_| fc.clone()));
    ctx.op("C09", "fc_set_cur_max", &format!("{} {}", tok_fc(&pre), f(dt)), &ans(r1, tok_fc));
    let cur = fc.state.pwr_out_max.value;
    let req = match r.below(8) { 0 => 0.0, 1 => cur, 2 => cur * (1.0 + TOL / 2.0), 3 => cur * (1.0 + 2.0 * TOL), 4 => -1.0, 5 => fc.pwr_out_max.value * 1.0005, _ => cur * r.unit() };
    let on = r.chance(0.7);
    let al = r.chance(0.8);
    let pre = fc.clone();
    let r2 = guard(|| fc.solve_energy_consumption(uc::W * req, uc::S * dt, on, al).map(|_| fc.clone()));
    if let Some(Ok(p)) = &r2 {
        if !on {
            ctx.checked("C08", "engine_off_burns_nothing");
            if p.state.pwr_fuel.value != 0.0 {
                ctx.fail("C08", "engine_off_burns_nothing", "fc_solve", format!("engine off but pwr_fuel = {} W (idle fuel {} W)", p.state.pwr_fuel.value, p.pwr_idle_fuel.value),
                    json!({"fc": serde_json::to_value(&pre).unwrap(), "pwr_out_req_w": req, "dt_s": dt, "engine_on": false}));
            }
        }
    }
    ctx.op("C01,C08,C09", "fc_solve", &format!("{} {} {} {} {}", tok_fc(&pre), f(req), f(dt), b(on), b(al)), &ans(r2, tok_fc));
    // generator / drivetrain / battery alone
    let mut g1 = gen_gen(r, 3.0e6);
    let pin = g1.pwr_out_max.value * *r.pick(&[0.0, 0.3, 0.9, 1.0, 1.2]);
    let aux = *r.pick(&[0.0, 8554.15, 5.0e4]);
    let pre = g1.clone();
    let r3 = guard(|| g1.set_cur_pwr_max_out(uc::W * pin, Some(uc::W * aux)).map(|_| g1.clone()));
    ctx.op("C09", "gen_set_cur_max", &format!("{} {} {}", tok_gen(&pre), f(pin), f(aux)), &ans(r3, tok_gen));
    let prop = g1.pwr_out_max.value * *r.pick(&[0.0, 0.5, 0.99, 1.0, 1.01, -0.1]);
    let pre = g1.clone();
    let r4 = guard(|| g1.set_pwr_in_req(uc::W * prop, uc::W * aux, uc::S * dt).map(|_| g1.clone()));
    ctx.op("C01,C08,C09", "gen_req", &format!("{} {} {} {}", tok_gen(&pre), f(prop), f(aux), f(dt)), &ans(r4, tok_gen));
    let mut e1 = gen_edrv(r, 3.0e6);
    let pre = e1.clone();
    let r5 = guard(|| e1.set_cur_pwr_max_out(uc::W * pin, None).map(|_| e1.clone()));
    ctx.op("C09", "edrv_set_cur_max", &format!("{} {}", tok_edrv(&pre), f(pin)), &ans(r5, tok_edrv));
    let pre = e1.clone();
    let rin = e1.pwr_out_max.value * *r.pick(&[0.0, 0.4, 1.0, 1.5]);
    let r6 = guard(|| e1.set_cur_pwr_regen_max(uc::W * rin).map(|_| e1.clone()));
    ctx.op("C09", "edrv_set_regen_max", &format!("{} {}", tok_edrv(&pre), f(rin)), &ans(r6, tok_edrv));
    let ereq = e1.pwr_out_max.value * *r.pick(&[0.0, 0.5, 1.0, 1.0001, -0.2, -0.8, -1.5]);
    let pre = e1.clone();
    let r7 = guard(|| e1.set_pwr_in_req(uc::W * ereq, uc::S * dt).map(|_| e1.clone()));
    ctx.op("C01,C08,C09", "edrv_req", &format!("{} {} {}", tok_edrv(&pre), f(ereq), f(dt)), &ans(r7, tok_edrv));
    let mut b1 = gen_res(r);
    let pre = b1.clone();
    let (cb, db) = if r.chance(0.5) { (None, None) } else { (Some(uc::J * b1.energy_capacity.value * 0.05), Some(uc::J * b1.energy_capacity.value * 0.1)) };
    let r8 = guard(|| b1.set_cur_pwr_out_max(uc::W * aux, cb, db).map(|_| b1.clone()));
    ctx.op("C09", "res_set_cur_max", &format!("{} {} {} {}", tok_res(&pre), f(aux), f(cb.map(|x| x.value).unwrap_or(0.0)), f(db.map(|x| x.value).unwrap_or(0.0))), &ans(r8, tok_res));
    let dm = b1.state.pwr_disch_max.value;
    let cm = b1.state.pwr_charge_max.value;
    let bp = match r.below(8) { 0 => dm - aux, 1 => (dm - aux) * (1.0 + 2.0 * TOL), 2 => -cm - aux, 3 => (-cm - aux) * (1.0 + 2.0 * TOL), 4 => 0.0, 5 => -cm * r.unit(), _ => dm * r.unit() };
    let pre = b1.clone();
    let r9 = guard(|| b1.solve_energy_consumption(uc::W * bp, uc::W * aux, uc::S * dt).map(|_| b1.clone()));
    ctx.op("C01,C08,C09", "res_solve", &format!("{} {} {} {}", tok_res(&pre), f(bp), f(aux), f(dt)), &ans(r9, tok_res));
}

pub fn run(ctx: &mut Ctx, r: &mut Rng, tier: &str) {
    let (nl, nc, ncomp, steps) = if tier == "thorough" { (400, 400, 3000, 40) } else { (40, 40, 300, 25) };
    // corpus: the shipped default units, engine off with zero demand (DESIGN §8 #2)
    {
        let mut l = Locomotive::default();
        l.set_save_interval(None);
        for (req, on) in [(0.0, Some(false)), (1.0e6, Some(true)), (0.0, Some(true)), (0.0, Some(false))] {
            let pre = l.clone();
            let mut post = l.clone();
            let res = loco_step_real(&mut post, req, 1.0, on);
            let a = match &res { None => "panic".to_string(), Some(Err(_)) => "err".to_string(), Some(Ok(())) => format!("ok {}", tok_loco(&post)) };
            let id = ctx.op("C01,C08,C09", "loco_sim_step", &format!("{} {} {} {}", tok_loco(&pre), f(req), f(1.0), opt(&on, |x| b(*x))), &a);
            if let Some(Ok(())) = res {
                let input = json!({"kind": "corpus_default_loco", "pwr_out_req_w": req, "dt_s": 1.0, "engine_on": on});
                let mut k = Chk { ctx, case: id, input };
                oracle_loco_step(&mut k, &pre, &post, req, 1.0, on);
                l = post;
            }
        }
    }
    for _ in 0..nl { let mut rr = r.fork(); loco_trace_case(ctx, &mut rr, steps); }
    for i in 0..nc { let mut rr = r.fork(); consist_trace_case(ctx, &mut rr, steps, if tier == "thorough" && i % 3 == 0 { 8 } else { 5 }); }
    for _ in 0..ncomp { let mut rr = r.fork(); component_case(ctx, &mut rr); }
    // hybrids last, so that the random streams of the cases above are those of earlier runs
    for _ in 0..nl { let mut rr = r.fork(); hybrid_trace_case(ctx, &mut rr, steps); }
}
