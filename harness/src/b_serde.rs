//! Block `serde` (C17) — PROBE VERSION (being developed)
use crate::prng::Rng;
use crate::proto::*;
use altrios_core::consist::locomotive::locomotive_model::PowertrainType;
use altrios_core::prelude::*;
use altrios_core::traits::SerdeAPI;
use altrios_core::validate::Valid;
use altrios_core::{si, uc};
use std::fmt::Debug;

fn rt<T: SerdeAPI>(x: &T, fmt: &str) -> Result<T, String> {
    match fmt {
        "yaml" => T::from_yaml(x.to_yaml().map_err(|e| format!("ser: {e}"))?).map_err(|e| format!("de: {e:#}")),
        "json" => T::from_json(x.to_json().map_err(|e| format!("ser: {e}"))?).map_err(|e| format!("de: {e:#}")),
        "bin" => T::from_bincode(&x.to_bincode().map_err(|e| format!("ser: {e}"))?).map_err(|e| format!("de: {e:#}")),
        _ => unreachable!(),
    }
}

fn probe<T: SerdeAPI + PartialEq + Debug>(name: &str, x: &T) {
    for fmt in ["yaml", "json", "bin"] {
        let r = guard(|| rt(x, fmt));
        match r {
            None => eprintln!("{name:32} {fmt:5} PANIC"),
            Some(Err(e)) => eprintln!("{name:32} {fmt:5} ERR {}", &e[..e.len().min(150)]),
            Some(Ok(x1)) => {
                let eq1 = &x1 == x;
                let r2 = rt(&x1, fmt);
                let eq2 = match &r2 { Ok(x2) => (x2 == &x1).to_string(), Err(e) => format!("ERR {}", &e[..e.len().min(100)]) };
                eprintln!("{name:32} {fmt:5} ok  x1==x:{eq1}  x2==x1:{eq2}");
            }
        }
    }
}

pub fn run(_ctx: &mut Ctx, _r: &mut Rng, _tier: &str) {
    probe("FuelConverter", &FuelConverter::default());
    let mut fc = FuelConverter::default();
    fc.state.i = 5;
    probe("FuelConverter(i=5)", &fc);
    probe("Generator", &Generator::default());
    probe("ElectricDrivetrain", &ElectricDrivetrain::default());
    probe("ReversibleEnergyStorage", &ReversibleEnergyStorage::default());
    probe("Locomotive(conv)", &Locomotive::default());
    probe("Locomotive(bel)", &Locomotive::default_battery_electric_loco());
    probe("Locomotive(hybrid)", &Locomotive::default_hybrid_electric_loco());
    probe("Consist", &Consist::default());
    probe("PowerTrace", &PowerTrace::default());
    probe("SpeedTrace", &SpeedTrace::default());
    probe("TrainConfig", &TrainConfig::valid());
    probe("TrainSimBuilder", &TrainSimBuilder::default());
    probe("InitTrainState", &InitTrainState::default());
    probe("TrainState", &TrainState::default());
    probe("TrainState::valid", &TrainState::valid());
    probe("PathTpc::default", &PathTpc::default());
    probe("PathTpc::valid(finished)", &PathTpc::valid());
    probe("Link::valid", &Link::valid());
    probe("Network", &Network(Vec::<Link>::valid()));
    probe("LocomotiveSimulation", &LocomotiveSimulation::default());
    probe("ConsistSimulation", &ConsistSimulation::default());
    probe("SetSpeedTrainSim", &SetSpeedTrainSim::default());
    probe("SpeedLimitTrainSim::default", &SpeedLimitTrainSim::default());
    probe("SpeedLimitTrainSim::valid", &SpeedLimitTrainSim::valid());
    probe("TrainRes::valid", &TrainRes::valid());
    let _ = (uc::W, PowertrainType::default(), 0.0 * uc::W == si::Power::default());
    // first-step braking: fresh vs reloaded
    let pt = PowerTrace::new(vec![0.0, 1.0, 2.0, 3.0], vec![0.0, -1.0e5, -2.0e5, 1.0e5], vec![Some(true); 4]);
    let mut a = ConsistSimulation::new(Consist::default(), pt.clone(), Some(1));
    let mut b = ConsistSimulation::from_yaml(a.to_yaml().unwrap()).unwrap();
    eprintln!("fresh  pwr_dyn_brake_max = {:?}", a.loco_con.state.pwr_dyn_brake_max.value);
    eprintln!("reload pwr_dyn_brake_max = {:?}", b.loco_con.state.pwr_dyn_brake_max.value);
    eprintln!("fresh  step1: {:?}", a.step().map_err(|e| format!("{e:#}").chars().take(200).collect::<String>()));
    eprintln!("reload step1: {:?}", b.step().map_err(|e| format!("{e:#}").chars().take(200).collect::<String>()));
    // set speed train sim with decelerating first step
    let mut s = SetSpeedTrainSim::default();
    eprintln!("sst speed trace head: {:?}", &s.speed_trace.speed[..4].iter().map(|v| v.value).collect::<Vec<_>>());
    s.speed_trace.speed[0] = 5.0 * uc::MPS;
    s.state.speed = 5.0 * uc::MPS;
    s.set_save_interval(Some(1));
    let mut t = SetSpeedTrainSim::from_yaml(s.to_yaml().unwrap()).unwrap();
    let ra = s.step(); let rb = t.step();
    eprintln!("sst fresh  step1: {:?} pwr_whl_out={}", ra.map_err(|e| format!("{e:#}").chars().take(200).collect::<String>()), s.state.pwr_whl_out.value);
    eprintln!("sst reload step1: {:?} pwr_whl_out={}", rb.map_err(|e| format!("{e:#}").chars().take(200).collect::<String>()), t.state.pwr_whl_out.value);
    // serde_json features
    let v: f64 = 0.1 + 0.2;
    let j = serde_json::to_string(&v).unwrap();
    let w: f64 = serde_json::from_str(&j).unwrap();
    eprintln!("json f64 rt exact on 0.1+0.2: {}", v.to_bits() == w.to_bits());
    for (lo, hi) in [(1e-6, 1e-3), (1e-3, 1.0), (1.0, 1e3), (1e3, 1e6), (1e6, 1e9), (1e9, 1e15)] {
        let mut hist = [0u64; 4];
        let mut rr = Rng::new(7);
        let mut ex = String::new();
        for _ in 0..300000 {
            let x = (lo as f64) * ((hi / lo) as f64).powf(rr.unit());
            let y: f64 = serde_json::from_str(&serde_json::to_string(&x).unwrap()).unwrap();
            let d = (x.to_bits() as i64 - y.to_bits() as i64).unsigned_abs().min(3) as usize;
            hist[d] += 1;
            if d >= 2 && ex.is_empty() { ex = format!("{x:?} -> {y:?}"); }
        }
        eprintln!("json f64 rt [{lo:e},{hi:e}): ulp-distance histogram 0:{} 1:{} 2:{} >=3:{}  {}", hist[0], hist[1], hist[2], hist[3], ex);
    }
    let mut bad = 0;
    let mut rr = Rng::new(7);
    for _ in 0..200000 { let x = f64::from_bits(rr.next_u64() >> 2 | 0x3000_0000_0000_0000); let y: f64 = serde_yaml::from_str(&serde_yaml::to_string(&x).unwrap()).unwrap(); if x.to_bits()!=y.to_bits() { bad+=1; } }
    eprintln!("yaml f64 rt: {bad}/200000 inexact");
}
