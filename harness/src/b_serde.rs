//! Block `serde` (C17): every exported model type survives save/load in every advertised format
//! (YAML, JSON, bincode — `SerdeAPI::{to,from}_{yaml,json,bincode,file}`), in its default state and
//! at every step index of short simulations, and a simulation resumed from the loaded copy continues
//! exactly like the uninterrupted run.
//!
//! Two parts:
//!  * ORACLE (exercised part of the property: the text/binary float codecs are library code):
//!    x1 = load(save x), x2 = load(save x1) …, compared bit for bit through the serialized value
//!    trees (YAML, bincode) / within 1 ulp per number (JSON), plus the type's own `PartialEq`;
//!    simulations are continued from x1 and from x and must agree;
//!  * CORRESPONDENCE for the structural codec model (lean/Altrios/Serde.lean over the scanner's
//!    table): the shape of what the real encoder wrote goes to the Lean driver (`serde_shape`,
//!    `serde_bin`), which must reproduce keys / order / omitted fields / bincode byte count /
//!    bincode round-trip verdict.
use crate::b_pt::{gen_consist, gen_edrv, gen_fc, gen_gen, gen_loco, gen_res};
use crate::netgen::*;
use crate::prng::Rng;
use crate::proto::*;
use altrios_core::consist::locomotive::locomotive_model::PowertrainType;
use altrios_core::consist::{PowerDistributionControlType, Proportional, RESGreedy};
use altrios_core::meet_pass::disp_structs::{EstType, LinkEvent};
use altrios_core::meet_pass::est_times::EstTime;
use altrios_core::consist::locomotive::loco_sim::LocomotiveSimulationVec;
use altrios_core::prelude::*;
use altrios_core::track::*;
use altrios_core::train::kind::{aerodynamic, bearing, davis_b, path_res, rolling};
use altrios_core::train::method;
use altrios_core::train::*;
use altrios_core::traits::SerdeAPI;
use altrios_core::validate::*;
use altrios_core::uc;
use serde_json::json;
use serde_yaml::Value as Y;
use std::collections::{BTreeMap, HashMap};
use std::fmt::Debug;

const P: &str = "C17";
/// clause of the known finding (DESIGN §8 #1): bincode + a conditionally skipped field at its default
const CL_BIN_DESYNC: &str = "bincode_skipped_field_desync";
/// clause of the JSON finding: serde_json writes NaN / ±inf as `null` and cannot read it back as f64
const CL_JSON_NONFINITE: &str = "json_nonfinite_number_as_null";

#[derive(Clone, Copy, PartialEq, Eq, Debug)]
enum Fmt {
    Yaml,
    Json,
    Bin,
}
impl Fmt {
    fn name(self) -> &'static str {
        match self {
            Fmt::Yaml => "yaml",
            Fmt::Json => "json",
            Fmt::Bin => "bin",
        }
    }
}
const FMTS: [Fmt; 3] = [Fmt::Yaml, Fmt::Json, Fmt::Bin];

/// save + load through the crate's public API (includes `init()` after load)
fn save_load<T: SerdeAPI>(x: &T, f: Fmt) -> Result<T, String> {
    match f {
        Fmt::Yaml => T::from_yaml(x.to_yaml().map_err(|e| format!("save: {e:#}"))?).map_err(|e| format!("load: {e:#}")),
        Fmt::Json => T::from_json(x.to_json().map_err(|e| format!("save: {e:#}"))?).map_err(|e| format!("load: {e:#}")),
        Fmt::Bin => T::from_bincode(&x.to_bincode().map_err(|e| format!("save: {e:#}"))?).map_err(|e| format!("load: {e:#}")),
    }
}

// ------------------------------------------------------------------ serialized value trees

fn tree<T: serde::Serialize>(x: &T) -> Y {
    serde_yaml::to_value(x).unwrap_or(Y::Null)
}

fn pct(s: &str) -> String {
    let mut o = String::new();
    for b in s.bytes() {
        let c = b as char;
        if c.is_ascii_alphanumeric() || c == '_' || c == '-' || c == '.' {
            o.push(c);
        } else {
            o.push_str(&format!("%{:02X}", b));
        }
    }
    o
}

fn key_str(k: &Y) -> String {
    match k {
        Y::String(s) => s.clone(),
        Y::Number(n) => n.to_string(),
        Y::Bool(b) => b.to_string(),
        _ => "?".into(),
    }
}

/// shape tokens of a serialized value (leaves abstracted, strings kept)
fn shape(v: &Y, o: &mut String) {
    match v {
        Y::Null => o.push_str(" ~"),
        Y::Bool(_) => o.push_str(" #b"),
        Y::Number(n) => o.push_str(if n.is_f64() { " #f" } else { " #i" }),
        Y::String(s) => {
            o.push_str(" =");
            o.push_str(&pct(s));
        }
        Y::Sequence(l) => {
            o.push_str(&format!(" [ {}", l.len()));
            for x in l {
                shape(x, o);
            }
        }
        Y::Mapping(m) => {
            o.push_str(&format!(" {{ {}", m.len()));
            for (k, x) in m.iter() {
                o.push_str(" =");
                o.push_str(&pct(&key_str(k)));
                shape(x, o);
            }
        }
    }
}

fn has_nonfinite(v: &Y) -> bool {
    match v {
        Y::Number(n) => n.is_f64() && !n.as_f64().unwrap().is_finite(),
        Y::Sequence(l) => l.iter().any(has_nonfinite),
        Y::Mapping(m) => m.iter().any(|(_, x)| has_nonfinite(x)),
        _ => false,
    }
}
fn has_nan(v: &Y) -> bool {
    match v {
        Y::Number(n) => n.is_f64() && n.as_f64().unwrap().is_nan(),
        Y::Sequence(l) => l.iter().any(has_nan),
        Y::Mapping(m) => m.iter().any(|(_, x)| has_nan(x)),
        _ => false,
    }
}
fn max_abs(v: &Y) -> f64 {
    match v {
        Y::Number(n) => n.as_f64().filter(|x| x.is_finite()).map(f64::abs).unwrap_or(0.0),
        Y::Sequence(l) => l.iter().map(max_abs).fold(0.0, f64::max),
        Y::Mapping(m) => m.iter().map(|(_, x)| max_abs(x)).fold(0.0, f64::max),
        _ => 0.0,
    }
}

fn ulp_dist(a: f64, b: f64) -> u64 {
    if a.is_nan() && b.is_nan() {
        return 0;
    }
    if a.is_nan() || b.is_nan() {
        return u64::MAX;
    }
    // map to a monotone integer line
    let k = |x: f64| -> i128 {
        let bits = x.to_bits();
        if bits >> 63 == 0 { bits as i128 } else { -((bits & 0x7fff_ffff_ffff_ffff) as i128) }
    };
    let d = (k(a) - k(b)).unsigned_abs();
    d.min(u64::MAX as u128) as u64
}

/// how two serialized trees may differ
#[derive(Clone, Copy)]
enum Tol {
    /// identical bit patterns (NaN = NaN; -0.0 ≠ +0.0)
    Bits,
    /// at most this many ulps per number
    Ulps(u64),
    /// |a−b| ≤ rel·max(|a|,|b|) + abs
    Close { rel: f64, abs: f64 },
}

struct Cmp {
    max_ulps: u64,
    max_rel: f64,
    n_numbers: u64,
    n_inexact: u64,
}

/// structural comparison; Err(path: what) on the first violation of `tol`
fn tree_cmp(a: &Y, b: &Y, tol: Tol, path: &mut String, c: &mut Cmp) -> Result<(), String> {
    match (a, b) {
        (Y::Null, Y::Null) => Ok(()),
        (Y::Bool(x), Y::Bool(y)) if x == y => Ok(()),
        (Y::String(x), Y::String(y)) if x == y => Ok(()),
        (Y::Number(x), Y::Number(y)) => {
            if !x.is_f64() || !y.is_f64() {
                return if x == y { Ok(()) } else { Err(format!("{path}: integer {x} vs {y}")) };
            }
            let (x, y) = (x.as_f64().unwrap(), y.as_f64().unwrap());
            c.n_numbers += 1;
            let d = ulp_dist(x, y);
            if x.to_bits() != y.to_bits() && !(x.is_nan() && y.is_nan()) {
                c.n_inexact += 1;
            }
            c.max_ulps = c.max_ulps.max(d);
            let rel = if x == y || (x.is_nan() && y.is_nan()) { 0.0 } else { (x - y).abs() / x.abs().max(y.abs()) };
            if rel.is_finite() {
                c.max_rel = c.max_rel.max(rel);
            }
            let ok = match tol {
                Tol::Bits => x.to_bits() == y.to_bits() || (x.is_nan() && y.is_nan()),
                Tol::Ulps(k) => d <= k,
                Tol::Close { rel, abs } => {
                    (x.is_nan() && y.is_nan()) || x == y || (x - y).abs() <= rel * x.abs().max(y.abs()) + abs
                }
            };
            if ok { Ok(()) } else { Err(format!("{path}: {x:?} vs {y:?} ({d} ulps)")) }
        }
        (Y::Sequence(x), Y::Sequence(y)) => {
            if x.len() != y.len() {
                return Err(format!("{path}: sequence length {} vs {}", x.len(), y.len()));
            }
            for (i, (p, q)) in x.iter().zip(y).enumerate() {
                let l = path.len();
                path.push_str(&format!(".{i}"));
                tree_cmp(p, q, tol, path, c)?;
                path.truncate(l);
            }
            Ok(())
        }
        (Y::Mapping(x), Y::Mapping(y)) => {
            if x.len() != y.len() {
                let kx: Vec<String> = x.iter().map(|(k, _)| key_str(k)).collect();
                let ky: Vec<String> = y.iter().map(|(k, _)| key_str(k)).collect();
                return Err(format!("{path}: keys {kx:?} vs {ky:?}"));
            }
            // maps (HashMap fields) may iterate in a different order after a reload: compare by key
            for (k, p) in x.iter() {
                let Some(q) = y.get(k) else { return Err(format!("{path}: key {} missing", key_str(k))); };
                let l = path.len();
                path.push_str(&format!(".{}", key_str(k)));
                tree_cmp(p, q, tol, path, c)?;
                path.truncate(l);
            }
            Ok(())
        }
        _ => Err(format!("{path}: different kinds of value")),
    }
}

fn cmp_trees(a: &Y, b: &Y, tol: Tol) -> (Result<(), String>, Cmp) {
    let mut c = Cmp { max_ulps: 0, max_rel: 0.0, n_numbers: 0, n_inexact: 0 };
    let r = tree_cmp(a, b, tol, &mut String::new(), &mut c);
    (r, c)
}

// ------------------------------------------------------------------ the objects under test

fn jp(p: &str, s: &str) -> String {
    if p.is_empty() { s.to_string() } else { format!("{p}.{s}") }
}

/// a serializable model type under test
trait Obj: SerdeAPI + Clone + Debug + PartialEq {
    /// key in the scanner's table (lean/Generated/SerdeSchema.lean)
    const NAME: &'static str;
    /// populate the `#[serde(skip)]` caches (so that `==` is "equal modulo caches")
    fn warm(&mut self) {}
    /// conditionally skipped fields whose predicate holds, by typed field access (paths)
    fn hits(&self, _p: &str, _o: &mut Vec<String>) {}
}

macro_rules! plain_obj {
    ($t:ty, $n:expr) => {
        impl Obj for $t {
            const NAME: &'static str = $n;
        }
    };
}

macro_rules! state_hit {
    ($s:expr, $p:expr, $o:expr) => {
        if $s.state == Default::default() {
            $o.push(jp($p, "state"));
        }
    };
}

impl Obj for FuelConverter {
    const NAME: &'static str = "FuelConverter";
    fn hits(&self, p: &str, o: &mut Vec<String>) {
        state_hit!(self, p, o);
    }
}
impl Obj for Generator {
    const NAME: &'static str = "Generator";
    fn warm(&mut self) {
        let _ = self.set_pwr_in_frac_interp();
    }
    fn hits(&self, p: &str, o: &mut Vec<String>) {
        state_hit!(self, p, o);
    }
}
impl Obj for ElectricDrivetrain {
    const NAME: &'static str = "ElectricDrivetrain";
    fn warm(&mut self) {
        let _ = self.set_pwr_in_frac_interp();
    }
    fn hits(&self, p: &str, o: &mut Vec<String>) {
        state_hit!(self, p, o);
    }
}
impl Obj for ReversibleEnergyStorage {
    const NAME: &'static str = "ReversibleEnergyStorage";
    fn hits(&self, p: &str, o: &mut Vec<String>) {
        state_hit!(self, p, o);
    }
}
impl Obj for Locomotive {
    const NAME: &'static str = "Locomotive";
    fn warm(&mut self) {
        match &mut self.loco_type {
            PowertrainType::ConventionalLoco(c) => {
                c.gen.warm();
                c.edrv.warm();
            }
            PowertrainType::HybridLoco(h) => {
                h.gen.warm();
                h.edrv.warm();
            }
            PowertrainType::BatteryElectricLoco(b) => b.edrv.warm(),
            PowertrainType::DummyLoco(_) => {}
        }
    }
    fn hits(&self, p: &str, o: &mut Vec<String>) {
        let q = jp(p, "loco_type");
        match &self.loco_type {
            PowertrainType::ConventionalLoco(c) => {
                c.fc.hits(&jp(&q, "fc"), o);
                c.gen.hits(&jp(&q, "gen"), o);
                c.edrv.hits(&jp(&q, "edrv"), o);
            }
            PowertrainType::HybridLoco(h) => {
                h.fc.hits(&jp(&q, "fc"), o);
                h.gen.hits(&jp(&q, "gen"), o);
                h.res.hits(&jp(&q, "res"), o);
                h.edrv.hits(&jp(&q, "edrv"), o);
            }
            PowertrainType::BatteryElectricLoco(b) => {
                b.res.hits(&jp(&q, "res"), o);
                b.edrv.hits(&jp(&q, "edrv"), o);
            }
            PowertrainType::DummyLoco(_) => {}
        }
        state_hit!(self, p, o);
    }
}
impl Obj for Consist {
    const NAME: &'static str = "Consist";
    fn warm(&mut self) {
        for l in self.loco_vec.iter_mut() {
            l.warm();
        }
        let _ = self.n_res_equipped();
    }
    fn hits(&self, p: &str, o: &mut Vec<String>) {
        for (i, l) in self.loco_vec.iter().enumerate() {
            l.hits(&jp(&jp(p, "loco_vec"), &i.to_string()), o);
        }
        state_hit!(self, p, o);
    }
}
impl Obj for LocomotiveSimulation {
    const NAME: &'static str = "LocomotiveSimulation";
    fn warm(&mut self) {
        self.loco_unit.warm();
    }
    fn hits(&self, p: &str, o: &mut Vec<String>) {
        self.loco_unit.hits(&jp(p, "loco_unit"), o);
    }
}
impl Obj for ConsistSimulation {
    const NAME: &'static str = "ConsistSimulation";
    fn warm(&mut self) {
        self.loco_con.warm();
    }
    fn hits(&self, p: &str, o: &mut Vec<String>) {
        self.loco_con.hits(&jp(p, "loco_con"), o);
    }
}
impl Obj for SetSpeedTrainSim {
    const NAME: &'static str = "SetSpeedTrainSim";
    fn warm(&mut self) {
        self.loco_con.warm();
    }
    fn hits(&self, p: &str, o: &mut Vec<String>) {
        self.loco_con.hits(&jp(p, "loco_con"), o);
        state_hit!(self, p, o);
    }
}
impl Obj for FricBrake {
    const NAME: &'static str = "FricBrake";
    fn hits(&self, p: &str, o: &mut Vec<String>) {
        state_hit!(self, p, o);
    }
}
impl Obj for SpeedLimitTrainSim {
    const NAME: &'static str = "SpeedLimitTrainSim";
    fn warm(&mut self) {
        self.loco_con.warm();
    }
    fn hits(&self, p: &str, o: &mut Vec<String>) {
        self.loco_con.hits(&jp(p, "loco_con"), o);
        state_hit!(self, p, o);
        self.fric_brake.hits(&jp(p, "fric_brake"), o);
    }
}
impl Obj for TrainConfig {
    const NAME: &'static str = "TrainConfig";
    fn hits(&self, p: &str, o: &mut Vec<String>) {
        if self.cd_area_vec.is_none() {
            o.push(jp(p, "cd_area_vec"));
        }
    }
}
impl Obj for TrainSimBuilder {
    const NAME: &'static str = "TrainSimBuilder";
    fn warm(&mut self) {
        self.loco_con.warm();
    }
    fn hits(&self, p: &str, o: &mut Vec<String>) {
        self.train_config.hits(&jp(p, "train_config"), o);
        self.loco_con.hits(&jp(p, "loco_con"), o);
    }
}
impl Obj for Link {
    const NAME: &'static str = "link_impl::Link";
    fn hits(&self, p: &str, o: &mut Vec<String>) {
        if self.osm_id.is_none() {
            o.push(jp(p, "osm_id"));
        }
        for (i, h) in self.headings.iter().enumerate() {
            let q = jp(&jp(p, "headings"), &i.to_string());
            if h.lat.is_none() {
                o.push(jp(&q, "lat"));
            }
            if h.lon.is_none() {
                o.push(jp(&q, "lon"));
            }
        }
    }
}
impl Obj for Network {
    const NAME: &'static str = "Network";
    fn hits(&self, p: &str, o: &mut Vec<String>) {
        for (i, l) in self.0.iter().enumerate() {
            l.hits(&jp(p, &i.to_string()), o);
        }
    }
}
impl Obj for LocomotiveSimulationVec {
    const NAME: &'static str = "LocomotiveSimulationVec";
    fn warm(&mut self) {
        for s in self.0.iter_mut() {
            s.warm();
        }
    }
    fn hits(&self, p: &str, o: &mut Vec<String>) {
        for (i, l) in self.0.iter().enumerate() {
            l.hits(&jp(p, &i.to_string()), o);
        }
    }
}
impl Obj for SpeedLimitTrainSimVec {
    const NAME: &'static str = "SpeedLimitTrainSimVec";
    fn warm(&mut self) {
        for s in self.0.iter_mut() {
            s.warm();
        }
    }
    fn hits(&self, p: &str, o: &mut Vec<String>) {
        for (i, l) in self.0.iter().enumerate() {
            l.hits(&jp(p, &i.to_string()), o);
        }
    }
}
impl Obj for Heading {
    const NAME: &'static str = "Heading";
    fn hits(&self, p: &str, o: &mut Vec<String>) {
        if self.lat.is_none() {
            o.push(jp(p, "lat"));
        }
        if self.lon.is_none() {
            o.push(jp(p, "lon"));
        }
    }
}
impl Obj for ConventionalLoco {
    const NAME: &'static str = "ConventionalLoco";
    fn warm(&mut self) {
        self.gen.warm();
        self.edrv.warm();
    }
    fn hits(&self, p: &str, o: &mut Vec<String>) {
        self.fc.hits(&jp(p, "fc"), o);
        self.gen.hits(&jp(p, "gen"), o);
        self.edrv.hits(&jp(p, "edrv"), o);
    }
}
impl Obj for BatteryElectricLoco {
    const NAME: &'static str = "BatteryElectricLoco";
    fn warm(&mut self) {
        self.edrv.warm();
    }
    fn hits(&self, p: &str, o: &mut Vec<String>) {
        self.res.hits(&jp(p, "res"), o);
        self.edrv.hits(&jp(p, "edrv"), o);
    }
}
impl Obj for HybridLoco {
    const NAME: &'static str = "HybridLoco";
    fn warm(&mut self) {
        self.gen.warm();
        self.edrv.warm();
    }
    fn hits(&self, p: &str, o: &mut Vec<String>) {
        self.fc.hits(&jp(p, "fc"), o);
        self.gen.hits(&jp(p, "gen"), o);
        self.res.hits(&jp(p, "res"), o);
        self.edrv.hits(&jp(p, "edrv"), o);
    }
}
plain_obj!(DummyLoco, "DummyLoco");
plain_obj!(altrios_core::meet_pass::disp_structs::DispAuth, "DispAuth");
plain_obj!(altrios_core::meet_pass::disp_structs::DispNode, "DispNode");
plain_obj!(LocoParams, "LocoParams");
plain_obj!(PowerDistributionControlType, "PowerDistributionControlType");
plain_obj!(Elev, "Elev");
plain_obj!(SpeedLimit, "SpeedLimit");
plain_obj!(SpeedParam, "SpeedParam");
plain_obj!(CatPowerLimit, "CatPowerLimit");
plain_obj!(LinkPoint, "LinkPoint");
plain_obj!(PathResCoeff, "PathResCoeff");
plain_obj!(SpeedLimitPoint, "SpeedLimitPoint");
plain_obj!(EstTime, "EstTime");
plain_obj!(LinkEvent, "LinkEvent");
plain_obj!(BrakingPoint, "BrakingPoint");
plain_obj!(LinkIdxTime, "LinkIdxTime");
plain_obj!(GeneratorState, "GeneratorState");
plain_obj!(ElectricDrivetrainState, "ElectricDrivetrainState");
plain_obj!(FricBrakeState, "FricBrakeState");
plain_obj!(GeneratorStateHistoryVec, "GeneratorStateHistoryVec");
plain_obj!(ElectricDrivetrainStateHistoryVec, "ElectricDrivetrainStateHistoryVec");
plain_obj!(ReversibleEnergyStorageStateHistoryVec, "ReversibleEnergyStorageStateHistoryVec");
plain_obj!(LocomotiveStateHistoryVec, "LocomotiveStateHistoryVec");
plain_obj!(PowerTrace, "PowerTrace");
plain_obj!(SpeedTrace, "SpeedTrace");
plain_obj!(InitTrainState, "InitTrainState");
plain_obj!(TrainState, "TrainState");
plain_obj!(TrainStateHistoryVec, "TrainStateHistoryVec");
plain_obj!(PathTpc, "PathTpc");
plain_obj!(TrainRes, "TrainRes");
plain_obj!(BrakingPoints, "BrakingPoints");
plain_obj!(EstTimeNet, "EstTimeNet");
plain_obj!(LinkPath, "LinkPath");
plain_obj!(TimedLinkPath, "TimedLinkPath");
plain_obj!(Location, "Location");
plain_obj!(RailVehicle, "RailVehicle");
plain_obj!(TrainParams, "TrainParams");
plain_obj!(SpeedSet, "SpeedSet");
plain_obj!(FuelConverterState, "FuelConverterState");
plain_obj!(FuelConverterStateHistoryVec, "FuelConverterStateHistoryVec");
plain_obj!(ConsistState, "ConsistState");
plain_obj!(ConsistStateHistoryVec, "ConsistStateHistoryVec");
plain_obj!(LocomotiveState, "LocomotiveState");
plain_obj!(ReversibleEnergyStorageState, "ReversibleEnergyStorageState");

// ------------------------------------------------------------------ the per-object check

struct Run<'a> {
    ctx: &'a mut Ctx,
    /// inputs attached to findings, per clause (kept small)
    n_inputs: BTreeMap<String, usize>,
    max_ulps_json: u64,
    max_rel_json_resume: f64,
    files: bool,
    tmp: std::path::PathBuf,
    n_obj: u64,
}

impl<'a> Run<'a> {
    fn fail<T: Obj>(&mut self, clause: &str, case: &str, detail: String, x: &T, f: Fmt) {
        let n = self.n_inputs.entry(clause.to_string()).or_insert(0);
        *n += 1;
        let input = if *n <= 3 {
            let y = x.to_yaml().unwrap_or_default();
            json!({"type": T::NAME, "format": f.name(), "case": case,
                   "object_yaml": if y.len() < 400_000 { y } else { format!("(omitted: {} bytes)", y.len()) },
                   "replay": "T::from_yaml(object_yaml) gives the object (bit-exact); then save/load it in `format` through SerdeAPI"})
        } else {
            serde_json::Value::Null
        };
        self.ctx.fail(P, clause, case, detail, input);
    }

    /// all round-trip clauses on one object; returns the reloaded copies (for resuming simulations)
    fn check<T: Obj>(&mut self, case: &str, kind: &str, x: &T, emit_ops: bool) -> Vec<(Fmt, T, bool)> {
        self.n_obj += 1;
        let tx = tree(x);
        let mut hits = vec![];
        x.hits("", &mut hits);
        hits.sort();
        let hit = !hits.is_empty();
        let nonfinite = has_nonfinite(&tx);
        let nan = has_nan(&tx);
        self.ctx.count(&format!("serde.obj.{}.{}", T::NAME, kind));
        self.ctx.count(&format!("serde.class.{}{}", if hit { "skipped_field_at_default" } else { "no_skipped_field" }, if nonfinite { "+nonfinite" } else { "" }));
        let mut out = vec![];
        let mut bin_ok_equal = false;
        for f in FMTS {
            let fname = f.name();
            self.ctx.checked(P, &format!("roundtrip_{fname}"));
            let r = guard(|| save_load(x, f));
            let x1 = match r {
                None => {
                    self.fail(&format!("roundtrip_{fname}"), case, format!("format={fname} type={} state={kind}: save/load PANICKED", T::NAME), x, f);
                    continue;
                }
                Some(Err(e)) => {
                    let e: String = e.chars().take(300).collect();
                    if f == Fmt::Bin && hit {
                        self.ctx.count("serde.known.bin_desync");
                        self.fail(CL_BIN_DESYNC, case, format!("format=bin type={} state={kind}: conditionally skipped field(s) at default {:?}; {}", T::NAME, &hits[..hits.len().min(4)], e), x, f);
                    } else if f == Fmt::Json && nonfinite {
                        self.ctx.count("serde.known.json_nonfinite");
                        self.fail(CL_JSON_NONFINITE, case, format!("format=json type={} state={kind}: object contains a non-finite number (written as null); {}", T::NAME, e), x, f);
                    } else {
                        self.fail(&format!("roundtrip_{fname}"), case, format!("format={fname} type={} state={kind}: save/load failed: {}", T::NAME, e), x, f);
                    }
                    continue;
                }
                Some(Ok(x1)) => x1,
            };
            self.ctx.count(&format!("serde.rt_ok.{fname}"));
            // --- the reloaded object equals the original (modulo `skip` caches)
            let t1 = tree(&x1);
            // the property: bit-exact for YAML and binary, within one unit in the last place per number
            // for JSON (with serde_json's `float_roundtrip` the JSON reload is bit-exact too: counted)
            let tol = if f == Fmt::Json { Tol::Ulps(1) } else { Tol::Bits };
            let (r1, c1) = cmp_trees(&t1, &tx, tol);
            self.ctx.checked(P, &format!("reload_equal_{fname}"));
            if f == Fmt::Json {
                self.max_ulps_json = self.max_ulps_json.max(c1.max_ulps.min(1 << 20));
                self.ctx.count_n("serde.json.numbers", c1.n_numbers);
                self.ctx.count_n("serde.json.numbers_inexact", c1.n_inexact);
            }
            let mut eq1 = r1.is_ok();
            if let Err(d) = r1 {
                self.fail(&format!("reload_equal_{fname}"), case, format!("format={fname} type={} state={kind}: reloaded object differs from the original at {}", T::NAME, d), x, f);
            } else if f != Fmt::Json && !nan {
                // the type's own equality, caches populated on both sides
                let (mut a, mut b) = (x1.clone(), x.clone());
                a.warm();
                b.warm();
                self.ctx.checked(P, &format!("reload_partial_eq_{fname}"));
                if a != b {
                    eq1 = false;
                    self.fail(&format!("reload_partial_eq_{fname}"), case, format!("format={fname} type={} state={kind}: reloaded object is not == the original (after repopulating the skip caches) although every serialized field is bit-identical", T::NAME), x, f);
                }
            }
            if f == Fmt::Bin {
                bin_ok_equal = eq1;
                if hit {
                    self.ctx.count("serde.bin.ok_despite_skipped_field");
                }
            }
            // --- saving and reloading again returns an equal object
            self.ctx.checked(P, &format!("second_roundtrip_{fname}"));
            match guard(|| save_load(&x1, f)) {
                Some(Ok(x2)) => {
                    let t2 = tree(&x2);
                    let (r2, c2) = cmp_trees(&t2, &t1, tol);
                    if let Err(d) = r2 {
                        self.fail(&format!("second_roundtrip_{fname}"), case, format!("format={fname} type={} state={kind}: second round trip changed the object at {}", T::NAME, d), x, f);
                    } else if f != Fmt::Json && !nan && x2 != x1 {
                        self.fail(&format!("second_roundtrip_{fname}"), case, format!("format={fname} type={} state={kind}: x2 != x1 by PartialEq", T::NAME), x, f);
                    }
                    if f == Fmt::Json {
                        if c2.n_inexact == 0 { self.ctx.count("serde.json.second_trip_exact"); } else { self.ctx.count("serde.json.second_trip_inexact"); }
                        // repeated round trips do not drift: after four trips still within 1 ulp of the original
                        self.ctx.checked(P, "json_no_drift");
                        let mut cur = x2;
                        let mut ok = true;
                        for _ in 0..2 {
                            match save_load(&cur, f) {
                                Ok(n) => cur = n,
                                Err(_) => { ok = false; break; }
                            }
                        }
                        let (r4, _) = cmp_trees(&tree(&cur), &tx, tol);
                        if !ok || r4.is_err() {
                            self.fail("json_no_drift", case, format!("format=json type={} state={kind}: after 4 round trips the object is more than 1 ulp away from the original: {:?}", T::NAME, r4.err()), x, f);
                        }
                    }
                }
                Some(Err(e)) => {
                    let e: String = e.chars().take(300).collect();
                    self.fail(&format!("second_roundtrip_{fname}"), case, format!("format={fname} type={} state={kind}: the reloaded object cannot be saved/loaded again: {}", T::NAME, e), x, f);
                }
                None => self.fail(&format!("second_roundtrip_{fname}"), case, format!("format={fname} type={} state={kind}: second round trip PANICKED", T::NAME), x, f),
            }
            out.push((f, x1, c1.n_inexact == 0));
        }
        // --- file API (extension dispatch), now and then
        if self.files && self.n_obj % 3 == 1 {
            for (ext, f) in [("yaml", Fmt::Yaml), ("json", Fmt::Json), ("bin", Fmt::Bin)] {
                if (f == Fmt::Bin && hit) || (f == Fmt::Json && nonfinite) {
                    continue;
                }
                // one file per type and format for the whole run, like a rolling checkpoint file: a save lands on a
                // fresh path, on a shorter earlier save or on a longer earlier save of the same type
                let path = self.tmp.join(format!("c17_{}.{}", T::NAME.replace(|c: char| !c.is_ascii_alphanumeric(), "_"), ext));
                let before = std::fs::metadata(&path).map(|m| m.len()).ok();
                self.ctx.checked(P, "file_roundtrip");
                let r = guard(|| -> Result<T, String> {
                    x.to_file(&path).map_err(|e| format!("to_file: {e:#}"))?;
                    T::from_file(&path).map_err(|e| format!("from_file: {e:#}"))
                });
                let after = std::fs::metadata(&path).map(|m| m.len()).ok();
                self.ctx.count(match (before, after) {
                    (None, _) => "serde.file.fresh_path",
                    (Some(b), Some(a)) if a < b => "serde.file.shorter_over_longer",
                    (Some(b), Some(a)) if a > b => "serde.file.longer_over_shorter",
                    _ => "serde.file.same_length_or_unknown",
                });
                let ok = match &r {
                    Some(Ok(x1)) => cmp_trees(&tree(x1), &tx, if f == Fmt::Json { Tol::Ulps(1) } else { Tol::Bits }).0.is_ok(),
                    _ => false,
                };
                if !ok {
                    self.fail("file_roundtrip", case, format!("format={ext} type={} state={kind}: to_file/from_file failed or returned a different object: {:?}", T::NAME, r.map(|x| x.err())), x, f);
                }
            }
        }
        // --- correspondence with the structural model
        if emit_ops {
            let mut sh = String::new();
            shape(&tx, &mut sh);
            let args = format!("{}{}", pct(T::NAME), sh);
            self.ctx.op(P, "serde_shape", &args, &format!("ok {} |{}", seq(&hits, |s| s.clone()), sh));
            let nbytes = x.to_bincode().map(|b| b.len()).unwrap_or(0);
            self.ctx.op(P, "serde_bin", &args, &format!("ok {} {}", nbytes, b(bin_ok_equal)));
            self.ctx.count(if hit { "serde.ops.with_omitted_field" } else { "serde.ops.nothing_omitted" });
        }
        out
    }
}

impl<'a> Run<'a> {
    /// what a missing key becomes on load (`#[serde(default)]`, `default = "f"`, implicit `None` of an
    /// `Option`, error otherwise): delete each top-level key of the real encoder's output in turn and
    /// ask the real derived `Deserialize` (no `init`) whether the rest still loads
    fn missing_keys<T: Obj>(&mut self, x: &T) {
        let tx = tree(x);
        let Y::Mapping(m) = &tx else { return; };
        let mut sh = String::new();
        shape(&tx, &mut sh);
        for (k, _) in m.iter() {
            let mut m2 = m.clone();
            m2.remove(k);
            let loads = guard(|| serde_yaml::from_value::<T>(Y::Mapping(m2)).is_ok()).unwrap_or(false);
            self.ctx.count(if loads { "serde.missing_key.defaulted" } else { "serde.missing_key.rejected" });
            self.ctx.op(P, "serde_missing", &format!("{} ={}{}", pct(T::NAME), pct(&key_str(k)), sh), &format!("ok {}", b(loads)));
        }
    }
}

// ------------------------------------------------------------------ simulations: checkpoint / resume

trait Sim: Obj {
    fn step1(&mut self) -> Result<(), String>;
    fn finished(&self) -> bool;
    /// the derived totals the crate reports for a run (read through its public getters; these go
    /// through the lazily rebuilt `n_res_equipped` cache)
    fn totals(&mut self) -> Vec<f64> {
        vec![]
    }
}
impl Sim for LocomotiveSimulation {
    fn step1(&mut self) -> Result<(), String> {
        self.step().map_err(|e| format!("{e:#}"))
    }
    fn finished(&self) -> bool {
        self.i >= self.power_trace.len()
    }
}
impl Sim for ConsistSimulation {
    fn step1(&mut self) -> Result<(), String> {
        self.step().map_err(|e| format!("{e:#}"))
    }
    fn finished(&self) -> bool {
        self.i >= self.power_trace.len()
    }
    fn totals(&mut self) -> Vec<f64> {
        vec![self.loco_con.get_energy_fuel().value, self.loco_con.get_net_energy_res().value, self.loco_con.n_res_equipped() as f64]
    }
}
impl Sim for SetSpeedTrainSim {
    fn step1(&mut self) -> Result<(), String> {
        self.step().map_err(|e| format!("{e:#}"))
    }
    fn finished(&self) -> bool {
        self.state.i >= self.speed_trace.time.len()
    }
}
impl Sim for SpeedLimitTrainSim {
    fn step1(&mut self) -> Result<(), String> {
        self.step().map_err(|e| format!("{e:#}"))
    }
    fn finished(&self) -> bool {
        // the loop condition of `walk_internal`
        let end = self.path_tpc.offset_end();
        !(self.state.offset < end - 1000.0 * uc::FT || (self.state.offset < end && self.state.speed.value != 0.0))
    }
    fn totals(&mut self) -> Vec<f64> {
        vec![self.get_energy_fuel(false).value, self.get_net_energy_res(true).value, self.get_kilometers(false), self.get_megagram_kilometers(true),
             self.get_res_kilometers(false), self.get_non_res_kilometers(false)]
    }
}

/// outcome of running `n` more steps: per step ok / err / panic, stopping at the first non-ok
fn advance<S: Sim>(s: &mut S, n: usize) -> Vec<u8> {
    let mut v = vec![];
    for _ in 0..n {
        if s.finished() {
            break;
        }
        match guard(|| s.step1()) {
            Some(Ok(())) => v.push(0),
            Some(Err(_)) => {
                v.push(1);
                break;
            }
            None => {
                v.push(2);
                break;
            }
        }
    }
    v
}

impl<'a> Run<'a> {
    /// run `n` steps uninterrupted; at every step index save + load in every format, resume from
    /// the loaded copy and require the same remaining trajectory and final totals
    fn checkpoints<S: Sim>(&mut self, case: &str, sim0: &S, n: usize, ops_every: usize) {
        let mut snaps: Vec<S> = vec![sim0.clone()];
        let mut cur = sim0.clone();
        let mut outcome: Vec<u8> = vec![];
        for _ in 0..n {
            if cur.finished() {
                break;
            }
            let o = advance(&mut cur, 1);
            if o.is_empty() {
                break;
            }
            outcome.push(o[0]);
            if o[0] != 0 {
                // which error ended the run (distribution only)
                let mut again = snaps.last().unwrap().clone();
                if let Some(Err(e)) = guard(|| again.step1()) {
                    let key: String = e.lines().filter(|l| !l.trim().is_empty()).last().unwrap_or("").chars().filter(|c| c.is_ascii_alphabetic() || *c == ' ' || *c == '_').take(50).collect();
                    self.ctx.count(&format!("serde.sim.{}.error.{}", S::NAME, key.trim().replace(' ', "_")));
                }
                break;
            }
            snaps.push(cur.clone());
        }
        let fin = cur; // the uninterrupted run after all steps (possibly a failed last step)
        let tfin = tree(&fin);
        let scale = max_abs(&tfin);
        self.ctx.count(&format!("serde.sim.{}.steps.{}", S::NAME, if outcome.len() >= 20 { "20+".to_string() } else if outcome.len() >= 5 { "5-19".into() } else { format!("{}", outcome.len()) }));
        if outcome.last().map(|o| *o != 0).unwrap_or(false) {
            self.ctx.count(&format!("serde.sim.{}.ends_in_error", S::NAME));
        }
        for (k, x) in snaps.iter().enumerate() {
            let kind = if k == 0 { "initial" } else { "midrun" };
            let copies = self.check(&format!("{case}@{k}"), kind, x, ops_every > 0 && k % ops_every == 0);
            for (f, x1, reload_exact) in copies {
                let fname = f.name();
                let mut y = x1;
                let got = advance(&mut y, outcome.len() - k);
                self.ctx.checked(P, &format!("resume_same_decisions_{fname}"));
                self.ctx.count(&format!("serde.resume.{fname}"));
                if got != outcome[k..] {
                    self.fail(&format!("resume_same_decisions_{fname}"), &format!("{case}@{k}"),
                        format!("format={fname} type={} checkpoint={k}: resumed run step outcomes {:?} differ from the uninterrupted run {:?} (0 ok, 1 err, 2 panic)", S::NAME, got, &outcome[k..]), x, f);
                    continue;
                }
                self.ctx.checked(P, &format!("resume_same_trajectory_{fname}"));
                let ty = tree(&y);
                // a bit-exact reload must continue bit-exactly; a JSON reload that is off by rounding
                // (≤ 1 ulp per number, allowed by the property) continues within 1e-9 relative
                let tol = if reload_exact { Tol::Bits } else { Tol::Close { rel: 1e-9, abs: 1e-12 * scale } };
                let (r, c) = cmp_trees(&ty, &tfin, tol);
                if f == Fmt::Json {
                    self.max_rel_json_resume = self.max_rel_json_resume.max(c.max_rel);
                    if c.n_inexact == 0 { self.ctx.count("serde.resume.json.bit_exact"); } else { self.ctx.count("serde.resume.json.rounding_level"); }
                }
                // the totals the crate reports
                let (ta, tb) = (y.clone().totals(), fin.clone().totals());
                let tot_ok = ta.len() == tb.len() && ta.iter().zip(&tb).all(|(p, q)| match tol {
                    Tol::Bits => p.to_bits() == q.to_bits() || (p.is_nan() && q.is_nan()),
                    _ => p == q || (p - q).abs() <= 1e-9 * p.abs().max(q.abs()) + 1e-12 * scale,
                });
                if !tb.is_empty() {
                    self.ctx.checked(P, &format!("resume_same_totals_{fname}"));
                    if !tot_ok {
                        self.fail(&format!("resume_same_totals_{fname}"), &format!("{case}@{k}"),
                            format!("format={fname} type={} checkpoint={k}: totals of the resumed run {:?} differ from the uninterrupted run {:?}", S::NAME, ta, tb), x, f);
                    }
                }
                if let Err(d) = r {
                    self.fail(&format!("resume_same_trajectory_{fname}"), &format!("{case}@{k}"),
                        format!("format={fname} type={} checkpoint={k}: run resumed from the loaded copy ends differently from the uninterrupted run at {}", S::NAME, d), x, f);
                } else if f != Fmt::Json && !has_nan(&tfin) {
                    let (mut a, mut bb) = (y.clone(), fin.clone());
                    a.warm();
                    bb.warm();
                    if a != bb {
                        self.fail(&format!("resume_same_trajectory_{fname}"), &format!("{case}@{k}"),
                            format!("format={fname} type={} checkpoint={k}: resumed final object != uninterrupted final object (PartialEq)", S::NAME), x, f);
                    }
                }
            }
        }
    }
}

// ------------------------------------------------------------------ generators

fn gen_power_trace(r: &mut Rng, n: usize, lo: f64, hi: f64, first_brakes: bool) -> PowerTrace {
    let mut t = vec![0.0];
    let mut p = vec![0.0];
    let mut on: Vec<Option<bool>> = vec![Some(true)];
    let mut cur: f64 = 0.0;
    for i in 0..n {
        let dt = *r.pick(&[0.5, 1.0, 1.0, 1.0, 2.0]);
        t.push(t.last().unwrap() + dt);
        // slow ramps: engines publish a transient limit that grows by rating/lag per second
        let step = (hi - lo) * 0.03;
        cur = (cur + r.f64_in(-step, step * 1.5)).max(lo).min(hi);
        if i == 0 && first_brakes {
            cur = lo * 0.5;
        }
        if r.chance(0.1) {
            cur = cur.min(0.0);
        }
        let e = if r.chance(0.9) { Some(true) } else if r.chance(0.6) { None } else { Some(false) };
        if e == Some(false) {
            cur = 0.0; // a switched-off engine with a power demand is rejected by the crate
        }
        p.push(cur);
        on.push(e);
    }
    PowerTrace::new(t, p, on)
}

fn rating(l: &Locomotive) -> f64 {
    match &l.loco_type {
        PowertrainType::ConventionalLoco(c) => c.edrv.pwr_out_max.value.min(c.gen.pwr_out_max.value).min(c.fc.pwr_out_max.value),
        PowertrainType::BatteryElectricLoco(b) => b.edrv.pwr_out_max.value.min(b.res.pwr_out_max.value),
        PowertrainType::HybridLoco(h) => h.edrv.pwr_out_max.value,
        PowertrainType::DummyLoco(_) => 1.0e6,
    }
}
fn is_bel(l: &Locomotive) -> bool {
    matches!(l.loco_type, PowertrainType::BatteryElectricLoco(_))
}

fn gen_loco_sim(r: &mut Rng, n: usize) -> LocomotiveSimulation {
    let loco = match r.below(6) {
        0 => Locomotive::default(),
        1 => Locomotive::default_battery_electric_loco(),
        2 => Locomotive::default_hybrid_electric_loco(),
        3 | 4 => gen_loco(r, false),
        _ => gen_loco(r, true),
    };
    // half of the originals carry populated `skip` caches (as objects built by `Generator::new` /
    // `ElectricDrivetrain::new` do): the reloaded copy starts with empty ones
    let mut loco = loco;
    if r.chance(0.5) {
        loco.warm();
    }
    let pr = rating(&loco);
    let lo = if is_bel(&loco) { -0.2 * pr } else { 0.0 };
    let pt = gen_power_trace(r, n, lo, 0.35 * pr, false);
    let si = *r.pick(&[Some(1), Some(1), Some(1), Some(3), None]);
    let sim = LocomotiveSimulation::new(loco, pt, si);
    // a SECOND LEG now and then: the simulation is built around a unit that has already been run elsewhere, so the
    // unit's own step counter is ahead of the simulation's trace index from the very first row
    if r.chance(0.3) {
        let mut leg1 = sim.clone();
        if guard(|| leg1.walk()).map(|x| x.is_ok()) == Some(true) {
            let pt2 = gen_power_trace(r, n, lo, 0.35 * pr, false);
            return LocomotiveSimulation::new(leg1.loco_unit.clone(), pt2, si);
        }
    }
    sim
}

fn gen_consist_any(r: &mut Rng) -> Consist {
    match r.below(4) {
        0 => Consist::default(),
        _ => {
            let mut c = gen_consist(r, 4);
            if r.chance(0.3) {
                c.set_assert_limits(false);
            }
            if r.chance(0.5) {
                c.warm();
            }
            c
        }
    }
}

fn gen_consist_sim(r: &mut Rng, n: usize) -> ConsistSimulation {
    let con = gen_consist_any(r);
    let total: f64 = con.loco_vec.iter().map(rating).sum();
    let regen: f64 = con.loco_vec.iter().filter(|l| is_bel(l)).map(rating).sum();
    let first_brakes = r.chance(0.4);
    // a first step that brakes exercises the derived limit `pwr_dyn_brake_max` of a fresh consist
    let lo = if first_brakes { -0.05 * total } else { -0.15 * regen };
    let pt = gen_power_trace(r, n, lo, 0.3 * total, first_brakes);
    let si = *r.pick(&[Some(1), Some(1), Some(2), None]);
    let mut sim = ConsistSimulation::new(con, pt, si);
    // nested save intervals need not be uniform (history switched off / thinned for one unit or one component):
    // a reload must bring back exactly what was saved
    if r.chance(0.5) && !sim.loco_con.loco_vec.is_empty() {
        let k = r.usize(0, sim.loco_con.loco_vec.len() - 1);
        let iv = match si {
            Some(1) => *r.pick(&[None, Some(3)]),
            Some(_) => *r.pick(&[None, Some(1)]),
            None => *r.pick(&[Some(1), Some(3)]),
        };
        if r.chance(0.5) {
            sim.loco_con.loco_vec[k].set_save_interval(iv);
        } else if let Some(e) = sim.loco_con.loco_vec[k].fuel_converter_mut() {
            e.save_interval = iv;
        } else if let Some(b) = sim.loco_con.loco_vec[k].reversible_energy_storage_mut() {
            b.save_interval = iv;
        }
    }
    sim
}

struct Route {
    net: Vec<Link>,
    route: Vec<LinkIdx>,
    tp: TrainParams,
}

fn gen_route(r: &mut Rng) -> Option<Route> {
    let o = NetOpts {
        n_links: r.usize(1, 3),
        grid: 1.0,
        len_lo: 1500,
        len_hi: 5000,
        max_elev_pts: 4,
        max_grade: 0.01,
        max_speed_limits: 2,
        speed_lo: 8.0,
        use_speed_sets_map: false,
        cat_power: r.chance(0.5),
        ..Default::default()
    };
    let net = gen_line(r, &o);
    if net.validate().is_err() {
        return None;
    }
    let tp = TrainParams {
        length: m(r.range(200, 1200) as f64 * 0.5),
        speed_max: mps(r.range(30, 60) as f64 * 0.5),
        towed_mass_static: uc::KG * *r.pick(&[2.0e6, 5.0e6]),
        mass_per_brake: uc::KG * 1.3e5,
        axle_count: 400,
        train_type: TrainType::Freight,
        curve_coeff_0: uc::R * *r.pick(&[0.0, 0.3]),
        curve_coeff_1: uc::R * *r.pick(&[0.0, 0.5]),
        curve_coeff_2: uc::R * 0.0,
    };
    Some(Route { route: route_fwd(o.n_links), net, tp })
}

fn make_res(r: &mut Rng, tpc: &PathTpc, st: &TrainState) -> Option<TrainRes> {
    let grade = path_res::Strap::new(tpc.grades(), st).ok()?;
    let curve = path_res::Strap::new(tpc.curves(), st).ok()?;
    Some(TrainRes::Strap(method::Strap::new(
        bearing::Basic::new(uc::LBF * 40.0 * *r.pick(&[50.0, 100.0])),
        rolling::Basic::new(uc::R * (*r.pick(&[1.0, 1.5]) * uc::LB.value / uc::TON.value)),
        davis_b::Basic::new((*r.pick(&[0.0, 0.03]) / uc::MPH.value * uc::LB.value / uc::TON.value) * uc::SPM),
        aerodynamic::Basic::new(uc::M2 * *r.pick(&[0.0, 20.0, 60.0])),
        grade,
        curve,
    )))
}

fn gen_train_consist(r: &mut Rng) -> Consist {
    let n = r.usize(2, 4);
    let locos: Vec<Locomotive> = (0..n)
        .map(|_| {
            if r.chance(0.7) {
                if r.chance(0.6) { Locomotive::default() } else { Locomotive::default_battery_electric_loco() }
            } else {
                let bel = r.chance(0.4);
                gen_loco(r, bel)
            }
        })
        .collect();
    let pdct = if r.chance(0.5) { PowerDistributionControlType::Proportional(Proportional) } else { PowerDistributionControlType::RESGreedy(RESGreedy) };
    let mut c = Consist::new(locos, None, pdct);
    if r.chance(0.5) {
        c.warm();
    }
    c
}

fn train_state(tp: &TrainParams) -> TrainState {
    let len = tp.length.value;
    let mass_static = tp.towed_mass_static.value + 4.0 * 195000.0;
    TrainState::new(m(len), uc::KG * mass_static, uc::KG * (mass_static * 0.04), uc::KG * (mass_static * 0.6),
        Some(InitTrainState::new(Some(uc::S * 0.0), Some(m(len)), Some(mps(0.0)))))
}

/// a set-speed run on a generated route; `finish` = the path carries the +inf sentinel offsets
fn gen_set_speed(r: &mut Rng, n: usize, finish: bool) -> Option<SetSpeedTrainSim> {
    let ro = gen_route(r)?;
    let mut tpc = PathTpc::new(ro.tp);
    tpc.extend(&ro.net, &ro.route).ok()?;
    if finish {
        tpc.finish();
    }
    let st0 = train_state(&ro.tp);
    let res = make_res(r, &tpc, &st0)?;
    let con = gen_train_consist(r);
    let first_brakes = r.chance(0.3);
    let mut time = vec![0.0];
    let mut v: f64 = if first_brakes { 3.0 } else { 0.0 };
    let mut speed = vec![v];
    let total = tpc.link_points().last()?.offset.value;
    let mut dist = 0.0;
    for i in 0..n {
        let dt = *r.pick(&[0.5, 1.0, 1.0, 2.0]);
        let a = if i == 0 && first_brakes { -0.5 } else { *r.pick(&[-0.4, -0.1, 0.0, 0.05, 0.15, 0.3]) };
        let nv = (v + a * dt).max(0.0).min(ro.tp.speed_max.value);
        let d = 0.5 * (v + nv) * dt;
        if ro.tp.length.value + dist + d > total - 50.0 {
            break;
        }
        dist += d;
        v = nv;
        time.push(time.last().unwrap() + dt);
        speed.push(v);
    }
    if time.len() < 3 {
        return None;
    }
    let mut st = st0;
    st.speed = mps(speed[0]);
    let np = time.len();
    let trace = SpeedTrace::new(time, speed, if r.chance(0.3) { Some(vec![true; np]) } else { None });
    let si = *r.pick(&[Some(1), Some(1), Some(2), None]);
    Some(SetSpeedTrainSim::new(con, st, trace, res, tpc, si))
}

fn gen_speed_limit(r: &mut Rng, finish: bool) -> Option<SpeedLimitTrainSim> {
    let ro = gen_route(r)?;
    let st0 = train_state(&ro.tp);
    let mass_static = st0.mass_static.value;
    let mut sim = SpeedLimitTrainSim::valid();
    sim.train_id = (*r.pick(&["", "train 7", "Zug-ä/1"])).to_string();
    sim.path_tpc = PathTpc::new(ro.tp);
    sim.loco_con = if r.chance(0.6) {
        let n = r.usize(2, 4);
        let locos: Vec<Locomotive> = (0..n).map(|_| if r.chance(0.6) { Locomotive::default() } else { Locomotive::default_battery_electric_loco() }).collect();
        Consist::new(locos, None, if r.chance(0.5) { PowerDistributionControlType::Proportional(Proportional) } else { PowerDistributionControlType::RESGreedy(RESGreedy) })
    } else {
        gen_train_consist(r)
    };
    sim.state = st0;
    sim.fric_brake = FricBrake::new(uc::N * (mass_static * *r.pick(&[0.3, 0.6, 1.0])), uc::S * *r.pick(&[0.0, 30.0, 60.0]), uc::R * 0.5, None, None);
    sim.set_save_interval(*r.pick(&[Some(1), Some(1), Some(2), None]));
    if r.chance(0.5) {
        sim.origs = vec![Location { location_id: "Origin A".into(), offset: m(0.0), link_idx: LinkIdx::new(1), is_front_end: r.chance(0.5),
            grid_emissions_region: "R 1".into(), electricity_price_region: "CA".into(), liquid_fuel_price_region: "CA".into() }];
    }
    guard(|| sim.extend_path(&ro.net, &ro.route))?.ok()?;
    if finish {
        sim.finish();
    }
    sim.train_res = make_res(r, &sim.path_tpc, &st0)?;
    guard(|| sim.extend_path(&ro.net, &[]))?.ok()?;
    Some(sim)
}

fn gen_link_any(r: &mut Rng) -> Vec<Link> {
    let o = NetOpts { n_links: r.usize(1, 4), with_flips: r.chance(0.4), use_speed_sets_map: r.chance(0.5), cat_power: r.chance(0.5), speed_params: r.chance(0.5), ..Default::default() };
    let mut net = gen_line(r, &o);
    for l in net.iter_mut().skip(1) {
        if r.chance(0.5) {
            l.osm_id = Some((*r.pick(&["way/1234", "", "ünï cödé", "a b"])).to_string());
        }
        for h in l.headings.iter_mut() {
            if r.chance(0.5) {
                h.lat = Some(r.f64_in(-80.0, 80.0));
            }
            if r.chance(0.5) {
                h.lon = Some(r.f64_in(-180.0, 180.0));
            }
        }
    }
    net
}

fn gen_est_time_net(r: &mut Rng) -> EstTimeNet {
    let n = r.usize(0, 12);
    let mut v = vec![];
    let mut t = r.f64_in(0.0, 1000.0);
    for k in 0..n {
        let mut e = EstTime::default();
        // fake nodes keep the crate's NaN scheduled time
        if r.chance(0.8) {
            e.time_sched = uc::S * t;
        }
        e.time_to_next = uc::S * r.f64_in(0.0, 300.0);
        e.dist_to_next = m(r.f64_in(0.0, 4000.0));
        e.speed = mps(r.f64_in(0.0, 30.0));
        e.idx_next = (k + 1) as u32;
        e.idx_prev = k.saturating_sub(1) as u32;
        e.link_event = LinkEvent { link_idx: LinkIdx::new(r.below(40) as u32), est_type: *r.pick(&[EstType::Arrive, EstType::Clear, EstType::Fake]) };
        t += e.time_to_next.value;
        v.push(e);
    }
    EstTimeNet::new(v)
}

// ------------------------------------------------------------------ run

pub fn run(ctx: &mut Ctx, r: &mut Rng, tier: &str) {
    let thorough = tier == "thorough";
    let tmp = std::env::temp_dir().join(format!("verif-c17-{}", std::process::id()));
    let _ = std::fs::create_dir_all(&tmp);
    let mut run = Run { ctx, n_inputs: BTreeMap::new(), max_ulps_json: 0, max_rel_json_resume: 0.0, files: true, tmp: tmp.clone(), n_obj: 0 };

    let loc = Location { location_id: "Barstow Yard".into(), offset: m(12.5), link_idx: LinkIdx::new(96), is_front_end: true,
        grid_emissions_region: "CAMXc".into(), electricity_price_region: "CA".into(), liquid_fuel_price_region: "CA".into() };
    // ---- every exported type in its default state (corpus: runs first, independent of the seed)
    run.check("default", "default", &FuelConverter::default(), true);
    run.check("default", "default", &Generator::default(), true);
    run.check("default", "default", &ElectricDrivetrain::default(), true);
    run.check("default", "default", &ReversibleEnergyStorage::default(), true);
    run.check("default.conv", "default", &Locomotive::default(), true);
    run.check("default.bel", "default", &Locomotive::default_battery_electric_loco(), true);
    run.check("default.hybrid", "default", &Locomotive::default_hybrid_electric_loco(), true);
    {
        // as the crate's own `build_dummy_loco` (pyo3-only) does it
        let mut d = Locomotive::default();
        d.loco_type = PowertrainType::DummyLoco(DummyLoco::default());
        let _ = altrios_core::traits::Mass::set_mass(&mut d, None, altrios_core::traits::MassSideEffect::None);
        run.check("default.dummy", "default", &d, true);
    }
    run.check("default", "default", &Consist::default(), true);
    run.check("default", "default", &PowerTrace::default(), true);
    run.check("default", "default", &SpeedTrace::default(), true);
    run.check("valid", "default", &TrainConfig::valid(), true);
    run.check("default", "default", &TrainConfig::default(), true);
    run.check("default", "default", &TrainSimBuilder::default(), true);
    run.check("valid+nan_offset", "default", &TrainSimBuilder::new("t1".into(), TrainConfig::valid(), Consist::default(), None, None, Some(InitTrainState::default())), true);
    run.check("default(nan offset)", "default", &InitTrainState::default(), true);
    run.check("default", "default", &TrainState::default(), true);
    run.check("valid", "default", &TrainState::valid(), true);
    run.check("default", "default", &PathTpc::default(), true);
    run.check("valid(finished:+inf)", "default", &PathTpc::valid(), true);
    run.check("valid", "default", &Link::valid(), true);
    run.check("default", "default", &Link::default(), true);
    run.check("valid", "default", &Network(Vec::<Link>::valid()), true);
    run.check("valid", "default", &TrainRes::valid(), true);
    run.check("default", "default", &FricBrake::default(), true);
    run.check("default", "default", &BrakingPoints::default(), true);
    run.check("default", "default", &LocomotiveSimulation::default(), true);
    run.check("default", "default", &ConsistSimulation::default(), true);
    run.check("default", "default", &SetSpeedTrainSim::default(), true);
    run.check("default", "default", &SpeedLimitTrainSim::default(), true);
    run.check("valid", "default", &SpeedLimitTrainSim::valid(), true);
    run.check("fwd", "default", &speed_limit_train_sim_fwd(), true);
    run.check("default", "default", &EstTimeNet::default(), true);
    run.check("default", "default", &LinkPath(vec![LinkIdx::new(3), LinkIdx::new(0), LinkIdx::new(u32::MAX)]), true);
    run.check("default", "default", &TimedLinkPath(vec![LinkIdxTime { link_idx: LinkIdx::new(2), time: uc::S * 12.5 }]), true);
    run.check("default", "default", &RailVehicle::default(), true);
    run.check("valid", "default", &TrainParams::valid(), true);
    run.check("valid", "default", &SpeedSet::valid(), true);
    run.check("default", "default", &FuelConverterState::default(), true);
    run.check("default", "default", &ConsistState::default(), true);
    run.check("default", "default", &LocomotiveState::default(), true);
    run.check("default", "default", &ReversibleEnergyStorageState::default(), true);
    run.check("default", "default", &FuelConverterStateHistoryVec::default(), true);
    // the small building blocks on their own (a failure inside a big object whose bincode round trip
    // is already excused by a skipped field would otherwise be masked)
    run.check("corpus", "default", &loc, true);
    run.check("default", "default", &Location::default(), true);
    run.check("default", "default", &Heading::default(), true);
    run.check("corpus", "default", &Heading { offset: m(3.0), heading: uc::RAD * 1.25, lat: Some(35.1), lon: None }, true);
    run.check("corpus", "default", &Heading { offset: m(3.0), heading: uc::RAD * 1.25, lat: Some(35.1), lon: Some(-117.2) }, true);
    run.check("default", "default", &ConventionalLoco::default(), true);
    run.check("default", "default", &BatteryElectricLoco::default(), true);
    run.check("default", "default", &HybridLoco::default(), true);
    run.check("default", "default", &DummyLoco::default(), true);
    run.check("default", "default", &LocoParams::default(), true);
    run.check("default", "default", &PowerDistributionControlType::default(), true);
    run.check("corpus", "default", &PowerDistributionControlType::Proportional(Proportional), true);
    run.check("corpus", "default", &PowerDistributionControlType::FrontAndBack(altrios_core::consist::FrontAndBack), true);
    run.check("corpus", "default", &PowerDistributionControlType::GoldenSectionSearch(altrios_core::consist::GoldenSectionSearch { fuel_res_ratio: 1.5, gss_interval: 10 }), true);
    run.check("corpus", "default", &TrainRes::Point(method::Point::valid()), true);
    run.check("default", "default", &altrios_core::meet_pass::disp_structs::DispAuth::default(), true);
    run.check("default", "default", &altrios_core::meet_pass::disp_structs::DispNode::default(), true);
    run.check("default", "default", &Elev::default(), true);
    run.check("valid", "default", &SpeedLimit::valid(), true);
    run.check("valid", "default", &SpeedParam::valid(), true);
    run.check("valid", "default", &CatPowerLimit::valid(), true);
    run.check("valid", "default", &LinkPoint::valid(), true);
    run.check("default", "default", &PathResCoeff::default(), true);
    run.check("default", "default", &SpeedLimitPoint::default(), true);
    run.check("default(nan time)", "default", &EstTime::default(), true);
    run.check("default", "default", &LinkEvent::default(), true);
    run.check("default", "default", &BrakingPoint::default(), true);
    run.check("default", "default", &GeneratorState::default(), true);
    run.check("default", "default", &ElectricDrivetrainState::default(), true);
    run.check("default", "default", &FricBrakeState::default(), true);
    run.check("default", "default", &GeneratorStateHistoryVec::default(), true);
    run.check("default", "default", &ElectricDrivetrainStateHistoryVec::default(), true);
    run.check("default", "default", &ReversibleEnergyStorageStateHistoryVec::default(), true);
    run.check("default", "default", &LocomotiveStateHistoryVec::default(), true);
    run.check("default", "default", &ConsistStateHistoryVec::default(), true);
    run.check("default", "default", &TrainStateHistoryVec::default(), true);
    run.check("default", "default", &LocomotiveSimulationVec(vec![LocomotiveSimulation::default(); 2]), true);
    run.check("default", "default", &SpeedLimitTrainSimVec(vec![SpeedLimitTrainSim::valid()]), true);
    // every top-level key deleted in turn: which fields may be absent from a file
    {
        let mut fc = FuelConverter::default();
        fc.state.i = 7; // so that `state` is present in the output and its deletion is exercised too
        run.missing_keys(&fc);
        let mut g = Generator::default();
        g.state.i = 7;
        run.missing_keys(&g);
        let mut l = Locomotive::default();
        l.state.i = 7;
        run.missing_keys(&l);
        let mut c = Consist::default();
        c.state.i = 7;
        run.missing_keys(&c);
        let mut li = Link::valid();
        li.osm_id = Some("way/1".into());
        run.missing_keys(&li);
        let mut tc = TrainConfig::valid();
        tc.cd_area_vec = Some(vec![uc::M2 * 1.0; 100]);
        run.missing_keys(&tc);
        run.missing_keys(&Heading { offset: m(3.0), heading: uc::RAD * 1.25, lat: Some(35.1), lon: Some(-117.2) });
        run.missing_keys(&TrainSimBuilder::default());
        run.missing_keys(&SpeedSet::valid());
        let mut s = SpeedLimitTrainSim::valid();
        s.state.i = 7;
        s.fric_brake.state.i = 7;
        run.missing_keys(&s);
        let mut s = SetSpeedTrainSim::default();
        s.state.i = 7;
        run.missing_keys(&s);
        run.missing_keys(&ReversibleEnergyStorage::default());
        run.missing_keys(&ElectricDrivetrain::default());
        run.missing_keys(&FricBrake::default());
        run.missing_keys(&PowerTrace::default());
        run.missing_keys(&loc);
    }
    // non-finite corpus: what do the three formats do with NaN / ±inf inside traces
    {
        let mut pt = PowerTrace::new(vec![0.0, 1.0, 2.0], vec![0.0, f64::INFINITY, f64::NEG_INFINITY], vec![Some(true), None, Some(false)]);
        run.check("corpus.inf", "corpus", &pt, true);
        pt.pwr[1] = uc::W * f64::NAN;
        run.check("corpus.nan", "corpus", &pt, true);
        // extreme magnitudes, signed zero, subnormals: text codecs
        let pt2 = PowerTrace::new(vec![0.0, -0.0, 5e-324, 2.2250738585072014e-308, 1.7976931348623157e308],
            vec![1e-77, 3.0e-200, 0.1 + 0.2, 1.0 / 3.0, 123456789.12345679], vec![None; 5]);
        run.check("corpus.extreme", "corpus", &pt2, true);
        // magnitudes at which serde_json WITHOUT `float_roundtrip` drifts by one ulp per trip
        // (measured: 8 % of the numbers in [1e-12, 1e-6) are > 1 ulp off after 4 trips); fixed seed
        let mut q = Rng::new(0xC17);
        let small: Vec<f64> = (0..400).map(|_| 1e-12 * 1e6f64.powf(q.unit())).collect();
        let large: Vec<f64> = (0..400).map(|_| 1e30 * 1e40f64.powf(q.unit())).collect();
        let pt3 = PowerTrace::new(small, large, vec![None; 400]);
        run.check("corpus.json_drift_magnitudes", "corpus", &pt3, false);
    }

    // ---- generated objects in construction state
    let n_comp = if thorough { 80 } else { 10 };
    for i in 0..n_comp {
        let mut q = r.fork();
        let c = format!("gen{i}");
        run.check(&c, "generated", &gen_fc(&mut q), i < 3);
        run.check(&c, "generated", &gen_gen(&mut q, 3.0e6), i < 3);
        run.check(&c, "generated", &gen_edrv(&mut q, 3.0e6), i < 3);
        run.check(&c, "generated", &gen_res(&mut q), i < 3);
        let bel = q.chance(0.5);
        run.check(&c, "generated", &gen_loco(&mut q, bel), i < 3);
        run.check(&c, "generated", &gen_consist_any(&mut q), i < 3);
        let net = gen_link_any(&mut q);
        run.check(&c, "generated", &net[net.len() - 1], true);
        run.check(&c, "generated", &Network(net), i < 3);
        run.check(&c, "generated", &gen_est_time_net(&mut q), i < 3);
        let mut tc = TrainConfig::valid();
        if q.chance(0.5) {
            tc.cd_area_vec = Some((0..100).map(|_| uc::M2 * q.f64_in(1.0, 12.0)).collect());
        }
        if q.chance(0.5) {
            tc.train_length = Some(m(q.f64_in(100.0, 3000.0)));
        }
        tc.n_cars_by_type = HashMap::from([("Bulk".to_string(), 60u32), ("Inter modal".to_string(), 40u32)]);
        run.check(&c, "generated", &tc, true);
        let its = if q.chance(0.5) { Some(InitTrainState::new(Some(uc::S * 5.0), Some(m(700.0)), None)) } else { None };
        run.check(&c, "generated", &TrainSimBuilder::new(format!("train {i}"), tc, gen_consist_any(&mut q), None, if q.chance(0.5) { Some("dest".into()) } else { None }, its), i < 3);
        if let Some(ro) = gen_route(&mut q) {
            let mut tpc = PathTpc::new(ro.tp);
            if tpc.extend(&ro.net, &ro.route).is_ok() {
                run.check(&c, "generated", &tpc, i < 3);
                tpc.finish();
                run.check(&format!("{c}.finished"), "generated", &tpc, i < 3);
            }
        }
    }

    // ---- stock objects with ONE parameter customised (what a user does first), never stepped and stepped: the state is
    // still the stock initial state while a parameter is not — a load hook must not "repair" either from the other
    {
        let c = "customised_default";
        for (k, v) in [(0usize, 1.0), (1, 0.9), (2, 0.97)] {
            let mut x = ReversibleEnergyStorage::default();
            x.max_soc = uc::R * v;
            run.check(&format!("{c}.res.max_soc{k}"), "generated", &x, true);
            let mut x = ReversibleEnergyStorage::default();
            x.min_soc = uc::R * (0.05 + 0.1 * k as f64);
            run.check(&format!("{c}.res.min_soc{k}"), "generated", &x, true);
            let mut x = ReversibleEnergyStorage::default();
            x.pwr_out_max = x.pwr_out_max * (0.5 + 0.2 * k as f64);
            run.check(&format!("{c}.res.pwr{k}"), "generated", &x, true);
            let mut x = ReversibleEnergyStorage::default();
            x.energy_capacity = x.energy_capacity * (0.7 + 0.3 * k as f64);
            run.check(&format!("{c}.res.cap{k}"), "generated", &x, true);
            let mut f = FuelConverter::default();
            match k { 0 => f.pwr_out_max = f.pwr_out_max * 0.9, 1 => f.pwr_ramp_lag = f.pwr_ramp_lag * 2.0, _ => f.pwr_idle_fuel = f.pwr_idle_fuel * 0.5 }
            run.check(&format!("{c}.fc{k}"), "generated", &f, true);
            let mut g = Generator::default();
            g.pwr_out_max = g.pwr_out_max * (0.8 + 0.1 * k as f64);
            run.check(&format!("{c}.gen{k}"), "generated", &g, true);
            let mut e = ElectricDrivetrain::default();
            e.pwr_out_max = e.pwr_out_max * (0.8 + 0.1 * k as f64);
            run.check(&format!("{c}.edrv{k}"), "generated", &e, true);
            // the same inside a locomotive, a consist and simulations (checkpoint 0 and later)
            let mut l = Locomotive::default_battery_electric_loco();
            if let Some(b) = l.reversible_energy_storage_mut() { b.max_soc = uc::R * v; }
            run.check(&format!("{c}.bel.max_soc{k}"), "generated", &l, true);
            let ls = LocomotiveSimulation::new(l.clone(), PowerTrace::default(), Some(1));
            run.checkpoints(&format!("{c}.bel_sim.max_soc{k}"), &ls, if thorough { 12 } else { 4 }, 2);
            let mut cv = Locomotive::default();
            if let Some(f) = cv.fuel_converter_mut() { f.pwr_out_max = f.pwr_out_max * 0.95; }
            let con = Consist::new(vec![cv, l], Some(1), PowerDistributionControlType::default());
            run.check(&format!("{c}.consist{k}"), "generated", &con, true);
            let cs = ConsistSimulation::new(con, PowerTrace::default(), Some(1));
            run.checkpoints(&format!("{c}.consist_sim{k}"), &cs, if thorough { 12 } else { 4 }, 2);
        }
    }

    // ---- simulations: every step index is a checkpoint
    let (n_sims, n_steps) = if thorough { (30, 40) } else { (4, 18) };
    for i in 0..n_sims {
        let mut q = r.fork();
        let s = gen_loco_sim(&mut q, n_steps);
        run.checkpoints(&format!("loco_sim{i}"), &s, n_steps, 5);
        let mut q = r.fork();
        let s = gen_consist_sim(&mut q, n_steps);
        run.checkpoints(&format!("consist_sim{i}"), &s, n_steps, 5);
        let mut q = r.fork();
        if let Some(s) = gen_set_speed(&mut q, n_steps, i % 2 == 0) {
            run.checkpoints(&format!("set_speed{i}{}", if i % 2 == 0 { ".finished" } else { "" }), &s, n_steps, 7);
        } else {
            run.ctx.count("serde.gen.set_speed_rejected");
        }
        let mut q = r.fork();
        if let Some(s) = gen_speed_limit(&mut q, i % 2 == 1) {
            run.checkpoints(&format!("speed_limit{i}{}", if i % 2 == 1 { ".finished" } else { "" }), &s, n_steps, 7);
            // parts of a train simulation in a state reached during the run
            let mut t = s.clone();
            advance(&mut t, n_steps / 2);
            let c = format!("speed_limit{i}.part");
            run.check(&c, "midrun", &t.state, true);
            run.check(&c, "midrun", &t.history, false);
            run.check(&c, "midrun", &t.path_tpc, false);
            run.check(&c, "midrun", &t.train_res, true);
            run.check(&c, "midrun", &t.braking_points, true);
            run.check(&c, "midrun", &t.fric_brake, true);
            run.check(&c, "midrun", &t.loco_con, true);
            for l in t.loco_con.loco_vec.iter().take(2) {
                run.check(&c, "midrun", l, true);
                match &l.loco_type {
                    PowertrainType::ConventionalLoco(cv) => {
                        run.check(&c, "midrun", &cv.fc, true);
                        run.check(&c, "midrun", &cv.gen, true);
                        run.check(&c, "midrun", &cv.edrv, true);
                        run.check(&c, "midrun", &cv.fc.history, false);
                    }
                    PowertrainType::BatteryElectricLoco(bl) => {
                        run.check(&c, "midrun", &bl.res, true);
                        run.check(&c, "midrun", &bl.edrv, true);
                    }
                    _ => {}
                }
            }
        } else {
            run.ctx.count("serde.gen.speed_limit_rejected");
        }
    }
    // the crate's own default simulations, stepped
    run.checkpoints("consist_sim.default", &ConsistSimulation::default(), if thorough { 30 } else { 8 }, 4);
    {
        // one unit's history switched off, one component's history thinned: the settings are per object
        let mut s = ConsistSimulation::default();
        s.loco_con.loco_vec[1].set_save_interval(None);
        if let Some(e) = s.loco_con.loco_vec[0].fuel_converter_mut() {
            e.save_interval = Some(2);
        }
        run.checkpoints("consist_sim.default.individual_intervals", &s, if thorough { 30 } else { 8 }, 4);
    }
    run.checkpoints("loco_sim.default", &LocomotiveSimulation::new(Locomotive::default(), PowerTrace::default(), Some(1)), if thorough { 30 } else { 8 }, 4);
    {
        let mut s = SetSpeedTrainSim::default();
        s.set_save_interval(Some(1));
        run.checkpoints("set_speed.default", &s, if thorough { 30 } else { 8 }, 4);
        let mut s = SpeedLimitTrainSim::valid();
        s.set_save_interval(Some(1));
        run.checkpoints("speed_limit.valid", &s, if thorough { 30 } else { 8 }, 4);
    }

    let (mu, mr) = (run.max_ulps_json, run.max_rel_json_resume);
    run.ctx.count_n("serde.json.max_ulps_per_number_after_reload", mu);
    run.ctx.count_n("serde.json.resume_max_rel_diff_x1e15", (mr * 1e15) as u64);
    let n_obj = run.n_obj;
    run.ctx.sample("serde.summary", json!({"objects_checked": n_obj, "json_max_ulps": mu, "json_resume_max_rel_diff": mr}));
    let _ = std::fs::remove_dir_all(&tmp);
}
