//! Block `sp`: speed-limit profile (C02, C13).  Drives the real `insert_speed` and
//! `PathTpc::extend`, emits op lines for the Lean model, and checks the property clauses on the
//! implementation's own output by brute force.
use crate::netgen::*;
use crate::prng::Rng;
use crate::proto::*;
use altrios_core::track::*;
use altrios_core::uc;
use altrios_core::validate::*;
use serde_json::json;

fn pts_tok(p: &[SpeedLimitPoint]) -> String {
    seq(p, |q| format!("{} {}", f(q.offset.value), f(q.speed_limit.value)))
}
fn lim_tok(l: &SpeedLimit) -> String {
    format!("{} {} {}", f(l.offset_start.value), f(l.offset_end.value), f(l.speed.value))
}
fn pts_json(p: &[SpeedLimitPoint]) -> serde_json::Value {
    json!(p.iter().map(|q| (q.offset.value, q.speed_limit.value)).collect::<Vec<_>>())
}
fn lims_json(l: &[SpeedLimit]) -> serde_json::Value {
    json!(l.iter().map(|q| (q.offset_start.value, q.offset_end.value, q.speed.value)).collect::<Vec<_>>())
}

/// the step function the stored points denote (right-continuous)
pub fn val_at(p: &[SpeedLimitPoint], x: f64) -> f64 {
    let mut v = 0.0;
    for q in p {
        if q.offset.value <= x {
            v = q.speed_limit.value;
        } else {
            break;
        }
    }
    v
}

fn probes(p: &[SpeedLimitPoint], lims: &[SpeedLimit]) -> Vec<f64> {
    let mut xs: Vec<f64> = p.iter().map(|q| q.offset.value).collect();
    for l in lims {
        xs.push(l.offset_start.value);
        xs.push(l.offset_end.value);
    }
    xs.sort_by(|a, b| a.partial_cmp(b).unwrap());
    xs.dedup();
    let mut out = Vec::new();
    for (i, x) in xs.iter().enumerate() {
        out.push(*x);
        if *x > 0.0 {
            out.push(f64::from_bits(x.to_bits() - 1));
        }
        out.push(f64::from_bits(x.to_bits() + 1));
        if i + 1 < xs.len() {
            out.push(0.5 * (x + xs[i + 1]));
        }
    }
    if let Some(l) = xs.last() {
        out.push(l + 1.0);
        out.push(l * 2.0 + 7.0);
    }
    out
}

/// C02 / C13 clauses on a profile, given the posted limits (already shifted / extended) that
/// apply and the train's maximum speed.  All speeds non-negative here.
fn oracle_profile(
    ctx: &mut Ctx,
    case: &str,
    p: &[SpeedLimitPoint],
    lims: &[SpeedLimit],
    vmax: f64,
    x_lo: f64,
    input: &serde_json::Value,
) {
    let mut bad02 = None;
    let mut bad13 = None;
    for x in probes(p, lims) {
        if x < x_lo {
            continue;
        }
        let got = val_at(p, x);
        let mut want = vmax;
        for l in lims {
            if l.offset_start.value <= x && x < l.offset_end.value && l.speed.value < want {
                want = l.speed.value;
            }
        }
        if got > want && bad02.is_none() {
            bad02 = Some((x, got, want));
        }
        if got != want && bad13.is_none() {
            bad13 = Some((x, got, want));
        }
    }
    ctx.checked("C02", "never_above_posted");
    ctx.checked("C13", "equals_tightest");
    if let Some((x, got, want)) = bad02 {
        ctx.fail("C02", "never_above_posted", case,
            format!("at x={} enforced {} > tightest posted {}", x, got, want), input.clone());
    }
    if let Some((x, got, want)) = bad13 {
        ctx.fail("C13", "equals_tightest", case,
            format!("at x={} enforced {} != tightest posted {}", x, got, want), input.clone());
    }
    // canonical: sorted, no equal-valued neighbours
    ctx.checked("C13", "canonical");
    let sorted = p.windows(2).all(|w| w[0].offset <= w[1].offset);
    let nodup = p.windows(2).all(|w| w[0].speed_limit != w[1].speed_limit);
    if !sorted || !nodup {
        ctx.fail("C13", "canonical", case,
            format!("stored profile not canonical (sorted={}, no_equal_neighbours={}): {}", sorted, nodup, pts_json(p)),
            input.clone());
    }
}

fn call_insert(p: &mut Vec<SpeedLimitPoint>, l: &SpeedLimit) -> bool {
    let mut q = p.clone();
    let ok = guard(|| q.insert_speed(l)).is_some();
    if ok {
        *p = q;
    }
    ok
}

fn gen_lim(r: &mut Rng, cuts: &[i64], grid: f64, speeds: &[f64]) -> SpeedLimit {
    let a = *r.pick(cuts);
    let b = *r.pick(cuts);
    let (s, e) = if a <= b { (a, b) } else { (b, a) };
    SpeedLimit { offset_start: m(s as f64 * grid), offset_end: m(e as f64 * grid), speed: mps(*r.pick(speeds)) }
}

/// sequences of direct `insert_speed` calls starting from `[(0, vmax)]`
fn direct_case(ctx: &mut Ctx, r: &mut Rng, corpus: Option<(f64, Vec<(f64, f64, f64)>)>) {
    let (vmax, lims): (f64, Vec<SpeedLimit>) = match corpus {
        Some((v, l)) => (v, l.iter().map(|t| SpeedLimit { offset_start: m(t.0), offset_end: m(t.1), speed: mps(t.2) }).collect()),
        None => {
            let vmax = *r.pick(&[20.0, 25.0, 30.0, 40.0]);
            let n = r.usize(1, 8);
            let ncuts = r.usize(2, 7);
            let hi = *r.pick(&[8i64, 16, 64, 1000]);
            let cuts: Vec<i64> = (0..ncuts).map(|_| r.range(0, hi)).collect();
            let speeds: Vec<f64> = (0..r.usize(1, 5)).map(|_| r.range(2, 2 * vmax as i64 - 1) as f64 * 0.5).collect();
            let grid = *r.pick(&[0.5, 1.0, 125.0]);
            let mut lims: Vec<SpeedLimit> = (0..n).map(|_| gen_lim(r, &cuts, grid, &speeds)).collect();
            if r.chance(0.6) {
                lims.sort_by(|a, b| a.partial_cmp(b).unwrap());
            }
            // the validator's rule for one speed set: (start, end) pairs are unique
            let mut seen: Vec<(f64, f64)> = vec![];
            lims.retain(|l| {
                let k = (l.offset_start.value, l.offset_end.value);
                if seen.contains(&k) { false } else { seen.push(k); true }
            });
            (vmax, lims)
        }
    };
    ctx.count(&format!("sp.direct.n_limits.{}", lims.len()));
    let mut p = vec![SpeedLimitPoint { offset: m(0.0), speed_limit: mps(vmax) }];
    let mut applied: Vec<SpeedLimit> = vec![];
    for l in &lims {
        let before = p.clone();
        // branch census (for the distribution report)
        let last = before.last().unwrap().offset;
        let br = if last < l.offset_start { "after_end" } else if last == l.offset_start { "abut_end" }
            else if l.offset_start == l.offset_end { "general_zero_len" }
            else if !before.iter().any(|q| q.offset >= l.offset_start && q.offset <= l.offset_end) { "general_strictly_inside" }
            else { "general" };
        ctx.count(&format!("sp.branch.{}", br));
        let ok = call_insert(&mut p, l);
        let ans = if ok { format!("ok {}", pts_tok(&p)) } else { "panic".to_string() };
        let args = format!("{} {}", pts_tok(&before), lim_tok(l));
        let id = ctx.op("C02,C13", "insert_speed", &args, &ans);
        ctx.op("C02,C13", "insert_speed_struct", &args, &ans);
        if !ok && !(before.is_valid() && l.is_valid()) {
            // a `debug_assert!` precondition of insert_speed does not hold (three points at one
            // offset after stacked zero-length restrictions): outside the function's contract
            ctx.count("sp.direct.stop_precondition");
            return;
        }
        if !ok {
            ctx.fail("C13", "no_panic", &id, "insert_speed panicked on a valid limit".into(),
                json!({"kind":"direct","vmax":vmax,"limits":lims_json(&lims)}));
            return;
        }
        applied.push(*l);
        let input = json!({"kind":"direct","vmax":vmax,"limits":lims_json(&applied)});
        oracle_profile(ctx, &id, &p, &applied, vmax, 0.0, &input);
        ctx.sample("sp.direct", json!({"before": pts_json(&before), "limit": lims_json(&[*l]), "after": pts_json(&p)}));
    }
}

/// arbitrary (also negative-speed) single inserts and `min_speed`: model correspondence only
fn raw_case(ctx: &mut Ctx, r: &mut Rng) {
    let a = r.range(-60, 60) as f64 * 0.5;
    let b = r.range(-60, 60) as f64 * 0.5;
    if a != 0.0 && b != 0.0 {
        let got = min_speed(mps(a), mps(b)).value;
        ctx.op("C02,C13", "min_speed", &format!("{} {}", f(a), f(b)), &format!("ok {}", f(got)));
    }
    // a canonical-or-not profile with possibly negative speeds
    let n = r.usize(1, 6);
    let mut offs: Vec<i64> = (0..n).map(|_| r.range(0, 12)).collect();
    offs.sort();
    offs[0] = 0;
    let mut p: Vec<SpeedLimitPoint> = offs.iter().map(|o| SpeedLimitPoint { offset: m(*o as f64), speed_limit: mps(r.range(1, 30) as f64) }).collect();
    if r.chance(0.2) {
        let i = r.usize(0, n - 1);
        p[i].speed_limit = mps(-(r.range(1, 30) as f64));
    }
    let s = r.range(0, 14);
    let e = r.range(s, 16);
    let sp = if r.chance(0.1) { -(r.range(1, 30) as f64) } else { r.range(1, 30) as f64 };
    let l = SpeedLimit { offset_start: m(s as f64), offset_end: m(e as f64), speed: mps(sp) };
    let before = p.clone();
    let ok = call_insert(&mut p, &l);
    ctx.count(if ok { "sp.raw.ok" } else { "sp.raw.panic" });
    let ans = if ok { format!("ok {}", pts_tok(&p)) } else { "panic".to_string() };
    ctx.op("C02,C13", "insert_speed", &format!("{} {}", pts_tok(&before), lim_tok(&l)), &ans);
}

pub fn train_params(r: &mut Rng) -> TrainParams {
    TrainParams {
        length: m(r.range(100, 6000) as f64 * 0.5),
        speed_max: mps(r.range(20, 80) as f64 * 0.5),
        towed_mass_static: uc::KG * *r.pick(&[5.0e4, 1.0e5, 5.0e6, 1.0e7, 2.0e8]),
        mass_per_brake: uc::KG * *r.pick(&[1.0e4, 1.0e5, 1.3e5]),
        axle_count: *r.pick(&[100u32, 400, 401, 1000]),
        train_type: *r.pick(&[TrainType::Freight, TrainType::Passenger]),
        curve_coeff_0: uc::R * 0.0,
        curve_coeff_1: uc::R * 0.0,
        curve_coeff_2: uc::R * 0.0,
    }
}

fn pick_speed_set<'a>(l: &'a Link, tp: &TrainParams) -> Option<&'a SpeedSet> {
    match &l.speed_set {
        Some(s) => Some(s),
        None => l.speed_sets.get(&tp.train_type),
    }
}

/// independent re-statement of `speed_set_applies`
fn applies(tp: &TrainParams, s: &SpeedSet) -> bool {
    s.speed_params.iter().all(|sp| {
        let cmp = |a: f64, b: f64| match sp.compare_type {
            CompareType::TpEqualRp => a == b,
            CompareType::TpGreaterThanRp => a > b,
            CompareType::TpLessThanRp => a < b,
            CompareType::TpGreaterThanEqualRp => a >= b,
            CompareType::TpLessThanEqualRp => a <= b,
        };
        match sp.limit_type {
            LimitType::MassTotal => cmp(tp.towed_mass_static.value, sp.limit_val),
            LimitType::MassPerBrake => cmp(tp.mass_per_brake.value, sp.limit_val),
            LimitType::AxleCount => cmp(tp.axle_count as f64, (sp.limit_val as u32) as f64),
        }
    })
}


/// posted restrictions of a route as absolute ranges (tail-end sets extended by the train length, gated sets and
/// restrictions at or above the train's maximum speed dropped): independent of PathTpc
pub fn posted_from_network(net: &[Link], route: &[LinkIdx], tp: &TrainParams) -> Vec<SpeedLimit> {
    let mut posted = vec![];
    let mut base = 0.0f64;
    for li in route {
        let link = &net[li.idx()];
        if let Some(s) = pick_speed_set(link, tp) {
            if applies(tp, s) {
                let ladd = if s.is_head_end { 0.0 } else { tp.length.value };
                for l in &s.speed_limits {
                    if l.speed < tp.speed_max {
                        posted.push(SpeedLimit { offset_start: m(l.offset_start.value + base), offset_end: m(l.offset_end.value + base + ladd), speed: l.speed });
                    }
                }
            }
        }
        base += link.length.value;
    }
    posted
}
pub fn tightest_at(posted: &[SpeedLimit], vmax: f64, x: f64) -> f64 {
    let mut want = vmax;
    for l in posted {
        if l.offset_start.value <= x && x < l.offset_end.value && l.speed.value < want { want = l.speed.value; }
    }
    want
}

fn sparams_tok(s: &SpeedSet) -> String {
    seq(&s.speed_params, |p| {
        format!("{} {} {}", f(p.limit_val), match p.limit_type {
            LimitType::MassTotal => "mass_total",
            LimitType::MassPerBrake => "mass_per_brake",
            LimitType::AxleCount => "axle_count",
        }, match p.compare_type {
            CompareType::TpEqualRp => "eq",
            CompareType::TpGreaterThanRp => "gt",
            CompareType::TpLessThanRp => "lt",
            CompareType::TpGreaterThanEqualRp => "ge",
            CompareType::TpLessThanEqualRp => "le",
        })
    })
}

/// whole routes through `PathTpc::extend`, link by link / at once / random split
fn route_case(ctx: &mut Ctx, r: &mut Rng, big: bool) {
    let o = NetOpts {
        n_links: r.usize(1, if big { 8 } else { 4 }),
        grid: *r.pick(&[0.5, 1.0, 8.0]),
        len_lo: 4,
        len_hi: *r.pick(&[16, 200, 4000]),
        max_speed_limits: if big { 6 } else { 4 },
        use_speed_sets_map: true,
        speed_params: true,
        ..Default::default()
    };
    let net = gen_line(r, &o);
    if let Err(e) = net.validate() {
        ctx.count("sp.route.netgen_invalid");
        ctx.sample("sp.netgen_invalid", json!(format!("{:?}", e)));
        return;
    }
    let tp = train_params(r);
    let route = route_fwd(o.n_links);
    ctx.count(&format!("sp.route.n_links.{}", o.n_links));
    let input = json!({"kind":"route","network": serde_json::to_value(&net).unwrap(), "train_params": serde_json::to_value(&tp).unwrap()});

    // A: link by link, snapshotting the speed points around every extend
    let mut a = PathTpc::new(tp);
    let mut posted: Vec<SpeedLimit> = vec![];
    let mut base = 0.0f64;
    for li in &route {
        let link = &net[li.idx()];
        let before = a.speed_points().to_vec();
        let res = guard(|| { let mut t = a.clone(); t.extend(&net, [*li]).map(|_| t) });
        let ss = pick_speed_set(link, &tp);
        match (res, ss) {
            (Some(Ok(t)), Some(s)) => {
                a = t;
                let ap = applies(&tp, s);
                ctx.count(if ap { "sp.route.set_applies" } else { "sp.route.set_gated_off" });
                ctx.count(if s.is_head_end { "sp.route.head_end" } else { "sp.route.tail_end" });
                let args = format!("{} {} {} {} {} {} {} {} {} {}",
                    pts_tok(&before), f(base), f(tp.length.value), f(tp.speed_max.value),
                    f(tp.towed_mass_static.value), f(tp.mass_per_brake.value), tp.axle_count,
                    b(s.is_head_end), sparams_tok(s), seq(&s.speed_limits, lim_tok));
                let id = ctx.op("C02,C13", "add_speeds", &args, &format!("ok {}", pts_tok(a.speed_points())));
                if ap {
                    let ladd = if s.is_head_end { 0.0 } else { tp.length.value };
                    for l in &s.speed_limits {
                        if l.speed < tp.speed_max {
                            posted.push(SpeedLimit {
                                offset_start: m(l.offset_start.value + base),
                                offset_end: m(l.offset_end.value + base + ladd),
                                speed: l.speed,
                            });
                        }
                    }
                }
                oracle_profile(ctx, &id, a.speed_points(), &posted, tp.speed_max.value, 0.0, &input);
            }
            (Some(Ok(_)), None) => {
                ctx.fail("C02", "missing_speed_set_accepted", "route", "extend accepted a link without a speed set for the train type".into(), input.clone());
                return;
            }
            (Some(Err(_)), None) => { ctx.count("sp.route.err_no_speed_set"); return; }
            (Some(Err(e)), Some(_)) => {
                ctx.fail("C02", "extend_rejected_valid", "route", format!("extend rejected a contiguous valid route: {}", e), input.clone());
                return;
            }
            (None, _) => {
                // `insert_speed`'s `debug_assert!(self.is_valid())` fails (debug builds only) when two
                // zero-length restrictions of different links stack at one absolute offset: three
                // points at one offset.  Outside the statements of C02/C13; recorded in DESIGN.md §8.
                let mut zl: Vec<f64> = vec![];
                let mut bb = 0.0;
                for lj in &route {
                    let lk = &net[lj.idx()];
                    if let Some(s) = pick_speed_set(lk, &tp) {
                        for l in &s.speed_limits {
                            if l.offset_start == l.offset_end && s.is_head_end { zl.push(l.offset_start.value + bb); }
                        }
                    }
                    bb += lk.length.value;
                }
                zl.sort_by(|a, b| a.partial_cmp(b).unwrap());
                if zl.windows(2).any(|w| w[0] == w[1]) {
                    ctx.count("sp.route.debug_assert_stacked_zero_len");
                } else {
                    ctx.fail("C02", "extend_panicked", "route", "PathTpc::extend panicked on a valid network".into(), input.clone());
                }
                return;
            }
        }
        base += link.length.value;
    }
    // B: at once; C: random split — must give the identical profile
    let mut bt = PathTpc::new(tp);
    let okb = guard(|| bt.extend(&net, &route)).map(|x| x.is_ok()).unwrap_or(false);
    let mut ct = PathTpc::new(tp);
    let cut = r.usize(0, route.len());
    let okc = guard(|| ct.extend(&net, &route[..cut]).and_then(|_| ct.extend(&net, &route[cut..]))).map(|x| x.is_ok()).unwrap_or(false);
    ctx.checked("C02", "split_independent");
    if !okb || !okc || bt.speed_points() != a.speed_points() || ct.speed_points() != a.speed_points() {
        ctx.fail("C02", "split_independent", "route",
            format!("profiles differ between link-by-link, at-once and split-at-{} extension", cut), input.clone());
    }
    ctx.sample("sp.route", json!({"n_links": o.n_links, "posted": lims_json(&posted), "profile": pts_json(a.speed_points())}));
}

pub fn corpus() -> Vec<(f64, Vec<(f64, f64, f64)>)> {
    vec![
        // DESIGN §8 #5: restriction strictly inside one interval (the pinned tree loses the restoring point)
        (25.0, vec![(0.0, 10000.0, 20.0), (2000.0, 3000.0, 10.0)]),
        (25.0, vec![(1000.0, 5000.0, 20.0), (2000.0, 3000.0, 10.0)]),
        // zero-length restriction strictly inside an interval
        (25.0, vec![(0.0, 100.0, 20.0), (50.0, 50.0, 10.0)]),
        // abutting with merge / without merge
        (25.0, vec![(0.0, 10.0, 20.0), (10.0, 20.0, 20.0)]),
        (25.0, vec![(0.0, 10.0, 20.0), (10.0, 20.0, 15.0), (20.0, 30.0, 20.0)]),
        // nested shared start / shared end, duplicates
        (25.0, vec![(0.0, 100.0, 20.0), (0.0, 50.0, 10.0), (50.0, 100.0, 10.0), (0.0, 100.0, 5.0)]),
        (25.0, vec![(10.0, 20.0, 10.0), (0.0, 30.0, 10.0)]),
        (25.0, vec![(10.0, 20.0, 10.0), (15.0, 40.0, 12.0), (0.0, 12.0, 11.0), (5.0, 50.0, 24.5)]),
    ]
}

pub fn run(ctx: &mut Ctx, r: &mut Rng, tier: &str) {
    for c in corpus() {
        let mut rr = r.fork();
        direct_case(ctx, &mut rr, Some(c));
    }
    let (nd, nr, nraw) = if tier == "thorough" { (6000, 1500, 4000) } else { (500, 120, 400) };
    for _ in 0..nd {
        let mut rr = r.fork();
        direct_case(ctx, &mut rr, None);
    }
    for _ in 0..nraw {
        let mut rr = r.fork();
        raw_case(ctx, &mut rr);
    }
    for i in 0..nr {
        let mut rr = r.fork();
        route_case(ctx, &mut rr, tier == "thorough" && i % 2 == 0);
    }
}
