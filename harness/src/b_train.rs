//! Block `train`: path geometry (C06), resistance (C07), kinematic bookkeeping (C12), set-speed
//! runs (C14), cross-level agreement (C11), speed-limited runs (C03).
//! Snapshot-stepping of the real `PathTpc::extend`, `update_res`, `solve_required_pwr`, `solve_step`.
use crate::b_pt::{gen_loco, tok_consist};
use crate::netgen::*;
use crate::prng::Rng;
use crate::proto::*;
use altrios_core::consist::locomotive::locomotive_model::PowertrainType;
use altrios_core::consist::{LocoTrait, PowerDistributionControlType, Proportional, RESGreedy};
use altrios_core::lin_search_hint::{Dir, LinSearchHint};
use altrios_core::prelude::*;
use altrios_core::track::*;
use altrios_core::train::kind::{aerodynamic, bearing, davis_b, path_res, rolling};
use altrios_core::train::method;
use altrios_core::train::*;
use altrios_core::validate::*;
use altrios_core::{si, uc};
use serde_json::json;

// ------------------------------------------------------------------ token writers

fn tt_code(t: &TrainType) -> u32 {
    match t {
        TrainType::None => 0,
        TrainType::Freight => 1,
        TrainType::Passenger => 2,
        TrainType::Intermodal => 3,
        TrainType::HighSpeedPassenger => 4,
        TrainType::TiltTrain => 5,
        TrainType::Commuter => 6,
    }
}
fn tok_sparams(s: &SpeedSet) -> String {
    seq(&s.speed_params, |p| {
        format!("{} {} {}", f(p.limit_val), match p.limit_type {
            LimitType::MassTotal => "mass_total",
            LimitType::MassPerBrake => "mass_per_brake",
            LimitType::AxleCount => "axle_count",
        }, match p.compare_type {
            CompareType::TpEqualRp => "eq",
            CompareType::TpGreaterThanRp => "gt",
            CompareType::TpLessThanRp => "lt",
            CompareType::TpGreaterThanEqualRp => "ge",
            CompareType::TpLessThanEqualRp => "le",
        })
    })
}
fn tok_speed_set(s: &SpeedSet) -> String {
    format!("{} {} {}", b(s.is_head_end), tok_sparams(s),
        seq(&s.speed_limits, |l| format!("{} {} {}", f(l.offset_start.value), f(l.offset_end.value), f(l.speed.value))))
}
fn tok_cat(c: &CatPowerLimit) -> String {
    // district id: an opaque label; the harness only generates "d<k>" labels
    let d: Option<u64> = c.district_id.as_ref().and_then(|s| s.trim_start_matches('d').parse().ok());
    format!("{} {} {} {}", f(c.offset_start.value), f(c.offset_end.value), f(c.power_limit.value), opt(&d, |x| x.to_string()))
}
fn tok_link(l: &Link) -> String {
    let mut sets: Vec<(&TrainType, &SpeedSet)> = l.speed_sets.iter().collect();
    sets.sort_by_key(|kv| tt_code(kv.0));
    format!("{} {} {} {} {} {} {} {} {} {} {}",
        l.idx_curr.idx(), l.idx_prev.idx(), l.idx_prev_alt.idx(), l.idx_next.idx(), l.idx_next_alt.idx(),
        f(l.length.value),
        seq(&l.elevs, |e| format!("{} {}", f(e.offset.value), f(e.elev.value))),
        seq(&l.headings, |h| format!("{} {}", f(h.offset.value), f(h.heading.value))),
        opt(&l.speed_set, tok_speed_set),
        seq(&sets, |kv| format!("{} {}", tt_code(kv.0), tok_speed_set(kv.1))),
        seq(&l.cat_power_limits, tok_cat))
}
fn tok_prcs(v: &[PathResCoeff]) -> String {
    seq(v, |p| format!("{} {} {}", f(p.offset.value), f(p.res_coeff.value), f(p.res_net.value)))
}
fn tok_lps(v: &[LinkPoint]) -> String {
    seq(v, |p| format!("{} {} {} {} {}", f(p.offset.value), p.grade_count, p.curve_count, p.cat_power_count, p.link_idx.idx()))
}
fn tok_tpc_body(t: &PathTpc) -> String {
    format!("{} {} {} {} {}", tok_lps(t.link_points()), tok_prcs(t.grades()), tok_prcs(t.curves()),
        seq(t.speed_points(), |q| format!("{} {}", f(q.offset.value), f(q.speed_limit.value))),
        seq(t.cat_power_limits(), tok_cat))
}
fn tok_tpc_in(t: &PathTpc, tp: &TrainParams) -> String {
    format!("{} {} {} {} {} {} {} {} {} {} {}", tok_tpc_body(t),
        f(tp.length.value), f(tp.speed_max.value), f(tp.towed_mass_static.value), f(tp.mass_per_brake.value),
        tp.axle_count, tt_code(&tp.train_type), f(tp.curve_coeff_0.value), f(tp.curve_coeff_1.value), f(tp.curve_coeff_2.value),
        b(t.is_finished()))
}
fn tok_tpc_out(t: &PathTpc) -> String {
    format!("{} {}", tok_tpc_body(t), b(t.is_finished()))
}
pub fn tok_state(s: &TrainState) -> String {
    format!("{} {} {} {} {} {} {} {} {} {} {} {} {} {} {} {} {} {} {} {} {} {} {} {} {} {} {} {} {} {}",
        f(s.time.value), f(s.offset.value), f(s.offset_back.value), f(s.total_dist.value), s.link_idx_front,
        f(s.offset_in_link.value), f(s.speed.value), f(s.speed_limit.value), f(s.speed_target.value), f(s.dt.value),
        f(s.length.value), f(s.mass_static.value), f(s.mass_rot.value), f(s.mass_freight.value), f(s.weight_static.value),
        f(s.res_rolling.value), f(s.res_bearing.value), f(s.res_davis_b.value), f(s.res_aero.value), f(s.res_grade.value),
        f(s.res_curve.value), f(s.grade_front.value), f(s.grade_back.value), f(s.elev_front.value), f(s.pwr_res.value),
        f(s.pwr_accel.value), f(s.pwr_whl_out.value), f(s.energy_whl_out.value), f(s.energy_whl_out_pos.value),
        f(s.energy_whl_out_neg.value))
}
fn jf(v: &serde_json::Value, path: &[&str]) -> f64 {
    let mut x = v;
    for p in path { x = &x[*p]; }
    x.as_f64().unwrap_or(f64::NAN)
}
fn ju(v: &serde_json::Value, path: &[&str]) -> u64 {
    let mut x = v;
    for p in path { x = &x[*p]; }
    x.as_u64().unwrap_or(u64::MAX)
}
/// `method::Strap` has private fields: read through Serialize (numbers come out as the same f64)
fn tok_res(r: &TrainRes) -> String {
    let v = serde_json::to_value(r).unwrap();
    let s = &v["Strap"];
    format!("{} {} {} {} {} {} {} {}",
        f(jf(s, &["bearing", "force"])), f(jf(s, &["rolling", "ratio"])), f(jf(s, &["davis_b", "davis_b"])),
        f(jf(s, &["aerodynamic", "cd_area"])), ju(s, &["grade", "idx_front"]), ju(s, &["grade", "idx_back"]),
        ju(s, &["curve", "idx_front"]), ju(s, &["curve", "idx_back"]))
}
fn res_idx(r: &TrainRes) -> (usize, usize, usize, usize) {
    let v = serde_json::to_value(r).unwrap();
    let s = &v["Strap"];
    (ju(s, &["grade", "idx_front"]) as usize, ju(s, &["grade", "idx_back"]) as usize,
     ju(s, &["curve", "idx_front"]) as usize, ju(s, &["curve", "idx_back"]) as usize)
}
fn tok_fric(fb: &FricBrake) -> String {
    format!("{} {} {} {} {}", f(fb.force_max.value), f(fb.ramp_up_time.value), f(fb.ramp_up_coeff.value),
        f(fb.state.force.value), f(fb.state.force_max_curr.value))
}
fn bp_points(bp: &BrakingPoints) -> (Vec<(f64, f64, f64)>, usize) {
    let v = serde_json::to_value(bp).unwrap();
    let pts = v["points"].as_array().unwrap().iter().map(|p| (jf(p, &["offset"]), jf(p, &["speed_limit"]), jf(p, &["speed_target"]))).collect();
    (pts, v["idx_curr"].as_u64().unwrap() as usize)
}
fn tok_bp(bp: &BrakingPoints) -> String {
    let (pts, i) = bp_points(bp);
    format!("{} {}", seq(&pts, |p| format!("{} {} {}", f(p.0), f(p.1), f(p.2))), i)
}
fn dir_tok(d: &Dir) -> &'static str {
    match d { Dir::Unk => "unk", Dir::Fwd => "fwd", Dir::Bwd => "bwd" }
}

// ------------------------------------------------------------------ generators

fn gen_train_params(r: &mut Rng, with_curve: bool) -> TrainParams {
    TrainParams {
        length: m(r.range(200, 4000) as f64 * 0.5),
        speed_max: mps(r.range(30, 70) as f64 * 0.5),
        towed_mass_static: uc::KG * *r.pick(&[2.0e6, 5.0e6, 1.0e7]),
        mass_per_brake: uc::KG * *r.pick(&[1.0e5, 1.3e5]),
        axle_count: *r.pick(&[200u32, 400]),
        train_type: TrainType::Freight,
        curve_coeff_0: uc::R * if with_curve { *r.pick(&[0.0, 0.3, 0.8]) } else { 0.0 },
        curve_coeff_1: uc::R * if with_curve { *r.pick(&[0.0, 0.5]) } else { 0.0 },
        curve_coeff_2: uc::R * if with_curve { *r.pick(&[0.0, 0.1]) } else { 0.0 },
    }
}

fn close(a: f64, bb: f64, scale: f64) -> bool {
    (a - bb).abs() <= 1e-9 * scale.abs().max(a.abs()).max(bb.abs()) + 1e-9
}

/// elevation of the route at path offset x, by walking the links' own elevation points
fn route_elev(net: &[Link], route: &[LinkIdx], x: f64) -> Option<f64> {
    let mut base = 0.0;
    let mut acc: Option<f64> = None; // elevation carried across links (differences accumulate)
    for li in route {
        let l = &net[li.idx()];
        let len = l.length.value;
        let e0 = l.elevs.first()?.elev.value;
        let start = acc.unwrap_or(e0);
        if x <= base + len {
            let xo = x - base;
            for w in l.elevs.windows(2) {
                if xo <= w[1].offset.value {
                    let t = (xo - w[0].offset.value) / (w[1].offset.value - w[0].offset.value);
                    let local = w[0].elev.value + t * (w[1].elev.value - w[0].elev.value);
                    return Some(start + (local - e0));
                }
            }
            return None;
        }
        acc = Some(start + (l.elevs.last()?.elev.value - e0));
        base += len;
    }
    None
}


/// cumulative curve resistance at path offset x, by walking the links' own heading points
/// (links without headings are tangent track): independent of PathTpc
fn route_curve_cum(net: &[Link], route: &[LinkIdx], tp: &TrainParams, x: f64) -> f64 {
    let rev = uc::REV.value;
    let one_degree = uc::DEG.value / (uc::FT.value * 100.0);
    let (c0, c1, c2) = (tp.curve_coeff_0.value, tp.curve_coeff_1.value, tp.curve_coeff_2.value);
    let mut base = 0.0;
    let mut cum = 0.0;
    for li in route {
        let l = &net[li.idx()];
        for w in l.headings.windows(2) {
            let (a, bb) = (base + w[0].offset.value, base + w[1].offset.value);
            if x <= a { return cum; }
            let dh = (w[1].heading.value - w[0].heading.value).abs();
            let curv = dh.min(rev - dh) / (bb - a);
            let coeff = if curv < one_degree { c0 * curv } else { c0 * one_degree + c1 * (curv - one_degree) + c2 * (curv - one_degree) * (curv - one_degree) };
            cum += coeff * (x.min(bb) - a);
            if x <= bb { return cum; }
        }
        base += l.length.value;
    }
    cum
}

fn prc_val(p: &PathResCoeff, x: f64) -> f64 {
    p.res_net.value + p.res_coeff.value * (x - p.offset.value)
}
/// declarative profile value at x (binary-search-free scan, no cache)
fn profile_val(pts: &[PathResCoeff], x: f64) -> f64 {
    let mut i = 0;
    while i + 1 < pts.len() && pts[i + 1].offset.value < x { i += 1; }
    prc_val(&pts[i], x)
}
fn seg_of(pts: &[PathResCoeff], x: f64) -> usize {
    let mut i = 0;
    while i + 1 < pts.len() && pts[i + 1].offset.value < x { i += 1; }
    i
}

// ------------------------------------------------------------------ C06: extend

struct Built {
    net: Vec<Link>,
    route: Vec<LinkIdx>,
    tp: TrainParams,
    tpc: PathTpc,
}

fn path_case(ctx: &mut Ctx, r: &mut Rng, long: bool, for_sim: bool) -> Option<Built> {
    let o = NetOpts {
        n_links: if for_sim { r.usize(2, 7) } else { r.usize(1, if long { 6 } else { 4 }) },
        grid: if for_sim { 1.0 } else { *r.pick(&[0.5, 1.0, 8.0]) },
        len_lo: if for_sim { 700 } else { 4 },
        len_hi: if for_sim { 3500 } else { *r.pick(&[64, 2000, 20000]) },
        max_elev_pts: if for_sim { 4 } else { 6 },
        max_grade: if for_sim { 0.012 } else { 0.03 },
        max_speed_limits: if for_sim { 4 } else { 3 },
        speed_lo: if for_sim { 8.0 } else { 5.0 },
        use_speed_sets_map: !for_sim,
        cat_power: true,
        // restrictions conditional on the train (mass, mass per brake, axle count): whether a set is posted for THIS train is
        // part of what the posted-limit clauses of C03 judge (posted_from_network applies the gating independently)
        speed_params: true,
        ..Default::default()
    };
    let mut net = gen_line(r, &o);
    // headings wrap-around through 0 / 2pi is produced by netgen's rem_euclid; links without headings too
    if net.validate().is_err() {
        ctx.count("train.netgen_invalid");
        return None;
    }
    let tp = gen_train_params(r, true);
    let route = route_fwd(o.n_links);
    let input = json!({"kind": "path", "network": serde_json::to_value(&net).unwrap(), "train_params": serde_json::to_value(&tp).unwrap()});
    // a missing speed set for this train type makes extend fail: legitimate error, not counted as a path
    if net[1..].iter().any(|l| l.speed_set.is_none() && !l.speed_sets.contains_key(&tp.train_type)) {
        // give every link a usable set so that geometry is exercised
        for l in net.iter_mut().skip(1) {
            if l.speed_set.is_none() && !l.speed_sets.contains_key(&tp.train_type) {
                let s = l.speed_sets.iter().min_by_key(|kv| *kv.0 as u8).map(|kv| kv.1.clone()).unwrap();
                l.speed_sets.insert(tp.train_type, s);
            }
        }
    }
    ctx.count(&format!("train.path.n_links.{}", o.n_links));
    // random partition into successive extend calls, each one an op
    let mut t = PathTpc::new(tp);
    let mut i = 0;
    let nets = seq(&net, tok_link);
    while i < route.len() {
        let j = r.usize(i + 1, route.len());
        let chunk = &route[i..j];
        let pre = t.clone();
        let res = guard(|| { let mut x = pre.clone(); x.extend(&net, chunk).map(|_| x) });
        let args = format!("{} {} {}", nets, tok_tpc_in(&pre, &tp), seq(chunk, |l| l.idx().to_string()));
        let a = match &res { None => "panic".to_string(), Some(Err(_)) => "err".into(), Some(Ok(x)) => format!("ok {}", tok_tpc_out(x)) };
        ctx.op("C06,C02,C13", "tpc_extend", &args, &a);
        match res {
            Some(Ok(x)) => t = x,
            Some(Err(e)) => { ctx.fail("C06", "contiguous_route_rejected", "path", format!("extend rejected a contiguous valid route: {}", e), input.clone()); return None; }
            None => { ctx.count("train.path.extend_panic"); return None; }
        }
        i = j;
    }
    // at once: identical profile
    let mut once = PathTpc::new(tp);
    let ok = guard(|| once.extend(&net, &route)).map(|x| x.is_ok()).unwrap_or(false);
    ctx.checked("C06", "partition_independent");
    if !ok || once != t {
        ctx.fail("C06", "partition_independent", "path", "PathTpc built at once differs from the one built by successive extends".into(), input.clone());
    }
    // segment boundaries at cumulative lengths
    ctx.checked("C06", "link_points_cumulative");
    let mut cum = 0.0;
    let mut ok_lp = t.link_points().len() == route.len() + 1;
    for (k, li) in route.iter().enumerate() {
        let lp = &t.link_points()[k];
        if lp.offset.value != cum || lp.link_idx != *li { ok_lp = false; }
        cum += net[li.idx()].length.value;
    }
    if t.link_points().last().map(|p| p.offset.value) != Some(cum) { ok_lp = false; }
    if !ok_lp { ctx.fail("C06", "link_points_cumulative", "path", "link point offsets are not the cumulative link lengths / wrong link indices".into(), input.clone()); }
    // counts
    ctx.checked("C06", "counts_consistent");
    let gsum: usize = t.link_points()[..route.len()].iter().map(|p| p.grade_count).sum();
    let csum: usize = t.link_points()[..route.len()].iter().map(|p| p.curve_count).sum();
    let psum: usize = t.link_points()[..route.len()].iter().map(|p| p.cat_power_count).sum();
    if gsum + 1 != t.grades().len() || csum + 1 != t.curves().len() || psum != t.cat_power_limits().len() {
        ctx.fail("C06", "counts_consistent", "path", format!("counts: grades {}+1 vs {}, curves {}+1 vs {}, cat {} vs {}; validate: {:?}", gsum, t.grades().len(), csum, t.curves().len(), psum, t.cat_power_limits().len(), t.validate().err().map(|e| format!("{:?}", e).chars().take(600).collect::<String>())), input.clone());
    }
    ctx.op("C06", "tpc_counts", &tok_tpc_in(&t, &tp), "ok T");
    // elevation everywhere = elevation by walking the links
    ctx.checked("C06", "elevation_matches_network");
    let mut bad = None;
    let total = cum;
    let mut xs: Vec<f64> = t.grades().iter().map(|g| g.offset.value).collect();
    for k in 0..20 { xs.push(total * (k as f64 + 0.37) / 20.0); }
    for x in xs {
        if x < 0.0 || x > total { continue; }
        if let Some(want) = route_elev(&net, &route, x) {
            let got = profile_val(t.grades(), x);
            if !close(got, want, 1000.0) { bad = Some((x, got, want)); break; }
        }
    }
    if let Some((x, got, want)) = bad {
        ctx.fail("C06", "elevation_matches_network", "path", format!("elevation at {} is {} but walking the links gives {}", x, got, want), input.clone());
    }
    // grade coefficients = slopes; catenary shifted
    ctx.checked("C06", "grades_are_slopes");
    let mut gi = 0usize;
    let mut base = 0.0;
    let mut okg = true;
    let mut cats: Vec<(f64, f64, f64)> = vec![];
    for li in &route {
        let l = &net[li.idx()];
        for w in l.elevs.windows(2) {
            let slope = (w[1].elev.value - w[0].elev.value) / (w[1].offset.value - w[0].offset.value);
            let g = &t.grades()[gi];
            if g.res_coeff.value != slope || g.offset.value != base + w[0].offset.value { okg = false; }
            gi += 1;
        }
        for c in &l.cat_power_limits { cats.push((base + c.offset_start.value, base + c.offset_end.value, c.power_limit.value)); }
        base += l.length.value;
    }
    if !okg { ctx.fail("C06", "grades_are_slopes", "path", "a grade coefficient / offset differs from the slope of the link's elevation points".into(), input.clone()); }
    // curve coefficients = heading-change rate (the smaller angular distance) through the three-coefficient formula
    ctx.checked("C06", "curves_are_heading_change_rates");
    {
        let rev = uc::REV.value;
        let one_degree = uc::DEG.value / (uc::FT.value * 100.0);
        let (c0, c1, c2) = (tp.curve_coeff_0.value, tp.curve_coeff_1.value, tp.curve_coeff_2.value);
        let mut ci = 0usize;
        let mut base = 0.0;
        let mut bad = None;
        for li in &route {
            let l = &net[li.idx()];
            if l.headings.is_empty() {
                let c = &t.curves()[ci];
                if c.res_coeff.value != 0.0 || c.offset.value != base { bad = Some(format!("link {} without headings: coeff {} at {}", li.idx(), c.res_coeff.value, c.offset.value)); }
                ci += 1;
            } else {
                for w in l.headings.windows(2) {
                    let dh = (w[1].heading.value - w[0].heading.value).abs();
                    let turn = dh.min(rev - dh);
                    let len = w[1].offset.value - w[0].offset.value;
                    let curv = turn / len;
                    let want = if curv < one_degree { c0 * curv } else { c0 * one_degree + c1 * (curv - one_degree) + c2 * (curv - one_degree) * (curv - one_degree) };
                    let c = &t.curves()[ci];
                    if !close(c.res_coeff.value, want, want.abs().max(1e-6) * 1.0e3) || c.offset.value != base + w[0].offset.value {
                        bad = Some(format!("link {} headings {} -> {} over {} m: coefficient {} but the heading-change rate gives {}", li.idx(), w[0].heading.value, w[1].heading.value, len, c.res_coeff.value, want));
                    }
                    ci += 1;
                }
            }
            base += l.length.value;
        }
        if let Some(d) = bad { ctx.fail("C06", "curves_are_heading_change_rates", "path", d, input.clone()); }
    }
    ctx.checked("C06", "cumulative_values_continuous");
    for (name, pts) in [("grades", t.grades()), ("curves", t.curves())] {
        for w in pts.windows(2) {
            let want = w[0].res_net.value + w[0].res_coeff.value * (w[1].offset.value - w[0].offset.value);
            if !close(w[1].res_net.value, want, 1000.0) {
                ctx.fail("C06", "cumulative_values_continuous", "path", format!("{}: cumulative value {} at offset {} but the previous point and its slope give {}", name, w[1].res_net.value, w[1].offset.value, want), input.clone());
                break;
            }
        }
    }
    ctx.checked("C06", "catenary_shifted");
    let got: Vec<(f64, f64, f64)> = t.cat_power_limits().iter().map(|c| (c.offset_start.value, c.offset_end.value, c.power_limit.value)).collect();
    if got != cats { ctx.fail("C06", "catenary_shifted", "path", "catenary limits are not the links' sections shifted by the link base offsets".into(), input.clone()); }
    ctx.sample("train.path", json!({"n_links": route.len(), "lengths": route.iter().map(|l| net[l.idx()].length.value).collect::<Vec<_>>(), "n_grades": t.grades().len(), "n_curves": t.curves().len()}));
    // C03, statically: the speed profile handed to the controller never exceeds what the NETWORK posts for this train
    // (sets conditional on mass / mass per brake / axle count gated independently), at every point where either changes.
    // The speed-limited runs below re-check it along the trajectory; this covers every built path, not only the few simulated ones.
    {
        let posted_list = crate::b_sp::posted_from_network(&net, &route, &tp);
        let total: f64 = route.iter().map(|l| net[l.idx()].length.value).sum();
        let mut xs: Vec<f64> = vec![0.0];
        for l in &posted_list { xs.push(l.offset_start.value); xs.push(0.5 * (l.offset_start.value + l.offset_end.value)); }
        for sp in t.speed_points() { if sp.offset.value.is_finite() { xs.push(sp.offset.value); } }
        let n_cond = route.iter().filter(|l| net[l.idx()].speed_set.as_ref().map(|s| !s.speed_params.is_empty()).unwrap_or(false)
            || net[l.idx()].speed_sets.values().any(|s| !s.speed_params.is_empty())).count();
        if n_cond > 0 { ctx.count("train.path.with_conditional_speed_set"); }
        let mut bad = None;
        for x in xs {
            if !(x >= 0.0 && x < total) { continue; }
            let posted = crate::b_sp::tightest_at(&posted_list, tp.speed_max.value, x);
            let prof = crate::b_sp::val_at(t.speed_points(), x).abs();
            if prof > posted { bad = Some((x, prof, posted)); break; }
        }
        ctx.checked("C03", "profile_le_posted");
        if let Some((x, prof, posted)) = bad {
            ctx.fail("C03", "profile_le_posted", "path", format!("speed profile of the path is {} but the network posts {} at {}", prof, posted, x), input.clone());
        }
    }
    Some(Built { net, route, tp, tpc: t })
}

/// non-contiguous and malformed routes must be rejected with an error (never accepted, never a panic)
fn bad_route_case(ctx: &mut Ctx, r: &mut Rng) {
    let o = NetOpts { n_links: r.usize(3, 5), len_lo: 10, len_hi: 200, ..Default::default() };
    let net = gen_line(r, &o);
    if net.validate().is_err() { return; }
    let tp = gen_train_params(r, false);
    let n = o.n_links as u32;
    let route: Vec<LinkIdx> = match r.below(4) {
        0 => vec![LinkIdx::new(1), LinkIdx::new(3)],
        1 => vec![LinkIdx::new(2), LinkIdx::new(1)],
        2 => vec![LinkIdx::new(1), LinkIdx::new(0)],
        _ => vec![LinkIdx::new(n), LinkIdx::new(n)],
    };
    // the break may fall inside one extend call or exactly on the boundary between two calls
    // (a contiguous prefix is extended first, then the offending link alone)
    let on_boundary = r.chance(0.5);
    let mut pre = PathTpc::new(tp);
    let mut rest: &[LinkIdx] = &route;
    if on_boundary {
        // longest prefix that is itself acceptable: extend it in its own call
        let ok_prefix = guard(|| { let mut x = pre.clone(); x.extend(&net, &route[..1]).map(|_| x) });
        if let Some(Ok(x)) = ok_prefix { pre = x; rest = &route[1..]; ctx.count("train.path.bad_route_on_call_boundary"); }
    }
    let res = guard(|| { let mut x = pre.clone(); x.extend(&net, rest).map(|_| x) });
    let a = match &res { None => "panic".to_string(), Some(Err(_)) => "err".into(), Some(Ok(x)) => format!("ok {}", tok_tpc_out(x)) };
    ctx.op("C06", "tpc_extend", &format!("{} {} {}", seq(&net, tok_link), tok_tpc_in(&pre, &tp), seq(rest, |l| l.idx().to_string())), &a);
    ctx.checked("C06", "non_contiguous_rejected");
    ctx.count("train.path.bad_route");
    if !matches!(res, Some(Err(_))) {
        ctx.fail("C06", "non_contiguous_rejected", "path", format!("non-contiguous route {:?} was not rejected with an error", route.iter().map(|l| l.idx()).collect::<Vec<_>>()),
            json!({"network": serde_json::to_value(&net).unwrap(), "route": route.iter().map(|l| l.idx()).collect::<Vec<_>>()}));
    }
}

// ------------------------------------------------------------------ resistance / simulations

fn make_res(r: &mut Rng, tpc: &PathTpc, st: &TrainState) -> Option<TrainRes> {
    let grade = path_res::Strap::new(tpc.grades(), st).ok()?;
    let curve = path_res::Strap::new(tpc.curves(), st).ok()?;
    Some(TrainRes::Strap(method::Strap::new(
        bearing::Basic::new(uc::LBF * 40.0 * *r.pick(&[50.0, 100.0, 150.0])),
        rolling::Basic::new(uc::R * (*r.pick(&[1.0, 1.5, 2.5]) * uc::LB.value / uc::TON.value)),
        davis_b::Basic::new((*r.pick(&[0.0, 0.03, 0.06]) / uc::MPH.value * uc::LB.value / uc::TON.value) * uc::SPM),
        aerodynamic::Basic::new(uc::M2 * *r.pick(&[0.0, 20.0, 60.0, 150.0])),
        grade,
        curve,
    )))
}

fn gen_train_consist(r: &mut Rng) -> Consist {
    let n = r.usize(2, 5);
    let locos: Vec<Locomotive> = (0..n).map(|_| {
        if r.chance(0.9) {
            let mut l = if r.chance(0.6) { Locomotive::default() } else { Locomotive::default_battery_electric_loco() };
            l.set_save_interval(None);
            // a unit without any auxiliary load now and then: at a standstill its battery / engine sees exactly 0 W
            if r.chance(0.25) { l.pwr_aux_offset = uc::W * 0.0; l.pwr_aux_traction_coeff = uc::R * 0.0; }
            l
        } else {
            let bel = r.chance(0.4);
            gen_loco(r, bel)
        }
    }).collect();
    let pdct = if r.chance(0.5) { PowerDistributionControlType::Proportional(Proportional) } else { PowerDistributionControlType::RESGreedy(RESGreedy) };
    let con = Consist::new(locos, None, pdct);
    // now and then the consist comes from a hand-written document: no consist-level `state` block (the load hook has
    // to establish everything a freshly constructed consist has)
    if r.chance(0.2) {
        use altrios_core::traits::SerdeAPI;
        if let Ok(mut v) = serde_json::to_value(&con) {
            if let Some(o) = v.as_object_mut() { o.remove("state"); }
            if let Some(Ok(c2)) = guard(|| Consist::from_json(&v.to_string())) { return c2; }
        }
    }
    con
}

/// C07 clauses on a state right after update_res (front at st.offset)
fn oracle_res(ctx: &mut Ctx, case: &str, tpc: &PathTpc, res_after: &TrainRes, st: &TrainState, input: &serde_json::Value, truth: Option<(&[Link], &[LinkIdx], &TrainParams)>) {
    let v = serde_json::to_value(res_after).unwrap();
    let s = &v["Strap"];
    let (bf, rr, db, cd) = (jf(s, &["bearing", "force"]), jf(s, &["rolling", "ratio"]), jf(s, &["davis_b", "davis_b"]), jf(s, &["aerodynamic", "cd_area"]));
    let w = st.mass_static.value * uc::ACC_GRAV.value;
    let front = st.offset.value;
    let back = front - st.length.value;
    let len = st.length.value;
    let chk = |ctx: &mut Ctx, clause: &str, ok: bool, d: String| {
        ctx.checked("C07", clause);
        if !ok { ctx.fail("C07", clause, case, d, input.clone()); }
    };
    chk(ctx, "weight", close(st.weight_static.value, w, w), format!("weight {} != g*m {}", st.weight_static.value, w));
    let eg = (profile_val(tpc.grades(), front) - profile_val(tpc.grades(), back)) / len * w;
    chk(ctx, "grade_resistance", close(st.res_grade.value, eg, w * 0.05), format!("res_grade {} != weight*(elev_front-elev_back)/length {}", st.res_grade.value, eg));
    let ec = (profile_val(tpc.curves(), front) - profile_val(tpc.curves(), back)) / len * w;
    chk(ctx, "curve_resistance", close(st.res_curve.value, ec, w * 0.05), format!("res_curve {} != {}", st.res_curve.value, ec));
    if let Some((net, route, tp)) = truth {
        // the same two forces against the NETWORK's own geometry (not the path profile handed to the model)
        let total: f64 = route.iter().map(|l| net[l.idx()].length.value).sum();
        if back >= 0.0 && front <= total {
            if let (Some(ef), Some(eb)) = (route_elev(net, route, front), route_elev(net, route, back)) {
                let want = (ef - eb) / len * w;
                chk(ctx, "grade_resistance_vs_network", close(st.res_grade.value, want, w * 0.05), format!("res_grade {} but the network's own elevations give {} (front {}, rear {})", st.res_grade.value, want, front, back));
            }
            let want = (route_curve_cum(net, route, tp, front) - route_curve_cum(net, route, tp, back)) / len * w;
            chk(ctx, "curve_resistance_vs_network", close(st.res_curve.value, want, w * 0.05), format!("res_curve {} but the network's own headings give {} (front {}, rear {})", st.res_curve.value, want, front, back));
        }
    }
    chk(ctx, "rolling", close(st.res_rolling.value, rr * w, w), format!("res_rolling {} != {}", st.res_rolling.value, rr * w));
    chk(ctx, "davis_b", close(st.res_davis_b.value, db * st.speed.value * w, w), format!("res_davis_b {}", st.res_davis_b.value));
    chk(ctx, "bearing", st.res_bearing.value == bf, format!("res_bearing {} != {}", st.res_bearing.value, bf));
    chk(ctx, "aero", close(st.res_aero.value, cd * 1.225 * st.speed.value * st.speed.value, w), format!("res_aero {}", st.res_aero.value));
    chk(ctx, "elev_front", close(st.elev_front.value, profile_val(tpc.grades(), front), 1000.0), format!("elev_front {} != {}", st.elev_front.value, profile_val(tpc.grades(), front)));
    let gf = tpc.grades()[seg_of(tpc.grades(), front)].res_coeff.value;
    let gb = tpc.grades()[seg_of(tpc.grades(), back)].res_coeff.value;
    // at an exact breakpoint either adjacent grade is "the grade at the position"
    let gf_alt = tpc.grades()[(seg_of(tpc.grades(), front) + 1).min(tpc.grades().len() - 1)].res_coeff.value;
    let gb_alt = tpc.grades()[(seg_of(tpc.grades(), back) + 1).min(tpc.grades().len() - 1)].res_coeff.value;
    let at_bp = |x: f64| tpc.grades().iter().any(|g| g.offset.value == x);
    chk(ctx, "grade_front", st.grade_front.value == gf || (at_bp(front) && st.grade_front.value == gf_alt), format!("grade_front {} != track grade {} at front {}", st.grade_front.value, gf, front));
    chk(ctx, "grade_back", st.grade_back.value == gb || (at_bp(back) && st.grade_back.value == gb_alt), format!("grade_back {} != track grade {} at rear {}", st.grade_back.value, gb, back));
}

fn set_speed_case(ctx: &mut Ctx, r: &mut Rng, steps: usize) {
    let Some(bu) = path_case(ctx, r, false, true) else { return; };
    let mut tpc = bu.tpc.clone();
    tpc.finish();
    let len = bu.tp.length.value;
    let total = tpc.offset_end().value;
    if total < len + 200.0 { ctx.count("train.ss.route_too_short"); return; }
    let mass_static = bu.tp.towed_mass_static.value + 4.0 * 195000.0;
    // the run may start part-way along the route (front beyond the train length), the train's own clock need not be 0,
    // and the trace's first stamp need not equal it (a trace cut out of a longer recording)
    let extra = if r.chance(0.3) { ctx.count("train.ss.starts_part_way"); (r.unit() * (total - len - 200.0).max(0.0) * 0.5 * 4.0).floor() / 4.0 } else { 0.0 };
    let off0 = len + extra;
    let t_clock = if r.chance(0.8) { 0.0 } else { 300.0 };
    let t_first = *r.pick(&[t_clock, t_clock, t_clock, t_clock, 120.0, 37.5]);
    if t_first != t_clock { ctx.count("train.ss.trace_start_differs_from_train_clock"); }
    let st0 = TrainState::new(m(len), uc::KG * mass_static, uc::KG * (mass_static * 0.04), uc::KG * (mass_static * 0.6),
        Some(InitTrainState::new(Some(uc::S * t_clock), Some(m(off0)), Some(mps(0.0)))));
    ctx.checked("C12", "rear_is_front_minus_length");
    if st0.offset_back.value != st0.offset.value - st0.length.value {
        ctx.fail("C12", "rear_is_front_minus_length", "row0", format!("constructed state (saved as row 0): offset_back {} != offset {} - length {}", st0.offset_back.value, st0.offset.value, st0.length.value), json!({"kind": "TrainState::new", "init_offset": off0, "length": len}));
    }
    let Some(res) = make_res(r, &tpc, &st0) else { ctx.count("train.ss.res_err"); return; };
    let con = gen_train_consist(r);
    // speed trace: irregular stamps, stop-and-go, saturating both clips now and then
    let vmax = bu.tp.speed_max.value;
    // rolling start now and then: the trace's first sample differs from the (default, standing) initial train state
    let v0: f64 = if r.chance(0.4) { ctx.count("train.ss.rolling_start"); (vmax * 0.5 * r.unit() * 8.0).round() / 8.0 } else { 0.0 };
    let mut time = vec![t_first];
    let mut speed = vec![v0];
    let mut v: f64 = v0;
    let mut dist = 0.0;
    for _ in 0..steps {
        let dt = *r.pick(&[0.5, 1.0, 1.0, 1.0, 2.0, 2.5]);
        // (a rolling start brakes in its very first step half of the time)
        let a = if v0 > 0.0 && time.len() == 1 && r.chance(0.5) { *r.pick(&[-0.6, -0.2, -0.05]) } else { match r.below(8) { 0 => -0.6, 1 => -0.2, 2 | 3 => 0.0, 4 => 0.05, 5 => 0.15, 6 => 0.4, _ => 1.5 } };
        let nv = (v + a * dt).max(0.0).min(vmax);
        let d = 0.5 * (v + nv) * dt;
        if off0 + dist + d > total - 50.0 { break; }
        dist += d;
        v = nv;
        time.push(time.last().unwrap() + dt);
        speed.push(v);
    }
    if time.len() < 3 { return; }
    ctx.count("train.ss.cases");
    let trace = SpeedTrace::new(time.clone(), speed.clone(), None);
    let mut sim = SetSpeedTrainSim::new(con, st0, trace, res, tpc.clone(), None);
    let input = json!({"kind": "set_speed", "network": serde_json::to_value(&bu.net).unwrap(), "train_params": serde_json::to_value(&bu.tp).unwrap(),
        "route": bu.route.iter().map(|l| l.idx()).collect::<Vec<_>>(), "time": time, "speed": speed, "consist": serde_json::to_value(&sim.loco_con).unwrap()});
    let tpc_tok = tok_tpc_in(&tpc, &bu.tp);
    let mut e_whl = 0.0f64;
    for i in 1..time.len() {
        let (tp_, tc, vp, vc) = (time[i - 1], time[i], speed[i - 1], speed[i]);
        let dt = tc - tp_;
        let pre = sim.clone();
        // --- manual replica of solve_step on a clone, to snapshot the sub-steps
        let mut man = sim.clone();
        let sub = guard(|| -> anyhow::Result<(TrainRes, TrainState, TrainState)> {
            man.loco_con.set_cat_power_limit(&tpc, man.state.offset);
            man.loco_con.set_pwr_aux(Some(true))?;
            man.loco_con.set_cur_pwr_max_out(None, uc::S * dt)?;
            man.train_res.update_res(&mut man.state, &tpc, &Dir::Fwd)?;
            let after_res = (man.train_res.clone(), man.state);
            man.solve_required_pwr(uc::S * dt)?;
            Ok((after_res.0, after_res.1, man.state))
        });
        let real = guard(|| sim.solve_step());
        let step_id;
        {
            let args = format!("{} {} {} {} {} {} {} {}", tpc_tok, tok_res(&pre.train_res), tok_consist(&pre.loco_con), tok_state(&pre.state), f(vp), f(vc), f(tp_), f(tc));
            let a = match &real { None => "panic".to_string(), Some(Err(_)) => "err".into(), Some(Ok(())) => format!("ok {} {} {}", tok_consist(&sim.loco_con), tok_res(&sim.train_res), tok_state(&sim.state)) };
            // whole-step op (large line): every third step
            step_id = if i % 3 == 1 { ctx.op("C11,C12,C14,C07", "ss_step", &args, &a) } else { format!("step{}", i) };
        }
        match (&real, &sub) {
            (Some(Ok(())), Some(Ok((res_after, st_res, st_pwr)))) => {
                ctx.count("train.ss.step_ok");
                ctx.op("C07", "update_res", &format!("{} {} {} {} fwd", tok_prcs(tpc.grades()), tok_prcs(tpc.curves()), tok_res(&pre.train_res), tok_state(&pre.state)),
                    &format!("ok {} {}", tok_res(res_after), tok_state(st_res)));
                oracle_res(ctx, &step_id, &tpc, res_after, st_res, &input, Some((&bu.net, &bu.route, &bu.tp)));
                ctx.op("C14,C11", "ss_required_pwr", &format!("{} {} {} {} {}", cstate_tok(&man.loco_con), tok_state(st_res), f(vp), f(vc), f(dt)), &format!("ok {}", tok_state(st_pwr)));
                ctx.op("C12,C14", "ss_integrate", &format!("{} {} {} {} {}", tok_lps(tpc.link_points()), tok_state(st_pwr), f(vp), f(vc), f(tc)), &format!("ok {}", tok_state(&sim.state)));
                let s = sim.state;
                let p = pre.state;
                let chk = |ctx: &mut Ctx, prop: &str, clause: &str, ok: bool, d: String| {
                    ctx.checked(prop, clause);
                    if !ok { ctx.fail(prop, clause, &step_id, d, input.clone()); }
                };
                // C14
                chk(ctx, "C14", "follows_trace", s.time.value == tc && s.speed.value == vc, format!("time {} speed {} but trace says {} {}", s.time.value, s.speed.value, tc, vc));
                let mc = s.mass_static.value + s.mass_rot.value;
                let res_net = st_res.res_rolling.value + st_res.res_bearing.value + st_res.res_davis_b.value + st_res.res_aero.value + st_res.res_grade.value + st_res.res_curve.value;
                let raw = mc * (vc - vp) / dt * 0.5 * (vp + vc) + res_net * 0.5 * (vp + vc);
                let pos = man.loco_con.state.pwr_out_max.value.min((p.pwr_whl_out.value + man.loco_con.state.pwr_rate_out_max.value * p.dt.value).max(0.0));
                // the consist's dynamic-braking capability = the sum of its units' drivetrain ratings, computed here from the
                // units themselves — not read from the consist's own record of it (a stale record must not excuse a wrong clip)
                let neg: f64 = man.loco_con.loco_vec.iter().map(|l| match &l.loco_type {
                    PowertrainType::ConventionalLoco(c) => c.edrv.pwr_out_max.value,
                    PowertrainType::HybridLoco(h) => h.edrv.pwr_out_max.value,
                    PowertrainType::BatteryElectricLoco(b) => b.edrv.pwr_out_max.value,
                    PowertrainType::DummyLoco(_) => 1e15,
                }).sum::<f64>().max(0.0);
                let want = raw.max(-neg).min(pos);
                chk(ctx, "C14", "wheel_power_is_inertia_plus_resistance", close(s.pwr_whl_out.value, want, mc), format!("pwr_whl_out {} != clip(inertia+resistance = {}, -{}, {})", s.pwr_whl_out.value, raw, neg, pos));
                if raw > -neg && raw < pos { ctx.count("train.ss.unclipped"); } else { ctx.count("train.ss.clipped"); }
                chk(ctx, "C14", "energy_accumulates_trace_dt", close(s.energy_whl_out.value - p.energy_whl_out.value, s.pwr_whl_out.value * dt, mc * 10.0), "energy_whl_out does not advance by pwr*dt_trace".into());
                e_whl += s.pwr_whl_out.value * dt;
                // C12
                // a set-speed run is driven by its trace: the step size is the distance between two trace stamps and the time
                // before the step is the previous stamp. The initial state is the caller's (its clock may differ from the first
                // stamp — the library copies neither into the other; observed, not judged): from the second step on the state's
                // own previous time must be that stamp too
                let t_before = if i == 1 && p.time.value != tp_ { ctx.count("train.ss.observe.first_row_clock_is_not_first_stamp"); tp_ } else { p.time.value };
                chk(ctx, "C12", "time_advances_by_dt", close(s.time.value - t_before, dt, 1.0), format!("time {} -> {} with dt {}", t_before, s.time.value, dt));
                chk(ctx, "C12", "position_advances_by_mean_speed", close(s.offset.value - p.offset.value, dt * 0.5 * (vp + vc), 1000.0), format!("offset {} -> {}", p.offset.value, s.offset.value));
                chk(ctx, "C12", "rear_is_front_minus_length", s.offset_back.value == s.offset.value - s.length.value, format!("offset_back {} != offset {} - length {}", s.offset_back.value, s.offset.value, s.length.value));
                chk(ctx, "C12", "distance_sums_abs_moves", close(s.total_dist.value - p.total_dist.value, (s.offset.value - p.offset.value).abs(), 1000.0), "total_dist does not advance by |position change|".into());
                oracle_locate(ctx, &step_id, &tpc, &s, &input);
                // C11
                oracle_levels(ctx, &step_id, &sim.loco_con, &pre.loco_con, &s, &p, dt, &input);
            }
            (Some(Err(_)), _) => { ctx.count("train.ss.step_err"); break; }
            (None, _) => { ctx.count("train.ss.step_panic"); ctx.fail("C14", "no_panic", &step_id, "set-speed step panicked".into(), input.clone()); break; }
            (Some(Ok(())), _) => { ctx.fail("C14", "manual_equals_solve_step", &step_id, "solve_step accepted but its sub-steps did not".into(), input.clone()); break; }
        }
        sim.loco_con.step();
        sim.state.i += 1;
    }
    let _ = e_whl;
    // negative first sample / negative later sample must be rejected
    let mut neg = SetSpeedTrainSim::new(pre_consist(&sim), st0, SpeedTrace::new(vec![0.0, 1.0, 2.0], vec![0.0, -1.0, 0.0], None), make_res(r, &tpc, &st0).unwrap(), tpc.clone(), None);
    // a negative FIRST sample (never compared by the pinned code: the loop starts at i = 1)
    let mut neg0 = SetSpeedTrainSim::new(pre_consist(&sim), st0, SpeedTrace::new(vec![0.0, 1.0, 2.0], vec![-0.5, 0.5, 0.5], None), make_res(r, &tpc, &st0).unwrap(), tpc.clone(), None);
    ctx.checked("C14", "negative_speed_rejected");
    if !matches!(guard(|| neg0.walk()), Some(Err(_))) {
        ctx.fail("C14", "negative_speed_rejected", "neg0", "a trace whose FIRST sample is negative was not rejected".into(), json!({"time": [0.0, 1.0, 2.0], "speed": [-0.5, 0.5, 0.5]}));
    }
    ctx.checked("C14", "negative_speed_rejected");
    let rr = guard(|| neg.walk());
    if !matches!(rr, Some(Err(_))) {
        ctx.fail("C14", "negative_speed_rejected", "neg", "a trace with a negative speed sample was not rejected".into(), json!({"time": [0.0, 1.0, 2.0], "speed": [0.0, -1.0, 0.0]}));
    }
}

fn pre_consist(sim: &SetSpeedTrainSim) -> Consist {
    let mut c = Consist::new(sim.loco_con.loco_vec.iter().map(|l| { let mut x = l.clone(); x.set_save_interval(None); x }).collect(), None, sim.loco_con.pdct.clone());
    c.state = Default::default();
    c
}

fn cstate_tok(c: &Consist) -> String {
    let s = &c.state;
    format!("{} {} {} {} {} {} {} {} {} {} {} {} {} {} {} {} {}",
        f(s.pwr_out_max.value), f(s.pwr_rate_out_max.value), f(s.pwr_regen_max.value),
        f(s.pwr_out_max_reves.value), f(s.pwr_out_deficit.value), f(s.pwr_out_max_non_reves.value),
        f(s.pwr_regen_deficit.value), f(s.pwr_dyn_brake_max.value), f(s.pwr_out_req.value),
        f(s.pwr_out.value), f(s.pwr_reves.value), f(s.pwr_fuel.value), f(s.energy_out.value),
        f(s.energy_out_pos.value), f(s.energy_out_neg.value), f(s.energy_res.value), f(s.energy_fuel.value))
}

/// C12: reported front link + in-link offset identify the front position
fn oracle_locate(ctx: &mut Ctx, case: &str, tpc: &PathTpc, s: &TrainState, input: &serde_json::Value) {
    ctx.checked("C12", "front_segment_and_offset");
    let lps = tpc.link_points();
    let x = s.offset.value;
    // any segment i with off_i <= x <= off_{i+1} whose link is the reported one (a front exactly on a link point
    // belongs to both neighbours: the statement admits either)
    let mut ok = false;
    let mut i = 0;
    let (mut base, mut seglen) = (lps[0].offset.value, lps[1].offset.value - lps[0].offset.value);
    for k in 0..lps.len() - 1 {
        let b = lps[k].offset.value;
        let e = lps[k + 1].offset.value;
        if b <= x && x <= e {
            if !ok { i = k; base = b; seglen = e - b; }
            if s.link_idx_front as usize == lps[k].link_idx.idx() && b + s.offset_in_link.value == x
                && s.offset_in_link.value >= 0.0 && s.offset_in_link.value <= e - b { ok = true; i = k; base = b; seglen = e - b; }
        }
    }
    if !ok {
        ctx.fail("C12", "front_segment_and_offset", case, format!("front {} reported as link {} + {} but lies in link {} (base {}, length {})", x, s.link_idx_front, s.offset_in_link.value, lps[i].link_idx.idx(), base, seglen), input.clone());
    }
}

/// C11: train / consist / locomotive levels agree
#[allow(clippy::too_many_arguments)]
fn oracle_levels(ctx: &mut Ctx, case: &str, con: &Consist, con0: &Consist, s: &TrainState, p: &TrainState, dt: f64, input: &serde_json::Value) {
    let chk = |ctx: &mut Ctx, clause: &str, ok: bool, d: String| {
        ctx.checked("C11", clause);
        if !ok { ctx.fail("C11", clause, case, d, input.clone()); }
    };
    let sc = con.state.pwr_out_max.value.abs().max(con.state.pwr_dyn_brake_max.value.abs()).max(1.0);
    chk(ctx, "train_power_is_consist_power", close(s.pwr_whl_out.value, con.state.pwr_out.value, sc), format!("train pwr_whl_out {} != consist pwr_out {}", s.pwr_whl_out.value, con.state.pwr_out.value));
    let sum: f64 = con.loco_vec.iter().map(|l| l.state.pwr_out.value).sum();
    chk(ctx, "consist_power_is_sum_of_units", close(con.state.pwr_out.value, sum, sc), format!("consist pwr_out {} != sum over units {}", con.state.pwr_out.value, sum));
    let de_t = s.energy_whl_out.value - p.energy_whl_out.value;
    let de_c = con.state.energy_out.value - con0.state.energy_out.value;
    let de_l: f64 = con.loco_vec.iter().zip(&con0.loco_vec).map(|(a, bb)| a.state.energy_out.value - bb.state.energy_out.value).sum();
    chk(ctx, "wheel_energy_same_at_all_levels", close(de_t, de_c, sc * dt) && close(de_c, de_l, sc * dt), format!("step wheel energy: train {} consist {} units {}", de_t, de_c, de_l));
    // positive / negative parts (a step with |P| below float noise is a tie)
    let tie = s.pwr_whl_out.value.abs() <= 1e-6 * sc;
    if tie { ctx.count("train.levels.sign_tie_steps"); }
    let dp_t = s.energy_whl_out_pos.value - p.energy_whl_out_pos.value;
    let dn_t = s.energy_whl_out_neg.value - p.energy_whl_out_neg.value;
    let dp_c = con.state.energy_out_pos.value - con0.state.energy_out_pos.value;
    let dn_c = con.state.energy_out_neg.value - con0.state.energy_out_neg.value;
    chk(ctx, "pos_neg_parts_agree", tie || (close(dp_t, dp_c, sc * dt) && close(dn_t, dn_c, sc * dt)), format!("pos/neg parts: train (+{} -{}) consist (+{} -{})", dp_t, dn_t, dp_c, dn_c));
    let ef: f64 = con.loco_vec.iter().map(|l| match &l.loco_type { PowertrainType::ConventionalLoco(c) => c.fc.state.energy_fuel.value, _ => 0.0 }).sum();
    let er: f64 = con.loco_vec.iter().map(|l| match &l.loco_type { PowertrainType::BatteryElectricLoco(c) => c.res.state.energy_out_chemical.value, _ => 0.0 }).sum();
    let es = ef.abs().max(er.abs()).max(1.0);
    chk(ctx, "fuel_and_battery_totals_agree", close(con.state.energy_fuel.value, ef, es) && close(con.state.energy_res.value, er, es) && close(con.get_energy_fuel().value, ef, es) && close(con.get_net_energy_res().value, er, es),
        format!("consist energy_fuel {} / energy_res {} vs sums {} / {}", con.state.energy_fuel.value, con.state.energy_res.value, ef, er));
}


/// C11 with the third locomotive type: the consist-level fuel / battery getters are the sums over ALL units that have an
/// engine / a battery — hybrids included (implementation only: `Consist.lean` models conventional and battery units).
/// Units are stepped on their own first, so that each carries non-zero fuel / battery energy, then coupled.
fn hybrid_rollup_case(ctx: &mut Ctx, r: &mut Rng) {
    let drive = |r: &mut Rng, l: &mut Locomotive| {
        for _ in 0..r.usize(2, 8) {
            let dt = uc::S * *r.pick(&[0.5, 1.0, 2.0]);
            l.set_pwr_aux(Some(true));
            if guard(|| l.set_cur_pwr_max_out(None, dt)).map(|x| x.is_ok()) != Some(true) { break; }
            let req = l.state.pwr_out_max * *r.pick(&[0.1, 0.3, 0.6]);
            if guard(|| l.solve_energy_consumption(req, dt, Some(true))).map(|x| x.is_ok()) != Some(true) { break; }
            LocoTrait::step(l);
        }
    };
    let mut units: Vec<Locomotive> = vec![];
    let n = r.usize(2, 5);
    for k in 0..n {
        let mut l = match if k == 0 { 2 } else { r.below(3) } { 0 => gen_loco(r, false), 1 => gen_loco(r, true), _ => crate::b_pt::gen_hloco(r) };
        drive(r, &mut l);
        units.push(l);
    }
    // the hybrid is not always the first unit
    let k = r.usize(0, n - 1);
    units.swap(0, k);
    let pdct = if r.chance(0.5) { PowerDistributionControlType::Proportional(Proportional) } else { PowerDistributionControlType::RESGreedy(RESGreedy) };
    let con = Consist::new(units.clone(), None, pdct);
    let mut ef = 0.0;
    let mut er = 0.0;
    let mut hyb_fuel = 0.0;
    for l in &units {
        match &l.loco_type {
            PowertrainType::ConventionalLoco(c) => ef += c.fc.state.energy_fuel.value,
            PowertrainType::BatteryElectricLoco(c) => er += c.res.state.energy_out_chemical.value,
            PowertrainType::HybridLoco(h) => { ef += h.fc.state.energy_fuel.value; hyb_fuel += h.fc.state.energy_fuel.value; er += h.res.state.energy_out_chemical.value; }
            _ => {}
        }
    }
    if hyb_fuel > 0.0 { ctx.count("train.levels.consist_with_hybrid_that_burnt_fuel"); }
    let es = ef.abs().max(er.abs()).max(1.0);
    let got = guard(|| (con.get_energy_fuel().value, con.get_net_energy_res().value));
    // the same request to the model (Altrios.Hyb.consistFuel / consistChem; theorems Proofs/C11Hyb.lean)
    {
        let toks = seq(&units, |l| match &l.loco_type {
            PowertrainType::ConventionalLoco(c) => format!("conv {}", f(c.fc.state.energy_fuel.value)),
            PowertrainType::BatteryElectricLoco(c) => format!("bel {}", f(c.res.state.energy_out_chemical.value)),
            PowertrainType::HybridLoco(h) => format!("hyb {} {}", f(h.fc.state.energy_fuel.value), f(h.res.state.energy_out_chemical.value)),
            _ => "unsupported".to_string(),
        });
        let a = match got { Some((a, bb)) => format!("ok {} {}", f(a), f(bb)), None => "panic".to_string() };
        ctx.op("C11", "consist3_totals", &toks, &a);
    }
    ctx.checked("C11", "fuel_and_battery_getters_count_every_unit");
    let ok = matches!(got, Some((a, bb)) if close(a, ef, es) && close(bb, er, es));
    if !ok {
        ctx.fail("C11", "fuel_and_battery_getters_count_every_unit", "hybrid_rollup", format!("Consist::get_energy_fuel / get_net_energy_res = {:?} but the units' engines burnt {} J and their batteries delivered {} J (hybrids: {} J of fuel)", got, ef, er, hyb_fuel),
            json!({"kind": "hybrid_rollup", "units": units.iter().map(|l| serde_json::to_value(l).unwrap()).collect::<Vec<_>>()}));
    }
}

/// one `bp_recalc` op: the real BrakingPoints::recalc result for the current path / resistance / brake
fn emit_recalc(ctx: &mut Ctx, sim: &SpeedLimitTrainSim) {
    let t = &sim.path_tpc;
    let args = format!("{} {} {} {} {} {} {} {}", tok_prcs(t.grades()), tok_prcs(t.curves()),
        seq(t.speed_points(), |q| format!("{} {}", f(q.offset.value), f(q.speed_limit.value))),
        f(t.offset_begin().value), f(t.offset_end().value), tok_res(&sim.train_res), tok_state(&sim.state), f(sim.fric_brake.force_max.value));
    ctx.op("C03", "bp_recalc", &args, &format!("ok {}", tok_bp(&sim.braking_points)));
}

/// The harness's own statement of when the `ensure!` after `self.step()?` in the loop of `SpeedLimitTrainSim::walk_internal`
/// fails (fix c76dec1): the train stood still for a whole step (`speed_prev` = speed before the step, `s` = state after it),
/// is told to keep standing still and is still before the 1000 ft stopping window — no later step can change that state.
/// The one expression behind the op `walk_stuck` (model `Tr.walkStuck`, regenerated `GenTr.walkStuck`), the stuck detection
/// of `speed_limit_case` (whose verdict the REAL `walk()` must confirm) and the budgeted copy of the timed-path loop.
fn walk_stuck(end: f64, ft1000: f64, speed_prev: f64, s: &TrainState) -> bool {
    speed_prev == 0.0 && s.speed.value == 0.0 && s.speed_target.value == 0.0 && s.offset.value < end - ft1000
}

fn speed_limit_case(ctx: &mut Ctx, r: &mut Rng, max_steps: usize) {
    let Some(bu) = path_case(ctx, r, false, true) else { return; };
    let len = bu.tp.length.value;
    let mass_static = bu.tp.towed_mass_static.value + 4.0 * 195000.0;
    // the run may start part-way along the route (front beyond the train length) and at another clock time than 0
    let route_len: f64 = bu.route.iter().map(|l| bu.net[l.idx()].length.value).sum();
    let extra = if r.chance(0.3) { ctx.count("train.sl.starts_part_way"); (r.unit() * (route_len - len - 1500.0).max(0.0) * 0.4 * 4.0).floor() / 4.0 } else { 0.0 };
    let off0 = len + extra;
    let st0 = TrainState::new(m(len), uc::KG * mass_static, uc::KG * (mass_static * 0.04), uc::KG * (mass_static * 0.6),
        Some(InitTrainState::new(Some(uc::S * *r.pick(&[0.0, 0.0, 0.0, 600.0])), Some(m(off0)), Some(mps(0.0)))));
    ctx.checked("C12", "rear_is_front_minus_length");
    if st0.offset_back.value != st0.offset.value - st0.length.value {
        ctx.fail("C12", "rear_is_front_minus_length", "row0", format!("constructed state (saved as row 0): offset_back {} != offset {} - length {}", st0.offset_back.value, st0.offset.value, st0.length.value), json!({"kind": "TrainState::new", "init_offset": off0, "length": len}));
    }
    let mut sim = SpeedLimitTrainSim::valid();
    sim.path_tpc = PathTpc::new(bu.tp);
    sim.loco_con = gen_train_consist(r);
    sim.state = st0;
    // the step size of a speed-limited run is state.dt (1 s by default): vary it
    sim.state.dt = uc::S * *r.pick(&[1.0, 1.0, 0.5, 2.0, 1.5]);
    sim.fric_brake = FricBrake::new(uc::N * (mass_static * *r.pick(&[0.3, 0.6, 1.0])), uc::S * *r.pick(&[0.0, 30.0, 60.0]), uc::R * 0.5, None, None);
    sim.set_save_interval(None);
    // incremental path-extension schedule: whole path or link by link before the walk
    // 0 = whole path at once, 1 = link by link before the walk, 2 = link by link DURING the walk
    // (like a timed path from dispatch: the braking curve is rebuilt mid-run)
    let mode = r.below(3);
    let whole = mode == 0;
    let mut pending: Vec<LinkIdx> = vec![];
    // the first authority covers the standing train (front at `len`), as a dispatcher's first timed-path chunk does;
    // in one case out of five it is a single link even if that is shorter than the train (extend_path must then fail
    // with an error, not abort)
    let mut k0 = 1usize;
    if !r.chance(0.2) {
        let mut cum = 0.0;
        k0 = 0;
        for li in &bu.route {
            cum += bu.net[li.idx()].length.value;
            k0 += 1;
            if cum >= off0 + 1.0 { break; }
        }
    }
    let okx = guard(|| -> anyhow::Result<()> {
        match mode {
            0 => sim.extend_path(&bu.net, &bu.route)?,
            1 => { sim.extend_path(&bu.net, &bu.route[..k0])?; for li in &bu.route[k0..] { sim.extend_path(&bu.net, &[*li])?; } }
            _ => { sim.extend_path(&bu.net, &bu.route[..k0])?; pending = bu.route[k0..].to_vec(); }
        }
        Ok(())
    });
    ctx.checked("C03", "no_panic");
    if okx.is_none() {
        ctx.fail("C03", "no_panic", "extend_path", format!("extend_path panicked: {}", last_panic()), json!({"kind": "speed_limit_extend", "route": bu.route.iter().map(|l| l.idx()).collect::<Vec<_>>(), "first_chunk": k0, "mode": mode, "train_length": len}));
    }
    if !matches!(okx, Some(Ok(()))) {
        ctx.count("train.sl.extend_failed");
        ctx.count(&format!("train.sl.extend_failed.mode{}", mode));
        if let Some(Err(e)) = &okx { ctx.sample("train.sl.extend_failed", json!(format!("mode {} first chunk {} links, train {} m: {:?}", mode, k0, len, e).lines().take(12).collect::<Vec<_>>().join(" | ").chars().take(400).collect::<String>())); }
        return;
    }
    ctx.count(&format!("train.sl.extend_mode.{}", mode));
    if pending.is_empty() { sim.finish(); }
    if sim.path_tpc.offset_end().value < len + 400.0 { ctx.count("train.sl.route_too_short"); return; }
    let Some(res) = make_res(r, &sim.path_tpc, &st0) else { return; };
    sim.train_res = res;
    // braking points must be rebuilt with the real resistance model
    if !matches!(guard(|| sim.extend_path(&bu.net, &[])), Some(Ok(()))) { ctx.count("train.sl.recalc_failed"); return; }
    ctx.count("train.sl.cases");
    emit_recalc(ctx, &sim);
    let mut tpc = sim.path_tpc.clone();
    let mut tpc_tok = tok_tpc_in(&tpc, &bu.tp);
    let input = json!({"kind": "speed_limit", "network": serde_json::to_value(&bu.net).unwrap(), "train_params": serde_json::to_value(&bu.tp).unwrap(),
        "route": bu.route.iter().map(|l| l.idx()).collect::<Vec<_>>(), "consist": serde_json::to_value(&sim.loco_con).unwrap(),
        "fric_brake": serde_json::to_value(&sim.fric_brake).unwrap(), "train_res": serde_json::to_value(&sim.train_res).unwrap(), "state": serde_json::to_value(&st0).unwrap(), "extend": if whole { "whole" } else if mode == 1 { "link_by_link" } else { "link_by_link_during_walk" }});
    // braking points invariants (C03: target <= limit everywhere)
    {
        let (pts, _) = bp_points(&sim.braking_points);
        ctx.checked("C03", "braking_points_well_formed");
        let dec = pts.windows(2).all(|w| w[1].0 <= w[0].0);
        let tl = pts.iter().all(|p| p.2 <= p.1 && p.2 >= 0.0);
        // C03 states target <= limit; that the offsets of the curve points decrease is NOT part of the property (the two
        // points added after a curve breaks through the posted limit can reach back past the next speed point): observed
        // and counted — its behavioural consequences are what limit_le_posted / speed_le_limit_in_force / no_panic judge
        if !dec { ctx.count("train.sl.observe.braking_point_offsets_not_monotone"); }
        if !tl {
            let k = pts.windows(2).position(|w| !(w[1].0 <= w[0].0)).unwrap_or(0);
            ctx.fail("C03", "braking_points_well_formed", "bp", format!("braking points: offsets decreasing={}, 0<=target<=limit={}; {} points, around the first offender (index {}): {:?}; path end {}", dec, tl, pts.len(), k, &pts[k.saturating_sub(2)..(k + 3).min(pts.len())], sim.path_tpc.offset_end().value), input.clone());
        }
    }
    let mut end = tpc.offset_end().value;
    let ft1000 = 1000.0 * uc::FT.value;
    let mut n = 0usize;
    // the whole path is known before the first step (modes 0, 1): the real walk() from here must do what the loop below does
    let start = if pending.is_empty() { Some(sim.clone()) } else { None };
    let mut met_stuck = false;
    loop {
        // mid-run path extension (mode 2): add the next link when the front is within 1.5 km of the end of the path
        if !pending.is_empty() && sim.state.offset.value > end - 1500.0 {
            let li = pending.remove(0);
            let okx = guard(|| sim.extend_path(&bu.net, &[li]));
            if !matches!(okx, Some(Ok(()))) { ctx.count("train.sl.mid_run_extend_failed"); return; }
            ctx.count("train.sl.mid_run_extend");
            emit_recalc(ctx, &sim);
            if pending.is_empty() { sim.finish(); }
            tpc = sim.path_tpc.clone();
            tpc_tok = tok_tpc_in(&tpc, &bu.tp);
            end = tpc.offset_end().value;
            let (pts, _) = bp_points(&sim.braking_points);
            ctx.checked("C03", "braking_points_well_formed");
            if !pts.windows(2).all(|w| w[1].0 <= w[0].0) { ctx.count("train.sl.observe.braking_point_offsets_not_monotone"); }
            if !pts.iter().all(|p| p.2 <= p.1 && p.2 >= 0.0) {
                ctx.fail("C03", "braking_points_well_formed", "bp-mid-run", "braking points after a mid-run extension: target > limit or negative".into(), input.clone());
            }
        }
        let cond = sim.state.offset.value < end - ft1000 || (sim.state.offset.value < end && sim.state.speed.value != 0.0);
        ctx.op("C03", "walk_cond", &format!("{} {}", f(end), tok_state(&sim.state)), &format!("ok {}", b(cond)));
        if !cond { break; }
        if n >= max_steps { ctx.count("train.sl.step_budget_reached"); break; }
        n += 1;
        let pre = sim.clone();
        let step_id = format!("step{}", n);
        let fms: Vec<f64> = pre.loco_con.loco_vec.iter().map(|l| l.force_max().map(|x| x.value).unwrap_or(f64::NAN)).collect();
        let mut man = sim.clone();
        let sub = guard(|| -> anyhow::Result<(TrainRes, TrainState)> {
            man.loco_con.set_cat_power_limit(&man.path_tpc, man.state.offset);
            man.loco_con.set_pwr_aux(Some(true))?;
            man.loco_con.set_cur_pwr_max_out(None, man.state.dt)?;
            man.train_res.update_res(&mut man.state, &tpc, &Dir::Fwd)?;
            Ok((man.train_res.clone(), man.state))
        });
        let mid = man.clone();
        let sub2 = if matches!(sub, Some(Ok(_))) { guard(|| man.solve_required_pwr()) } else { None };
        let real = guard(|| sim.solve_step());
        if n % 4 == 1 {
            let args = format!("{} {} {} {} {} {} {}", tpc_tok, tok_res(&pre.train_res), tok_consist(&pre.loco_con), fs(&fms), tok_fric(&pre.fric_brake), tok_bp(&pre.braking_points), tok_state(&pre.state));
            let a = match &real { None => "panic".to_string(), Some(Err(_)) => "err".into(),
                Some(Ok(())) => format!("ok {} {} {} {} {}", tok_consist(&sim.loco_con), tok_res(&sim.train_res), tok_fric(&sim.fric_brake), bp_points(&sim.braking_points).1, tok_state(&sim.state)) };
            ctx.op("C03,C11,C12", "sl_step", &args, &a);
        }
        if let (Some(Ok((res_after, st_res))), Some(r2)) = (&sub, &sub2) {
            ctx.op("C07", "update_res", &format!("{} {} {} {} fwd", tok_prcs(tpc.grades()), tok_prcs(tpc.curves()), tok_res(&pre.train_res), tok_state(&pre.state)),
                &format!("ok {} {}", tok_res(res_after), tok_state(st_res)));
            { let n_ext = tpc.link_points().len() - 1; oracle_res(ctx, &step_id, &tpc, res_after, st_res, &input, Some((&bu.net, &bu.route[..n_ext.min(bu.route.len())], &bu.tp))); }
            let fm: f64 = mid.loco_con.force_max().map(|x| x.value).unwrap_or(f64::NAN);
            let a = match r2 { Err(_) => "err".to_string(), Ok(()) => format!("ok {} {} {}", tok_fric(&man.fric_brake), bp_points(&man.braking_points).1, tok_state(&man.state)) };
            ctx.op("C03,C12", "sl_required_pwr", &format!("{} {} {} {} {}", f(fm), cstate_tok(&mid.loco_con), tok_fric(&mid.fric_brake), tok_bp(&mid.braking_points), tok_state(st_res)), &a);
            ctx.op("C03", "fric_set_cur_max", &format!("{} {}", tok_fric(&mid.fric_brake), f(mid.state.dt.value)),
                &format!("ok {}", { let mut fb = mid.fric_brake.clone(); let _ = fb.set_cur_force_max_out(mid.state.dt); tok_fric(&fb) }));
        } else if matches!(sub, Some(Ok(_))) && sub2.is_none() {
            // solve_required_pwr panicked (the overspeed assertion): the model must say panic too
            let (_, st_res) = sub.as_ref().unwrap().as_ref().unwrap();
            let fm: f64 = mid.loco_con.force_max().map(|x| x.value).unwrap_or(f64::NAN);
            ctx.op("C03", "sl_required_pwr", &format!("{} {} {} {} {}", f(fm), cstate_tok(&mid.loco_con), tok_fric(&mid.fric_brake), tok_bp(&mid.braking_points), tok_state(st_res)), "panic");
        }
        match real {
            Some(Ok(())) => {
                ctx.count("train.sl.step_ok");
                let s = sim.state;
                let p = pre.state;
                let dt = p.dt.value;
                let chk = |ctx: &mut Ctx, prop: &str, clause: &str, ok: bool, d: String| {
                    ctx.checked(prop, clause);
                    if !ok { ctx.fail(prop, clause, &step_id, d, input.clone()); }
                };
                chk(ctx, "C03", "speed_nonnegative", s.speed.value >= 0.0, format!("speed {} < 0 at offset {}", s.speed.value, s.offset.value));
                chk(ctx, "C03", "target_le_limit", s.speed_target.value <= s.speed_limit.value, format!("target {} > limit {}", s.speed_target.value, s.speed_limit.value));
                // the limit in force is never above the posted profile at the position the step started from
                // posted limit at the position the step started from, read from the NETWORK's restrictions
                // (for the links already in the path), not from the profile handed to the controller
                let n_ext = tpc.link_points().len() - 1;
                let posted_list = crate::b_sp::posted_from_network(&bu.net, &bu.route[..n_ext.min(bu.route.len())], &bu.tp);
                let posted = crate::b_sp::tightest_at(&posted_list, bu.tp.speed_max.value, p.offset.value);
                // two different ways for the limit in force to exceed the posted one: the speed profile handed to the
                // controller is itself too high there (a path-profile defect), or the profile is right and a braking-curve
                // point carries a higher value (the listed known finding)
                let profile_here = crate::b_sp::val_at(tpc.speed_points(), p.offset.value).abs();
                chk(ctx, "C03", "profile_le_posted", profile_here <= posted, format!("speed profile of the path is {} but the network posts {} at {}", profile_here, posted, p.offset.value));
                chk(ctx, "C03", "limit_le_posted", s.speed_limit.value <= posted || profile_here > posted, format!("limit in force {} > posted {} at {}", s.speed_limit.value, posted, p.offset.value));
                // the speed itself against the posted profile; when the limit in force is already above the posted one the
                // step is reported by limit_le_posted (one defect, one report)
                chk(ctx, "C03", "speed_le_posted", p.speed.value <= posted * (1.0 + 1e-12) || s.speed_limit.value > posted || profile_here > posted,
                    format!("speed {} > posted limit {} at {} although the limit in force is {}", p.speed.value, posted, p.offset.value, s.speed_limit.value));
                chk(ctx, "C03", "speed_le_limit_in_force", p.speed.value <= s.speed_limit.value, format!("speed {} > limit in force {} at {}", p.speed.value, s.speed_limit.value, p.offset.value));
                chk(ctx, "C12", "time_advances_by_dt", close(s.time.value - p.time.value, dt, 1.0), "time".into());
                chk(ctx, "C12", "position_advances_by_mean_speed", close(s.offset.value - p.offset.value, dt * 0.5 * (p.speed.value + s.speed.value), 1000.0) || s.speed.value == s.speed_target.value,
                    format!("offset {} -> {} speeds {} {}", p.offset.value, s.offset.value, p.speed.value, s.speed.value));
                chk(ctx, "C12", "rear_is_front_minus_length", s.offset_back.value == s.offset.value - s.length.value, format!("offset_back {} != {} - {}", s.offset_back.value, s.offset.value, s.length.value));
                chk(ctx, "C12", "distance_sums_abs_moves", close(s.total_dist.value - p.total_dist.value, (s.offset.value - p.offset.value).abs(), 1000.0), "total_dist".into());
                oracle_locate(ctx, &step_id, &tpc, &s, &input);
                oracle_levels(ctx, &step_id, &sim.loco_con, &pre.loco_con, &s, &p, dt, &input);
            }
            Some(Err(e)) => {
                ctx.count("train.sl.step_err");
                let msg = format!("{:?}", e);
                let class = if msg.contains("sufficient power to move") { "no_power_to_move" } else if msg.contains("Insufficient braking force") { "insufficient_braking_force" }
                    else if msg.contains("Too much force requested from friction brake") { "fric_brake_over_max" } else if msg.contains("larger than max") { "whl_power_limit" } else { "other" };
                ctx.count(&format!("train.sl.step_err.{}", class));
                if class == "other" { ctx.sample("train.sl.step_err_other", json!(msg.chars().take(500).collect::<String>())); }
                return;
            }
            None => {
                ctx.count("train.sl.step_panic");
                ctx.fail("C03", "no_panic", &step_id, format!("speed-limited step panicked: {}", last_panic()), input.clone());
                return;
            }
        }
        sim.loco_con.step();
        sim.fric_brake.step();
        sim.state.i += 1;
        // standing still with a zero target outside the stopping window: no later step can change the state; the real
        // walk() must end with a descriptive error here (it used to loop forever: fix 6e1c770)
        let stuck = walk_stuck(end, ft1000, pre.state.speed.value, &sim.state);
        ctx.op("C03", "walk_stuck", &format!("{} {} {}", f(end), f(pre.state.speed.value), tok_state(&sim.state)), &format!("ok {}", b(stuck)));
        if stuck { ctx.count("train.sl.walk_stuck_true"); }
        if pending.is_empty() && stuck {
            met_stuck = true;
            ctx.count("train.sl.stopped_short_of_window");
            ctx.checked("C03", "stopped_short_ends_with_error");
            let mut w = sim.clone();
            let mut again = sim.clone();
            let (tx, rx) = std::sync::mpsc::channel();
            std::thread::spawn(move || { let r = guard(|| w.walk()); let _ = tx.send(r.map(|x| x.map_err(|e| format!("{:?}", e)))); });
            match rx.recv_timeout(std::time::Duration::from_secs(20)) {
                Ok(Some(Err(e))) if e.contains("cannot reach its destination") => {}
                Ok(other) => ctx.fail("C03", "stopped_short_ends_with_error", &format!("step{}", n), format!("train stands still with target 0 at {} (end {}), walk() returned {:?}", sim.state.offset.value, end, other.map(|x| x.map_err(|e| e.chars().take(120).collect::<String>()))), input.clone()),
                Err(_) => ctx.fail("C03", "stopped_short_ends_with_error", &format!("step{}", n), format!("train stands still with target 0 at {} (end {}): walk() did not return within 20 s", sim.state.offset.value, end), input.clone()),
            }
            // and the state really is a fixed point of step()
            ctx.checked("C03", "stopped_short_is_fixed_point");
            if let Some(Ok(())) = guard(|| again.step()) {
                if !(again.state.offset == sim.state.offset && again.state.speed == sim.state.speed && again.state.speed_target == sim.state.speed_target) {
                    ctx.fail("C03", "stopped_short_is_fixed_point", &format!("step{}", n), "a train standing still with target 0 moved in the next step".into(), input.clone());
                }
            }
            break;
        }
    }
    // stops inside its path
    let s = sim.state;
    ctx.checked("C03", "stops_inside_path");
    let cond = s.offset.value < end - ft1000 || (s.offset.value < end && s.speed.value != 0.0);
    // the other direction of the stopped-short check: a run that the stepping loop above completed without meeting a stuck
    // pair (by `walk_stuck`) is completed by the REAL walk() too — Ok(()), same final state (the repair changes no run that
    // used to end: C03_walk_new_refines_old)
    if let (false, false, Some(mut w)) = (cond, met_stuck, start) {
        ctx.checked("C03", "walk_agrees_with_stepping");
        ctx.count("train.sl.walk_replayed");
        match guard(|| w.walk()) {
            Some(Ok(())) => {
                let ws = w.state;
                if !(ws.offset == s.offset && ws.speed == s.speed && ws.time == s.time && ws.i == s.i && ws.energy_whl_out == s.energy_whl_out) {
                    ctx.fail("C03", "walk_agrees_with_stepping", "end", format!("walk() ended at offset {} speed {} time {} i {}, step by step the same run ends at offset {} speed {} time {} i {}",
                        ws.offset.value, ws.speed.value, ws.time.value, ws.i, s.offset.value, s.speed.value, s.time.value, s.i), input.clone());
                }
            }
            Some(Err(e)) => ctx.fail("C03", "walk_agrees_with_stepping", "end", format!("step by step the run completes in {} steps without a stuck pair (offset {} of {}), walk() returned Err: {}", n, s.offset.value, end, format!("{:?}", e).chars().take(200).collect::<String>()), input.clone()),
            None => ctx.fail("C03", "no_panic", "walk", format!("walk() panicked on a run that completes step by step: {}", last_panic()), input.clone()),
        }
    }
    if !cond {
        ctx.count("train.sl.completed");
        if !(s.offset.value <= end + 1e-6 && (s.speed.value == 0.0 || s.offset.value >= end)) || s.offset.value > end + 1e-6 {
            ctx.fail("C03", "stops_inside_path", "end", format!("run ended at offset {} (end {}) with speed {}", s.offset.value, end, s.speed.value), input.clone());
        }
    }
    // getters (C11)
    ctx.checked("C11", "trip_outputs_scaled_totals");
    let ok = sim.get_energy_fuel(false) == sim.loco_con.get_energy_fuel() && sim.get_net_energy_res(false) == sim.loco_con.get_net_energy_res()
        && close(sim.get_kilometers(false), s.total_dist.value / 1000.0, 1.0) && close(sim.get_megagram_kilometers(false), s.mass_freight.value / 1000.0 * s.total_dist.value / 1000.0, 1.0e6)
        && close(sim.get_energy_fuel(true).value, sim.loco_con.get_energy_fuel().value * 365.25, 1.0e12) && close(sim.get_kilometers(true), s.total_dist.value / 1000.0 * 365.25, 1.0e3);
    if !ok { ctx.fail("C11", "trip_outputs_scaled_totals", "getters", "trip-level getters are not the totals times the annualization factor".into(), input.clone()); }
    ctx.op("C11", "scaling_factor", "F N", &format!("ok {}", f(sim.get_scaling_factor(false))));
    ctx.op("C11", "scaling_factor", "T N", &format!("ok {}", f(sim.get_scaling_factor(true))));
    ctx.sample("train.sl", json!({"steps": n, "final_offset": s.offset.value, "end": end, "final_speed": s.speed.value, "units": sim.loco_con.loco_vec.len()}));
}

/// calc_idx directly: hints at / below / above the true segment, all three directions
fn calc_idx_case(ctx: &mut Ctx, r: &mut Rng) {
    let n = r.usize(2, 9);
    let mut offs: Vec<f64> = vec![0.0];
    for _ in 1..n { let l = *offs.last().unwrap(); offs.push(l + *r.pick(&[0.5, 1.0, 8.0, 100.0, 2500.0])); }
    let mut pts: Vec<PathResCoeff> = offs.iter().map(|o| PathResCoeff { offset: m(*o), res_coeff: uc::R * (r.range(-30, 30) as f64 / 1024.0), res_net: m(0.0) }).collect();
    for i in 1..pts.len() { pts[i].res_net = m(pts[i - 1].res_net.value + pts[i - 1].res_coeff.value * (pts[i].offset.value - pts[i - 1].offset.value)); }
    if r.chance(0.5) { let l = *pts.last().unwrap(); pts.push(PathResCoeff { offset: m(f64::INFINITY), res_net: l.res_net, res_coeff: uc::R * 0.0 }); }
    let last_fin = offs[n - 1];
    let x = match r.below(5) { 0 => *r.pick(&offs), 1 => last_fin * r.unit(), 2 => last_fin + 1.0, 3 => -1.0, _ => { let k = *r.pick(&offs); f64::from_bits(k.to_bits() + 1) } };
    let truth = seg_of(&pts, x);
    let (d, hint) = match r.below(3) {
        0 => (Dir::Fwd, r.usize(0, truth)),
        1 => (Dir::Unk, r.usize(0, truth)),
        _ => (Dir::Bwd, r.usize(truth.min(pts.len() - 1), pts.len() - 1)),
    };
    let sl: &[PathResCoeff] = &pts;
    let got = guard(|| sl.calc_idx(m(x), hint, &d));
    let a = match &got { None => "panic".to_string(), Some(Err(_)) => "err".into(), Some(Ok(i)) => format!("ok {}", i) };
    ctx.op("C07", "calc_idx", &format!("{} {} {} {}", tok_prcs(&pts), f(x), hint, dir_tok(&d)), &a);
    if let Some(Ok(i)) = got {
        ctx.checked("C07", "cached_index_search_finds_segment");
        // the value at x must be the declarative profile value (continuity makes the boundary convention irrelevant)
        let fin = x.is_finite() && x >= 0.0 && x <= last_fin;
        if fin && !close(prc_val(&pts[i], x), profile_val(&pts, x), 100.0) {
            ctx.fail("C07", "cached_index_search_finds_segment", "calc_idx", format!("calc_idx({}, hint {}, {}) = {} but the segment containing x is {}", x, hint, dir_tok(&d), i, truth),
                json!({"offsets": offs, "x": x, "hint": hint, "dir": dir_tok(&d)}));
        }
    }
}

/// set_link_and_offset directly: fronts exactly at, one ulp around, between and beyond the link points
fn locate_case(ctx: &mut Ctx, r: &mut Rng) {
    let n = r.usize(1, 6);
    let mut offs = vec![0.0f64];
    for _ in 0..n { let l = *offs.last().unwrap(); offs.push(l + *r.pick(&[0.5, 4.0, 100.0, 2500.0])); }
    // build a real PathTpc with these link lengths
    let mut net = vec![Link::default()];
    for k in 1..=n {
        let len = offs[k] - offs[k - 1];
        let mut l = Link { idx_curr: LinkIdx::new(k as u32), length: m(len), ..Default::default() };
        l.elevs = vec![Elev { offset: m(0.0), elev: m(0.0) }, Elev { offset: m(len), elev: m(0.0) }];
        l.speed_set = Some(SpeedSet { speed_limits: vec![SpeedLimit { offset_start: m(0.0), offset_end: m(len), speed: mps(20.0) }], speed_params: vec![], is_head_end: false });
        l.idx_prev = LinkIdx::new(k as u32 - 1);
        l.idx_next = LinkIdx::new(if k < n { k as u32 + 1 } else { 0 });
        net.push(l);
    }
    let tp = gen_train_params(r, false);
    let mut t = PathTpc::new(tp);
    if t.extend(&net, &route_fwd(n)).is_err() { return; }
    if r.chance(0.5) { t.finish(); }
    let k = r.usize(0, n);
    let x = match r.below(6) {
        0 => offs[k],
        1 => f64::from_bits(offs[k].to_bits() + 1),
        2 => if offs[k] > 0.0 { f64::from_bits(offs[k].to_bits() - 1) } else { -1.0 },
        3 => offs[n] + 10.0,
        4 => -5.0,
        _ => offs[n] * r.unit(),
    };
    let mut st = TrainState::new(m(10.0), uc::KG * 1.0e5, uc::KG * 1.0e3, uc::KG * 0.0, None);
    st.offset = m(x);
    let pre = st;
    let res = guard(|| set_link_and_offset(&mut st, &t).map(|_| st));
    let a = match &res { None => "panic".to_string(), Some(Err(_)) => "err".into(), Some(Ok(s2)) => format!("ok {}", tok_state(s2)) };
    ctx.op("C12", "set_link_and_offset", &format!("{} {}", tok_lps(t.link_points()), tok_state(&pre)), &a);
    ctx.count(match &res { None => "train.locate.panic", Some(Err(_)) => "train.locate.err", Some(Ok(_)) => "train.locate.ok" });
    if let Some(Ok(s2)) = res {
        if x > 0.0 && x <= offs[n] {
            oracle_locate(ctx, "locate", &t, &s2, &json!({"link_point_offsets": offs, "front": x}));
        }
    }
}

/// C03, "timed path from dispatch": the real `walk_timed_path` on a generated timed link path (authority arriving early,
/// on time or late, so that the train also has to stop at the end of its authority and wait); black box — the run is
/// judged from the saved history (every step saved) against the NETWORK's posted restrictions
fn timed_path_case(ctx: &mut Ctx, r: &mut Rng) {
    let Some(bu) = path_case(ctx, r, false, true) else { return; };
    let len = bu.tp.length.value;
    let mass_static = bu.tp.towed_mass_static.value + 4.0 * 195000.0;
    let st0 = TrainState::new(m(len), uc::KG * mass_static, uc::KG * (mass_static * 0.04), uc::KG * (mass_static * 0.6),
        Some(InitTrainState::new(Some(uc::S * 0.0), Some(m(len)), Some(mps(0.0)))));
    let mut sim = SpeedLimitTrainSim::valid();
    sim.path_tpc = PathTpc::new(bu.tp);
    sim.loco_con = gen_train_consist(r);
    sim.state = st0;
    sim.state.dt = uc::S * *r.pick(&[1.0, 1.0, 0.5, 2.0]);
    sim.fric_brake = FricBrake::new(uc::N * (mass_static * *r.pick(&[0.3, 0.6, 1.0])), uc::S * *r.pick(&[0.0, 30.0, 60.0]), uc::R * 0.5, None, None);
    let Some(res) = make_res(r, &sim.path_tpc, &st0) else { return; };
    sim.train_res = res;
    sim.set_save_interval(Some(1));
    // first chunk: the links the standing train covers (time before departure), then one link per authority
    let mut cum = 0.0;
    let mut k0 = 0usize;
    // (three times out of four with room for a braking curve behind the standing train, as a dispatcher's first authority has)
    let room = if r.chance(0.75) { 2500.0 } else { 1.0 };
    for li in &bu.route { cum += bu.net[li.idx()].length.value; k0 += 1; if cum >= len + room { break; } }
    let pace = *r.pick(&[0.0, 0.5, 1.0, 2.5]);
    let mut t = 0.0;
    let mut timed: Vec<LinkIdxTime> = vec![];
    for (k, li) in bu.route.iter().enumerate() {
        if k > 0 && k >= k0 { t += bu.net[bu.route[k - 1].idx()].length.value / 15.0 * pace * *r.pick(&[0.5, 1.0, 1.0, 2.0]); }
        timed.push(LinkIdxTime { link_idx: *li, time: uc::S * (if k > 0 && k < k0 { -1.0 } else { t }) });
    }
    let input = json!({"kind": "walk_timed_path", "network": serde_json::to_value(&bu.net).unwrap(), "train_params": serde_json::to_value(&bu.tp).unwrap(),
        "timed_path": timed.iter().map(|x| (x.link_idx.idx(), x.time.value)).collect::<Vec<_>>(), "consist": serde_json::to_value(&sim.loco_con).unwrap(),
        "fric_brake": serde_json::to_value(&sim.fric_brake).unwrap(), "state": serde_json::to_value(&st0).unwrap(), "dt": sim.state.dt.value});
    ctx.count("train.timed.cases");
    ctx.count(&format!("train.timed.pace.{}", pace));
    // a copy of walk_timed_path's loop (public API only) with a step budget decides first whether the walk ends at all;
    // only then is the real function run, and its final state must equal the copy's
    let budget = 40000usize;
    let mut probe = sim.clone();
    probe.set_save_interval(None);
    let pr = guard(|| -> anyhow::Result<bool> {
        let mut n = 0usize;
        let mut idx_prev = 0;
        while idx_prev != timed.len() - 1 {
            let mut idx_next = idx_prev + 1;
            while idx_next + 1 < timed.len() - 1 && timed[idx_next].time < probe.state.time { idx_next += 1; }
            let time_extend = timed[idx_next - 1].time;
            probe.extend_path(&bu.net, &timed[idx_prev..idx_next].iter().map(|x| x.link_idx).collect::<Vec<LinkIdx>>())?;
            idx_prev = idx_next;
            while probe.state.time < time_extend { probe.step()?; n += 1; if n > budget { return Ok(false); } }
        }
        let end = probe.path_tpc.offset_end().value;
        let ft1000 = 1000.0 * uc::FT.value;
        while probe.state.offset.value < end - ft1000 || (probe.state.offset.value < end && probe.state.speed.value != 0.0) {
            let v0 = probe.state.speed.value;
            probe.step()?; n += 1; if n > budget { return Ok(false); }
            if walk_stuck(end, ft1000, v0, &probe.state) { anyhow::bail!("stopped short"); }
        }
        Ok(true)
    });
    if let Some(Ok(false)) = pr {
        ctx.count("train.timed.no_end_within_budget");
        ctx.checked("C03", "comes_to_rest_within_budget");
        ctx.fail("C03", "comes_to_rest_within_budget", "walk_timed_path", format!("after {} steps the walk has neither ended nor failed: offset {} of {} speed {} time {}; limit in force {} target {} res_net {} N, pwr_whl_out {} W, consist pwr_out_max {} W, train length {}", budget, probe.state.offset.value, probe.path_tpc.offset_end().value, probe.state.speed.value, probe.state.time.value,
            probe.state.speed_limit.value, probe.state.speed_target.value, probe.state.res_net().value, probe.state.pwr_whl_out.value, probe.loco_con.state.pwr_out_max.value, probe.state.length.value), input.clone());
        return;
    }
    let res = guard(|| sim.walk_timed_path(&bu.net, &timed));
    ctx.checked("C03", "timed_walk_copy_equals_real");
    let same = match (&pr, &res) {
        (Some(Ok(true)), Some(Ok(()))) => probe.state == sim.state,
        (Some(Err(_)), Some(Err(_))) => true,
        (None, None) => true,
        _ => false,
    };
    if !same { ctx.fail("C03", "timed_walk_copy_equals_real", "walk_timed_path", "the harness copy of walk_timed_path's loop and the real function end differently".into(), input.clone()); }
    ctx.checked("C03", "no_panic");
    match &res {
        None => {
            ctx.count("train.timed.panic");
            ctx.fail("C03", "no_panic", "walk_timed_path", format!("walk_timed_path panicked: {}", last_panic()), input.clone());
        }
        Some(Err(e)) => {
            ctx.count("train.timed.err");
            let t = format!("{:?}", e);
            ctx.count(&format!("train.timed.err.{}", if t.contains("cannot reach its destination") { "stopped_short_of_window" } else if t.contains("reverse direction smaller") { "braking_curve_reaches_behind_path_start" } else if t.contains("forward direction larger") { "authority_shorter_than_train" } else if t.contains("sufficient power to move") { "no_power_to_move" } else if t.contains("Insufficient braking force") { "insufficient_braking_force" } else if t.contains("must be less than or equal") || t.contains("exceeds") { "powertrain_limit" } else { "other" }));
            ctx.sample("train.timed.err", json!(format!("{:?}", e).lines().take(6).collect::<Vec<_>>().join(" | ").chars().take(400).collect::<String>()));
        }
        Some(Ok(())) => ctx.count("train.timed.ok"),
    }
    // the saved history, whatever the outcome (rows written before an error count as well)
    let h = &sim.history;
    let n_ext = sim.path_tpc.link_points().len().saturating_sub(1);
    let posted_list = crate::b_sp::posted_from_network(&bu.net, &bu.route[..n_ext.min(bu.route.len())], &bu.tp);
    let mut waited = false;
    for i in 1..h.len() {
        let (po, ps) = (h.offset[i - 1].value, h.speed[i - 1].value);
        let (s_lim, s_tgt, s_spd) = (h.speed_limit[i].value, h.speed_target[i].value, h.speed[i].value);
        let id = format!("row{}", i);
        // C12 on the rows the real walk_timed_path saved (every step is saved): the bookkeeping clauses hold between
        // consecutive rows whatever the walk was doing — running, braking, or standing and waiting for its next hand-out
        {
            let dt_i = h.dt[i].value;
            let c12 = |ctx: &mut Ctx, clause: &str, ok: bool, d: String| {
                ctx.checked("C12", clause);
                if !ok { ctx.fail("C12", clause, &id, d, input.clone()); }
            };
            let consecutive = h.i[i] == h.i[i - 1] + 1;
            if consecutive {
                c12(ctx, "time_advances_by_dt", close(h.time[i].value - h.time[i - 1].value, dt_i, 1.0),
                    format!("walk_timed_path row {}: time went from {} s to {} s but the step size is {} s", i, h.time[i - 1].value, h.time[i].value, dt_i));
                c12(ctx, "distance_sums_abs_moves", close(h.total_dist[i].value - h.total_dist[i - 1].value, (h.offset[i].value - h.offset[i - 1].value).abs(), 1000.0),
                    format!("walk_timed_path row {}: total_dist {} -> {} but the front moved {} -> {}", i, h.total_dist[i - 1].value, h.total_dist[i].value, h.offset[i - 1].value, h.offset[i].value));
            }
            c12(ctx, "rear_is_front_minus_length", h.offset_back[i].value == h.offset[i].value - h.length[i].value,
                format!("walk_timed_path row {}: offset_back {} != offset {} - length {}", i, h.offset_back[i].value, h.offset[i].value, h.length[i].value));
        }
        let mut chk = |clause: &str, ok: bool, d: String| {
            ctx.checked("C03", clause);
            if !ok { ctx.fail("C03", clause, &id, d, input.clone()); }
        };
        chk("speed_nonnegative", s_spd >= 0.0, format!("speed {} < 0 at offset {}", s_spd, h.offset[i].value));
        chk("target_le_limit", s_tgt <= s_lim, format!("target {} > limit {}", s_tgt, s_lim));
        let posted = crate::b_sp::tightest_at(&posted_list, bu.tp.speed_max.value, po);
        let profile_here = crate::b_sp::val_at(sim.path_tpc.speed_points(), po).abs();
        chk("profile_le_posted", profile_here <= posted, format!("speed profile of the path is {} but the network posts {} at {}", profile_here, posted, po));
        chk("limit_le_posted", s_lim <= posted || profile_here > posted, format!("limit in force {} > posted {} at {}", s_lim, posted, po));
        chk("speed_le_posted", ps <= posted * (1.0 + 1e-12) || s_lim > posted || profile_here > posted, format!("speed {} > posted limit {} at {} although the limit in force is {}", ps, posted, po, s_lim));
        chk("speed_le_limit_in_force", ps <= s_lim, format!("speed {} > limit in force {} at {}", ps, s_lim, po));
        if s_spd == 0.0 && ps == 0.0 && i > 3 { waited = true; }
    }
    ctx.count_n("train.timed.rows", h.len() as u64);
    if waited { ctx.count("train.timed.stood_still_mid_run"); }
    if matches!(res, Some(Ok(()))) {
        let s = sim.state;
        let end = sim.path_tpc.offset_end().value;
        ctx.checked("C03", "stops_inside_path");
        if !(s.offset.value <= end + 1e-6 && (s.speed.value == 0.0 || s.offset.value >= end)) {
            ctx.fail("C03", "stops_inside_path", "end", format!("walk_timed_path ended Ok at offset {} (end {}) with speed {}", s.offset.value, end, s.speed.value), input.clone());
        }
        ctx.count(if n_ext >= bu.route.len() - 1 { "train.timed.whole_route_authorised" } else { "train.timed.partial_route" });
    }
}

/// C07, "backward evaluation during braking-curve construction": the call pattern of BrakingPoints::recalc — one
/// update_res with Dir::Unk at the end of the path, then Dir::Bwd calls walking back towards the start (cached indices
/// of front and rear carried along), with steps shorter and longer than a profile element and than the train
fn backward_res_case(ctx: &mut Ctx, r: &mut Rng) {
    let Some(bu) = path_case(ctx, r, false, true) else { return; };
    let mut tpc = PathTpc::new(bu.tp);
    if tpc.extend(&bu.net, &bu.route).is_err() { return; }
    let len = bu.tp.length.value;
    let mass_static = bu.tp.towed_mass_static.value + 4.0 * 195000.0;
    let mut st = TrainState::new(m(len), uc::KG * mass_static, uc::KG * (mass_static * 0.04), uc::KG * (mass_static * 0.6),
        Some(InitTrainState::new(Some(uc::S * 0.0), Some(m(len)), Some(mps(0.0)))));
    let Some(mut res) = make_res(r, &tpc, &st) else { return; };
    let end = tpc.offset_end().value;
    if end < len + 50.0 { return; }
    let input = json!({"kind": "backward_resistance", "network": serde_json::to_value(&bu.net).unwrap(), "train_params": serde_json::to_value(&bu.tp).unwrap(),
        "route": bu.route.iter().map(|l| l.idx()).collect::<Vec<_>>()});
    ctx.count("train.bwd.cases");
    st.offset = m(end);
    st.speed = mps(0.0);
    let mut dir = Dir::Unk;
    let stride = *r.pick(&[5.0, 40.0, 300.0, 1200.0]);
    let mut k = 0;
    loop {
        let (pre_res, pre_st) = (res.clone(), st);
        let out = guard(|| res.update_res(&mut st, &tpc, &dir));
        let a = match &out { None => "panic".to_string(), Some(Err(_)) => "err".into(), Some(Ok(())) => format!("ok {} {}", tok_res(&res), tok_state(&st)) };
        let id = ctx.op("C07", "update_res", &format!("{} {} {} {} {}", tok_prcs(tpc.grades()), tok_prcs(tpc.curves()), tok_res(&pre_res), tok_state(&pre_st), dir_tok(&dir)), &a);
        match out {
            Some(Ok(())) => { ctx.count(&format!("train.bwd.update_res.{}", dir_tok(&dir))); oracle_res(ctx, &id, &tpc, &res, &st, &input, Some((&bu.net, &bu.route, &bu.tp))); }
            Some(Err(_)) => { ctx.count("train.bwd.err"); break; }
            None => { ctx.checked("C07", "no_panic"); ctx.fail("C07", "no_panic", &id, format!("update_res({}) panicked: {}", dir_tok(&dir), last_panic()), input.clone()); break; }
        }
        dir = Dir::Bwd;
        k += 1;
        let step = stride * *r.pick(&[0.2, 1.0, 1.0, 2.5]);
        let nx = st.offset.value - step;
        if nx - len < 0.0 || k > 400 { break; }
        st.offset = m(nx);
        st.speed = mps(*r.pick(&[0.0, 3.0, 12.0, 25.0]));
    }
}

/// C07, car mixes: a train built by TrainSimBuilder from several car types — the coefficients of its resistance model
/// must be the definitions over the car mix (bearing: the per-axle total; rolling and Davis-B: mass-weighted over the
/// towed mass; drag area: the sum over cars), whatever the order of the types, and the first steps must report them
fn builder_case(ctx: &mut Ctx, r: &mut Rng) {
    use altrios_core::traits::Mass;
    let Some(bu) = path_case(ctx, r, false, true) else { return; };
    let k = r.usize(2, 5);
    let names = ["Bulk", "Tank_Loaded", "Autorack", "Intermodal", "Manifest_Loaded", "Manifest_Empty"];
    let mut rvs: Vec<RailVehicle> = vec![];
    let mut n_cars: std::collections::HashMap<String, u32> = Default::default();
    for i in 0..k {
        let rv = RailVehicle {
            car_type: names[i].into(),
            length: m(*r.pick(&[15.24, 18.288, 20.4216, 16.1544])),
            axle_count: *r.pick(&[4u8, 4, 6, 8]),
            brake_count: 1,
            mass_static_base: uc::KG * (r.range(20, 40) as f64 * 1000.0 + 0.3),
            mass_freight: uc::KG * (r.range(0, 80) as f64 * 1000.7),
            speed_max: mps(*r.pick(&[25.0, 30.0, 35.0])),
            braking_ratio: uc::R * *r.pick(&[0.05, 0.1, 0.15]),
            mass_rot_per_axle: uc::KG * *r.pick(&[1500.3, 1499.9, 1650.1]),
            bearing_res_per_axle: uc::N * *r.pick(&[40.26, 80.0, 150.3, 178.1, 200.7]),
            rolling_ratio: uc::R * *r.pick(&[0.0005, 0.00075, 0.001, 0.0013]),
            davis_b: uc::SPM * *r.pick(&[0.0, 0.00001, 0.00003, 0.00002]),
            cd_area: uc::M2 * *r.pick(&[2.13, 4.7, 6.55, 3.3, 5.1]),
            curve_coeff_0: uc::R * 0.0,
            curve_coeff_1: uc::R * 0.0,
            curve_coeff_2: uc::R * 0.0,
        };
        n_cars.insert(rv.car_type.clone(), r.range(1, 9) as u32);
        rvs.push(rv);
    }
    let per_car = r.chance(0.3);
    let n_total: u32 = n_cars.values().sum();
    let cd_vec: Option<Vec<si::Area>> = if per_car { Some((0..n_total).map(|_| uc::M2 * *r.pick(&[2.13, 4.7, 6.55])).collect()) } else { None };
    let tc = TrainConfig { rail_vehicles: rvs.clone(), n_cars_by_type: n_cars.clone(), train_type: TrainType::Freight, train_length: None, train_mass: None, cd_area_vec: cd_vec.clone() };
    let builder = TrainSimBuilder::new("mix".into(), tc, gen_train_consist(r), None, None, None);
    let trace = SpeedTrace::new(vec![0.0, 1.0, 2.0, 3.0], vec![0.0, 0.5, 1.0, 1.5], None);
    let input = json!({"kind": "builder_car_mix", "rail_vehicles": serde_json::to_value(&rvs).unwrap(), "n_cars_by_type": n_cars, "cd_area_vec": cd_vec.as_ref().map(|v| v.iter().map(|x| x.value).collect::<Vec<_>>())});
    let built = guard(|| builder.make_set_speed_train_sim(&bu.net, &bu.route, trace, None));
    let mut sim = match built {
        Some(Ok(s)) => s,
        Some(Err(e)) => { ctx.count("train.builder.err"); ctx.sample("train.builder.err", json!(format!("{:?}", e).chars().take(200).collect::<String>())); return; }
        None => { ctx.count("train.builder.panic"); return; }
    };
    ctx.count("train.builder.cases");
    ctx.count(&format!("train.builder.car_types.{}", k));
    let nn = |rv: &RailVehicle| n_cars[&rv.car_type] as f64;
    let mass = |rv: &RailVehicle| rv.mass().ok().flatten().map(|x| x.value).unwrap_or(f64::NAN);
    let towed: f64 = rvs.iter().map(|rv| mass(rv) * nn(rv)).sum();
    let want_bearing: f64 = rvs.iter().map(|rv| rv.bearing_res_per_axle.value * rv.axle_count as f64 * nn(rv)).sum();
    let want_roll: f64 = rvs.iter().map(|rv| rv.rolling_ratio.value * mass(rv) * nn(rv)).sum::<f64>() / towed;
    let want_db: f64 = rvs.iter().map(|rv| rv.davis_b.value * mass(rv) * nn(rv)).sum::<f64>() / towed;
    let want_cd: f64 = match &cd_vec { Some(v) => v.iter().map(|x| x.value).sum(), None => rvs.iter().map(|rv| rv.cd_area.value * nn(rv)).sum() };
    let v = serde_json::to_value(&sim.train_res).unwrap();
    let sres = &v["Strap"];
    let (bf, rr, db, cd) = (jf(sres, &["bearing", "force"]), jf(sres, &["rolling", "ratio"]), jf(sres, &["davis_b", "davis_b"]), jf(sres, &["aerodynamic", "cd_area"]));
    let rel = |a: f64, b: f64| (a - b).abs() <= 1e-9 * a.abs().max(b.abs()) + 1e-12;
    let mut chk = |clause: &str, ok: bool, d: String| { ctx.checked("C07", clause); if !ok { ctx.fail("C07", clause, "builder", d, input.clone()); } };
    chk("bearing_is_per_axle_total", rel(bf, want_bearing), format!("bearing force of the built train {} N, per-axle total over the car mix {} N", bf, want_bearing));
    chk("rolling_is_mass_weighted_over_car_mix", rel(rr, want_roll), format!("rolling ratio {} vs {} over the car mix", rr, want_roll));
    chk("davis_b_is_mass_weighted_over_car_mix", rel(db, want_db), format!("davis_b {} vs {} over the car mix", db, want_db));
    chk("drag_area_is_sum_over_cars", rel(cd, want_cd), format!("drag area {} vs {} over the cars", cd, want_cd));
    // and the first steps report them
    for i in 1..=2 {
        if let Some(Ok(())) = guard(|| sim.step()) {
            let st = sim.state;
            let w = st.weight_static.value;
            let id = format!("builder.step{}", i);
            let mut chk2 = |clause: &str, ok: bool, d: String| { ctx.checked("C07", clause); if !ok { ctx.fail("C07", clause, &id, d, input.clone()); } };
            chk2("bearing", st.res_bearing.value == bf, format!("res_bearing {} != per-axle total {}", st.res_bearing.value, bf));
            chk2("rolling", close(st.res_rolling.value, rr * w, w), format!("res_rolling {} != {}", st.res_rolling.value, rr * w));
        }
    }
}

pub fn run(ctx: &mut Ctx, r: &mut Rng, tier: &str) {
    let (np, nbad, nss, nsl, nidx, steps, slsteps) = if tier == "thorough" { (400, 200, 60, 60, 4000, 400, 3000) } else { (40, 20, 18, 12, 400, 90, 1500) };
    for i in 0..np { let mut rr = r.fork(); let _ = path_case(ctx, &mut rr, i % 2 == 0, false); }
    for _ in 0..nbad { let mut rr = r.fork(); bad_route_case(ctx, &mut rr); }
    for _ in 0..nidx { let mut rr = r.fork(); calc_idx_case(ctx, &mut rr); }
    for _ in 0..nidx { let mut rr = r.fork(); locate_case(ctx, &mut rr); }
    for _ in 0..(if tier == "thorough" { 300 } else { 40 }) { let mut rr = r.fork(); backward_res_case(ctx, &mut rr); }
    for _ in 0..(if tier == "thorough" { 300 } else { 40 }) { let mut rr = r.fork(); builder_case(ctx, &mut rr); }
    for _ in 0..nss { let mut rr = r.fork(); set_speed_case(ctx, &mut rr, steps); }
    for _ in 0..nsl { let mut rr = r.fork(); speed_limit_case(ctx, &mut rr, slsteps); }
    for _ in 0..(if tier == "thorough" { 80 } else { 10 }) { let mut rr = r.fork(); timed_path_case(ctx, &mut rr); }
    for _ in 0..(if tier == "thorough" { 200 } else { 20 }) { let mut rr = r.fork(); hybrid_rollup_case(ctx, &mut rr); }
}
