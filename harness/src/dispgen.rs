//! Shared scenario generator for the meet-pass properties (C04, C05, C15, C18):
//! single track with passing sidings (both directions, flip pairs, optional lockouts),
//! trains in both directions built like the crate's own SpeedLimitTrainSim constructors.
use crate::netgen::*;
use crate::prng::Rng;
use altrios_core::prelude::*;
use altrios_core::track::*;
use altrios_core::train::kind::{aerodynamic, bearing, davis_b, path_res, rolling};
use altrios_core::train::method;
use altrios_core::train::*;
use altrios_core::uc;

#[derive(Clone, Debug)]
pub struct DispNet {
    pub net: Vec<Link>,
    /// forward main-line links in order (west → east), and their flips in the same order
    pub main_fwd: Vec<u32>,
    pub main_rev: Vec<u32>,
    /// (index into main_fwd of the main segment the siding parallels, fwd siding link, rev siding link)
    pub sidings: Vec<(usize, u32, u32)>,
}

fn flat_link(idx: u32, len: f64, speed: f64, grade: f64) -> Link {
    Link {
        idx_curr: LinkIdx::new(idx),
        length: m(len),
        elevs: vec![Elev { offset: m(0.0), elev: m(100.0) }, Elev { offset: m(len), elev: m(100.0 + grade * len) }],
        headings: vec![],
        speed_set: Some(SpeedSet {
            speed_limits: vec![SpeedLimit { offset_start: m(0.0), offset_end: m(len), speed: mps(speed) }],
            speed_params: vec![],
            is_head_end: false,
        }),
        ..Default::default()
    }
}

/// `n_main` main segments; sidings parallel to the main segments listed in `siding_at`
/// (never the first or the last segment, never two adjacent ones: no coincident switch points)
pub fn gen_disp_net(r: &mut Rng, n_main: usize, siding_at: &[usize], lockouts: bool) -> DispNet {
    let n = n_main as u32;
    let ns = siding_at.len() as u32;
    // numbering: fwd main 1..n, fwd sidings n+1..n+ns, rev main n+ns+1..2n+ns, rev sidings 2n+ns+1..2n+2ns
    let fm = |k: usize| (k as u32) + 1;
    let fs = |j: usize| n + (j as u32) + 1;
    let rm = |k: usize| n + ns + (k as u32) + 1;
    let rs = |j: usize| 2 * n + ns + (j as u32) + 1;
    let mut net: Vec<Link> = vec![Link::default(); (2 * n + 2 * ns + 1) as usize];
    let lens: Vec<f64> = (0..n_main).map(|_| r.range(12, 40) as f64 * 250.0).collect();
    let speeds: Vec<f64> = (0..n_main).map(|_| *r.pick(&[15.0, 20.0, 25.0])).collect();
    for k in 0..n_main {
        let g = r.range(-4, 4) as f64 / 1024.0;
        let mut l = flat_link(fm(k), lens[k], speeds[k], g);
        l.idx_prev = LinkIdx::new(if k > 0 { fm(k - 1) } else { 0 });
        l.idx_next = LinkIdx::new(if k + 1 < n_main { fm(k + 1) } else { 0 });
        l.idx_flip = LinkIdx::new(rm(k));
        net[fm(k) as usize] = l;
        let mut f = flat_link(rm(k), lens[k], speeds[k], -g);
        f.elevs = vec![Elev { offset: m(0.0), elev: m(100.0 + g * lens[k]) }, Elev { offset: m(lens[k]), elev: m(100.0) }];
        f.idx_next = LinkIdx::new(if k > 0 { rm(k - 1) } else { 0 });
        f.idx_prev = LinkIdx::new(if k + 1 < n_main { rm(k + 1) } else { 0 });
        f.idx_flip = LinkIdx::new(fm(k));
        net[rm(k) as usize] = f;
    }
    let mut sidings = vec![];
    for (j, &k) in siding_at.iter().enumerate() {
        assert!(k > 0 && k + 1 < n_main);
        let len = lens[k];
        let mut s = flat_link(fs(j), len, 10.0, 0.0);
        s.idx_prev = LinkIdx::new(fm(k - 1));
        s.idx_next = LinkIdx::new(fm(k + 1));
        s.idx_flip = LinkIdx::new(rs(j));
        net[fs(j) as usize] = s;
        net[fm(k - 1) as usize].idx_next_alt = LinkIdx::new(fs(j));
        net[fm(k + 1) as usize].idx_prev_alt = LinkIdx::new(fs(j));
        let mut sr = flat_link(rs(j), len, 10.0, 0.0);
        sr.idx_next = LinkIdx::new(rm(k - 1));
        sr.idx_prev = LinkIdx::new(rm(k + 1));
        sr.idx_flip = LinkIdx::new(fs(j));
        net[rs(j) as usize] = sr;
        net[rm(k + 1) as usize].idx_next_alt = LinkIdx::new(rs(j));
        net[rm(k - 1) as usize].idx_prev_alt = LinkIdx::new(rs(j));
        if lockouts {
            // the siding fouls the parallel main segment at the switch: declared mutually exclusive
            net[fs(j) as usize].link_idxs_lockout = vec![LinkIdx::new(fm(k)), LinkIdx::new(rm(k))];
            net[rs(j) as usize].link_idxs_lockout = vec![LinkIdx::new(fm(k)), LinkIdx::new(rm(k))];
            net[fm(k) as usize].link_idxs_lockout = vec![LinkIdx::new(fs(j)), LinkIdx::new(rs(j))];
            net[rm(k) as usize].link_idxs_lockout = vec![LinkIdx::new(fs(j)), LinkIdx::new(rs(j))];
        }
        sidings.push((k, fs(j), rs(j)));
    }
    DispNet { net, main_fwd: (0..n_main).map(fm).collect(), main_rev: (0..n_main).map(rm).collect(), sidings }
}

pub fn location(name: &str, link: u32) -> Location {
    Location {
        location_id: name.into(),
        offset: m(0.0),
        link_idx: LinkIdx::new(link),
        is_front_end: false,
        grid_emissions_region: "R".into(),
        electricity_price_region: "R".into(),
        liquid_fuel_price_region: "R".into(),
    }
}

/// a train able to run: `n_locos` default conventional units, `n_cars`-equivalent mass
pub fn gen_train(r: &mut Rng, id: &str, origs: Vec<Location>, dests: Vec<Location>, depart_s: f64) -> SpeedLimitTrainSim {
    let length = r.range(4, 16) as f64 * 100.0;
    let n_locos = r.usize(2, 4);
    let mass_static = length * 3000.0 + n_locos as f64 * 195000.0;
    let tp = TrainParams {
        length: m(length),
        speed_max: mps(*r.pick(&[20.0, 25.0, 30.0])),
        towed_mass_static: uc::KG * (length * 3000.0),
        mass_per_brake: uc::KG * 1.3e5,
        axle_count: 400,
        train_type: TrainType::Freight,
        curve_coeff_0: uc::R * 0.0,
        curve_coeff_1: uc::R * 0.0,
        curve_coeff_2: uc::R * 0.0,
    };
    let state = TrainState::new(m(length), uc::KG * mass_static, uc::KG * (mass_static * 0.04), uc::KG * (mass_static * 0.5),
        Some(InitTrainState::new(Some(uc::S * depart_s), Some(m(length)), Some(mps(0.0)))));
    let locos: Vec<Locomotive> = (0..n_locos).map(|_| { let mut l = Locomotive::default(); l.set_save_interval(None); l }).collect();
    let con = Consist::new(locos, None, altrios_core::consist::PowerDistributionControlType::Proportional(altrios_core::consist::Proportional));
    let tpc = PathTpc::new(tp);
    let res = TrainRes::Strap(method::Strap::new(
        bearing::Basic::new(uc::LBF * 40.0 * 100.0),
        rolling::Basic::new(uc::R * (1.5 * uc::LB.value / uc::TON.value)),
        davis_b::Basic::new((0.03 / uc::MPH.value * uc::LB.value / uc::TON.value) * uc::SPM),
        aerodynamic::Basic::new(uc::M2 * 50.0),
        path_res::Strap::new(tpc.grades(), &state).unwrap(),
        path_res::Strap::new(tpc.curves(), &state).unwrap(),
    ));
    let fb = FricBrake::new(uc::N * (mass_static * 0.8), uc::S * 0.0, uc::R * 0.5, None, None);
    SpeedLimitTrainSim::new(id.into(), &origs, &dests, con, state, res, tpc, fb, None, None, None)
}

#[derive(Clone, Debug)]
pub struct Scenario {
    pub dn: DispNet,
    pub trains: Vec<SpeedLimitTrainSim>,
    /// true = west→east (forward links)
    pub dirs: Vec<bool>,
}

pub fn gen_scenario(r: &mut Rng, max_trains: usize) -> Scenario {
    let n_main = r.usize(3, 7);
    // sidings at non-adjacent interior segments
    let mut siding_at: Vec<usize> = vec![];
    let mut k = 1;
    while k + 1 < n_main {
        if r.chance(0.6) { siding_at.push(k); k += 2; } else { k += 1; }
    }
    let lock = r.chance(0.3);
    let dn = gen_disp_net(r, n_main, &siding_at, lock);
    let nt = r.usize(1, max_trains);
    let mut trains = vec![];
    let mut dirs = vec![];
    for t in 0..nt {
        let east = r.chance(0.5);
        let (o, d) = if east { (dn.main_fwd[0], dn.main_fwd[n_main - 1]) } else { (dn.main_rev[n_main - 1], dn.main_rev[0]) };
        let depart = if r.chance(0.3) { 0.0 } else { r.range(0, 40) as f64 * 60.0 };
        trains.push(gen_train(r, &format!("T{}", t + 1), vec![location("O", o)], vec![location("D", d)], depart));
        dirs.push(east);
    }
    Scenario { dn, trains, dirs }
}
