//! verif-harness: drives the real altrios-core in-process and emits, per block,
//!   ops.txt      one op per line for the Lean driver
//!   impl.out     the implementation's answer to each op (what the model must reproduce)
//!   oracle.json  property clauses checked directly on the implementation + distribution
pub mod dispgen;
pub mod netgen;
pub mod prng;
pub mod proto;
include!(concat!(env!("OUT_DIR"), "/blocks.rs"));

use proto::Ctx;
use std::io::Write;

fn main() {
    let args: Vec<String> = std::env::args().collect();
    let mut block = String::new();
    let mut tier = "quick".to_string();
    let mut seed: u64 = 1;
    let mut out = ".".to_string();
    let mut i = 1;
    while i < args.len() {
        match args[i].as_str() {
            "run" => { block = args[i + 1].clone(); i += 1; }
            "--tier" => { tier = args[i + 1].clone(); i += 1; }
            "--seed" => { seed = args[i + 1].parse().unwrap_or(1); i += 1; }
            "--out" => { out = args[i + 1].clone(); i += 1; }
            _ => {}
        }
        i += 1;
    }
    // panics inside guarded calls are outcomes, not noise
    std::panic::set_hook(Box::new(|info| {
        let msg = info.to_string();
        if let Ok(mut g) = proto::LAST_PANIC.lock() { *g = msg.chars().take(300).collect(); }
    }));
    let mut ctx = Ctx::default();
    let mut rng = prng::Rng::new(seed);
    if !run_block(&block, &mut ctx, &mut rng, &tier) {
        eprintln!("unknown block {block}");
        std::process::exit(2);
    }
    std::fs::create_dir_all(&out).unwrap();
    let mut fo = std::io::BufWriter::new(std::fs::File::create(format!("{out}/ops.txt")).unwrap());
    for l in &ctx.ops { writeln!(fo, "{}", l).unwrap(); }
    let mut fe = std::io::BufWriter::new(std::fs::File::create(format!("{out}/impl.out")).unwrap());
    for l in &ctx.expect { writeln!(fe, "{}", l).unwrap(); }
    let findings: Vec<serde_json::Value> = ctx.findings.iter().map(|f| serde_json::json!({
        "property": f.property, "clause": f.clause, "case": f.case, "detail": f.detail, "input": f.input,
    })).collect();
    let j = serde_json::json!({
        "block": block, "tier": tier, "seed": seed,
        "n_ops": ctx.ops.len(),
        "op_props": ctx.op_props,
        "findings": findings,
        "oracle_checks": ctx.oracle_checks,
        "stats": ctx.stats,
        "samples": ctx.samples,
    });
    std::fs::write(format!("{out}/oracle.json"), serde_json::to_string(&j).unwrap()).unwrap();
}
