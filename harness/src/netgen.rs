//! Shared network generator (DESIGN.md Appendix A): parameterised families of valid networks
//! built from the crate's own types; offsets and lengths on dyadic grids.
use crate::prng::Rng;
use altrios_core::track::*;
use altrios_core::{si, uc};
use std::collections::HashMap;

pub fn m(x: f64) -> si::Length {
    uc::M * x
}
pub fn mps(x: f64) -> si::Velocity {
    uc::MPS * x
}

#[derive(Clone, Debug)]
pub struct NetOpts {
    pub n_links: usize,
    pub with_flips: bool,
    /// grid for offsets (m)
    pub grid: f64,
    /// link length range in grid units
    pub len_lo: i64,
    pub len_hi: i64,
    pub max_elev_pts: usize,
    pub max_grade: f64,
    pub headings: bool,
    pub max_speed_limits: usize,
    pub speed_lo: f64,
    pub speed_hi: f64,
    pub use_speed_sets_map: bool,
    pub cat_power: bool,
    pub speed_params: bool,
}

impl Default for NetOpts {
    fn default() -> Self {
        NetOpts {
            n_links: 3,
            with_flips: false,
            grid: 1.0,
            len_lo: 50,
            len_hi: 4000,
            max_elev_pts: 5,
            max_grade: 0.02,
            headings: true,
            max_speed_limits: 4,
            speed_lo: 5.0,
            speed_hi: 40.0,
            use_speed_sets_map: false,
            cat_power: false,
            speed_params: false,
        }
    }
}

/// strictly increasing dyadic offsets 0 = o_0 < … < o_{k-1} = len (k >= 2)
pub fn offsets(r: &mut Rng, len_units: i64, k: usize, grid: f64) -> Vec<f64> {
    let k = k.max(2).min((len_units + 1) as usize);
    let mut set = std::collections::BTreeSet::new();
    set.insert(0i64);
    set.insert(len_units);
    let mut guard = 0;
    while set.len() < k && guard < 100 {
        set.insert(r.range(1, (len_units - 1).max(1)));
        guard += 1;
    }
    set.into_iter().map(|u| u as f64 * grid).collect()
}

/// speed limits for one link: the shapes disjoint / abutting / nested / overlapping /
/// duplicate bounds / zero length / beyond link end; sorted, (start,end) pairs unique
pub fn speed_limits(r: &mut Rng, len_units: i64, o: &NetOpts) -> Vec<SpeedLimit> {
    let n = r.usize(0, o.max_speed_limits);
    let mut cuts: Vec<i64> = Vec::new();
    // a small set of cut positions makes shared bounds frequent
    let ncuts = r.usize(2, 6);
    for _ in 0..ncuts {
        let ext = if r.chance(0.15) { len_units / 2 } else { 0 };
        cuts.push(r.range(0, len_units + ext));
    }
    cuts.push(0);
    cuts.push(len_units);
    let mut v: Vec<SpeedLimit> = Vec::new();
    for _ in 0..n {
        let a = *r.pick(&cuts);
        let b = *r.pick(&cuts);
        let (s, e) = if a <= b { (a, b) } else { (b, a) };
        let sp = (r.range((o.speed_lo * 2.0) as i64, (o.speed_hi * 2.0) as i64) as f64) * 0.5;
        v.push(SpeedLimit {
            offset_start: m(s as f64 * o.grid),
            offset_end: m(e as f64 * o.grid),
            speed: mps(sp),
        });
    }
    v.sort_by(|a, b| a.partial_cmp(b).unwrap());
    // unique (start,end) pairs among neighbours (validation rule)
    v.dedup_by(|b, a| a.offset_start == b.offset_start && a.offset_end == b.offset_end);
    v
}

pub fn speed_set(r: &mut Rng, len_units: i64, o: &NetOpts) -> SpeedSet {
    let mut limits = speed_limits(r, len_units, o);
    if limits.is_empty() {
        // a SpeedSet without limits is "fake" and must not be head-end / have params
        limits.push(SpeedLimit {
            offset_start: m(0.0),
            offset_end: m(len_units as f64 * o.grid),
            speed: mps(o.speed_hi),
        });
    }
    let speed_params = if o.speed_params && r.chance(0.4) {
        let lt = *r.pick(&[LimitType::MassTotal, LimitType::MassPerBrake, LimitType::AxleCount]);
        let ct = *r.pick(&[
            CompareType::TpEqualRp,
            CompareType::TpGreaterThanRp,
            CompareType::TpLessThanRp,
            CompareType::TpGreaterThanEqualRp,
            CompareType::TpLessThanEqualRp,
        ]);
        let val = match lt {
            LimitType::AxleCount => *r.pick(&[100.0, 400.0, 1000.0]),
            _ => *r.pick(&[1.0e4, 1.0e5, 1.0e7, 1.0e8]),
        };
        vec![SpeedParam { limit_val: val, limit_type: lt, compare_type: ct }]
    } else {
        vec![]
    };
    SpeedSet { speed_limits: limits, speed_params, is_head_end: r.chance(0.5) }
}

pub fn gen_link(r: &mut Rng, idx: u32, o: &NetOpts) -> Link {
    let len_units = r.range(o.len_lo, o.len_hi);
    let length = len_units as f64 * o.grid;
    let ne = r.usize(2, o.max_elev_pts.max(2));
    let eo = offsets(r, len_units, ne, o.grid);
    let mut elev = (r.range(0, 800) as f64) * 0.25;
    let mut elevs = Vec::new();
    for (i, off) in eo.iter().enumerate() {
        if i > 0 {
            let d = off - eo[i - 1];
            // dyadic grade on a 1/1024 grid within +-max_grade
            let gmax = (o.max_grade * 1024.0) as i64;
            let g = r.range(-gmax, gmax) as f64 / 1024.0;
            elev += g * d;
        }
        elevs.push(Elev { offset: m(*off), elev: m(elev) });
    }
    let headings = if o.headings && r.chance(0.7) {
        let nh = r.usize(2, o.max_elev_pts.max(2));
        let ho = offsets(r, len_units, nh, o.grid);
        let mut h = r.f64_in(0.0, 6.28);
        ho.iter()
            .map(|off| {
                h = (h + r.f64_in(-0.3, 0.3)).rem_euclid(6.283185307179586);
                if h >= 6.283185307179586 { h = 0.0; }
                Heading { offset: m(*off), heading: uc::RAD * h, lat: None, lon: None }
            })
            .collect()
    } else {
        vec![]
    };
    let (speed_sets, speed_set_opt) = if o.use_speed_sets_map && r.chance(0.5) {
        let mut map = HashMap::new();
        map.insert(TrainType::Freight, speed_set(r, len_units, o));
        if r.chance(0.5) {
            map.insert(TrainType::Passenger, speed_set(r, len_units, o));
        }
        // entries for train types no generated train has (incl. the untyped default key): a lookup for one type must
        // never depend on which other keys the map holds, nor on the order in which it iterates
        if r.chance(0.4) { map.insert(TrainType::None, speed_set(r, len_units, o)); }
        if r.chance(0.3) { map.insert(TrainType::Intermodal, speed_set(r, len_units, o)); }
        (map, None)
    } else {
        (HashMap::new(), Some(speed_set(r, len_units, o)))
    };
    let cat_power_limits = if o.cat_power && r.chance(0.5) {
        // non-overlapping sections inside the link
        let k = r.usize(1, 3);
        let co = offsets(r, len_units, 2 * k, o.grid);
        co.chunks(2)
            .filter(|c| c.len() == 2)
            .map(|c| CatPowerLimit {
                offset_start: m(c[0]),
                offset_end: m(c[1]),
                power_limit: uc::W * (r.range(1, 10) as f64 * 1.0e6),
                district_id: if r.chance(0.3) { Some(format!("d{}", idx)) } else { None },
            })
            .collect()
    } else {
        vec![]
    };
    Link {
        idx_curr: LinkIdx::new(idx),
        length: m(length),
        elevs,
        headings,
        speed_sets,
        speed_set: speed_set_opt,
        cat_power_limits,
        ..Default::default()
    }
}

/// `line(n)`: links 1..n chained; with flips, links n+1..2n are the reverse direction
pub fn gen_line(r: &mut Rng, o: &NetOpts) -> Vec<Link> {
    let n = o.n_links as u32;
    let mut net = vec![Link::default()];
    for k in 1..=n {
        let mut l = gen_link(r, k, o);
        l.idx_prev = LinkIdx::new(if k > 1 { k - 1 } else { 0 });
        l.idx_next = LinkIdx::new(if k < n { k + 1 } else { 0 });
        net.push(l);
    }
    if o.with_flips {
        for k in 1..=n {
            let fwd = net[k as usize].clone();
            let len = fwd.length;
            let mut l = fwd.clone();
            l.idx_curr = LinkIdx::new(n + k);
            l.idx_flip = LinkIdx::new(k);
            l.idx_next = LinkIdx::new(if k > 1 { n + k - 1 } else { 0 });
            l.idx_prev = LinkIdx::new(if k < n { n + k + 1 } else { 0 });
            // mirror the geometry
            l.elevs = fwd.elevs.iter().rev().map(|e| Elev { offset: len - e.offset, elev: e.elev }).collect();
            l.headings = fwd
                .headings
                .iter()
                .rev()
                .map(|h| Heading { offset: len - h.offset, ..*h })
                .collect();
            l.cat_power_limits = vec![];
            net[k as usize].idx_flip = LinkIdx::new(n + k);
            net.push(l);
        }
    }
    net
}

pub fn route_fwd(n: usize) -> Vec<LinkIdx> {
    (1..=n as u32).map(LinkIdx::new).collect()
}
