//! SplitMix64: every random choice of the harness derives from one state (VERIF_SEED).
#[derive(Clone, Debug)]
pub struct Rng(pub u64);

impl Rng {
    pub fn new(seed: u64) -> Self {
        Rng(seed ^ 0x9E37_79B9_7F4A_7C15)
    }
    pub fn next_u64(&mut self) -> u64 {
        self.0 = self.0.wrapping_add(0x9E37_79B9_7F4A_7C15);
        let mut z = self.0;
        z = (z ^ (z >> 30)).wrapping_mul(0xBF58_476D_1CE4_E5B9);
        z = (z ^ (z >> 27)).wrapping_mul(0x94D0_49BB_1331_11EB);
        z ^ (z >> 31)
    }
    /// independent sub-stream for one case, so a case replays alone
    pub fn fork(&mut self) -> Rng {
        Rng(self.next_u64())
    }
    /// uniform in 0..n (n > 0)
    pub fn below(&mut self, n: u64) -> u64 {
        self.next_u64() % n
    }
    pub fn range(&mut self, lo: i64, hi: i64) -> i64 {
        lo + (self.below((hi - lo + 1) as u64) as i64)
    }
    pub fn usize(&mut self, lo: usize, hi: usize) -> usize {
        lo + self.below((hi - lo + 1) as u64) as usize
    }
    pub fn chance(&mut self, p: f64) -> bool {
        self.unit() < p
    }
    /// uniform in [0,1)
    pub fn unit(&mut self) -> f64 {
        (self.next_u64() >> 11) as f64 / (1u64 << 53) as f64
    }
    pub fn f64_in(&mut self, lo: f64, hi: f64) -> f64 {
        lo + (hi - lo) * self.unit()
    }
    pub fn pick<'a, T>(&mut self, xs: &'a [T]) -> &'a T {
        &xs[self.below(xs.len() as u64) as usize]
    }
    /// dyadic value k * step, k in [lo, hi]
    pub fn dyadic(&mut self, lo: i64, hi: i64, step: f64) -> f64 {
        self.range(lo, hi) as f64 * step
    }
    pub fn shuffle<T>(&mut self, xs: &mut [T]) {
        for i in (1..xs.len()).rev() {
            let j = self.below((i + 1) as u64) as usize;
            xs.swap(i, j);
        }
    }
}
