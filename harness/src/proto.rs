//! Line protocol (DESIGN.md Appendix A) and the per-run context collecting op lines,
//! implementation answers, oracle findings and distribution counters.
use std::collections::BTreeMap;
use std::fmt::Write as _;

pub fn f(x: f64) -> String {
    if x.is_nan() {
        "xNaN".to_string()
    } else if x == 0.0 {
        "x0000000000000000".to_string()
    } else {
        format!("x{:016x}", x.to_bits())
    }
}
pub fn b(x: bool) -> String {
    if x { "T".into() } else { "F".into() }
}
pub fn opt<T>(x: &Option<T>, g: impl Fn(&T) -> String) -> String {
    match x {
        None => "N".into(),
        Some(v) => format!("S {}", g(v)),
    }
}
pub fn seq<T>(xs: &[T], g: impl Fn(&T) -> String) -> String {
    let mut s = format!("[ {}", xs.len());
    for x in xs {
        let _ = write!(s, " {}", g(x));
    }
    s
}
pub fn fs(xs: &[f64]) -> String {
    seq(xs, |x| f(*x))
}

#[derive(Default)]
pub struct Finding {
    pub property: String,
    pub clause: String,
    pub case: String,
    pub detail: String,
    /// self-contained description of the failing input (replay)
    pub input: serde_json::Value,
}

#[derive(Default)]
pub struct Ctx {
    pub ops: Vec<String>,
    pub expect: Vec<String>,
    pub findings: Vec<Finding>,
    pub stats: BTreeMap<String, u64>,
    pub samples: BTreeMap<String, Vec<serde_json::Value>>,
    pub oracle_checks: BTreeMap<String, u64>,
    pub case_no: u64,
    /// property each op line belongs to (for attributing disagreements)
    pub op_props: Vec<String>,
}

impl Ctx {
    pub fn count(&mut self, key: &str) {
        *self.stats.entry(key.to_string()).or_insert(0) += 1;
    }
    pub fn count_n(&mut self, key: &str, n: u64) {
        *self.stats.entry(key.to_string()).or_insert(0) += n;
    }
    pub fn sample(&mut self, key: &str, v: serde_json::Value) {
        let e = self.samples.entry(key.to_string()).or_default();
        if e.len() < 3 {
            e.push(v);
        }
    }
    /// record one op line with the implementation's answer; `props` is a comma list
    pub fn op(&mut self, props: &str, op: &str, args: &str, answer: &str) -> String {
        self.case_no += 1;
        let id = format!("c{}", self.case_no);
        self.ops.push(format!("{} {} {}", id, op, args));
        self.expect.push(format!("{} {}", id, answer));
        self.op_props.push(props.to_string());
        self.count(&format!("op.{}", op));
        // translator tie: the same request also goes to the definition REGENERATED from the Rust text
        // (lean/Generated/Kernels.lean, lean/Generated/TrainKernels.lean; op `gen_<name>`), with the same expected answer
        const KERNEL_OPS: [&str; 20] = ["fc_set_cur_max", "fc_solve", "gen_set_cur_max", "gen_req", "edrv_set_cur_max",
            "edrv_set_regen_max", "edrv_req", "res_set_cur_max", "res_solve", "min_speed",
            // train layer (lean/Generated/TrainKernels.lean, Driver/OpsGenTrain.lean)
            "update_res", "ss_required_pwr", "ss_integrate", "ss_step", "fric_set_cur_max", "sl_required_pwr", "sl_step",
            "walk_cond", "walk_stuck", "scaling_factor"];
        if KERNEL_OPS.contains(&op) {
            self.op(props, &format!("gen_{}", op), args, answer);
        }
        id
    }
    pub fn checked(&mut self, property: &str, clause: &str) {
        *self
            .oracle_checks
            .entry(format!("{}.{}", property, clause))
            .or_insert(0) += 1;
    }
    pub fn fail(&mut self, property: &str, clause: &str, case: &str, detail: String, input: serde_json::Value) {
        // keep the (possibly large) input only for the first few findings of each clause
        let n = self.findings.iter().filter(|f| f.property == property && f.clause == clause).count();
        let input = if n < 3 { input } else { serde_json::Value::Null };
        if n >= 200 { return; }
        self.findings.push(Finding {
            property: property.into(),
            clause: clause.into(),
            case: case.into(),
            detail,
            input,
        });
    }
}

/// run a closure, turning a panic into `None` (the `panic` outcome)
pub fn guard<T>(fun: impl FnOnce() -> T) -> Option<T> {
    std::panic::catch_unwind(std::panic::AssertUnwindSafe(fun)).ok()
}

/// message of the most recent panic caught by `guard` (set by the panic hook in main.rs)
pub static LAST_PANIC: std::sync::Mutex<String> = std::sync::Mutex::new(String::new());
pub fn last_panic() -> String {
    LAST_PANIC.lock().map(|g| g.replace('\n', " ")).unwrap_or_default()
}
