import Altrios.Num
import Altrios.Protocol
import Altrios.SpeedPoints
import Altrios.Interp
import Altrios.Powertrain
import Altrios.Consist
