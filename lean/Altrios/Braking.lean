import Altrios.Num
import Altrios.SpeedPoints
import Altrios.PathTpc
import Altrios.Resist
import Altrios.Train
/-
  Model of `BrakingPoints::recalc` (`train/braking_point.rs`).                     Property C03.

  Literal transcription of the CURRENT Rust text (including the repaired line
  `speed_target: bp_curr.speed_target.min(speed_limit)`):
    * `self.points` is kept as `last :: rest` with the most recently pushed point first
      (`self.points.last().unwrap()` is `last`, never `None`); the result is the reversed list;
    * every `speed_points[idx]` is a checked access (`panic "index"`), `idx -= 1` on `0` is
      `panic "underflow"` (debug: overflow check; release: wrap-around, then out of bounds);
    * `?` / `ensure!` are `err`;
    * the three loops take fuel: the outer `while 0 < idx` and the inner
      `while bp_curr.offset <= speed_points[idx].offset` strictly decrease `idx`, so
      `speed_points.len() + 1` suffices for them; the `loop { … }` that integrates one braking curve
      has no a-priori bound (it does not terminate for `dt = 0`) and takes the caller's `curveFuel`.
  `path_tpc.offset_begin()` / `offset_end()` (`link_points.first()/last().unwrap().offset`) are
  parameters.  The rule that combines the curve's target with the limit of the slower stretch it
  breaks into is the parameter `tgtRule` of the `…With` functions, so that the proof side can also
  state what the UNREPAIRED code (`speed_target: bp_curr.speed_target`) computed; `recalc` itself
  is the instance `tgtRule = mn` = the current Rust text.
-/
namespace Altrios.Brk
open Altrios Altrios.SP Altrios.Tpc Altrios.Rs Altrios.Tr

/-- loop state of `recalc`: `idx`, the local copies `train_state` (resistance part; `dt` and the
    masses never change) and `train_res` (cached indices), and `self.points` as `last :: rest` -/
structure RcState (α : Type) where
  idx : Nat
  r : ResState α
  strap : ResStrap α
  last : BrakingPoint α
  rest : List (BrakingPoint α)

section
variable {α : Type} [Add α] [Sub α] [Mul α] [Div α] [Neg α] [LT α] [LE α]
  [DecidableLT α] [DecidableLE α] [OfNat α 0] [OfNat α 1]

def getS (l : List (Pt α)) (i : Nat) : Res (Pt α) :=
  match l[i]? with
  | some v => .ok v
  | none => .panic "index"

/-- `while bp_curr.offset <= speed_points[idx].offset { idx -= 1; }` -/
def spDescend (sps : List (Pt α)) (x : α) : Nat → Nat → Res Nat
  | 0, _ => .panic "fuel"
  | f + 1, i => do
    let p ← getS sps i
    if x ≤ p.off then (if i = 0 then .panic "underflow" else spDescend sps x f (i - 1)) else pure i

/-- `self.points.push(p)` -/
def RcState.push (st : RcState α) (p : BrakingPoint α) : RcState α :=
  { st with last := p, rest := st.last :: st.rest }

/-- the `loop { … }` "Iterate until breaking through the speed limit curve" -/
def recalcCurveWith (tgtRule : α → α → α) (half g rho : α) (grades curves : List (PRC α))
    (sps : List (Pt α)) (offsetBegin forceMax dt massRot : α) : Nat → RcState α → Res (RcState α)
  | 0, _ => .panic "fuel"
  | f + 1, st => do
    let cur := st.last                                             -- `bp_curr`
    let idx ← spDescend sps cur.off (sps.length + 1) st.idx        -- "Update speed limit"
    let sp ← getS sps idx
    let speedLimit := absv sp.spd
    let (strap, r) ← updateRes g rho grades curves st.strap
      { st.r with offset := cur.off, speed := cur.limit } .bwd
    ensure (decide (0 < forceMax + resNet r)) "insufficient-braking-force"
    let velChange := dt * (forceMax + resNet r) / (r.massStatic + massRot)
    let st : RcState α := { st with idx := idx, r := r, strap := strap }
    if speedLimit < cur.limit + velChange then
      -- the next braking curve point would exceed the speed limit
      let st := st.push ⟨cur.off - dt * speedLimit, speedLimit, tgtRule cur.target speedLimit⟩
      if eqb cur.limit speedLimit then pure st                     -- `break`
      else if st.last.off < offsetBegin then pure st               -- passed the beginning of the path
      else recalcCurveWith tgtRule half g rho grades curves sps offsetBegin forceMax dt massRot f st
    else
      -- normal point of the braking curve
      let st := st.push ⟨cur.off - dt * (cur.limit + half * velChange), cur.limit + velChange, cur.target⟩
      if st.last.off < offsetBegin then pure st
      else recalcCurveWith tgtRule half g rho grades curves sps offsetBegin forceMax dt massRot f st

/-- `while 0 < idx { idx -= 1; if … { loop … } self.points.push(speed point) }` -/
def recalcOuterWith (tgtRule : α → α → α) (half g rho : α) (grades curves : List (PRC α))
    (sps : List (Pt α)) (offsetBegin forceMax dt massRot : α) (curveFuel : Nat) :
    Nat → RcState α → Res (RcState α)
  | 0, _ => .panic "fuel"
  | f + 1, st =>
    if 0 < st.idx then do
      let st : RcState α := { st with idx := st.idx - 1 }
      let sp ← getS sps st.idx
      let st ← (if st.last.limit < absv sp.spd then
          recalcCurveWith tgtRule half g rho grades curves sps offsetBegin forceMax dt massRot curveFuel st
        else pure st)
      let sp ← getS sps st.idx
      recalcOuterWith tgtRule half g rho grades curves sps offsetBegin forceMax dt massRot curveFuel f
        (st.push ⟨sp.off, absv sp.spd, absv sp.spd⟩)
    else pure st

/-- `BrakingPoints::recalc(train_state, fric_brake, train_res, path_tpc)` with the target rule as a
    parameter; `half = 0.5`, `g` = ACC_GRAV, `rho` = rho_air() -/
def recalcWith (tgtRule : α → α → α) (half g rho : α) (grades curves : List (PRC α)) (sps : List (Pt α))
    (offsetBegin offsetEnd : α) (strap : ResStrap α) (s : TrainState α) (forceMax : α)
    (curveFuel : Nat) : Res (BrakingPoints α) := do
  let (strap, r) ← updateRes g rho grades curves strap { s.r with offset := offsetEnd, speed := 0 } .unk
  let st ← recalcOuterWith tgtRule half g rho grades curves sps offsetBegin forceMax s.k.dt s.k.massRot
    curveFuel (sps.length + 1)
    { idx := sps.length, r := r, strap := strap, last := ⟨offsetEnd, 0, 0⟩, rest := [] }
  let pts := (st.last :: st.rest).reverse
  pure ⟨pts, pts.length - 1⟩

/-- `BrakingPoints::recalc`, current Rust text: `speed_target: bp_curr.speed_target.min(speed_limit)` -/
def recalc (half g rho : α) (grades curves : List (PRC α)) (sps : List (Pt α))
    (offsetBegin offsetEnd : α) (strap : ResStrap α) (s : TrainState α) (forceMax : α)
    (curveFuel : Nat) : Res (BrakingPoints α) :=
  recalcWith mn half g rho grades curves sps offsetBegin offsetEnd strap s forceMax curveFuel

end
end Altrios.Brk
