import Altrios.Powertrain
/-
  Model of `consist/consist_model.rs` (set_cur_pwr_max_out, solve_energy_consumption,
  set_pwr_dyn_brake_max, get_energy_fuel, get_net_energy_res), `consist/consist_utils.rs`
  (Proportional, RESGreedy, solve_negative_traction) and `ConsistSimulation::solve_step`.
  Properties C01, C09, C10, C11.
-/
namespace Altrios.CS
open Altrios Altrios.PT

inductive Policy | proportional | resGreedy
  deriving Repr, DecidableEq

structure ConsistState (α : Type) where
  pwrOutMax : α
  pwrRateOutMax : α
  pwrRegenMax : α
  pwrOutMaxReves : α
  pwrOutDeficit : α
  pwrOutMaxNonReves : α
  pwrRegenDeficit : α
  pwrDynBrakeMax : α
  pwrOutReq : α
  pwrOut : α
  pwrReves : α
  pwrFuel : α
  energyOut : α
  energyOutPos : α
  energyOutNeg : α
  energyRes : α
  energyFuel : α
  deriving Repr

structure Consist (α : Type) where
  locos : List (Loco α)
  pdct : Policy
  assertLimits : Bool
  state : ConsistState α
  deriving Repr

section
variable {α : Type} [Add α] [Sub α] [Mul α] [Div α] [Neg α] [LT α] [LE α]
  [DecidableLT α] [DecidableLE α] [OfNat α 0] [OfNat α 1]

def mapM' {σ τ : Type} (f : σ → Res τ) : List σ → Res (List τ)
  | [] => .ok []
  | x :: xs => do let y ← f x; let ys ← mapM' f xs; pure (y :: ys)

/-- `Consist::set_pwr_aux(engine_on)` -/
def consistSetAux (c : Consist α) (engineOn : Option Bool) : Consist α :=
  { c with locos := c.locos.map (fun l => locoSetAux l engineOn) }

/-- `Consist::set_cur_pwr_max_out(None, dt)` -/
def consistSetCurMax (k : Consts α) (c : Consist α) (dt : α) : Res (Consist α) := do
  let locos ← mapM' (fun l => locoSetCurMax k l dt) c.locos
  let outMax := sumLeft (locos.map (·.state.pwrOutMax))
  let rate := sumLeft (locos.map (·.state.pwrRateOutMax))
  let regen := sumLeft (locos.map (·.state.pwrRegenMax))
  let reves := sumLeft (locos.map (fun l => if l.pt.isBel then l.state.pwrOutMax else 0))
  pure { c with locos := locos,
                state := { c.state with
                  pwrOutMax := outMax, pwrRateOutMax := rate, pwrRegenMax := regen,
                  pwrOutMaxReves := reves, pwrOutMaxNonReves := outMax - reves } }

/-- `Proportional::solve_positive_traction` -/
def splitProp (locos : List (Loco α)) (s : ConsistState α) : List α :=
  locos.map (fun l => l.state.pwrOutMax / s.pwrOutMax * s.pwrOutReq)

/-- `RESGreedy::solve_positive_traction`; the trailing `assert_almost_eq_uom` is a panic -/
def splitGreedy (k : Consts α) (locos : List (Loco α)) (s : ConsistState α) : Res (List α) :=
  let v : List α :=
    if eqb s.pwrOutDeficit 0 then
      locos.map (fun l => if l.pt.isBel then l.state.pwrOutMax / s.pwrOutMaxReves * s.pwrOutReq else 0)
    else
      locos.map (fun l => if l.pt.isBel then l.state.pwrOutMax
                          else l.state.pwrOutMax / s.pwrOutMaxNonReves * s.pwrOutDeficit)
  if almostEq (sumLeft v) s.pwrOutReq k.eps then .ok v else .panic "res-greedy-sum"

/-- `get_pwr_regen_vec` -/
def regenVec (locos : List (Loco α)) (frac : α) : List α :=
  locos.map (fun l => if l.pt.isBel then l.state.pwrRegenMax * frac else 0)

/-- `solve_negative_traction` (shared by both policies) -/
def splitNeg (locos : List (Loco α)) (s : ConsistState α) : Res (List α) := do
  let brake := -s.pwrOutReq
  let frac := if eqb s.pwrRegenMax 0 then 0 else mn (brake / s.pwrRegenMax) 1
  let v ← (if eqb s.pwrRegenDeficit 0 then pure (regenVec locos frac)
    else do
      let rv := regenVec locos frac
      let surplus := List.zipWith (fun (l : Loco α) r => l.pt.edrv.pwrOutMax - r) locos rv
      let surplusSum := sumLeft surplus
      let sf := s.pwrRegenDeficit / surplusSum
      ensure (decide (0 ≤ sf) && decide (sf ≤ 1)) "surplus-frac"
      pure (List.zipWith (fun sp r => sp * sf + r) surplus rv))
  pure (v.map (fun x => -x))

def dynBrakeMax (locos : List (Loco α)) : α := sumLeft (locos.map (·.pt.edrv.pwrOutMax))

def pwrFuelOf (l : Loco α) : α := match l.pt with | .conv fc _ _ => fc.state.pwrFuel | .bel .. => 0
def pwrChemOf (l : Loco α) : α := match l.pt with | .conv .. => 0 | .bel r _ => r.state.pwrOutChemical
def energyFuelOf (l : Loco α) : α := match l.pt with | .conv fc _ _ => fc.state.energyFuel | .bel .. => 0
def energyChemOf (l : Loco α) : α := match l.pt with | .conv .. => 0 | .bel r _ => r.state.energyOutChemical

/-- solve each unit with its share, in order; the first error aborts -/
def solveUnits (k : Consts α) (dt : α) (engineOn : Option Bool) : List (Loco α) → List α → Res (List (Loco α))
  | l :: ls, p :: ps => do
    let l' ← locoSolve k l p dt engineOn
    let ls' ← solveUnits k dt engineOn ls ps
    pure (l' :: ls')
  | _, _ => .ok []     -- `zip` stops at the shorter one

/-- `Consist::solve_energy_consumption(pwr_out_req, dt, engine_on)` -/
def consistSolve (k : Consts α) (c : Consist α) (req dt : α) (engineOn : Option Bool) : Res (Consist α) := do
  let s := c.state
  if c.assertLimits then
    ensure (decide (-req ≤ s.pwrDynBrakeMax)) "consist-brake-max"
    ensure (decide (req ≤ s.pwrOutMax)) "consist-out-max"
  let s := { s with pwrOutReq := req,
                    pwrOutDeficit := mx (req - s.pwrOutMaxReves) 0,
                    pwrRegenDeficit := mx (-req - s.pwrRegenMax) 0,
                    pwrDynBrakeMax := dynBrakeMax c.locos }
  let shares ← (if 0 < req then
                  (match c.pdct with
                   | .proportional => pure (splitProp c.locos s)
                   | .resGreedy => splitGreedy k c.locos s)
                else if req < 0 then splitNeg c.locos s
                else pure (c.locos.map (fun _ => 0)))
  let pwrOut := sumLeft shares
  if c.assertLimits then
    ensure (almostEq req pwrOut k.eps) "consist-sum-mismatch"
  let locos ← solveUnits k dt engineOn c.locos shares
  let pwrFuel := sumLeft (locos.map pwrFuelOf)
  let pwrReves := sumLeft (locos.map pwrChemOf)
  let s := { s with pwrOut := pwrOut, pwrFuel := pwrFuel, pwrReves := pwrReves,
                    energyOut := s.energyOut + pwrOut * dt,
                    energyOutPos := if 0 ≤ pwrOut then s.energyOutPos + pwrOut * dt else s.energyOutPos,
                    energyOutNeg := if 0 ≤ pwrOut then s.energyOutNeg else s.energyOutNeg - pwrOut * dt,
                    energyFuel := s.energyFuel + pwrFuel * dt,
                    energyRes := s.energyRes + pwrReves * dt }
  pure { c with locos := locos, state := s }

/-- `ConsistSimulation::solve_step` for one trace sample -/
def consistSimStep (k : Consts α) (c : Consist α) (req dt : α) : Res (Consist α) := do
  let c := consistSetAux c (some true)
  let c ← consistSetCurMax k c dt
  consistSolve k c req dt (some true)

/-- `Consist::get_energy_fuel` / `get_net_energy_res` -/
def getEnergyFuel (c : Consist α) : α := sumLeft (c.locos.map energyFuelOf)
def getNetEnergyRes (c : Consist α) : α := sumLeft (c.locos.map energyChemOf)

end
end Altrios.CS
