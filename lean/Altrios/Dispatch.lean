import Altrios.Num
/-
  Model of the authority table of the meet-pass dispatcher (property C04):
    `meet_pass/dispatch.rs`            `run_dispatch`: `link_disp_auths : Vec<Vec<DispAuth>>`, one list per
                                       directed link, first element a sentinel with all four times `-∞`;
    `meet_pass/train_disp/advance_rewind.rs`
        `TrainDisp::advance`           arrive node: entry time = the max expression `gate`, the authority the
                                       front leaves gets `arrive_exit`, a fresh authority is pushed;
                                       clear node: the authority the tail leaves gets `clear_exit`, the last
                                       authority of the link the tail enters gets `clear_entry`;
        `TrainDisp::rewind`            pops / resets exactly those fields to `+∞`;
        `TrainDisp::update_occupancy`  early exit (train reached the end of its path while its tail is still
                                       on some links): closes `arrive_exit`, `clear_entry` (after fix C04-fix-1;
                                       the pinned code wrote `arrive_entry` instead), `clear_exit`.

  The time type `τ` is the code's own extended time line: `f64` *with* its infinities (the driver runs
  the model at `Float`); `inf : τ` is `+∞`, which the code uses for "not yet happened" — an authority
  whose `clear_exit` is `inf` is still held.  Only `<`, `≤`, `+`, `max`, `min` are used.
  Which node a train advances over next is decided by the routing search (`free_path.rs`), which is NOT
  modelled: the model is the table, the operations on it, and the time gate.
-/
namespace Altrios.Dispatch
open Altrios

/-- `DispAuth` without the two offsets (`offset_back == +∞` ⇔ `clear_exit` finite is checked on every snapshot). -/
structure Auth (τ : Type) where
  ae : τ        -- arrive_entry : front enters the link
  ax : τ        -- arrive_exit  : front leaves the link
  ce : τ        -- clear_entry  : tail enters the link
  cx : τ        -- clear_exit   : tail leaves the link
  train : Nat   -- 0 = `None` (the sentinel)
  deriving Repr, BEq, DecidableEq

/-- `link_disp_auths`, indexed by link -/
abbrev Table (τ : Type) := List (List (Auth τ))

/-- what `advance` reads of the network -/
structure Net where
  flip : Nat → Nat               -- `idx_flip`
  lockouts : Nat → List Nat      -- `link_idxs_lockout`

/-- the links whose occupancy excludes occupancy of `L` -/
def Net.conf (net : Net) (L : Nat) : List Nat := net.flip L :: net.lockouts L

section
variable {τ : Type} [LT τ] [LE τ] [DecidableLT τ] [DecidableLE τ] [Add τ]

def link (tbl : Table τ) (L : Nat) : List (Auth τ) := tbl.getD L []
/-- `link_disp_auths[L].last()` (`unwrap` panics on `none`) -/
def lastAuth (tbl : Table τ) (L : Nat) : Option (Auth τ) := (link tbl L).getLast?
def authAt (tbl : Table τ) (L i : Nat) : Option (Auth τ) := (link tbl L)[i]?

/-- `DispAuth { arrive_entry: t, train_idx, ..Default::default() }` -/
def fresh (inf t : τ) (train : Nat) : Auth τ := ⟨t, inf, inf, inf, train⟩

/-! ### The gate: `time_update_next` at the moment an arrive node of link `L` pushes its authority -/

/-- the loop over `link_idxs_lockout` -/
def gateLock (tbl : Table τ) (overlap startup : τ) : List Nat → τ → Option τ
  | [], t => some t
  | lk :: ls, t =>
    match lastAuth tbl lk with
    | none => none
    | some a => gateLock tbl overlap startup ls (mx t (a.cx + overlap + startup))

/-- Literal transcription of advance_rewind.rs:150–205.  `t0` is `time_update_next` on reaching the node
    (the train's own running time), `startup = speed / acc_startup`, `front` the (link, index) of the
    authority the front of the train leaves (`disp_node_idx_front`), if any.  `none` = a `last().unwrap()`
    or index panic. -/
def gate (net : Net) (spacing overlap startup : τ) (tbl : Table τ) (L : Nat) (t0 : τ)
    (front : Option (Nat × Nat)) : Option τ :=
  match lastAuth tbl L, lastAuth tbl (net.flip L) with
  | some prev, some fl =>
    -- same direction as the previous train iff `disp_auth_prev.clear_exit >= flip_clear_exit`
    let tmax := if fl.cx ≤ prev.cx then prev.ce + spacing else fl.cx + startup
    let t1 := mx t0 tmax
    match (if L ≠ 0 then gateLock tbl overlap startup (net.lockouts L) t1 else some t1) with
    | none => none
    | some t2 =>
      match front with
      | none => some t2
      | some (Lx, ix) =>
        if ix = 0 then none else
        match authAt tbl Lx (ix - 1) with
        | none => none
        | some p => some (mx t2 (p.cx + spacing))
  | _, _ => none

/-- what the gate guarantees about the entry time `t` of link `L`, term by term (startup dropped: it is `≥ 0`) -/
def entryOk (net : Net) (spacing overlap : τ) (tbl : Table τ) (L : Nat) (t : τ) : Bool :=
  (match lastAuth tbl L, lastAuth tbl (net.flip L) with
   | some prev, some fl => if fl.cx ≤ prev.cx then decide (prev.ce + spacing ≤ t) else decide (fl.cx ≤ t)
   | _, _ => false) &&
  (net.lockouts L).all fun lk =>
    match lastAuth tbl lk with
    | some a => decide (a.cx + overlap ≤ t)
    | none => false

/-! ### Table operations -/

inductive Op (τ : Type) where
  | push (L train : Nat) (t : τ)    -- arrive node: `disp_auths_curr.push(..)`
  | setAx (L i : Nat) (t : τ)       -- arrive node: `disp_auth_exit.arrive_exit = t`
  | setCe (L i : Nat) (t : τ)       -- clear node:  `disp_auth_curr.clear_entry = t`
  | setCx (L i : Nat) (t : τ)       -- clear node:  `disp_auth_exit.clear_exit = t`
  | fin (L i : Nat) (t : τ)         -- update_occupancy, train has left: min/min/assign
  | pop (L : Nat)                   -- rewind of an arrive node
  | rAx (L i : Nat)                 -- rewind: `arrive_exit = +∞`
  | rCe (L i : Nat)                 -- rewind: `clear_entry = +∞`
  | rCx (L i : Nat)                 -- rewind: `clear_exit = +∞`
  deriving Repr

def Op.link : Op τ → Nat
  | .push L _ _ | .setAx L _ _ | .setCe L _ _ | .setCx L _ _ | .fin L _ _ | .pop L | .rAx L _ | .rCe L _ | .rCx L _ => L

def modAt (tbl : Table τ) (L i : Nat) (f : Auth τ → Auth τ) : Option (Table τ) :=
  match (link tbl L)[i]? with
  | none => none
  | some a => some (tbl.set L ((link tbl L).set i (f a)))

/-- effect of one operation (`none` = index out of range, a panic in the code) -/
def step (inf : τ) (tbl : Table τ) : Op τ → Option (Table τ)
  | .push L train t =>
    if L < tbl.length then some (tbl.set L (link tbl L ++ [fresh inf t train])) else none
  | .setAx L i t => modAt tbl L i (fun a => { a with ax := t })
  | .setCe L i t => modAt tbl L i (fun a => { a with ce := t })
  | .setCx L i t => modAt tbl L i (fun a => { a with cx := t })
  | .fin L i t => modAt tbl L i (fun a => { a with ax := mn a.ax t, ce := mn a.ce t, cx := t })
  | .pop L =>
    if 2 ≤ (link tbl L).length then some (tbl.set L (link tbl L).dropLast) else none
  | .rAx L i => modAt tbl L i (fun a => { a with ax := inf })
  | .rCe L i => modAt tbl L i (fun a => { a with ce := inf })
  | .rCx L i => modAt tbl L i (fun a => { a with cx := inf })

/-- Side conditions under which an operation keeps the table conflict-free.  For `push`/`setAx` they are
    what `gate` delivers; for the closing operations they say that a train's own event times do not run
    backwards; `leaderGone = true` adds, for `fin`, that the train ahead has left the link (the pinned
    code does NOT guarantee this: known finding "early exit behind a leader"). -/
def preOp (leaderGone : Bool) (net : Net) (spacing overlap inf : τ) (tbl : Table τ) : Op τ → Bool
  | .push L _ t => decide (t < inf) && entryOk net spacing overlap tbl L t
  | .setAx L i t =>
    decide (1 ≤ i) &&
    match authAt tbl L i, authAt tbl L (i - 1) with
    | some a, some p => decide (a.ae ≤ t) && decide (t ≤ a.cx) && decide (p.cx + spacing ≤ t)
    | _, _ => false
  | .setCe L i t =>
    decide (i + 1 = (link tbl L).length) &&
    match authAt tbl L i with
    | some a => decide (a.ae ≤ t) && decide (t ≤ a.cx)
    | none => false
  | .setCx L i t =>
    match authAt tbl L i with
    | some a => decide (a.ce ≤ t) && decide (a.ax ≤ t) && decide (t ≤ a.cx)
    | none => false
  | .fin L i t =>
    decide (1 ≤ i) &&
    match authAt tbl L i, authAt tbl L (i - 1) with
    | some a, some p => decide (a.ae ≤ t) && decide (t ≤ a.cx) && (!leaderGone || decide (p.cx ≤ t))
    | _, _ => false
  | .pop L => decide (2 ≤ (link tbl L).length)
  | .rAx L i =>
    match authAt tbl L i with
    | some a => decide (inf ≤ a.cx)
    | none => false
  | .rCe L i =>
    decide (i + 1 = (link tbl L).length) &&
    match authAt tbl L i with
    | some a => decide (inf ≤ a.cx)
    | none => false
  | .rCx L i =>
    match authAt tbl L i with
    | none => false
    | some a =>
      -- the front left the link for real (the authority was not closed by the early-exit branch)
      (decide (a.ax < a.cx) || decide (inf ≤ a.ax)) &&
      -- a follower that entered behind this authority is still behind it
      (match authAt tbl L (i + 1) with
       | none => true
       | some s => decide (a.ce + spacing ≤ s.ae) && decide (inf ≤ s.ax) && decide (inf ≤ s.cx)) &&
      -- no conflicting authority was granted after it
      (net.conf L).all fun M => (link tbl M).all fun b => decide (b.cx ≤ a.ae) || decide (b.cx ≤ b.ae)

/-- every operation of the code is on a real link (`link_idx.is_real()`): link 0 is the fake link -/
def preG (leaderGone : Bool) (net : Net) (spacing overlap inf : τ) (tbl : Table τ) (op : Op τ) : Bool :=
  decide (op.link ≠ 0) && preOp leaderGone net spacing overlap inf tbl op

/-- the conditions the proofs need -/
def pre (net : Net) (spacing overlap inf : τ) (tbl : Table τ) (op : Op τ) : Bool :=
  preG true net spacing overlap inf tbl op
/-- the conditions the pinned code establishes -/
def preCode (net : Net) (spacing overlap inf : τ) (tbl : Table τ) (op : Op τ) : Bool :=
  preG false net spacing overlap inf tbl op

/-- run a list of operations; `(all side conditions held, final table)` -/
def run (net : Net) (spacing overlap inf : τ) : Table τ → List (Op τ) → Option (Bool × Table τ)
  | tbl, [] => some (true, tbl)
  | tbl, op :: ops =>
    match step inf tbl op with
    | none => none
    | some tbl' =>
      match run net spacing overlap inf tbl' ops with
      | none => none
      | some (ok, t) => some (pre net spacing overlap inf tbl op && ok, t)

/-! ### The decision procedure for a table -/

def wfB (inf : τ) (a : Auth τ) : Bool :=
  decide (a.ae ≤ a.ce) && decide (a.ce ≤ a.cx) && decide (a.ax ≤ a.cx) && decide (a.ae < inf)
/-- the occupancy window `[ae, cx)` has no duration -/
def emptyB (a : Auth τ) : Bool := decide (a.cx ≤ a.ae)
/-- the occupancy windows share no time of positive length -/
def disjB (a b : Auth τ) : Bool :=
  emptyB a || emptyB b || decide (b.cx ≤ a.ae) || decide (a.cx ≤ b.ae)
/-- `b` is the next authority after `a` on one directed link -/
def seqB (spacing : τ) (a b : Auth τ) : Bool :=
  (decide (a.ce + spacing ≤ b.ae) || decide (a.cx ≤ b.ae)) &&
  (decide (a.cx + spacing ≤ b.ax) || (decide (b.ax ≤ b.cx) && decide (b.cx ≤ b.ax))) &&
  decide (a.cx ≤ b.cx)

def chainB (r : Auth τ → Auth τ → Bool) : List (Auth τ) → Bool
  | a :: b :: t => r a b && chainB r (b :: t)
  | _ => true

def planOk (net : Net) (spacing inf : τ) (tbl : Table τ) : Bool :=
  (List.range tbl.length).all fun L =>
    (link tbl L).all (wfB inf) && chainB (seqB spacing) (link tbl L) &&
    (net.conf L).all fun M => (link tbl L).all fun a => (link tbl M).all fun b => disjB a b

/-- `links_blocked` (0 = `None`) covers the table: every real link that conflicts with a link on which some
    authority is still held (`clear_exit = inf`) is marked blocked.  This is how `update_occupancy` /
    `update_links_blocked` tell the routing search which links are "currently held". -/
def blockedOk (net : Net) (inf : τ) (tbl : Table τ) (blocked : List Nat) : Bool :=
  (List.range tbl.length).all fun y =>
    (link tbl y).all fun a => !(decide (inf ≤ a.cx)) ||
      (net.conf y).all fun x => x == 0 || blocked.getD x 0 != 0

/-- on the real links `1 … n-1`, `conf` is irreflexive and symmetric (flip pairs are validated by
    `[Link]::validate`; lockout declarations are not validated at all) -/
def netOk (net : Net) (n : Nat) : Bool :=
  (List.range n).all fun L => L == 0 ||
    (!(net.conf L).contains L &&
     (List.range n).all fun K => !(net.conf K).contains L || (net.conf L).contains K)

end
end Altrios.Dispatch
