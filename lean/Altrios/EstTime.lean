import Altrios.Num
/-
  Model of `meet_pass/est_times` (property C15).

  * `Node`, the estimated-time graph as the vector `EstTimeNet.val` stores it (index 0 is both the start
    node and `EST_IDX_NA`, exactly as in the code).
  * `updateForward` / `updateBackward`: literal transcriptions of `update_times.rs` (every index a checked
    access = the `panic` outcome, every `assert!` a `panic`, the binary heaps replaced by lists with
    explicit extraction of the same extremal element, loops with fuel).  `time_sched` is `Option α`:
    `none` is `TIME_NAN`, which the forward pass uses as its "not yet reached" mark.
  * `estNetCheck`: a DECISION PROCEDURE for the clauses of C15 on a finished graph, written independently
    of how the graph was built (construction by simulation is not modelled): link consistency, a computed
    and then validated rank (every walk reaches the end), a subset-construction run of the route automaton
    validated on every link, finiteness / sign of times, tightness of every `idx_next` link and
    "alternate not later" for every `idx_next_alt` link.  Soundness is proved in `Proofs/C15.lean`.
  * `fwdCheck`: the same for the output of the forward pass alone (shortest path from the start, exact).
-/
namespace Altrios.Est
open Altrios

inductive Ty | arrive | clear | fake
  deriving Repr, DecidableEq

structure Node (α : Type) where
  ts : Option α        -- time_sched (`none` = NaN)
  ttn : α              -- time_to_next
  dist : α             -- dist_to_next
  speed : α
  next : Nat           -- idx_next      (0 = EST_IDX_NA)
  nextAlt : Nat        -- idx_next_alt
  prev : Nat           -- idx_prev
  prevAlt : Nat        -- idx_prev_alt
  link : Nat           -- link_event.link_idx
  ty : Ty              -- link_event.est_type
  deriving Repr

abbrev Graph (α : Type) := Array (Node α)

section
variable {α : Type} [Add α] [Sub α] [Mul α] [Div α] [Neg α] [LT α] [LE α]
  [DecidableLT α] [DecidableLE α] [OfNat α 0] [OfNat α 1]

def Node.dflt : Node α := ⟨none, 0, 0, 0, 0, 0, 0, 0, 0, .fake⟩

/-! ## The two passes, literally -/

def getN (g : Graph α) (i : Nat) : Res (Node α) :=
  match g[i]? with
  | some x => .ok x
  | none => .panic "index"

def modN (g : Graph α) (i : Nat) (f : Node α → Node α) : Res (Graph α) :=
  match g[i]? with
  | some x => .ok (g.setIfInBounds i (f x))
  | none => .panic "index"

def getB (p : Array Bool) (i : Nat) : Res Bool :=
  match p[i]? with
  | some x => .ok x
  | none => .panic "index"

def setB (p : Array Bool) (i : Nat) : Res (Array Bool) :=
  if i < p.size then .ok (p.setIfInBounds i true) else .panic "index"

/-- `EstTimeNext::new` / `EstTimePrev::new`: `assert!(!t.is_nan())` -/
def notNan (t : Option α) : Res α :=
  match t with
  | some v => .ok v
  | none => .panic "assert-nan"

def check (c : Bool) : Res Unit := if c then .ok () else .panic "assert"

/-! ### forward -/

/-- `Ord for EstTimeNext` is reversed so that the max-heap pops the smallest `(time_next, est_idx)` -/
def fwdBefore (a b : α × Nat) : Bool :=
  decide (a.1 < b.1) || (!(decide (b.1 < a.1)) && decide (a.2 < b.2))

/-- position of the element a heap ordered by `before` pops -/
def bestIdx {β : Type} (before : β → β → Bool) : List β → Option (Nat × β)
  | [] => none
  | x :: xs =>
    match bestIdx before xs with
    | none => some (0, x)
    | some (i, y) => if before y x then some (i + 1, y) else some (0, x)

def popBest {β : Type} (before : β → β → Bool) (q : List β) : Option (β × List β) :=
  match bestIdx before q with
  | none => none
  | some (i, y) => some (y, q.eraseIdx i)

/-- "Iterate while the next node is a non-passed, non-base join node" -/
def fwdSkip (g : Graph α) : Nat → Nat → Res Nat
  | 0, _ => .panic "fuel"
  | f + 1, idxNext => do
    let en ← getN g idxNext
    if en.ty = .fake then
      let nn ← getN g en.next
      if nn.ts.isNone && en.next != g.size - 1 then fwdSkip g f en.next else pure idxNext
    else pure idxNext

/-- `push_next_alts`: schedule the chain of alternate (fake) nodes hanging off a node that has just been
    scheduled and add them to the queue -/
def pushNextAlts : Nat → Graph α → List (α × Nat) → Nat → Res (Graph α × List (α × Nat))
  | 0, _, _, _ => .panic "fuel"
  | f + 1, g, q, idxCurr => do
    let c ← getN g idxCurr
    if c.nextAlt = 0 then pure (g, q) else
    let g ← modN g c.nextAlt (fun x => { x with ts := c.ts })
    let a ← getN g c.nextAlt
    let t ← notNan (a.ts.map (· + a.ttn))
    pushNextAlts f g ((t, c.nextAlt) :: q) c.nextAlt

/-- "Iterate until reaching any join node (but also process the first node)" -/
def fwdChain : Nat → Graph α → List (α × Nat) → Nat → Nat → Res (Graph α × List (α × Nat) × Nat × Nat)
  | 0, _, _, _, _ => .panic "fuel"
  | f + 1, g, q, idxCurr, idxNext => do
    let nx ← getN g idxNext
    check nx.ts.isNone
    let c ← getN g idxCurr
    let g ← modN g idxNext (fun x => { x with ts := c.ts.map (· + c.ttn) })
    let idxCurr := idxNext
    let nx ← getN g idxNext
    let idxNext := nx.next
    let (g, q) ← pushNextAlts (g.size + 1) g q idxCurr
    let nn ← getN g idxNext
    if nn.prevAlt != 0 || nn.ty = .fake then pure (g, q, idxCurr, idxNext)
    else fwdChain f g q idxCurr idxNext

def fwdLoop : Nat → Graph α → List (α × Nat) → Res (Graph α)
  | 0, _, _ => .panic "fuel"
  | f + 1, g, q =>
    match popBest fwdBefore q with
    | none => .ok g
    | some ((_, idxCurr), q) => do
      let c ← getN g idxCurr
      let idxNext := c.next
      check c.ts.isSome
      let nx ← getN g idxNext
      check nx.ts.isNone
      -- find and swap join nodes
      let idxSave := idxNext
      let idxNext ← fwdSkip g (g.size + 1) idxNext
      let g ← (if idxSave != idxNext then do
          let jn ← getN g idxNext
          let idxBase := jn.prev
          let g ← modN g idxCurr (fun x => { x with next := idxNext })
          let g ← modN g idxBase (fun x => { x with next := idxSave })
          let g ← modN g idxSave (fun x => { x with prev := idxBase })
          modN g idxNext (fun x => { x with prev := idxCurr })
        else pure g)
      let (g, q, idxCurr, idxNext) ← fwdChain (g.size + 1) g q idxCurr idxNext
      let nn ← getN g idxNext
      let cc ← getN g idxCurr
      if nn.ts.isNone then
        if nn.next = 0 then do
          let g ← modN g idxNext (fun x => { x with ts := cc.ts })
          fwdLoop f g q
        else do
          check (cc.ty != .fake)
          let t ← notNan (cc.ts.map (· + cc.ttn))
          fwdLoop f g ((t, idxCurr) :: q)
      else do
        check (cc.ty = .fake)
        check (idxCurr = nn.prevAlt)
        fwdLoop f g q

/-- `update_times_forward(est_times, time_depart)` -/
def updateForward (g : Graph α) (depart : α) : Res (Graph α) := do
  let g ← modN g 0 (fun x => { x with ts := some depart })
  let g ← modN g 1 (fun x => { x with ts := some depart })
  let (g, q) ← pushNextAlts (g.size + 1) g [(depart, 1)] 1
  fwdLoop (2 * g.size + 2) g q

/-! ### backward -/

/-- derived `PartialOrd` on `(time_prev, time_sub, est_idx)`, the max-heap pops the largest -/
def bwdBefore (a b : α × α × Nat) : Bool :=
  decide (b.1 < a.1) || (!(decide (a.1 < b.1)) &&
    (decide (b.2.1 < a.2.1) || (!(decide (a.2.1 < b.2.1)) && decide (b.2.2 < a.2.2))))

def optSub (a b : Option α) : Option α :=
  match a, b with
  | some x, some y => some (x - y)
  | _, _ => none

/-- "Iterate while the prev node is a non-passed, non-base split node" -/
def bwdSkip (g : Graph α) (passed : Array Bool) : Nat → Nat → Res Nat
  | 0, _ => .panic "fuel"
  | f + 1, idxPrev => do
    let ep ← getN g idxPrev
    if ep.ty = .fake then
      let pp ← getB passed ep.prev
      if !pp && ep.prev != 0 then bwdSkip g passed f ep.prev else pure idxPrev
    else pure idxPrev

/-- `push_prev_alts`: mark the chain of alternate previous (fake) nodes of a node that has just been
    passed, record their slack, add them to the queue keyed by the time their own previous node would get -/
def pushPrevAlts : Nat → Graph α → Array Bool → List (α × α × Nat) → Nat →
    Res (Graph α × Array Bool × List (α × α × Nat))
  | 0, _, _, _, _ => .panic "fuel"
  | f + 1, g, passed, q, idxCurr => do
    let c ← getN g idxCurr
    if c.prevAlt = 0 then pure (g, passed, q) else
    let timeSched := c.ts
    let a ← getN g c.prevAlt
    let timeSubAlt := optSub a.ts timeSched
    let g ← modN g c.prevAlt (fun x => { x with ts := timeSched })
    let passed ← setB passed c.prevAlt
    let a ← getN g c.prevAlt
    let ap ← getN g a.prev
    let k ← notNan (optSub timeSched (some ap.ttn))
    let s ← notNan timeSubAlt
    pushPrevAlts f g passed ((k, s, c.prevAlt) :: q) c.prevAlt

/-- "Iterate until reaching any split node (but process the first node)" -/
def bwdChain (timeSub : α) : Nat → Graph α → Array Bool → List (α × α × Nat) → Nat → Nat →
    Res (Graph α × Array Bool × List (α × α × Nat) × Nat × Nat)
  | 0, _, _, _, _, _ => .panic "fuel"
  | f + 1, g, passed, q, _, idxPrev => do
    let pp ← getB passed idxPrev
    check (!pp)
    let g ← modN g idxPrev (fun x => { x with ts := optSub x.ts (some timeSub) })
    let passed ← setB passed idxPrev
    let idxCurr := idxPrev
    let p ← getN g idxPrev
    let idxPrev := p.prev
    let (g, passed, q) ← pushPrevAlts (g.size + 1) g passed q idxCurr
    let pn ← getN g idxPrev
    if pn.nextAlt != 0 || pn.ty = .fake then pure (g, passed, q, idxCurr, idxPrev)
    else bwdChain timeSub f g passed q idxCurr idxPrev

def bwdLoop : Nat → Graph α → Array Bool → List (α × α × Nat) → Res (Graph α)
  | 0, _, _, _ => .panic "fuel"
  | f + 1, g, passed, q =>
    match popBest bwdBefore q with
    | none => .ok g
    | some ((_, timeSub, idxCurr), q) => do
      let c ← getN g idxCurr
      let idxPrev := c.prev
      let pc ← getB passed idxCurr
      check pc
      let pp ← getB passed idxPrev
      check (!pp)
      -- find and swap split nodes
      let idxSave := idxPrev
      let idxPrev ← bwdSkip g passed (g.size + 1) idxPrev
      let g ← (if idxSave != idxPrev then do
          let pn ← getN g idxPrev
          let idxBase := pn.next
          let g ← modN g idxCurr (fun x => { x with prev := idxPrev })
          let g ← modN g idxBase (fun x => { x with prev := idxSave })
          let g ← modN g idxSave (fun x => { x with next := idxBase })
          let g ← modN g idxPrev (fun x => { x with next := idxCurr })
          let s ← getN g idxSave
          let p ← getN g idxPrev
          let g ← modN g idxSave (fun x => { x with ttn := p.ttn })
          let g ← modN g idxPrev (fun x => { x with ttn := s.ttn })
          let s ← getN g idxSave
          let p ← getN g idxPrev
          let g ← modN g idxSave (fun x => { x with dist := p.dist })
          modN g idxPrev (fun x => { x with dist := s.dist })
        else pure g)
      let (g, passed, q, idxCurr, idxPrev) ← bwdChain timeSub (g.size + 1) g passed q idxCurr idxPrev
      let pp ← getB passed idxPrev
      let pn ← getN g idxPrev
      let cc ← getN g idxCurr
      if !pp then
        if pn.prev = 0 && pn.nextAlt = 0 then do
          let g ← modN g idxPrev (fun x => { x with ts := cc.ts })
          let cc ← getN g idxCurr
          let g ← modN g 0 (fun x => { x with ts := cc.ts })
          let passed ← setB passed idxPrev
          let passed ← setB passed 0
          bwdLoop f g passed q
        else do
          check (cc.ty != .fake)
          let k ← notNan (optSub cc.ts (some pn.ttn))
          bwdLoop f g passed ((k, timeSub, idxCurr) :: q)
      else do
        check (cc.ty = .fake)
        check (idxCurr = pn.nextAlt)
        bwdLoop f g passed q

/-- `update_times_backward(est_times)` -/
def updateBackward (g : Graph α) : Res (Graph α) := do
  let n := g.size
  if n < 2 then .panic "underflow" else
  let passed := Array.replicate n false
  let passed ← setB passed (n - 1)
  let passed ← setB passed (n - 2)
  let st ← getN g (n - 2)
  let sp ← getN g st.prev
  let k ← notNan (optSub st.ts (some sp.ttn))
  let (g, passed, q) ← pushPrevAlts (n + 1) g passed [(k, 0, n - 2)] (n - 2)
  bwdLoop (2 * n + 2) g passed q

/-- `get_running_time_hours`: `(last.time_sched - first.time_sched).get::<si::hour>()` -/
def runningTimeHours (c3600 : α) (first last : α) : α := (last - first) / c3600

/-! ## Checkers -/

def nodeAt (g : Graph α) (i : Nat) : Node α := g.getD i Node.dflt

/-- scheduled time of a node (used only where `finOk` has established that it is set) -/
def tsv (x : Node α) : α := x.ts.getD 0

/-- forward links of a node -/
def succs (x : Node α) : List Nat :=
  (if x.next = 0 then [] else [x.next]) ++ (if x.nextAlt = 0 then [] else [x.nextAlt])

/-! ### links -/

def nodeLinksOk (g : Graph α) (i : Nat) : Bool :=
  let n := g.size
  let x := nodeAt g i
  decide (x.next < n) && decide (x.nextAlt < n) && decide (x.prev < n) && decide (x.prevAlt < n) &&
  (decide (i ≠ 0) || (decide (x.next = 1) && decide (x.nextAlt = 0) && decide (x.prev = 0) && decide (x.prevAlt = 0))) &&
  (decide (i ≠ 1) || (decide (x.prev = 0) && decide (x.prevAlt = 0))) &&
  (decide (i < 2) || decide (x.prev ≠ 0)) &&
  (if i + 1 = n then decide (x.next = 0) && decide (x.nextAlt = 0) else decide (x.next ≠ 0)) &&
  (decide (x.next = 0) || decide ((nodeAt g x.next).prev = i ∨ (nodeAt g x.next).prevAlt = i)) &&
  (decide (x.nextAlt = 0) ||
    (decide ((nodeAt g x.nextAlt).prev = i ∨ (nodeAt g x.nextAlt).prevAlt = i) && decide (x.nextAlt ≠ x.next))) &&
  (decide (x.prev = 0) || decide ((nodeAt g x.prev).next = i ∨ (nodeAt g x.prev).nextAlt = i)) &&
  (decide (x.prevAlt = 0) ||
    (decide ((nodeAt g x.prevAlt).next = i ∨ (nodeAt g x.prevAlt).nextAlt = i) && decide (x.prevAlt ≠ x.prev)))

def linksOk (g : Graph α) : Bool :=
  decide (2 ≤ g.size) && (List.range g.size).all (nodeLinksOk g)

/-! ### rank: computed by relaxation, then validated -/

def relaxNode (g : Graph α) (acc : Array Nat × Bool) (i : Nat) : Array Nat × Bool :=
  (succs (nodeAt g i)).foldl (fun (acc : Array Nat × Bool) j =>
    let ri := acc.1.getD i 0
    if acc.1.getD j 0 ≤ ri then (acc.1.setIfInBounds j (ri + 1), true) else acc) acc

def relaxPass (g : Graph α) (r : Array Nat) : Array Nat × Bool :=
  (List.range g.size).foldl (relaxNode g) (r, false)

def rankIter (g : Graph α) : Nat → Array Nat → Array Nat
  | 0, r => r
  | f + 1, r =>
    let (r', ch) := relaxPass g r
    if ch then rankIter g f r' else r'

def computeRank (g : Graph α) : Array Nat := rankIter g (g.size + 1) (Array.replicate g.size 0)

def rankOk (g : Graph α) (r : Array Nat) : Bool :=
  (List.range g.size).all (fun i =>
    decide (r.getD i 0 < g.size) && (succs (nodeAt g i)).all (fun j => decide (r.getD i 0 < r.getD j 0)))

/-! ### route automaton -/

/-- what a walk has seen so far, as far as the future can depend on it: the links entered and not yet
    cleared (in order) and the link entered last -/
structure RSt where
  pending : List Nat
  last : Option Nat
  deriving Repr, DecidableEq

def RSt.init : RSt := ⟨[], none⟩

/-- `b` follows `a` in the track network -/
def adjOk (adj : Array (Nat × Nat)) (a b : Nat) : Bool :=
  b != 0 && (match adj[a]? with
    | some (x, y) => x == b || y == b
    | none => false)

def stepEv (adj : Array (Nat × Nat)) (origs : List Nat) (s : RSt) (x : Node α) : Option RSt :=
  match x.ty with
  | .fake => some s
  | .arrive =>
    match s.last with
    | none => if origs.contains x.link then some ⟨s.pending ++ [x.link], some x.link⟩ else none
    | some l => if adjOk adj l x.link then some ⟨s.pending ++ [x.link], some x.link⟩ else none
  | .clear =>
    match s.pending with
    | h :: t => if h = x.link then some ⟨t, s.last⟩ else none
    | [] => none

/-- one propagation sweep of the subset construction -/
def propNode (adj : Array (Nat × Nat)) (origs : List Nat) (g : Graph α)
    (acc : Array (List RSt) × Bool) (i : Nat) : Array (List RSt) × Bool :=
  (succs (nodeAt g i)).foldl (fun (acc : Array (List RSt) × Bool) j =>
    (acc.1.getD i []).foldl (fun (acc : Array (List RSt) × Bool) s =>
      match stepEv adj origs s (nodeAt g j) with
      | some s' =>
        let cur := acc.1.getD j []
        if decide (s' ∈ cur) then acc else (acc.1.setIfInBounds j (cur ++ [s']), true)
      | none => acc) acc) acc

def propPass (adj : Array (Nat × Nat)) (origs : List Nat) (g : Graph α) (st : Array (List RSt)) :
    Array (List RSt) × Bool :=
  (List.range g.size).foldl (propNode adj origs g) (st, false)

def propIter (adj : Array (Nat × Nat)) (origs : List Nat) (g : Graph α) : Nat → Array (List RSt) → Array (List RSt)
  | 0, st => st
  | f + 1, st =>
    let (st', ch) := propPass adj origs g st
    if ch then propIter adj origs g f st' else st'

def computeStates (adj : Array (Nat × Nat)) (origs : List Nat) (g : Graph α) : Array (List RSt) :=
  let st0 : Array (List RSt) := Array.replicate g.size []
  let st0 := match stepEv adj origs RSt.init (nodeAt g 0) with
    | some s => st0.setIfInBounds 0 [s]
    | none => st0
  propIter adj origs g (g.size + 1) st0

def routeLinkOk (adj : Array (Nat × Nat)) (origs : List Nat) (g : Graph α) (st : Array (List RSt)) (i : Nat) : Bool :=
  (succs (nodeAt g i)).all (fun j => (st.getD i []).all (fun s =>
    match stepEv adj origs s (nodeAt g j) with
    | some s' => decide (s' ∈ st.getD j [])
    | none => false))

def accepting (dests : List Nat) (s : RSt) : Bool :=
  match s.last with
  | some l => dests.contains l
  | none => false

def routeOkWith (adj : Array (Nat × Nat)) (origs dests : List Nat) (g : Graph α) (st : Array (List RSt)) : Bool :=
  (match stepEv adj origs RSt.init (nodeAt g 0) with
    | some s0 => decide (s0 ∈ st.getD 0 [])
    | none => false) &&
  (List.range g.size).all (routeLinkOk adj origs g st) &&
  (st.getD (g.size - 1) []).all (accepting dests)

/-! ### times -/

def finOk (finite : α → Bool) (g : Graph α) : Bool :=
  (List.range g.size).all (fun i =>
    let x := nodeAt g i
    (match x.ts with | some t => finite t | none => false) && finite x.ttn)

def nonnegOk (g : Graph α) : Bool :=
  (List.range g.size).all (fun i =>
    let x := nodeAt g i
    decide (0 ≤ tsv x) && decide (0 ≤ x.ttn))

/-- every `idx_next` link is tight: the successor is scheduled exactly one duration later (± tol) -/
def tightOk (tol : α) (g : Graph α) : Bool :=
  (List.range g.size).all (fun i =>
    let x := nodeAt g i
    decide (x.next = 0) || decide (absv (tsv (nodeAt g x.next) - (tsv x + x.ttn)) ≤ tol))

/-- every `idx_next_alt` link: the alternate node is not scheduled later than the split node (+ tol) -/
def altOk (tol : α) (g : Graph α) : Bool :=
  (List.range g.size).all (fun i =>
    let x := nodeAt g i
    decide (x.nextAlt = 0) || decide (tsv (nodeAt g x.nextAlt) ≤ tsv x + tol))

structure Verdict where
  links : Bool
  walks : Bool
  route : Bool
  fin : Bool
  nonneg : Bool
  tight : Bool
  alt : Bool
  deriving Repr

def Verdict.all (v : Verdict) : Bool :=
  v.links && v.walks && v.route && v.fin && v.nonneg && v.tight && v.alt

/-- the decision procedure: clause by clause (a clause that presupposes a failed one is reported false) -/
def estNetCheck (finite : α → Bool) (adj : Array (Nat × Nat)) (origs dests : List Nat) (tol : α)
    (g : Graph α) : Verdict :=
  let links := linksOk g
  let walks := links && rankOk g (computeRank g)
  let route := walks && routeOkWith adj origs dests g (computeStates adj origs g)
  let fin := finOk finite g
  let nonneg := fin && nonnegOk g
  let tight := links && fin && tightOk tol g
  let alt := links && fin && altOk tol g
  ⟨links, walks, route, fin, nonneg, tight, alt⟩

def estNetOk (finite : α → Bool) (adj : Array (Nat × Nat)) (origs dests : List Nat) (tol : α)
    (g : Graph α) : Bool :=
  (estNetCheck finite adj origs dests tol g).all

/-! ### the forward pass's output: shortest path from the start, exactly -/

/-- every node's time is its `idx_prev`'s time plus the duration of the link from it (an alternate link
    takes no time), and no other predecessor would allow an earlier time -/
def fwdTimesOk (depart : α) (g : Graph α) : Bool :=
  eqb (tsv (nodeAt g 0)) depart &&
  (List.range g.size).all (fun j =>
    let x := nodeAt g j
    (decide (j = 0) ||
      (let p := nodeAt g x.prev
       if p.next = j then eqb (tsv x) (tsv p + p.ttn) else eqb (tsv x) (tsv p))) &&
    (decide (x.next = 0) || decide (tsv (nodeAt g x.next) ≤ tsv x + x.ttn)) &&
    (decide (x.nextAlt = 0) || decide (tsv (nodeAt g x.nextAlt) ≤ tsv x)))

def fwdCheck (finite : α → Bool) (depart : α) (g : Graph α) : Bool :=
  linksOk g && rankOk g (computeRank g) && finOk finite g && fwdTimesOk depart g

end
end Altrios.Est
