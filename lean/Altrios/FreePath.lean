import Altrios.Num
/-
  Model for property C05 ("dispatch returns a complete, valid, memory-safe plan or an explicit error").

  Part 1 — the `unsafe get_unchecked` sentinel searches of
           `meet_pass/train_disp/free_path.rs`:
             `LinkOptType::new`, `calc_idx_sentinels`, `find_train_intersect`,
             `add_blocking_trains`, `add_all_blocking_trains`, `concat_train_idx_views`.
           Literal transcription.  Every RAW access (`get_unchecked`, `get_unchecked_mut`) is an explicit
           bounds test whose failure is the outcome `fault oob` (undefined behaviour in the Rust code);
           every CHECKED access (`v[i]`, `extend_from_within`) fails with `fault index` (an ordinary
           unwinding panic); `assert!` failures are `fault assert`; `unreachable!` is `fault unreachable`;
           u32/usize arithmetic that the harness build (overflow-checks on) traps is `fault overflow`.
           Loops take fuel; running out of it is `fault fuel` (proved impossible for the fuel the
           definitions pass).
           Integers: `TrainIdx = Option<NonZeroU16>` and `DispNodeIdx` are `Nat` with `0 = None`;
           `LinkIdx` is the `Nat` value of its `u32`; `usize` is 64 bit.
  Part 2 — `routeOk`/`planOk`: the decision procedure for a returned plan (clauses of C05), polymorphic in
           the number type of times.
  Part 3 — the abstract outer loop of `run_dispatch` (`meet_pass/dispatch.rs`): priority queue keyed by
           `(time_update, train_idx)` (`impl Ord for TrainDispNext`), parked list
           (`train_idxs_blocked`), finished set; the routing decisions are an arbitrary list of answers.

  No imports except `Altrios.Num`: the driver (a `lean_exe`) links against this file.
-/
namespace Altrios.FreePath

/-! ## Outcomes -/

inductive Fault where
  | assert        -- a failed `assert!`
  | index         -- checked index / range out of bounds (ordinary panic)
  | overflow      -- integer overflow trapped by overflow-checks
  | unreachable   -- `unreachable!`
  | oob           -- RAW access out of range: undefined behaviour in the Rust code
  | fuel          -- the model's loop fuel ran out (never happens, see Proofs/C05.lean)
  deriving Repr, DecidableEq

inductive Out (σ : Type) where
  | ok (v : σ)
  | fault (f : Fault)
  deriving Repr, DecidableEq

namespace Out
def bind {σ τ} (r : Out σ) (f : σ → Out τ) : Out τ :=
  match r with
  | ok v => f v
  | fault e => fault e
instance : Monad Out where
  pure := ok
  bind := bind
end Out

/-- raw read `*v.get_unchecked(i)` -/
def rawGet {τ} (v : List τ) (i : Nat) : Out τ :=
  match v[i]? with
  | some x => .ok x
  | none => .fault .oob

/-- raw write `*v.get_unchecked_mut(i) = x` -/
def rawSet {τ} (v : List τ) (i : Nat) (x : τ) : Out (List τ) :=
  if i < v.length then .ok (v.set i x) else .fault .oob

/-- checked read `v[i]` -/
def chkGet {τ} (v : List τ) (i : Nat) : Out τ :=
  match v[i]? with
  | some x => .ok x
  | none => .fault .index

/-! ## `LinkOptType` -/

inductive LinkOpt where
  | none
  | single (l : Nat)
  | range (a b : Nat)     -- after `new`: (link_idx_min, link_idx_diff)
  | check
  deriving Repr, DecidableEq

/-- the `for link_idx in link_idxs_blocking` loop of `LinkOptType::new`
    (`onPath` stands for the set `link_idxs_on_path`) -/
def linkOptFold (onPath : List Nat) : List Nat → LinkOpt → Out LinkOpt
  | [], acc => .ok acc
  | l :: ls, acc =>
    if onPath.contains l then
      match acc with
      | .none => linkOptFold onPath ls (.single l)
      | .single p => linkOptFold onPath ls (.range (min l p) (max l p))
      | .range a b => linkOptFold onPath ls (.range (min l a) (max l b))
      | .check => .fault .unreachable
    else linkOptFold onPath ls acc

/-- `LinkOptType::new` -/
def linkOptNew (blocking onPath : List Nat) : Out LinkOpt := do
  let t ← linkOptFold onPath blocking .none
  match t with
  | .range a b =>
    if b < a then .fault .overflow      -- `link_idx_max - link_idx_min` on usize
    else if b - a ≤ 16 then .ok (.range a (b - a)) else .ok .check
  | t => .ok t

/-! ## `calc_idx_sentinels` -/

/-- a `DivergeNode`: (train_idx, disp_node_idx) -/
abbrev DivNode := Nat × Nat

/-- `while div_nodes.get_unchecked(div_idx).train_idx != train_idx_sentinel { div_idx += 1 }` -/
def scanTrain (dn : List DivNode) (s : Nat) : Nat → Nat → Out Nat
  | 0, _ => .fault .fuel
  | f + 1, i => do
    let x ← rawGet dn i
    if x.1 ≠ s then scanTrain dn s f (i + 1) else .ok i

/-- `while div_nodes[div_idx].disp_node_idx == disp_node_idx_sentinel { div_idx += 1 }` (checked) -/
def scanDisp (dn : List DivNode) (d : Nat) : Nat → Nat → Out Nat
  | 0, _ => .fault .fuel
  | f + 1, i => do
    let x ← chkGet dn i
    if x.2 = d then scanDisp dn d f (i + 1) else .ok i

def calcIdxSentinels (divIdx s : Nat) (dn : List DivNode) : Out (Nat × Nat) :=
  if ¬ divIdx < dn.length then .fault .assert else
  match dn.getLast? with
  | none => .fault .assert            -- not reachable: `div_idx < len` failed first
  | some l =>
    if l.1 ≠ s then .fault .assert else do
    let i ← scanTrain dn s (dn.length + 1) divIdx
    let x ← rawGet dn i
    let d := x.2
    let j := i + 1
    let j ← (if j < dn.length then scanDisp dn d (dn.length + 1) j else .ok j)
    .ok (d, j)

/-! ## `find_train_intersect` -/

/-- 2^64 (`usize`) -/
def W : Nat := 18446744073709551616
/-- `x.wrapping_sub(m)` on `usize` -/
def wrapSub (x m : Nat) : Nat := (x % W + W - m % W) % W
/-- `m as u32` -/
def asU32 (m : Nat) : Nat := m % 4294967296

/-- `while link_idx_path.get_unchecked(idx_split) != link_idx_check { idx_split += 1 }` -/
def scanSingle (path : List Nat) (c : Nat) : Nat → Nat → Out Nat
  | 0, _ => .fault .fuel
  | f + 1, i => do
    let x ← rawGet path i
    if x ≠ c then scanSingle path c f (i + 1) else .ok i

/-- The `loop { while …wrapping_sub(min) > diff { idx += 1 }; if idx == sentinel || blocked { break }; idx += 1 }`
    of the `Range` arm, flattened: one iteration per value of `idx_split`, same sequence of
    accesses (raw read of `link_idx_path[idx]`, then — only when the value is in the window and
    `idx != idx_sentinel` — a checked read of `links_blocked`). -/
def scanRange (path blocked : List Nat) (mn df sentinel : Nat) : Nat → Nat → Out Nat
  | 0, _ => .fault .fuel
  | f + 1, i => do
    let x ← rawGet path i
    if wrapSub x mn > df then scanRange path blocked mn df sentinel f (i + 1)
    else if i = sentinel then .ok i
    else do
      let b ← chkGet blocked x
      if b ≠ 0 then .ok i else scanRange path blocked mn df sentinel f (i + 1)

/-- the `Check` arm: `while idx_split < idx_sentinel { if links_blocked[path[idx]].is_some() { break } idx += 1 }` -/
def scanCheck (path blocked : List Nat) (sentinel : Nat) : Nat → Nat → Out Nat
  | 0, _ => .fault .fuel
  | f + 1, i =>
    if i < sentinel then do
      let x ← rawGet path i
      let b ← chkGet blocked x
      if b ≠ 0 then .ok i else scanCheck path blocked sentinel f (i + 1)
    else .ok i

/-- returns the new `idx_split` and the `link_idx_path` buffer as left behind -/
def findTrainIntersect (split sentinel : Nat) (t : LinkOpt) (path blocked : List Nat) :
    Out (Nat × List Nat) :=
  if split ≥ sentinel then .ok (split, path) else
  if ¬ sentinel < path.length then .fault .assert else
  match t with
  | .single c => do
    let save ← rawGet path sentinel
    let p1 ← rawSet path sentinel c
    let i ← scanSingle p1 c (path.length + 1) split
    let p2 ← rawSet p1 sentinel save
    .ok (i, p2)
  | .range mn df => do
    let save ← rawGet path sentinel
    let p1 ← rawSet path sentinel (asU32 mn)
    let i ← scanRange p1 blocked mn df sentinel (path.length + 1) split
    let p2 ← rawSet p1 sentinel save
    .ok (i, p2)
  | .check => do
    let i ← scanCheck path blocked sentinel (path.length + 1) split
    .ok (i, path)
  | .none => .fault .unreachable

/-! ## `add_blocking_trains`, `add_all_blocking_trains`, `concat_train_idx_views` -/

/-- a `TrainIdxsView`: (idx_begin, idx_end) -/
abbrev View := Nat × Nat

/-- `while *trains_blocking.get_unchecked(idx_test) != train_add { idx_test += 1 }` -/
def scanEq (tb : List Nat) (x : Nat) : Nat → Nat → Out Nat
  | 0, _ => .fault .fuel
  | f + 1, i => do
    let y ← rawGet tb i
    if y ≠ x then scanEq tb x f (i + 1) else .ok i

/-- body of `for idx_add in trains_view_add.idx_begin..trains_view_add.idx_end` -/
def addLoop (base : View) : List Nat → List Nat → Out (List Nat)
  | [], tb => .ok tb
  | ia :: rest, tb => do
    let ta ← chkGet tb ia
    let tb1 ← rawSet tb base.2 ta
    let it ← scanEq tb1 ta (tb1.length + 1) base.1
    let tb2 := if it = base.2 then tb1 ++ [ta] else tb1
    addLoop base rest tb2

/-- returns the buffer and the resulting view -/
def addBlockingTrains (tb : List Nat) (base add : View) : Out (List Nat × View) :=
  if ¬ base.1 ≤ base.2 then .fault .assert else
  if tb.length ≠ base.2 then .fault .assert else
  -- `trains_view_add.len()` = `(idx_end - idx_begin) as usize` on u32
  if add.2 < add.1 then .fault .overflow else do
  let tb1 ← addLoop base (List.range' add.1 (add.2 - add.1)) (tb ++ [0])
  match tb1.getLast? with
  | none => .fault .assert           -- `.pop().unwrap()`; not reachable
  | some save =>
    let tb2 := tb1.dropLast
    let tb3 := if base.2 < tb2.length then tb2.set base.2 save else tb2
    .ok (tb3, (base.1, tb3.length))

def addAllBlockingTrains (tb : List Nat) (large small : View) : Out (List Nat × View) :=
  -- `reserve(large.len() + small.len() + 1)`
  if large.2 < large.1 then .fault .overflow else
  if small.2 < small.1 then .fault .overflow else
  -- `extend_from_within(large.range())`
  if tb.length < large.2 then .fault .index else
  let tb1 := tb ++ (tb.drop large.1).take (large.2 - large.1)
  addBlockingTrains tb1 (tb1.length - (large.2 - large.1), tb1.length) small

def viewEmpty (v : View) : Bool := v.1 == v.2

def concatViews (tb : List Nat) (view add : View) : Out (List Nat × View) :=
  if viewEmpty add || (decide (view.1 ≤ add.1) && decide (add.2 ≤ view.2)) then .ok (tb, view)
  else if viewEmpty view || (decide (add.1 ≤ view.1) && decide (view.2 ≤ add.2)) then .ok (tb, add)
  else if tb.length = view.2 then addBlockingTrains tb view add
  else if tb.length = add.2 then addBlockingTrains tb add view
  -- `trains_view.len() >= trains_view_add.len()`
  else if view.2 < view.1 then .fault .overflow
  else if add.2 < add.1 then .fault .overflow
  else if view.2 - view.1 ≥ add.2 - add.1 then addAllBlockingTrains tb view add
  else addAllBlockingTrains tb add view

/-! ## Part 2 — plan checker -/

/-- what the checker needs of an `EstTime` node -/
structure EstNode (α : Type) where
  next : Nat      -- idx_next      (0 = EST_IDX_NA)
  alt : Nat       -- idx_next_alt
  ttn : α         -- time_to_next (free-running time along the `idx_next` edge)
  link : Nat      -- link_event.link_idx
  ty : Nat        -- link_event.est_type: 0 Arrive, 1 Clear, 2 Fake
  deriving Repr

structure TrainIn (α : Type) where
  origs : List Nat
  dests : List Nat
  depart : α
  est : List (EstNode α)
  deriving Repr

/-- a returned route: (link_idx, arrival time) per segment -/
abbrev Route (α : Type) := List (Nat × α)

/-- network adjacency: per link `(idx_next, idx_next_alt)` -/
abbrev Adj := List (Nat × Nat)

def connected (adj : Adj) (a b : Nat) : Bool :=
  b != 0 && (match adj[a]? with
    | some (n, na) => n == b || na == b
    | none => false)

section
variable {α : Type} [Add α] [LE α] [DecidableLE α]

/-- We stand on est node `j`, reached at time `t`.  Is there a way on through non-Arrive nodes to
    an Arrive node of link `b` that is reached (free running: `+ time_to_next` along `idx_next`,
    `+ 0` along `idx_next_alt`) no later than `tb`?  Paths of at most `fuel` nodes. -/
def hopSearch (est : List (EstNode α)) (b : Nat) (tb : α) : Nat → Nat → α → Bool
  | 0, _, _ => false
  | f + 1, j, t =>
    match est[j]? with
    | none => false
    | some m =>
      if m.ty = 0 then (m.link == b && decide (t ≤ tb))
      else (m.next != 0 && hopSearch est b tb f m.next (t + m.ttn)) ||
           (m.alt != 0 && hopSearch est b tb f m.alt t)

/-- start at the Arrive node `i` (of link `a`, reached at `ta`) -/
def hopFrom (est : List (EstNode α)) (a : Nat) (ta : α) (b : Nat) (tb : α) (i : Nat) : Bool :=
  match est[i]? with
  | none => false
  | some n =>
    n.ty == 0 && n.link == a &&
    ((n.next != 0 && hopSearch est b tb est.length n.next (ta + n.ttn)) ||
     (n.alt != 0 && hopSearch est b tb est.length n.alt ta))

/-- the hop `a@ta → b@tb` is not faster than the train's own free running between the two
    arrive events along some est path -/
def hopOk (est : List (EstNode α)) (a : Nat) (ta : α) (b : Nat) (tb : α) : Bool :=
  (List.range est.length).any (hopFrom est a ta b tb)

def hopsOk (adj : Adj) (est : List (EstNode α)) : Route α → Bool
  | (a, ta) :: (b, tb) :: rest =>
    connected adj a b && decide (ta ≤ tb) && hopOk est a ta b tb && hopsOk adj est ((b, tb) :: rest)
  | _ => true

def routeOk (adj : Adj) (tr : TrainIn α) (rt : Route α) : Bool :=
  match rt.head?, rt.getLast? with
  | some (l0, t0), some (ln, _) =>
    tr.origs.contains l0 && decide (tr.depart ≤ t0) && tr.dests.contains ln && hopsOk adj tr.est rt
  | _, _ => false

def routesOk (adj : Adj) : List (TrainIn α) → List (Route α) → Bool
  | [], [] => true
  | tr :: trs, rt :: rts => routeOk adj tr rt && routesOk adj trs rts
  | _, _ => false       -- a train without a route, or a route without a train

/-- one valid route per train, none missing -/
def planOk (adj : Adj) (trains : List (TrainIn α)) (plan : List (Route α)) : Bool :=
  routesOk adj trains plan

end

/-! ## Part 3 — the outer loop's bookkeeping -/

structure QSt (α : Type) where
  queue : List (α × Nat)     -- `train_disp_queue` (a binary heap; only its content matters)
  parked : List (α × Nat)    -- `train_idxs_blocked`, with the `time_update` each train carries
  finished : List Nat
  deriving Repr

/-- what the inner `loop` (advance / check_deadlock / rewind / fix_advance: the routing search) left
    behind for the popped train -/
structure Ans (α : Type) where
  blocked : Bool      -- `train_curr.is_blocked()`
  finished : Bool     -- `train_curr.is_finished()`
  time : α            -- `train_curr.time_update()`
  deriving Repr

section
variable {α : Type} [LT α] [DecidableLT α]

/-- `a` pops before `b`: `impl Ord for TrainDispNext` reversed for the max-heap — smaller time first,
    then smaller train index -/
def keyLt (a b : α × Nat) : Bool :=
  decide (a.1 < b.1) || (!(decide (b.1 < a.1)) && decide (a.2 < b.2))

/-- `BinaryHeap::pop`: the first-popping key and the rest -/
def popMin : List (α × Nat) → Option ((α × Nat) × List (α × Nat))
  | [] => none
  | x :: xs =>
    match popMin xs with
    | none => some (x, [])
    | some (m, rest) => if keyLt m x then some (m, x :: rest) else some (x, xs)

/-- one iteration of `while !train_disp_queue.is_empty()`; `none` = the loop has ended -/
def qStep (s : QSt α) (a : Ans α) : Option (Nat × QSt α) :=
  match popMin s.queue with
  | none => none
  | some ((_, i), q) =>
    if a.blocked && !a.finished then
      some (i, { queue := q, parked := s.parked ++ [(a.time, i)], finished := s.finished })
    else
      let q1 := if a.finished then q else q ++ [(a.time, i)]
      some (i, { queue := q1 ++ s.parked, parked := [],
                 finished := if a.finished then s.finished ++ [i] else s.finished })

/-- run over a list of answers (any prefix of an execution); returns the pop sequence -/
def qRun : QSt α → List (Ans α) → List Nat × QSt α
  | s, [] => ([], s)
  | s, a :: as =>
    match qStep s a with
    | none => ([], s)
    | some (i, s') => let (ps, sf) := qRun s' as; (i :: ps, sf)

def zipIdxFrom {τ} : List τ → Nat → List (τ × Nat)
  | [], _ => []
  | x :: xs, k => (x, k) :: zipIdxFrom xs (k + 1)

/-- all trains queued with their departure times, indices from 1 -/
def qInit (departs : List α) : QSt α :=
  { queue := zipIdxFrom departs 1, parked := [], finished := [] }

/-- what `run_dispatch` does after the loop: `none` = still running,
    `some []` = `Ok(plan for every train)`, `some stuck` = `bail!("… got stuck! {stuck}")` -/
def qResult (s : QSt α) : Option (List Nat) :=
  if s.queue.isEmpty then some (s.parked.map (·.2)) else none

end

end Altrios.FreePath
