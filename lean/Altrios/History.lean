import Altrios.Num
/-
  C19 — histories and step counters through the object tree.

  The model is a rose tree.  One node = one Rust object that takes part in the
  `step()` / `save_state()` / `set_save_interval()` cascades (a simulation, a consist, a
  locomotive, the `PowertrainType` enum dispatch, a powertrain variant, a component, the
  friction brake).  The *static* part of a node (`Info`) is NOT written by hand: it is
  regenerated from the Rust sources on every check by `/verif/scan/scan_history.py` into
  `Generated/HistoryTree.lean`:

    hasI / hasHist / hasInterval   the struct has `state` (a step counter `i`), `history`, `save_interval`
    stepSelf                       number of `self.state.i += 1` executed by one call of `step()`
    saveSelf                       number of `self.history.push(self.state)` executed by one call of
                                   `save_state()` (inside the node's own `i % interval == 0` gate when it has one)
    setSelf                        number of `self.save_interval = v` in `set_save_interval`
    setDeep                        descendants whose `save_interval` this node's `set_save_interval`
                                   assigns directly (`loco.fc.save_interval = v`), as paths of edge tags
    tag, stepCalls, saveOut, saveIn, setCalls
                                   how the PARENT's methods call this node: edge tag, number of
                                   `child.step()` calls, number of `child.save_state()` calls outside /
                                   inside the parent's interval gate, number of `child.set_save_interval(v)` calls

  The dynamic part is `i` (the counter), `iv` (the save interval) and `hist` (the `i` column of the
  history).  Nodes lacking the corresponding field carry dummies that nothing reads.

  `m` in `stepT m`, `saveT m`, `setT m` is the number of times the method is called in a row (0 = not
  reached).  A method of this family called twice in a row has exactly twice the effect (the gate
  only reads `i` and `interval`, which `save_state` does not change), so multiplicities compose by
  multiplication and every function below is structurally recursive.

  `save_interval = Some(0)` makes `i % interval` panic (remainder by zero): `savePanics`.
-/
namespace Altrios.Hist

structure Info where
  name : String
  hasI : Bool
  hasHist : Bool
  hasInterval : Bool
  stepSelf : Nat
  saveSelf : Nat
  setSelf : Nat
  setDeep : List (List Nat)
  tag : Nat
  stepCalls : Nat
  saveOut : Nat
  saveIn : Nat
  setCalls : Nat
  deriving Repr

inductive Tree where
  | node (info : Info) (i : Nat) (iv : Option Nat) (hist : List Nat) (kids : List Tree)
  deriving Repr

namespace Tree
def info : Tree → Info | .node s _ _ _ _ => s
def i : Tree → Nat | .node _ i _ _ _ => i
def iv : Tree → Option Nat | .node _ _ v _ _ => v
def hist : Tree → List Nat | .node _ _ _ h _ => h
def kids : Tree → List Tree | .node _ _ _ _ k => k
end Tree

/-- `if let Some(n) = save_interval { if i % n == 0 { … } }` for `n ≠ 0` (`n = 0` panics, see `savePanics`) -/
def gateOpen (iv : Option Nat) (i : Nat) : Bool :=
  match iv with
  | none => false
  | some n => n != 0 && i % n == 0

/-! ### `step()` -/
mutual
def stepT (m : Nat) : Tree → Tree
  | .node s i iv h kids => .node s (i + m * s.stepSelf) iv h (stepL m kids)
def stepL (m : Nat) : List Tree → List Tree
  | [] => []
  | t :: ts => stepT (m * t.info.stepCalls) t :: stepL m ts
end

/-! ### `save_state()` -/
mutual
def saveT (m : Nat) : Tree → Tree
  | .node s i iv h kids =>
    let mIn := if s.hasInterval then (if gateOpen iv i then m else 0) else m
    .node s i iv (h ++ List.replicate (mIn * s.saveSelf) i) (saveL m mIn kids)
def saveL (mOut mIn : Nat) : List Tree → List Tree
  | [] => []
  | t :: ts => saveT (mOut * t.info.saveOut + mIn * t.info.saveIn) t :: saveL mOut mIn ts
end

/- some `save_state()` that is actually reached evaluates `i % 0` -/
mutual
def savePanics (m : Nat) : Tree → Bool
  | .node s i iv _ kids =>
    let mIn := if s.hasInterval then (if gateOpen iv i then m else 0) else m
    (m != 0 && s.hasInterval && iv == some 0) || savePanicsL m mIn kids
def savePanicsL (mOut mIn : Nat) : List Tree → Bool
  | [] => false
  | t :: ts => savePanics (mOut * t.info.saveOut + mIn * t.info.saveIn) t || savePanicsL mOut mIn ts
end

/-! ### `set_save_interval(v)`
  `deep` = direct assignments made by ancestors that were reached, as paths relative to this node. -/
def strip (tag : Nat) (deep : List (List Nat)) : List (List Nat) :=
  deep.filterMap (fun p => match p with
    | [] => none
    | a :: q => if a = tag then some q else none)

def setHit (m : Nat) (s : Info) (deep : List (List Nat)) : Bool :=
  (m != 0 && s.setSelf != 0) || deep.contains []

def setDeepNext (m : Nat) (s : Info) (deep : List (List Nat)) : List (List Nat) :=
  if m = 0 then deep else deep ++ s.setDeep

mutual
def setT (m : Nat) (deep : List (List Nat)) (v : Option Nat) : Tree → Tree
  | .node s i iv h kids =>
    .node s i (if setHit m s deep then v else iv) h (setL m (setDeepNext m s deep) v kids)
def setL (m : Nat) (deep : List (List Nat)) (v : Option Nat) : List Tree → List Tree
  | [] => []
  | t :: ts => setT (m * t.info.setCalls) (strip t.info.tag deep) v t :: setL m deep v ts
end

/-! ### well-formedness of the generated call tables (decidable; checked by `decide` on the
    regenerated shapes, assumed by the general theorems) -/
mutual
def anyI : Tree → Bool
  | .node s _ _ _ kids => s.hasI || anyIL kids
def anyIL : List Tree → Bool
  | [] => false
  | t :: ts => anyI t || anyIL ts
end
mutual
def anyHist : Tree → Bool
  | .node s _ _ _ kids => s.hasHist || anyHistL kids
def anyHistL : List Tree → Bool
  | [] => false
  | t :: ts => anyHist t || anyHistL ts
end

/- every counter is incremented exactly once by one `step()` of the root -/
mutual
def wfStep : Tree → Bool
  | .node s _ _ _ kids => (if s.hasI then s.stepSelf == 1 else true) && wfStepL kids
def wfStepL : List Tree → Bool
  | [] => true
  | t :: ts => ((t.info.stepCalls == 1 && wfStep t) || !anyI t) && wfStepL ts
end

/- every history is pushed exactly once by one `save_state()` of the root when the (common) gate is
    open and not at all when it is closed.  `gated` = the call of this node's `save_state` already
    sits under an ancestor's interval gate. -/
mutual
def wfSave (gated : Bool) : Tree → Bool
  | .node s _ _ _ kids =>
    (!s.hasInterval || s.hasI) && (!s.hasHist || s.hasI) &&
    (!s.hasHist || (s.saveSelf == 1 && (gated || s.hasInterval))) &&
    wfSaveL gated (gated || s.hasInterval) s.hasInterval kids
def wfSaveL (gOut gIn hasIv : Bool) : List Tree → Bool
  | [] => true
  | t :: ts =>
    ((t.info.saveOut == 1 && t.info.saveIn == 0 && wfSave gOut t)
      || (hasIv && t.info.saveOut == 0 && t.info.saveIn == 1 && wfSave gIn t)
      || !anyHist t) && wfSaveL gOut gIn hasIv ts
end

/- every `save_interval` in the tree is written by `set_save_interval` of the root -/
mutual
def wfSet (m : Nat) (deep : List (List Nat)) : Tree → Bool
  | .node s _ _ _ kids =>
    (!s.hasInterval || setHit m s deep) && wfSetL m (setDeepNext m s deep) kids
def wfSetL (m : Nat) (deep : List (List Nat)) : List Tree → Bool
  | [] => true
  | t :: ts => wfSet (m * t.info.setCalls) (strip t.info.tag deep) t && wfSetL m deep ts
end

/- a setter writes only objects that HAVE a `save_interval`: no `self.save_interval = v` in a struct
    without the field, no direct assignment path that ends in an object without it (in Rust this is a
    compile-time fact; for the regenerated table it is a decidable obligation).  Needed for
    `set_save_interval` of a NESTED object to be undone exactly by the top-level cascade. -/
mutual
def wfSetOnly (m : Nat) (deep : List (List Nat)) : Tree → Bool
  | .node s _ _ _ kids =>
    (!setHit m s deep || s.hasInterval) && wfSetOnlyL m (setDeepNext m s deep) kids
def wfSetOnlyL (m : Nat) (deep : List (List Nat)) : List Tree → Bool
  | [] => true
  | t :: ts => wfSetOnly (m * t.info.setCalls) (strip t.info.tag deep) t && wfSetOnlyL m deep ts
end

/- `q` holds of every subtree whose root carries a `save_interval` -/
mutual
def everyIvT (q : Tree → Bool) : Tree → Bool
  | .node s i iv h kids => (!s.hasInterval || q (.node s i iv h kids)) && everyIvL q kids
def everyIvL (q : Tree → Bool) : List Tree → Bool
  | [] => true
  | t :: ts => everyIvT q t && everyIvL q ts
end

/-- the OWN setter of every interval-carrying object (called directly on the nested object, not through
    the top-level cascade) writes only objects that have a `save_interval` -/
def setClean (t : Tree) : Bool := everyIvT (wfSetOnly 1 []) t

/-! ### writes to the intervals of NESTED objects, behind the back of the top-level cascade

  A user can give a component its own interval through its `pub save_interval` field
  (`sim.loco_con.loco_vec[0].fc.save_interval = v`), call a nested object's own setter
  (`sim.loco_con.loco_vec[1].set_save_interval(v)`, `sim.loco_con.set_save_interval(v)`), or swap a
  locomotive that was configured elsewhere into `loco_vec`.  The nested object is addressed by its
  position `k` among the nodes that carry a `save_interval`, in pre-order — i.e. the k-th line of
  `dump` whose interval column is not `-` (0 = the outermost object that has an interval). -/
mutual
/-- number of nodes that carry a `save_interval` -/
def cntT : Tree → Nat
  | .node s _ _ _ kids => (if s.hasInterval then 1 else 0) + cntL kids
def cntL : List Tree → Nat
  | [] => 0
  | t :: ts => cntT t + cntL ts
end

/- apply `f` to the subtree rooted at the k-th interval-carrying node (pre-order); `k` out of range: no-op -/
mutual
def atT (f : Tree → Tree) (k : Nat) : Tree → Tree
  | .node s i iv h kids =>
    if s.hasInterval then
      (if k = 0 then f (.node s i iv h kids) else .node s i iv h (atL f (k - 1) kids))
    else .node s i iv h (atL f k kids)
def atL (f : Tree → Tree) (k : Nat) : List Tree → List Tree
  | [] => []
  | t :: ts => if k < cntT t then atT f k t :: ts else t :: atL f (k - cntT t) ts
end

/-! ### the simulation drivers

  Every simulation's `step()` is `solve_step()?; save_state(); <advance counters>` and every `walk…`
  is `save_state(); while … { step()? }`.  The ORDER of the three phases inside `step()` and the
  number of `save_state()` calls in front of the loop are read from the source by the scanner. -/
inductive Phase where
  | solve | save | advance
  deriving Repr, DecidableEq

def saveR (m : Nat) (t : Tree) : Res Tree :=
  if savePanics m t then .panic "remainder by zero" else .ok (saveT m t)

/-- one `step()` whose `solve_step` succeeds -/
def iterOk : List Phase → Tree → Res Tree
  | [], t => .ok t
  | .solve :: ps, t => iterOk ps t
  | .save :: ps, t => (saveR 1 t).bind (iterOk ps)
  | .advance :: ps, t => iterOk ps (stepT 1 t)

/-- one `step()` whose `solve_step` returns `Err`: everything in front of `solve` has happened -/
def iterFail : List Phase → Tree → Res Tree
  | [], t => .ok t
  | .solve :: _, t => .ok t
  | .save :: ps, t => (saveR 1 t).bind (iterFail ps)
  | .advance :: ps, t => iterFail ps (stepT 1 t)

/-- `k` successful `step()`s -/
def stepsR (order : List Phase) : Nat → Tree → Res Tree
  | 0, t => .ok t
  | k + 1, t => (stepsR order k t).bind (iterOk order)

def savesR : Nat → Tree → Res Tree
  | 0, t => .ok t
  | k + 1, t => (savesR k t).bind (saveR 1)

/-- `walk()`: `initSaves` × `save_state()`, then `k` successful steps, then (optionally) one failing
    step after which the walk returns the error -/
def walkR (order : List Phase) (initSaves k : Nat) (fail : Bool) (t : Tree) : Res Tree :=
  (savesR initSaves t).bind fun t1 =>
  (stepsR order k t1).bind fun t2 =>
  if fail then iterFail order t2 else .ok t2

/-- what a constructor `new(…, save_interval)` does with the interval -/
inductive NewAct where
  | assignSelf            -- `save_interval,` in the struct literal
  | callSelf              -- `x.set_save_interval(save_interval)`
  | callKid (tag : Nat)   -- `x.<kid>.set_save_interval(save_interval)`
  deriving Repr, DecidableEq

def assignRoot (v : Option Nat) : Tree → Tree
  | .node s i _ h kids => .node s i v h kids

def setKid (tag : Nat) (v : Option Nat) : List Tree → List Tree
  | [] => []
  | t :: ts => (if t.info.tag = tag then setT 1 [] v t else t) :: setKid tag v ts

def newAct (v : Option Nat) (t : Tree) : NewAct → Tree
  | .assignSelf => assignRoot v t
  | .callSelf => setT 1 [] v t
  | .callKid tag => match t with
    | .node s i iv h kids => .node s i iv h (setKid tag v kids)

def newT (prog : List NewAct) (v : Option Nat) (t : Tree) : Tree :=
  prog.foldl (newAct v) t

/-- raw write of the k-th interval-carrying node's `save_interval` field (nothing else changes) -/
def pokeT (k : Nat) (v : Option Nat) : Tree → Tree := atT (assignRoot v) k

/-- the k-th interval-carrying node's OWN `set_save_interval(v)`, cascading through ITS subtree only
    (exactly what `newAct (.callKid _)` does for a direct child).  A node without a setter
    (`setSelf = 0`, no calls, no direct assignments: the powertrain components, the friction brake)
    is left unchanged. -/
def setAtT (k : Nat) (v : Option Nat) : Tree → Tree := atT (setT 1 [] v) k

/-- operations a user (the harness) performs on a simulation object -/
inductive Op where
  | set (v : Option Nat)               -- `sim.set_save_interval(v)`
  | poke (k : Nat) (v : Option Nat)    -- `<k-th nested object>.save_interval = v` (pub field)
  | setAt (k : Nat) (v : Option Nat)   -- `<k-th nested object>.set_save_interval(v)`
  | step                               -- `sim.step()` returning `Ok`
  | stepFail                           -- `sim.step()` returning `Err`
  | walk (initSaves k : Nat) (fail : Bool)
      -- `sim.walk()` / `sim.walk_timed_path()`: `initSaves` × `save_state()` in front of the loop (from the
      -- generated table), `k` steps executed, then success / `Err`
  deriving Repr

def opR (order : List Phase) (t : Tree) : Op → Res Tree
  | .set v => .ok (setT 1 [] v t)
  | .poke k v => .ok (pokeT k v t)
  | .setAt k v => .ok (setAtT k v t)
  | .step => iterOk order t
  | .stepFail => iterFail order t
  | .walk s k f => walkR order s k f t

def runR (order : List Phase) : List Op → Tree → Res Tree
  | [], t => .ok t
  | o :: os, t => (opR order t o).bind (runR order os)

/-! ### dump (what the harness prints for the real object) -/
mutual
def dumpT (p : String) : Tree → List String
  | .node s i iv h kids =>
    (if s.hasI || s.hasHist || s.hasInterval then
      [p ++ " " ++ (if s.hasI then toString i else "-") ++ " "
        ++ (if s.hasInterval then (match iv with | none => "N" | some n => "S " ++ toString n) else "-") ++ " "
        ++ (if s.hasHist then h.foldl (fun acc x => acc ++ " " ++ toString x) ("[ " ++ toString h.length) else "-")]
     else []) ++ dumpL p 0 kids
def dumpL (pfx : String) (k : Nat) : List Tree → List String
  | [] => []
  | t :: ts => dumpT (pfx ++ "." ++ t.info.name ++ "#" ++ toString k) t ++ dumpL pfx (k + 1) ts
end

/-- one line per node that has a counter, a history or an interval, in pre-order; the path of a
    nested object is `<parent>.<field>#<position among the parent's nested objects>`.
    The index `k` of `Op.poke k` / `Op.setAt k` is the position of the node's line among the lines
    whose interval column is not `-` (`ivPaths` lists them). -/
def dump (t : Tree) : List String := dumpT t.info.name t

/- paths (as in `dump`) of the interval-carrying nodes, in the order `Op.poke` / `Op.setAt` count them -/
mutual
def ivPathsT (p : String) : Tree → List String
  | .node s _ _ _ kids => (if s.hasInterval then [p] else []) ++ ivPathsL p 0 kids
def ivPathsL (pfx : String) (k : Nat) : List Tree → List String
  | [] => []
  | t :: ts => ivPathsT (pfx ++ "." ++ t.info.name ++ "#" ++ toString k) t ++ ivPathsL pfx (k + 1) ts
end
def ivPaths (t : Tree) : List String := ivPathsT t.info.name t

end Altrios.Hist
