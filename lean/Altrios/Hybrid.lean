import Altrios.Powertrain
/-
  Model of `consist/locomotive/hybrid_loco.rs` (`LocoTrait::set_cur_pwr_max_out`,
  `HybridLoco::solve_energy_consumption`) and of the hybrid arms of
  `Locomotive::{set_cur_pwr_max_out, solve_energy_consumption}` (locomotive_model.rs).
  Property C08 (every component of every locomotive type obeys the second law).

  The split between battery and engine+generator is chosen by the code either as the constant
  `fuel_res_split` or, when `fuel_res_ratio` is given, by an external optimiser
  (`argmin::GoldenSectionSearch`, on CLONES of the locomotive) — an external call, hence a
  PARAMETER `split` of the model: the theorems hold for every value the search may return, the
  correspondence passes the value the implementation ended the step with.  The interval handed to
  the search (`gssBounds`) is modelled; the search itself, and the mean the code takes instead when
  the interval is narrower than 0.05, are not (both only yield a value of `split`).

  `genAux` is the literal `50e3 * uc::W` the code passes as the generator's auxiliary load
  ("todo: fix this" in the source).
-/
namespace Altrios.Hyb
open Altrios Altrios.PT

structure Hybrid (α : Type) where
  fc : FC α
  gen : Gen α
  res : RES α
  edrv : Edrv α
  /-- `fuel_res_split` -/
  split : α
  deriving Repr

structure HLoco (α : Type) where
  h : Hybrid α
  state : LocoState α
  assertLimits : Bool
  pwrAuxOffset : α
  pwrAuxTractionCoeff : α
  deriving Repr

section
variable {α : Type} [Add α] [Sub α] [Mul α] [Div α] [Neg α] [LT α] [LE α]
  [DecidableLT α] [DecidableLE α] [OfNat α 0] [OfNat α 1]

/-- `<Box<HybridLoco> as LocoTrait>::set_cur_pwr_max_out(Some(pwr_aux), dt)` -/
def hybSetCurMax (k : Consts α) (h : Hybrid α) (aux dt : α) : Res (Hybrid α) := do
  let res ← resSetCurMax k h.res aux 0 0
  let fc ← fcSetCurMax k h.fc dt
  let gen ← genSetCurMax h.gen fc.state.pwrOutMax aux
  let edrv ← edrvSetCurMax h.edrv (gen.state.pwrElecPropOutMax + res.state.pwrPropOutMax)
  let edrv ← edrvSetRegenMax edrv res.state.pwrRegenOutMax
  let gen := { gen with state := { gen.state with
    pwrRateOutMax := rateOut gen.state.eta (fc.pwrOutMax / fc.pwrRampLag) } }
  let edrv := { edrv with state := { edrv.state with
    pwrRateOutMax := rateOut edrv.state.eta gen.state.pwrRateOutMax } }
  pure { h with fc := fc, gen := gen, res := res, edrv := edrv }

/-- the battery's share of the drivetrain's electrical demand `pin` under `split`:
    `res.state.pwr_prop_out_max.min(pin * (1.0 - split))` -/
def fromRes (resMax pin split : α) : α := mn resMax (pin * (1 - split))

/-- `f64::clamp(0.0, 1.0)` on a non-NaN value -/
def clamp01 (x : α) : α := if x < 0 then 0 else if 1 < x then 1 else x

/-- `gss_bounds`: the interval handed to the golden-section search -/
def gssBounds (resMax genMax pin : α) : α × α :=
  (clamp01 (1 - resMax / pin), clamp01 (genMax / pin))

/-- `HybridLoco::solve_energy_consumption(pwr_out_req, dt, assert_limits)` with the split the step
    ends with passed in (`split`; equal to `h.split` when no search runs). -/
def hybSolve (k : Consts α) (h : Hybrid α) (req dt : α) (assertLimits : Bool) (split genAux : α) :
    Res (Hybrid α) := do
  let edrv ← edrvReq h.edrv req dt
  let pin := edrv.state.pwrElecPropIn
  if 0 < pin then
    let pr := fromRes h.res.state.pwrPropOutMax pin split
    let gen ← genReq h.gen (pin - pr) genAux dt
    let fc ← fcSolve k h.fc gen.state.pwrMechIn dt true assertLimits
    let res ← resSolve k h.res pr 0 dt
    pure { h with fc := fc, gen := gen, res := res, edrv := edrv, split := split }
  else
    let res ← resSolve k h.res pin 0 dt
    let gen ← genReq h.gen 0 genAux dt
    let fc ← fcSolve k h.fc gen.state.pwrMechIn dt true assertLimits
    pure { h with fc := fc, gen := gen, res := res, edrv := edrv, split := split }

/-- `Locomotive::set_pwr_aux(engine_on)` (same body for every locomotive type) -/
def hlocoSetAux (l : HLoco α) (engineOn : Option Bool) : HLoco α :=
  let aux := if engineOn.getD true then l.pwrAuxOffset + l.pwrAuxTractionCoeff * absv l.state.pwrOut else 0
  { l with state := { l.state with pwrAux := aux } }

/-- `Locomotive::set_cur_pwr_max_out(None, dt)`, hybrid arm -/
def hlocoSetCurMax (k : Consts α) (l : HLoco α) (dt : α) : Res (HLoco α) := do
  let h ← hybSetCurMax k l.h l.state.pwrAux dt
  pure { l with h := h,
                state := { l.state with
                  pwrOutMax := h.edrv.state.pwrMechOutMax,
                  pwrRateOutMax := h.edrv.state.pwrRateOutMax,
                  pwrRegenMax := h.edrv.state.pwrMechRegenMax } }

/-- `Locomotive::solve_energy_consumption(pwr_out_req, dt, engine_on)`, hybrid arm
    (`engine_on` and `pwr_aux` are not passed on: "TODO" in the source) -/
def hlocoSolve (k : Consts α) (l : HLoco α) (req dt split genAux : α) : Res (HLoco α) := do
  let h ← hybSolve k l.h req dt l.assertLimits split genAux
  let pwrOut := h.edrv.state.pwrMechPropOut - h.edrv.state.pwrMechDynBrake
  pure { l with h := h,
                state := { l.state with
                  pwrOut := pwrOut,
                  energyOut := l.state.energyOut + pwrOut * dt,
                  energyAux := l.state.energyAux + l.state.pwrAux * dt } }

/-- `LocomotiveSimulation::solve_step` for one trace sample of a hybrid -/
def hlocoSimStep (k : Consts α) (l : HLoco α) (req dt : α) (engineOn : Option Bool)
    (split genAux : α) : Res (HLoco α) := do
  let l := hlocoSetAux l engineOn
  let l ← hlocoSetCurMax k l dt
  let l ← hlocoSolve k l req dt split genAux
  ensure (almostEq req l.state.pwrOut k.eps) "loco-sim-pwr-mismatch"
  pure l

/-! ### consist-level fuel / battery roll-up over all three locomotive types
    (`Consist::get_energy_fuel`, `Consist::get_net_energy_res`: every unit that has an engine / a battery
    counts — hybrids included; `Consist.lean` models conventional and battery units only) -/

/-- what the roll-up reads of one unit: cumulative fuel energy of its engine, cumulative chemical
    energy of its battery -/
inductive UnitE (α : Type) where
  | conv (fuel : α)
  | bel (chem : α)
  | hyb (fuel chem : α)
  deriving Repr

def unitFuel : UnitE α → α
  | .conv f => f
  | .bel _ => 0
  | .hyb f _ => f

def unitChem : UnitE α → α
  | .conv _ => 0
  | .bel c => c
  | .hyb _ c => c

/-- `Consist::get_energy_fuel` -/
def consistFuel (us : List (UnitE α)) : α := sumLeft (us.map unitFuel)
/-- `Consist::get_net_energy_res` -/
def consistChem (us : List (UnitE α)) : α := sumLeft (us.map unitChem)

end
end Altrios.Hyb
