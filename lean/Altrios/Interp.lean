import Altrios.Num
/-
  Model of `utils::interp1d` (extrapolate = false, the only way the crate calls it) and
  `utils::interp3d` with `find_interp_indices` / `compute_interp_diff`.      Properties C08, C09.
  Literal: every slice index is a checked access (`panic` outcome), `bail!` is the `err` outcome.
-/
namespace Altrios.Interp
open Altrios

section
variable {α : Type} [Add α] [Sub α] [Mul α] [Div α] [Neg α] [LT α] [LE α]
  [DecidableLT α] [DecidableLE α] [OfNat α 0] [OfNat α 1]

def getA (l : List α) (i : Nat) : Res α :=
  match l[i]? with
  | some v => .ok v
  | none => .panic "index"

/-- `len() as f64` (exact below 2^53) -/
def lenA (l : List α) : α := l.foldl (fun a _ => a + 1) 0

/-- `iter().sum::<f64>() / len() as f64` -/
def mean (l : List α) : α := sumLeft l / lenA l

/-- the `while x > &x_data[i + 1] { i += 1 }` search -/
def scan (x : α) (xs : List α) : Nat → Nat → Res Nat
  | 0, _ => .panic "fuel"
  | f + 1, i => do
    let v ← getA xs (i + 1)
    if v < x then scan x xs f (i + 1) else pure i

def interp1d (x : α) (xs ys : List α) : Res α :=
  let yMean := mean ys
  if ys.all (fun y => eqb y yMean) then .ok yMean
  else
    let xMean := mean xs
    if xs.all (fun v => eqb v xMean) then .err "all-x-equal"
    else do
      let size := xs.length
      if size < 2 then .panic "size" else
      let x2 ← getA xs (size - 2)
      let i ← (if x2 ≤ x then pure (size - 2) else scan x xs (size + 1) 0)
      let xl ← getA xs i
      let yl ← getA ys i
      let xr ← getA xs (i + 1)
      let yr ← getA ys (i + 1)
      -- no extrapolation: clamp by overwriting (sequentially, as in the code)
      let yr := if x < xl then yl else yr
      let yl := if xr < x then yr else yl
      let dydx := (yr - yl) / (xr - xl)
      pure (yl + dydx * (x - xl))

/-! ### interp3d -/

/-- `axis.windows(2).position(|w| query >= w[0] && query < w[1])` -/
def windowPos (q : α) : List α → Nat → Option Nat
  | a :: b :: t, i => if a ≤ q ∧ q < b then some i else windowPos q (b :: t) (i + 1)
  | _, _ => none

def findInterpIndices (q : α) (axis : List α) : Res (Nat × Nat) :=
  match windowPos q axis 0 with
  | some p => do
    let ap ← getA axis p
    if eqb q ap then pure (p, p) else do
      let ap1 ← getA axis (p + 1)
      if eqb q ap1 then pure (p + 1, p + 1) else pure (p, p + 1)
  | none => do
    let a0 ← getA axis 0
    if q ≤ a0 then pure (0, 0) else do
      let n := axis.length
      let al ← getA axis (n - 1)
      if al ≤ q then pure (n - 1, n - 1) else .err "grid"

def interpDiff (v lo hi : α) : α := if eqb lo hi then 0 else (v - lo) / (hi - lo)

def get3 (vals : List (List (List α))) (i j k : Nat) : Res α :=
  match vals[i]? with
  | some a => match a[j]? with
    | some b => getA b k
    | none => .panic "index"
  | none => .panic "index"

def interp3d (x y z : α) (gx gy gz : List α) (vals : List (List (List α))) : Res α := do
  let (xi0, xi1) ← findInterpIndices x gx
  let (yi0, yi1) ← findInterpIndices y gy
  let (zi0, zi1) ← findInterpIndices z gz
  let xd := interpDiff x (← getA gx xi0) (← getA gx xi1)
  let yd := interpDiff y (← getA gy yi0) (← getA gy yi1)
  let zd := interpDiff z (← getA gz zi0) (← getA gz zi1)
  let c000 ← get3 vals xi0 yi0 zi0
  let c100 ← get3 vals xi1 yi0 zi0
  let c001 ← get3 vals xi0 yi0 zi1
  let c101 ← get3 vals xi1 yi0 zi1
  let c010 ← get3 vals xi0 yi1 zi0
  let c110 ← get3 vals xi1 yi1 zi0
  let c011 ← get3 vals xi0 yi1 zi1
  let c111 ← get3 vals xi1 yi1 zi1
  let c00 := c000 * (1 - xd) + c100 * xd
  let c01 := c001 * (1 - xd) + c101 * xd
  let c10 := c010 * (1 - xd) + c110 * xd
  let c11 := c011 * (1 - xd) + c111 * xd
  let c0 := c00 * (1 - yd) + c10 * yd
  let c1 := c01 * (1 - yd) + c11 * yd
  pure (c0 * (1 - zd) + c1 * zd)

end
end Altrios.Interp
