import Altrios.Num
/-
  Model of the mass / traction-limit bookkeeping (property C20):
    traits.rs                         trait Mass, MassSideEffect
    powertrain/fuel_converter.rs, generator.rs, reversible_energy_storage.rs
                                      impl Mass (mass / set_mass / derived_mass / expunge_mass_fields);
                                      the three impls are the same code over
                                      (mass, specific_pwr | specific_energy, pwr_out_max | energy_capacity)
    locomotive_model.rs               impl Mass for Locomotive (mass, set_mass, expunge_mass_fields),
                                      the INHERENT `derived_mass` (which is what `self.derived_mass()`
                                      resolves to inside the impl), the trait's `derived_mass`
                                      (conv.mass() = fc.mass(), bel.mass() = res.mass(), …),
                                      set_force_max / force_max / check_force_max / mu / set_mu
    consist_model.rs                  Consist::mass (= derived_mass), Consist::force_max
    train_config.rs, rail_vehicle.rs  make_train_params (towed mass), make_train_sim_parts (static mass)

  Several locomotive setters write fields BEFORE a later `?` fails.  They are therefore modelled as
  functions returning a `Step`: the state the object is left in, and whether the call returned `Ok`.
  The post-state of a rejected call is part of the correspondence.
-/
namespace Altrios.Mass
open Altrios

/-- the literals the code uses -/
structure MC (α : Type) where
  eps : α        -- 1e-8, the default epsilon of `utils::almost_eq`
  g : α          -- uc::ACC_GRAV = 9.801_548_494_963_14

/-- `traits::MassSideEffect` -/
inductive MassSE where
  | none | extensive | intensive
  deriving DecidableEq, Repr

/-- `locomotive_model::ForceMaxSideEffect` -/
inductive ForceSE where
  | mass | updateMu | setMuToNone | setMassToNone | setMassAndMuToNone
  deriving DecidableEq, Repr

/-- `locomotive_model::MuSideEffect` -/
inductive MuSE where
  | mass | forceMax | setMassToNone
  deriving DecidableEq, Repr

/-- outcome of a `&mut self` call that may fail after writing: the object afterwards, and Ok/Err -/
structure Step (σ : Type) where
  st : σ
  ok : Bool
  deriving Repr, DecidableEq

/-- the mass-relevant fields of FuelConverter / Generator / ReversibleEnergyStorage:
    `mass`, `specific_pwr` (`specific_energy`), `pwr_out_max` (`energy_capacity`) -/
structure Comp (α : Type) where
  mass : Option α
  specific : Option α
  rating : α
  deriving Repr, DecidableEq

/-- `Option::or` -/
def optOr {β : Type} : Option β → Option β → Option β
  | some a, _ => some a
  | none, b => b

section
variable {α : Type} [Add α] [Sub α] [Mul α] [Div α] [Neg α] [LT α] [LE α]
  [DecidableLT α] [DecidableLE α] [OfNat α 0] [OfNat α 1]

/-- `!=` on f64 as the code uses it for `derived_mass != new_mass`: IEEE `==` is
    `a ≤ b ∧ b ≤ a` (false as soon as one side is NaN, e.g. a derived mass `0/0`), which in a
    linear order is plain equality -/
def fne (a b : α) : Bool := !(decide (a ≤ b) && decide (b ≤ a))

/-! ### components -/

/-- `derived_mass`: `specific.map(|s| rating / s)` (never fails) -/
def compDerived (c : Comp α) : Option α :=
  match c.specific with
  | some sp => some (c.rating / sp)
  | none => none

/-- `mass()`: the stored mass, after checking it against the derived mass when both are known -/
def compMass (k : MC α) (c : Comp α) : Res (Option α) :=
  match compDerived c, c.mass with
  | some d, some m => if almostEq m d k.eps then .ok c.mass else .err "mass!=derived"
  | _, _ => .ok c.mass

/-- `set_mass(new_mass, side_effect)` -/
def compSetMass (c : Comp α) (new : Option α) (se : MassSE) : Res (Comp α) :=
  match compDerived c, new with
  | some d, some nm =>
    if fne d nm then
      match se with
      | .extensive =>
        match c.specific with
        | some sp => .ok { c with rating := sp * nm, mass := some nm }
        | none => .err "specific none"          -- `ok_or_else(..)?`; unreachable (derived is Some)
      | .intensive => .ok { c with specific := some (c.rating / nm), mass := some nm }
      | .none => .ok { c with specific := none, mass := some nm }
    else .ok { c with mass := some nm }
  | none, some nm => .ok { c with mass := some nm }
  | _, none => .ok { c with specific := none, mass := none }

/-- `expunge_mass_fields` -/
def compExpunge (c : Comp α) : Comp α := { c with mass := none, specific := none }

/-! ### locomotive -/

/-- `PowertrainType`, reduced to the components that carry mass data -/
inductive PT (α : Type) where
  | conv (fc gen : Comp α)
  | hybrid (fc gen res : Comp α)
  | bel (res : Comp α)
  | dummy
  deriving Repr, DecidableEq

structure Loco (α : Type) where
  pt : PT α
  mass : Option α
  mu : Option α
  ballast : Option α
  baseline : Option α
  forceMax : α
  deriving Repr, DecidableEq

def PT.isDummy : PT α → Bool
  | .dummy => true
  | _ => false

/-- the inherent `Locomotive::derived_mass` (locomotive_model.rs ~992) -/
def locoDerived (k : MC α) (l : Loco α) : Res (Option α) :=
  match l.baseline, l.ballast with
  | some base, some bal =>
    match l.pt with
    | .conv fc gen => do
      let a ← compMass k fc
      let b ← compMass k gen
      match a, b with
      | some a, some b => .ok (some (a + b + base + bal))
      | _, _ => .err "fc and gen masses must be specified"
    | .hybrid fc gen res => do
      let a ← compMass k fc
      let b ← compMass k gen
      let c ← compMass k res
      match a, b, c with
      | some a, some b, some c => .ok (some (a + b + c + base + bal))
      | _, _, _ => .err "fc, gen and res masses must be specified"
    | .bel res => do
      let c ← compMass k res
      match c with
      | some c => .ok (some (c + base + bal))
      | none => .err "res mass must be specified"
    | .dummy => .err "baseline and ballast must be None with DummyLoco"
  | none, none =>
    match l.pt with
    | .conv fc gen => do
      let a ← compMass k fc
      if a.isNone then
        let b ← compMass k gen
        if b.isNone then .ok none else .err "fc and gen masses must be None"
      else .err "fc and gen masses must be None"
    | .hybrid fc gen res => do
      let a ← compMass k fc
      if a.isNone then
        let b ← compMass k gen
        if b.isNone then
          let c ← compMass k res
          if c.isNone then .ok none else .err "fc, gen and res masses must be None"
        else .err "fc, gen and res masses must be None"
      else .err "fc, gen and res masses must be None"
    | .bel res => do
      let c ← compMass k res
      if c.isNone then .ok none else .err "res mass must be None"
    | .dummy => .ok (some 0)
  | _, _ => .err "baseline and ballast must both be Some or None"

/-- the TRAIT's `Mass::derived_mass` for `Locomotive` (shadowed inside the crate by the inherent
    method, but what a caller outside the module gets): `conv.mass()` = `fc.mass()`,
    `hev.mass()` = `fc.mass()`, `bev.mass()` = `res.mass()`, `None` for the dummy -/
def locoDerivedTrait (k : MC α) (l : Loco α) : Res (Option α) :=
  match l.pt with
  | .conv fc _ => compMass k fc
  | .hybrid fc _ _ => compMass k fc
  | .bel res => compMass k res
  | .dummy => .ok none

/-- `Mass::mass` for `Locomotive` -/
def locoMass (k : MC α) (l : Loco α) : Res (Option α) :=
  match locoDerived k l with
  | .ok d =>
    match d, l.mass with
    | some dm, some m => if almostEq m dm k.eps then .ok (some m) else .err "mass!=derived"
    | none, none => .ok none
    | _, _ => .ok (optOr l.mass d)
  | .err e => .err e
  | .panic e => .panic e

/-- `check_force_max` -/
def locoCheckForceMax (k : MC α) (l : Loco α) : Bool :=
  match l.mu, l.mass with
  | some mu, some m => almostEq l.forceMax (mu * m * k.g) k.eps
  | _, _ => true

/-- `mu()` -/
def locoMu (k : MC α) (l : Loco α) : Res (Option α) :=
  if locoCheckForceMax k l then .ok l.mu else .err "force_max"

/-- `force_max()` -/
def locoForceMax (k : MC α) (l : Loco α) : Res α :=
  if locoCheckForceMax k l then .ok l.forceMax else .err "force_max"

/-- `expunge_mass_fields` for `Locomotive`: the components' fields only — `baseline_mass` and
    `ballast_mass` stay -/
def locoExpunge (l : Loco α) : Loco α :=
  { l with pt := match l.pt with
      | .conv fc gen => .conv (compExpunge fc) (compExpunge gen)
      | .hybrid fc gen res => .hybrid (compExpunge fc) (compExpunge gen) (compExpunge res)
      | .bel res => .bel (compExpunge res)
      | .dummy => .dummy }

/-- the tail of `set_mass` once `self.mass` has been assigned:
    `self.force_max = self.mu()?.context()? * self.mass()?.context()? * ACC_GRAV` -/
def locoSetMassFinish (k : MC α) (l1 : Loco α) : Step (Loco α) :=
  match locoMu k l1 with
  | .ok (some mu) =>
    match locoMass k l1 with
    | .ok (some m) => ⟨{ l1 with forceMax := mu * m * k.g }, true⟩
    | _ => ⟨l1, false⟩
  | _ => ⟨l1, false⟩

/-- `Mass::set_mass` for `Locomotive` -/
def locoSetMass (k : MC α) (l : Loco α) (new : Option α) (se : MassSE) : Step (Loco α) :=
  if se ≠ MassSE.none then ⟨l, false⟩
  else
    match locoDerived k l with
    | .ok d =>
      match new with
      | some nm =>
        let l0 := match d with
          | some dm => if fne dm nm then locoExpunge l else l
          | none => l
        locoSetMassFinish k { l0 with mass := some nm }
      | none =>
        match d with
        | some dm => locoSetMassFinish k { l with mass := some dm }
        | none => ⟨l, false⟩
    | _ => ⟨l, false⟩

/-- `set_force_max(force_max, side_effect)`: `self.force_max` is written first -/
def locoSetForceMax (k : MC α) (l : Loco α) (f : α) (se : ForceSE) : Step (Loco α) :=
  let l1 := { l with forceMax := f }
  match se with
  | .mass =>
    match locoMu k l1 with
    | .ok (some mu) => locoSetMass k l1 (some (f / (mu * k.g))) MassSE.none
    | _ => ⟨l1, false⟩
  | .updateMu =>
    ⟨{ l1 with mu := match l1.mass with
        | some m => some (f / (m * k.g))
        | none => none }, true⟩
  | .setMuToNone => ⟨{ l1 with mu := none }, true⟩
  | .setMassToNone => ⟨{ l1 with mass := none }, true⟩
  | .setMassAndMuToNone => ⟨{ l1 with mu := none, mass := none }, true⟩

/-- `set_mu(mu, side_effect)`: `self.mu` is written first -/
def locoSetMu (k : MC α) (l : Loco α) (mu : α) (se : MuSE) : Step (Loco α) :=
  let l1 := { l with mu := some mu }
  match se with
  | .mass => locoSetMass k l1 (some (l1.forceMax / (mu * k.g))) MassSE.none
  | .forceMax =>
    match locoMass k l1 with
    | .ok (some m) => ⟨{ l1 with forceMax := mu * k.g * m }, true⟩
    | _ => ⟨l1, false⟩
  | .setMassToNone => ⟨{ l1 with mass := none }, true⟩

/-- which nested component a `*_mut().set_mass` call addresses -/
inductive Slot where
  | fc | gen | res
  deriving DecidableEq, Repr

/-- `loco.fuel_converter_mut()/generator_mut()/reversible_energy_storage_mut()` followed by the
    component's `set_mass`; `none` when the powertrain has no such component -/
def locoCompSetMass (l : Loco α) (s : Slot) (new : Option α) (se : MassSE) : Option (Res (Loco α)) :=
  match l.pt, s with
  | .conv fc gen, .fc => some ((compSetMass fc new se).bind fun c => .ok { l with pt := .conv c gen })
  | .conv fc gen, .gen => some ((compSetMass gen new se).bind fun c => .ok { l with pt := .conv fc c })
  | .hybrid fc gen res, .fc =>
    some ((compSetMass fc new se).bind fun c => .ok { l with pt := .hybrid c gen res })
  | .hybrid fc gen res, .gen =>
    some ((compSetMass gen new se).bind fun c => .ok { l with pt := .hybrid fc c res })
  | .hybrid fc gen res, .res =>
    some ((compSetMass res new se).bind fun c => .ok { l with pt := .hybrid fc gen c })
  | .bel res, .res => some ((compSetMass res new se).bind fun c => .ok { l with pt := .bel c })
  | _, _ => none

/-- `SerdeAPI::init` of a component (run by every `from_yaml/from_json/…`), as far as mass data
    decides it: `let _ = self.mass()?` -/
def compInit (k : MC α) (c : Comp α) : Res Unit := do
  let _ ← compMass k c
  pure ()

/-- `SerdeAPI::init` of a locomotive, as far as mass data decides it: `self.mass()?`,
    `self.check_force_max()?`, then the powertrain's `init` (each component's `init`) -/
def locoInit (k : MC α) (l : Loco α) : Res Unit := do
  let _ ← locoMass k l
  let _ ← locoForceMax k l
  match l.pt with
  | .conv fc gen => do compInit k fc; compInit k gen
  | .hybrid fc gen res => do compInit k fc; compInit k gen; compInit k res
  | .bel res => compInit k res
  | .dummy => pure ()

/-- `Consist::init`: `self.mass()?`, then every locomotive's `init` -/
def locosInit (k : MC α) : List (Loco α) → Res Unit
  | [] => pure ()
  | l :: ls => do locoInit k l; locosInit k ls

/-! ### consist -/

/-- the all-`None`-or-all-`Some` check of `Consist::derived_mass`: `try_fold(init, ..)` -/
def consistNoneFold (k : MC α) : Bool → List (Loco α) → Res Bool
  | acc, [] => .ok acc
  | acc, l :: ls => do
    let m ← locoMass k l
    if acc == m.isNone then consistNoneFold k acc ls else .err "mixed None/Some"

/-- `try_fold(0, |m_acc, loco| loco.mass()?.context()? + m_acc)` -/
def consistSumFold (k : MC α) : α → List (Loco α) → Res α
  | acc, [] => .ok acc
  | acc, l :: ls => do
    let m ← locoMass k l
    match m with
    | some m => consistSumFold k (m + acc) ls
    | none => .err "locomotive has no mass"

/-- `Consist::mass` (= `derived_mass`) -/
def consistMass (k : MC α) (ls : List (Loco α)) : Res (Option α) :=
  match ls with
  | [] => .err "empty loco_vec"
  | l :: _ => do
    let m0 ← locoMass k l
    let allNone ← consistNoneFold k m0.isNone ls
    if allNone then .ok none
    else do
      let s ← consistSumFold k 0 ls
      .ok (some s)

/-- `Consist::force_max`: `try_fold(0, |f_sum, loco| loco.force_max()? + f_sum)` -/
def consistForceFold (k : MC α) : α → List (Loco α) → Res α
  | acc, [] => .ok acc
  | acc, l :: ls => do
    let f ← locoForceMax k l
    consistForceFold k (f + acc) ls

def consistForceMax (k : MC α) (ls : List (Loco α)) : Res α := consistForceFold k 0 ls

/-- `Consist::init`, as far as mass data decides it -/
def consistInit (k : MC α) (ls : List (Loco α)) : Res Unit := do
  let _ ← consistMass k ls
  locosInit k ls

/-! ### train -/

/-- a rail-vehicle type: its key in `n_cars_by_type`, `mass_static_base`, `mass_freight` -/
structure RV (α : Type) where
  key : Nat
  base : α
  freight : α
  deriving Repr, DecidableEq

/-- `HashMap::get` on `n_cars_by_type` (keys are unique in the map) -/
def nCars (n : List (Nat × Nat)) (key : Nat) : Option Nat := n.lookup key

/-- the `try_fold` of `make_train_params`:
    `acc + rv.mass()?.context()? * *n_cars_by_type.get(&rv.car_type).context()? as f64 * uc::R` -/
def carsMassFold (cast : Nat → α) (n : List (Nat × Nat)) : α → List (RV α) → Res α
  | acc, [] => .ok acc
  | acc, rv :: rvs =>
    match nCars n rv.key with
    | some c => carsMassFold cast n (acc + (rv.base + rv.freight) * cast c * 1) rvs
    | none => .err "car type not in n_cars_by_type"

/-- `towed_mass_static` of `make_train_params`.  `self.train_mass.unwrap_or({ fold? })` evaluates
    the fold EAGERLY, so an error in the car data rejects the call even when the override is given.
    The later `self.rail_vehicles.first().unwrap()` panics on an empty vehicle list. -/
def towedMass (cast : Nat → α) (override : Option α) (rvs : List (RV α)) (n : List (Nat × Nat)) :
    Res α :=
  match carsMassFold cast n 0 rvs with
  | .ok s =>
    if rvs.isEmpty then .panic "rail_vehicles.first().unwrap()"
    else .ok (match override with
      | some m => m
      | none => s)
  | .err e => .err e
  | .panic e => .panic e

/-- `TrainSimBuilder::check_rv_keys`: the two key sets are equal -/
def checkRvKeys (rvs : List (RV α)) (n : List (Nat × Nat)) : Bool :=
  rvs.all (fun rv => (nCars n rv.key).isSome) && n.all (fun kv => rvs.any (fun rv => rv.key == kv.1))

/-- `train_mass_static` of `make_train_sim_parts`:
    `towed_mass_static + loco_con.mass()?.unwrap_or(0)`; returns (towed, static) -/
def trainMassStatic (k : MC α) (cast : Nat → α) (override : Option α) (rvs : List (RV α))
    (n : List (Nat × Nat)) (ls : List (Loco α)) : Res (α × α) :=
  if checkRvKeys rvs n then do
    let towed ← towedMass cast override rvs n
    let cm ← consistMass k ls
    .ok (towed, towed + (match cm with
      | some m => m
      | none => 0))
  else .err "check_rv_keys"

end
end Altrios.Mass
