/-
  Model of network validation (property C16):
    `track/link/link_impl.rs`   ObjState for Link, ObjState for [Link], From<LinkOld> for Link
    `track/link/{elev,heading,cat_power,link_idx,link_old}.rs`
    `track/link/speed/{speed_limit,speed_set,speed_param}.rs`
    `validate.rs`               si_chk_* helpers, validate_field_real/fake, validate_slice_*,
                                early_err!, early_fake_ok!

  The code is comparison-only (`<`, `==`, `partial_cmp`, `is_nan`, `is_finite`, one `trunc() != self`),
  but the property quantifies over NaN and ±∞, so numbers are modelled as
      `Num α := nan | negInf | fin a | posInf`
  with the IEEE-754 comparison tables (NaN compares false with everything, `==` included; `!=` true).
  The finite payload type `α` is a parameter: the driver runs the model at `α := Rat` (every finite
  double is exactly a rational; +0 and -0 both map to 0), the theorems hold for any linear order.
  The three things the code needs beyond the order are passed in a `NumCfg`: the value `0`, the
  constant `uc::REV` (2π) and the predicate "x.trunc() == x".

  Outcomes: `ok` (`Ok(())`), `err` (`Err(errors)`; error text is never compared), `panic`
  (`.unwrap()` on `None`, slice index out of bounds).  Every `self[idx]`, `.first().unwrap()`,
  `.last().unwrap()` of the Rust code is a checked access here.

  No imports: the driver (a `lean_exe`) links against this file.
-/
namespace Altrios.Net

/-! ## Numbers with NaN and ±∞ -/

inductive Num (α : Type) where
  | nan
  | negInf
  | fin (a : α)
  | posInf
  deriving Repr, DecidableEq

/-- what the validator needs to know about finite numbers besides their order -/
structure NumCfg (α : Type) where
  /-- `0.0` (`si::Length::ZERO`, …) -/
  zero : α
  /-- `uc::REV` = 6.283185307179586 rad -/
  rev : α
  /-- `x.trunc() == x` for finite `x` -/
  isInt : α → Bool

inductive Outcome where
  | ok | err | panic
  deriving Repr, DecidableEq

section
variable {α : Type} [LT α] [DecidableLT α] [DecidableEq α]

namespace Num

/-- IEEE `<` -/
def lt : Num α → Num α → Bool
  | negInf, fin _ => true
  | negInf, posInf => true
  | fin _, posInf => true
  | fin a, fin b => decide (a < b)
  | _, _ => false

/-- IEEE `==` (false as soon as one side is NaN) -/
def eq : Num α → Num α → Bool
  | negInf, negInf => true
  | posInf, posInf => true
  | fin a, fin b => decide (a = b)
  | _, _ => false

/-- IEEE `!=` -/
def ne (a b : Num α) : Bool := !(eq a b)
/-- IEEE `<=` -/
def le (a b : Num α) : Bool := lt a b || eq a b
/-- IEEE `>` -/
def gt (a b : Num α) : Bool := lt b a
/-- IEEE `>=` -/
def ge (a b : Num α) : Bool := le b a

def isNan : Num α → Bool
  | nan => true
  | _ => false
def isInfinite : Num α → Bool
  | negInf => true
  | posInf => true
  | _ => false
def isFinite : Num α → Bool
  | fin _ => true
  | _ => false

/-- `f64::partial_cmp` -/
def partialCmp (a b : Num α) : Option Ordering :=
  if lt a b then some .lt
  else if eq a b then some .eq
  else if lt b a then some .gt
  else none

/-- `x.trunc() != x` -/
def truncNe (c : NumCfg α) : Num α → Bool
  | nan => true
  | fin a => !(c.isInt a)
  | _ => false

end Num

/-! ## `validate.rs`: the `si_chk_*` helpers (`true` = no error pushed) -/

/-- `si_chk_num`: not NaN -/
def chkNum (x : Num α) : Bool := !x.isNan
/-- `si_chk_num_fin`: neither NaN nor infinite -/
def chkNumFin (x : Num α) : Bool := !(x.isNan || x.isInfinite)
/-- `si_chk_num_gez`: error on `None | Some(Less)` of `partial_cmp(&ZERO)` -/
def chkGez (c : NumCfg α) (x : Num α) : Bool :=
  match Num.partialCmp x (.fin c.zero) with
  | none => false
  | some .lt => false
  | _ => true
/-- `si_chk_num_gtz`: error on `None | Some(Less) | Some(Equal)` -/
def chkGtz (c : NumCfg α) (x : Num α) : Bool :=
  match Num.partialCmp x (.fin c.zero) with
  | some .gt => true
  | _ => false
/-- `si_chk_num_eqz`: error on `x != ZERO` -/
def chkEqz (c : NumCfg α) (x : Num α) : Bool := !(Num.ne x (.fin c.zero))

/-- `slice.windows(2).all(|w| p(w[0], w[1]))` -/
def win2all {β : Type} (p : β → β → Bool) : List β → Bool
  | a :: b :: t => p a b && win2all p (b :: t)
  | _ => true
/-- `slice.windows(2).any(|w| p(w[0], w[1]))` -/
def win2any {β : Type} (p : β → β → Bool) : List β → Bool
  | a :: b :: t => p a b || win2any p (b :: t)
  | _ => false

end

/-! ## Records (field order = the Rust structs) -/

inductive TrainType where
  | none | freight | passenger | intermodal | highSpeedPassenger | tiltTrain | commuter
  deriving Repr, DecidableEq

inductive LimitType where
  | massTotal | massPerBrake | axleCount
  deriving Repr, DecidableEq

inductive CompareType where
  | tpEqualRp | tpGreaterThanRp | tpLessThanRp | tpGreaterThanEqualRp | tpLessThanEqualRp
  deriving Repr, DecidableEq

structure Elev (α : Type) where
  offset : Num α
  elev : Num α
  deriving Repr

structure Heading (α : Type) where
  offset : Num α
  heading : Num α
  lat : Option (Num α)      -- never validated
  lon : Option (Num α)      -- never validated
  deriving Repr

structure SpeedLimit (α : Type) where
  offsetStart : Num α
  offsetEnd : Num α
  speed : Num α
  deriving Repr

structure SpeedParam (α : Type) where
  limitVal : Num α
  limitType : LimitType
  compareType : CompareType
  deriving Repr

structure SpeedSet (α : Type) where
  speedLimits : List (SpeedLimit α)
  speedParams : List (SpeedParam α)
  isHeadEnd : Bool
  deriving Repr

/-- legacy layout: a speed set carries its train type -/
structure OldSpeedSet (α : Type) where
  speedLimits : List (SpeedLimit α)
  speedParams : List (SpeedParam α)
  trainType : TrainType
  isHeadEnd : Bool
  deriving Repr

structure CatPowerLimit (α : Type) where
  offsetStart : Num α
  offsetEnd : Num α
  powerLimit : Num α
  districtId : Option String   -- never validated
  deriving Repr

/-- `link_impl.rs::Link`.  `speed_sets: HashMap<TrainType, SpeedSet>` is an association list;
    the validator only iterates over its values (`.values()`), in an order the code does not
    control — `validateNet` is proved invariant under permutation of this list. -/
structure Link (α : Type) where
  idxCurr : Nat
  idxFlip : Nat
  idxNext : Nat
  idxNextAlt : Nat
  idxPrev : Nat
  idxPrevAlt : Nat
  osmId : Option String        -- never validated
  length : Num α
  elevs : List (Elev α)
  headings : List (Heading α)
  speedSets : List (TrainType × SpeedSet α)
  speedSet : Option (SpeedSet α)
  catPowerLimits : List (CatPowerLimit α)
  lockout : List Nat           -- `link_idxs_lockout`: never validated
  deriving Repr

/-- `link_old.rs::Link` (legacy file layout): `speed_sets` is a vector, there is no `speed_set` -/
structure LinkOld (α : Type) where
  elevs : List (Elev α)
  headings : List (Heading α)
  speedSets : List (OldSpeedSet α)
  catPowerLimits : List (CatPowerLimit α)
  length : Num α
  idxNext : Nat
  idxNextAlt : Nat
  idxPrev : Nat
  idxPrevAlt : Nat
  idxCurr : Nat
  idxFlip : Nat
  osmId : Option String
  lockout : List Nat
  deriving Repr

section
variable {α : Type} [LT α] [DecidableLT α] [DecidableEq α]

/-! ## Element validators (`true` = `validate()` returns `Ok`) -/

/-- `ObjState for Elev` -/
def elevValid (c : NumCfg α) (e : Elev α) : Bool :=
  chkGez c e.offset && chkNumFin e.elev

/-- `ObjState for [Elev]`: `early_fake_ok!`, every element valid (`validate_slice_real`; elements
    are never fake), at least two, `windows(2).all(offset < offset)` -/
def elevsValid (c : NumCfg α) (es : List (Elev α)) : Bool :=
  if es.isEmpty then true
  else es.all (elevValid c) && decide (2 ≤ es.length) &&
       win2all (fun a b => Num.lt a.offset b.offset) es

/-- `ObjState for Heading` -/
def headingValid (c : NumCfg α) (h : Heading α) : Bool :=
  chkGez c h.offset && chkGez c h.heading && !(Num.ge h.heading (.fin c.rev))

/-- `ObjState for [Heading]` -/
def headingsValid (c : NumCfg α) (hs : List (Heading α)) : Bool :=
  if hs.isEmpty then true
  else hs.all (headingValid c) && decide (2 ≤ hs.length) &&
       win2all (fun a b => Num.lt a.offset b.offset) hs

/-- `ObjState for SpeedLimit` -/
def speedLimitValid (c : NumCfg α) (s : SpeedLimit α) : Bool :=
  chkGez c s.offsetStart && chkGez c s.offsetEnd && chkNum s.speed &&
  !(Num.gt s.offsetStart s.offsetEnd)

/-- `#[derive(PartialOrd)]` on `SpeedLimit`: lexicographic `partial_cmp` over
    (offset_start, offset_end, speed) -/
def slPartialCmp (a b : SpeedLimit α) : Option Ordering :=
  match Num.partialCmp a.offsetStart b.offsetStart with
  | some .eq =>
    match Num.partialCmp a.offsetEnd b.offsetEnd with
    | some .eq => Num.partialCmp a.speed b.speed
    | o => o
  | o => o

/-- `a <= b` through the derived `partial_cmp` -/
def slLe (a b : SpeedLimit α) : Bool :=
  match slPartialCmp a b with
  | some .lt => true
  | some .eq => true
  | _ => false

def slSameBounds (a b : SpeedLimit α) : Bool :=
  Num.eq a.offsetStart b.offsetStart && Num.eq a.offsetEnd b.offsetEnd

/-- `ObjState for [SpeedLimit]`: `early_fake_ok!`; elements valid else `early_err!`; neighbouring
    (start, end) pairs unique; `utils::is_sorted` -/
def speedLimitsValid (c : NumCfg α) (ls : List (SpeedLimit α)) : Bool :=
  if ls.isEmpty then true
  else if !(ls.all (speedLimitValid c)) then false
  else !(win2any slSameBounds ls) && win2all slLe ls

/-- `ObjState for SpeedParam` -/
def speedParamValid (c : NumCfg α) (p : SpeedParam α) : Bool :=
  (match Num.partialCmp p.limitVal (.fin c.zero) with
   | none => false
   | some .lt => false
   | _ => true) &&
  !(decide (p.limitType = .axleCount) && Num.truncNe c p.limitVal)

/-- derived `PartialEq` on `SpeedParam` -/
def spEq (a b : SpeedParam α) : Bool :=
  Num.eq a.limitVal b.limitVal && decide (a.limitType = b.limitType) &&
  decide (a.compareType = b.compareType)

/-- `ObjState for [SpeedParam]` -/
def speedParamsValid (c : NumCfg α) (ps : List (SpeedParam α)) : Bool :=
  if !(ps.all (speedParamValid c)) then false
  else !(win2any spEq ps)

/-- `ObjState for SpeedSet` (and `&SpeedSet`): fake = no speed limits -/
def speedSetValid (c : NumCfg α) (s : SpeedSet α) : Bool :=
  if s.speedLimits.isEmpty then
    -- validate_field_fake(speed_limits) cannot fail here; params empty; not head end
    (s.speedLimits.isEmpty && speedLimitsValid c s.speedLimits) &&
    s.speedParams.isEmpty && !s.isHeadEnd
  else
    -- validate_field_real(speed_limits); validate_field_real(speed_params) ([SpeedParam] is never fake)
    (!s.speedLimits.isEmpty && speedLimitsValid c s.speedLimits) && speedParamsValid c s.speedParams

/-- `ObjState for HashMap<TrainType, SpeedSet>::validate`: `validate_slice_real` over `.values()`
    (each value must be real, i.e. have speed limits, and valid) -/
def speedSetsValid (c : NumCfg α) (m : List (TrainType × SpeedSet α)) : Bool :=
  m.all (fun kv => !kv.2.speedLimits.isEmpty && speedSetValid c kv.2)

/-- `ObjState for CatPowerLimit` -/
def catValid (c : NumCfg α) (x : CatPowerLimit α) : Bool :=
  chkGez c x.offsetStart && chkGez c x.offsetEnd && chkGez c x.powerLimit &&
  !(Num.gt x.offsetStart x.offsetEnd)

/-- `ObjState for [CatPowerLimit]`: elements valid else `early_err!`; then
    `windows(2).any(|w| w[0].offset_end > w[1].offset_start)` is an error -/
def catsValid (c : NumCfg α) (xs : List (CatPowerLimit α)) : Bool :=
  if !(xs.all (catValid c)) then false
  else !(win2any (fun a b => Num.gt a.offsetEnd b.offsetStart) xs)

/-! ## `ObjState for Link` -/

/-- first offset `!= 0` or last offset `!= length`, through `.first().unwrap()` / `.last().unwrap()`:
    `none` is the panic of `unwrap` on an empty vector -/
def spanErr (c : NumCfg α) (offs : List (Num α)) (length : Num α) : Option Bool :=
  match offs.head?, offs.getLast? with
  | some f, some l => some (Num.ne f (.fin c.zero) || Num.ne l length)
  | _, _ => none

/-- first `offset_start < 0` or last `offset_end > length` -/
def catSpanErr (c : NumCfg α) (xs : List (CatPowerLimit α)) (length : Num α) : Option Bool :=
  match xs.head?, xs.getLast? with
  | some f, some l => some (Num.lt f.offsetStart (.fin c.zero) || Num.gt l.offsetEnd length)
  | _, _ => none

/-- the speed-set part of the real branch: `true` = no error pushed -/
def speedFieldsOk (c : NumCfg α) (l : Link α) : Bool :=
  if !l.speedSets.isEmpty then
    -- validate_field_real(speed_sets) and `speed_set` must be None
    speedSetsValid c l.speedSets && l.speedSet.isNone
  else
    match l.speedSet with
    | some s => !s.speedLimits.isEmpty && speedSetValid c s
    | none => false

def validateLink (c : NumCfg α) (l : Link α) : Outcome :=
  if l.idxCurr = 0 then
    -- fake (dummy) link: every field fake
    if decide (l.idxNext = 0) && decide (l.idxNextAlt = 0) && decide (l.idxPrev = 0) &&
       decide (l.idxPrevAlt = 0) && decide (l.idxCurr = 0) && decide (l.idxFlip = 0) &&
       chkEqz c l.length &&
       (l.elevs.isEmpty && elevsValid c l.elevs) &&
       (l.headings.isEmpty && headingsValid c l.headings) &&
       (l.speedSets.isEmpty && speedSetsValid c l.speedSets) &&
       (match l.speedSet with
        | none => true
        | some s => s.speedLimits.isEmpty && speedSetValid c s) &&
       l.catPowerLimits.isEmpty
    then .ok else .err
  else
    -- real link, first part (up to `early_err!(errors, "Link")`)
    if !(chkGtz c l.length &&
         (!l.elevs.isEmpty && elevsValid c l.elevs) &&
         (l.headings.isEmpty || (!l.headings.isEmpty && headingsValid c l.headings)) &&
         speedFieldsOk c l &&
         catsValid c l.catPowerLimits)
    then .err
    else
      let eFlip := decide (l.idxFlip ≠ 0) &&
        (decide (l.idxCurr = l.idxFlip) || decide (l.idxNext = l.idxFlip) ||
         decide (l.idxNextAlt = l.idxFlip) || decide (l.idxPrev = l.idxFlip) ||
         decide (l.idxPrevAlt = l.idxFlip))
      let eNextAlt := decide (l.idxNextAlt ≠ 0) && decide (l.idxNext = 0)
      let ePrevAlt := decide (l.idxPrevAlt ≠ 0) && decide (l.idxPrev = 0)
      match spanErr c (l.elevs.map (·.offset)) l.length with
      | none => .panic
      | some eElev =>
        match (if l.headings.isEmpty then some false
               else spanErr c (l.headings.map (·.offset)) l.length) with
        | none => .panic
        | some eHead =>
          match (if l.catPowerLimits.isEmpty then some false
                 else catSpanErr c l.catPowerLimits l.length) with
          | none => .panic
          | some eCat =>
            if eFlip || eNextAlt || ePrevAlt || eElev || eHead || eCat then .err else .ok

/-! ## `ObjState for [Link]` -/

/-- errors are accumulated in sequence; a panic aborts -/
def combine : List Outcome → Outcome
  | [] => .ok
  | .panic :: _ => .panic
  | .ok :: t => combine t
  | .err :: t =>
    match combine t with
    | .ok => .err
    | o => o

/-- `validate_slice_fake` on one element: must be fake and valid -/
def slotFake (c : NumCfg α) (l : Link α) : Outcome :=
  match validateLink c l with
  | .panic => .panic
  | .err => .err
  | .ok => if l.idxCurr ≠ 0 then .err else .ok

/-- `validate_slice_real_shift` on one element: must be real and valid -/
def slotReal (c : NumCfg α) (l : Link α) : Outcome :=
  match validateLink c l with
  | .panic => .panic
  | .err => .err
  | .ok => if l.idxCurr = 0 then .err else .ok

def isLinkedPrev (m : Link α) (idx : Nat) : Bool :=
  decide (m.idxCurr = 0) || decide (m.idxPrev = idx) || decide (m.idxPrevAlt = idx)
def isLinkedNext (m : Link α) (idx : Nat) : Bool :=
  decide (m.idxCurr = 0) || decide (m.idxNext = idx) || decide (m.idxNextAlt = idx)

/-- the "Validate next" block of one loop iteration: `none` = index panic, `some e` = error pushed -/
def nextErr (n : List (Link α)) (l : Link α) : Option Bool :=
  if l.idxNext ≠ 0 then
    match n[l.idxNext]?, n[l.idxNextAlt]? with
    | some a, some b =>
      some (!(isLinkedPrev a l.idxCurr) || (decide (l.idxNextAlt ≠ 0) && decide (a.idxPrevAlt ≠ 0)) ||
            !(isLinkedPrev b l.idxCurr) || (decide (l.idxNextAlt ≠ 0) && decide (b.idxPrevAlt ≠ 0)))
    | _, _ => none
  else some (decide (l.idxNextAlt ≠ 0))

/-- the "Validate prev" block -/
def prevErr (n : List (Link α)) (l : Link α) : Option Bool :=
  if l.idxPrev ≠ 0 then
    match n[l.idxPrev]?, n[l.idxPrevAlt]? with
    | some a, some b =>
      some (!(isLinkedNext a l.idxCurr) || (decide (l.idxPrevAlt ≠ 0) && decide (a.idxNextAlt ≠ 0)) ||
            !(isLinkedNext b l.idxCurr) || (decide (l.idxPrevAlt ≠ 0) && decide (b.idxNextAlt ≠ 0)))
    | _, _ => none
  else some (decide (l.idxPrevAlt ≠ 0))

/-- one iteration of `for (idx, link) in self.iter().enumerate().skip(1)` -/
def crossLink (n : List (Link α)) (idx : Nat) (l : Link α) : Outcome :=
  -- all referenced link indices exist, else error and `continue`
  if [l.idxFlip, l.idxNext, l.idxNextAlt, l.idxPrev, l.idxPrevAlt].any (fun j => decide (n.length ≤ j))
  then .err
  else
    let eCurr := decide (l.idxCurr ≠ idx)
    let eSelf := decide (l.idxFlip = l.idxCurr)
    -- `link.idx_flip.is_real() && self[link.idx_flip.idx()].idx_flip != link.idx_curr`
    match (if l.idxFlip ≠ 0 then (n[l.idxFlip]?).map (fun f => decide (f.idxFlip ≠ l.idxCurr))
           else some false) with
    | none => .panic
    | some eFlip =>
      match nextErr n l with
      | none => .panic
      | some eNext =>
        match prevErr n l with
        | none => .panic
        | some ePrev => if eCurr || eSelf || eFlip || eNext || ePrev then .err else .ok

def crossAll (n : List (Link α)) : Nat → List (Link α) → List Outcome
  | _, [] => []
  | i, l :: t => crossLink n i l :: crossAll n (i + 1) t

/-- `ObjState for [Link]::validate` (also `Network::validate`, `Network::init`) -/
def validateNet (c : NumCfg α) (n : List (Link α)) : Outcome :=
  if n.length < 2 then .err
  else
    match n with
    | [] => .panic     -- `&self[..1]` of an empty slice
    | l0 :: rest =>
      match combine (slotFake c l0 :: rest.map (slotReal c)) with
      | .panic => .panic
      | .err => .err   -- early_err!(errors, "Links")
      | .ok => combine (crossAll n 1 rest)

end

/-! ## Legacy layout: `From<LinkOld> for Link`, `From<NetworkOld> for Network` -/

section
variable {α : Type}

/-- `HashMap::insert` on the association list: replaces the value of an existing key in place,
    otherwise appends -/
def insertKV {κ ν : Type} [DecidableEq κ] (k : κ) (v : ν) : List (κ × ν) → List (κ × ν)
  | [] => [(k, v)]
  | (k', v') :: t => if k' = k then (k, v) :: t else (k', v') :: insertKV k v t

def oldToSet (o : OldSpeedSet α) : SpeedSet α :=
  { speedLimits := o.speedLimits, speedParams := o.speedParams, isHeadEnd := o.isHeadEnd }

/-- the loop `for oss in l.speed_sets { speed_sets.insert(oss.train_type, …) }`:
    the last entry of a train type wins -/
def fromOldSets (os : List (OldSpeedSet α)) : List (TrainType × SpeedSet α) :=
  os.foldl (fun m o => insertKV o.trainType (oldToSet o) m) []

def fromOldLink (l : LinkOld α) : Link α :=
  { idxCurr := l.idxCurr, idxFlip := l.idxFlip, idxNext := l.idxNext, idxNextAlt := l.idxNextAlt,
    idxPrev := l.idxPrev, idxPrevAlt := l.idxPrevAlt, osmId := l.osmId, length := l.length,
    elevs := l.elevs, headings := l.headings, speedSets := fromOldSets l.speedSets,
    speedSet := none, catPowerLimits := l.catPowerLimits, lockout := l.lockout }

def fromOld (o : List (LinkOld α)) : List (Link α) := o.map fromOldLink

/-- the legacy layout of a current-layout link (what a legacy file of the same data contains);
    `speed_set` has no legacy counterpart -/
def toOldLink (l : Link α) : LinkOld α :=
  { elevs := l.elevs, headings := l.headings,
    speedSets := l.speedSets.map (fun kv =>
      { speedLimits := kv.2.speedLimits, speedParams := kv.2.speedParams, trainType := kv.1,
        isHeadEnd := kv.2.isHeadEnd }),
    catPowerLimits := l.catPowerLimits, length := l.length, idxNext := l.idxNext,
    idxNextAlt := l.idxNextAlt, idxPrev := l.idxPrev, idxPrevAlt := l.idxPrevAlt,
    idxCurr := l.idxCurr, idxFlip := l.idxFlip, osmId := l.osmId, lockout := l.lockout }

def toOld (n : List (Link α)) : List (LinkOld α) := n.map toOldLink

end

/-! ## Specification: the documented structural rules, one conjunct per rule

  Written independently of the validator's control flow: no early returns, no "first/last element
  only" shortcuts, no "neighbouring pairs only" shortcuts — every rule quantifies over all elements
  / all pairs it is about.  Comparisons are the IEEE ones (`Num.le a b = true` fails for NaN). -/

section
variable {α : Type} [LT α] [DecidableLT α] [DecidableEq α]

/-- an offset profile (elevations, headings) is sorted without duplicates and spans exactly the
    link: at least two points, strictly increasing, first at 0, last at `length` -/
structure ProfileOK (c : NumCfg α) (offs : List (Num α)) (length : Num α) : Prop where
  two : 2 ≤ offs.length
  sorted : offs.Pairwise (fun a b => Num.lt a b = true)
  first : ∃ o, offs.head? = some o ∧ Num.eq o (.fin c.zero) = true
  last : ∃ o, offs.getLast? = some o ∧ Num.eq o length = true

structure ElevsOK (c : NumCfg α) (es : List (Elev α)) (length : Num α) : Prop where
  profile : ProfileOK c (es.map (·.offset)) length
  finite : ∀ e ∈ es, e.elev.isFinite = true

/-- headings are optional; if present: a profile, each heading in `[0, 2π)` -/
def HeadingsOK (c : NumCfg α) (hs : List (Heading α)) (length : Num α) : Prop :=
  hs = [] ∨ (ProfileOK c (hs.map (·.offset)) length ∧
    ∀ h ∈ hs, Num.le (.fin c.zero) h.heading = true ∧ Num.lt h.heading (.fin c.rev) = true)

/-- a speed restriction is well-formed: `0 ≤ start ≤ end`, speed is a number -/
def SpeedLimitOK (c : NumCfg α) (s : SpeedLimit α) : Prop :=
  Num.le (.fin c.zero) s.offsetStart = true ∧ Num.le s.offsetStart s.offsetEnd = true ∧
  s.speed.isNan = false

/-- a gating parameter is well-formed: value `≥ 0`, an integer for axle counts -/
def SpeedParamOK (c : NumCfg α) (p : SpeedParam α) : Prop :=
  Num.le (.fin c.zero) p.limitVal = true ∧
  (p.limitType = .axleCount → Num.truncNe c p.limitVal = false)

/-- a speed set: at least one restriction, all well-formed, sorted (by start, end, speed), no two
    restrictions with the same (start, end); parameters well-formed, no two *neighbouring*
    parameters equal (the code's notion of "unique") -/
structure SpeedSetOK (c : NumCfg α) (s : SpeedSet α) : Prop where
  nonempty : s.speedLimits ≠ []
  limits : ∀ l ∈ s.speedLimits, SpeedLimitOK c l
  sorted : s.speedLimits.Pairwise (fun a b => slLe a b = true)
  unique : s.speedLimits.Pairwise (fun a b => slSameBounds a b = false)
  params : ∀ p ∈ s.speedParams, SpeedParamOK c p
  paramsDistinct : ∀ i a b, s.speedParams[i]? = some a → s.speedParams[i + 1]? = some b → spEq a b = false

/-- exactly one of `speed_sets` (per train type) / `speed_set` (type neutral) is given -/
def SpeedFieldsOK (c : NumCfg α) (l : Link α) : Prop :=
  (l.speedSets ≠ [] ∧ l.speedSet = none ∧ ∀ kv ∈ l.speedSets, SpeedSetOK c kv.2) ∨
  (l.speedSets = [] ∧ ∃ s, l.speedSet = some s ∧ SpeedSetOK c s)

/-- catenary sections: well-formed (`0 ≤ start ≤ end`, power `≥ 0`), inside the link, and
    pairwise non-overlapping in list order -/
structure CatsOK (c : NumCfg α) (xs : List (CatPowerLimit α)) (length : Num α) : Prop where
  each : ∀ x ∈ xs, Num.le (.fin c.zero) x.offsetStart = true ∧
    Num.le x.offsetStart x.offsetEnd = true ∧ Num.le x.offsetEnd length = true ∧
    Num.le (.fin c.zero) x.powerLimit = true
  disjoint : xs.Pairwise (fun a b => Num.le a.offsetEnd b.offsetStart = true)

/-- the dummy entry: all references 0, length 0, no geometry, no restrictions -/
structure DummyLink (c : NumCfg α) (l : Link α) : Prop where
  curr : l.idxCurr = 0
  flip : l.idxFlip = 0
  next : l.idxNext = 0
  nextAlt : l.idxNextAlt = 0
  prev : l.idxPrev = 0
  prevAlt : l.idxPrevAlt = 0
  length : Num.eq l.length (.fin c.zero) = true
  elevs : l.elevs = []
  headings : l.headings = []
  speedSets : l.speedSets = []
  speedSet : l.speedSet = none ∨
    ∃ s, l.speedSet = some s ∧ s.speedLimits = [] ∧ s.speedParams = [] ∧ s.isHeadEnd = false
  cats : l.catPowerLimits = []

/-- the rules about one physical link on its own -/
structure LinkOK (c : NumCfg α) (l : Link α) : Prop where
  real : l.idxCurr ≠ 0
  length : Num.lt (.fin c.zero) l.length = true
  elevs : ElevsOK c l.elevs l.length
  headings : HeadingsOK c l.headings l.length
  speed : SpeedFieldsOK c l
  cats : CatsOK c l.catPowerLimits l.length
  /-- the reverse-direction link is none of the link itself / its neighbours -/
  flipDistinct : l.idxFlip ≠ 0 →
    l.idxFlip ≠ l.idxCurr ∧ l.idxFlip ≠ l.idxNext ∧ l.idxFlip ≠ l.idxNextAlt ∧
    l.idxFlip ≠ l.idxPrev ∧ l.idxFlip ≠ l.idxPrevAlt
  /-- alternates only with primaries -/
  nextAlt : l.idxNextAlt ≠ 0 → l.idxNext ≠ 0
  prevAlt : l.idxPrevAlt ≠ 0 → l.idxPrev ≠ 0

/-- **The consistent networks.** -/
structure Consistent (c : NumCfg α) (n : List (Link α)) : Prop where
  /-- a dummy and at least one physical link -/
  size : 2 ≤ n.length
  /-- dummy first entry -/
  dummy : ∃ l0 rest, n = l0 :: rest ∧ DummyLink c l0
  /-- every other entry is a well-formed physical link -/
  links : ∀ i l, 1 ≤ i → n[i]? = some l → LinkOK c l
  /-- indices equal positions -/
  index : ∀ i l, 1 ≤ i → n[i]? = some l → l.idxCurr = i
  /-- every reference is inside the network -/
  refs : ∀ i l, 1 ≤ i → n[i]? = some l →
    l.idxFlip < n.length ∧ l.idxNext < n.length ∧ l.idxNextAlt < n.length ∧
    l.idxPrev < n.length ∧ l.idxPrevAlt < n.length
  /-- reverse-direction pairs point at each other -/
  flip : ∀ i l, 1 ≤ i → n[i]? = some l → l.idxFlip ≠ 0 →
    ∃ f, n[l.idxFlip]? = some f ∧ f.idxFlip = i
  /-- every next reference (primary or alternate) is reciprocated by a previous reference -/
  nextRecip : ∀ i l, 1 ≤ i → n[i]? = some l → ∀ j, (j = l.idxNext ∨ j = l.idxNextAlt) → j ≠ 0 →
    ∃ m, n[j]? = some m ∧ (m.idxPrev = i ∨ m.idxPrevAlt = i)
  /-- every previous reference is reciprocated by a next reference -/
  prevRecip : ∀ i l, 1 ≤ i → n[i]? = some l → ∀ j, (j = l.idxPrev ∨ j = l.idxPrevAlt) → j ≠ 0 →
    ∃ m, n[j]? = some m ∧ (m.idxNext = i ∨ m.idxNextAlt = i)
  /-- no coincident switch points: a link that diverges at its far end (has an alternate next)
      is not followed by a link that merges at its near end (has an alternate previous) -/
  switchNext : ∀ i l, 1 ≤ i → n[i]? = some l → l.idxNextAlt ≠ 0 →
    ∀ j, (j = l.idxNext ∨ j = l.idxNextAlt) → ∀ m, n[j]? = some m → m.idxPrevAlt = 0
  /-- and the mirror image -/
  switchPrev : ∀ i l, 1 ≤ i → n[i]? = some l → l.idxPrevAlt ≠ 0 →
    ∀ j, (j = l.idxPrev ∨ j = l.idxPrevAlt) → ∀ m, n[j]? = some m → m.idxNextAlt = 0

end

end Altrios.Net
