/-
  Number-type polymorphic primitives shared by every model file.
  No imports: the driver (a `lean_exe`) links against these files.

  Every definition here is used at three instantiations:
    * `Float`  — correspondence with the Rust code (bit-for-bit),
    * `Rat`    — exact evaluation (counterexample witnesses, `decide`),
    * an arbitrary linearly ordered field (Mathlib; proof files only).
-/
namespace Altrios

section
variable {α : Type} [Add α] [Sub α] [Mul α] [Div α] [Neg α] [LT α] [LE α]
  [DecidableLT α] [DecidableLE α] [OfNat α 0] [OfNat α 1]

/-- `f64::min` on non-NaN arguments. -/
def mn (a b : α) : α := if b < a then b else a
/-- `f64::max` on non-NaN arguments. -/
def mx (a b : α) : α := if a < b then b else a
/-- `f64::abs` on non-NaN arguments (`-0.0` is printed as `0.0` by both sides). -/
def absv (a : α) : α := if a < 0 then -a else a
/-- `==` on non-NaN floats: equality in a linear order. -/
def eqb (a b : α) : Bool := !(decide (a < b)) && !(decide (b < a))
/-- `!=` on non-NaN floats. -/
def neb (a b : α) : Bool := !(eqb a b)

/-- `utils::almost_eq(val1, val2, epsilon)`:
    `((val2 - val1) / (val1 + val2)).abs() < eps || (val2 - val1).abs() < eps` -/
def almostEq (a b eps : α) : Bool :=
  decide (absv ((b - a) / (a + b)) < eps) || decide (absv (b - a) < eps)
/-- `utils::almost_gt`: `val1 > val2 * (1.0 + eps)` -/
def almostGt (a b eps : α) : Bool := decide (b * (1 + eps) < a)
/-- `utils::almost_lt`: `val1 < val2 * (1.0 - eps)` -/
def almostLt (a b eps : α) : Bool := decide (a < b * (1 - eps))
/-- `utils::almost_ge`: `val1 > val2 * (1.0 - eps) || val1 > val2 - eps` (strict, as coded) -/
def almostGe (a b eps : α) : Bool :=
  decide (b * (1 - eps) < a) || decide (b - eps < a)
/-- `utils::almost_le`: `val1 < val2 * (1.0 + eps) || val1 < val2 + eps` (strict, as coded) -/
def almostLe (a b eps : α) : Bool :=
  decide (a < b * (1 + eps)) || decide (a < b + eps)

def sumL : List α → α
  | [] => 0
  | x :: xs => x + sumL xs

/-- left fold sum starting at 0, the order `Iterator::sum`/`fold(0, +)` uses -/
def sumLeft (l : List α) : α := l.foldl (· + ·) 0

end

/-- Outcome of a modelled call: the Rust `Result`, with panics as a separate outcome. -/
inductive Res (σ : Type) where
  | ok : σ → Res σ
  | err : String → Res σ      -- `Err(_)`: class tag only, messages are never compared
  | panic : String → Res σ    -- `panic!`/failed `assert!`/out-of-bounds index
  deriving Repr

namespace Res
def bind {σ τ} (r : Res σ) (f : σ → Res τ) : Res τ :=
  match r with
  | ok s => f s
  | err e => err e
  | panic e => panic e
instance : Monad Res where
  pure := ok
  bind := bind
def isOk {σ} : Res σ → Bool | ok _ => true | _ => false
end Res

/-- `ensure!(c, ..)` -/
def ensure (c : Bool) (tag : String := "ensure") : Res Unit :=
  if c then .ok () else .err tag

end Altrios
